#!/bin/bash
# Builds the whole Coq development and the extracted model driver from files on disk.
# Usage: build.sh [make targets...]   (no target = everything)
set -e
cd /verif
export PYTHONHASHSEED=0 PYTHONDONTWRITEBYTECODE=1
mkdir -p bin coq/gen work
# VERIF_KEEP_GEN=1: keep coq/gen as it is (used by the check when the translator refused the current source, so that the
# search for a failing input can still run against the model of the last source the translator accepted)
[ -n "$VERIF_KEEP_GEN" ] || /venv/bin/python harness/gen_tables.py >/dev/null
cd coq
( cat _CoqProject.in; find theories gen properties extract -name '*.v' | sort ) > _CoqProject.new
if ! cmp -s _CoqProject.new _CoqProject 2>/dev/null; then
  mv _CoqProject.new _CoqProject
  coq_makefile -f _CoqProject -o Makefile >/dev/null
else
  rm -f _CoqProject.new
fi
[ -f Makefile ] || coq_makefile -f _CoqProject -o Makefile >/dev/null
timeout 2400 make -j16 "$@"
if [ $# -eq 0 ]; then /verif/build_driver.sh; fi
