#!/venv/bin/python
"""./check <id> [--tier quick|thorough] [--replay file]

One run = translator -> Coq build of the property's closure (+ Print Assumptions, grep gate)
-> extracted model rebuild -> correspondence (model vs implementation) -> direct search
(property predicate on the implementation, reference values from the extracted Coq spec)
-> decision, evidence, exit code.  See DESIGN.md section 2.4/2.5."""
import argparse
import collections
import importlib
import json
import os
import sys
import time
import traceback

sys.path.insert(0, os.path.dirname(os.path.abspath(__file__)))
import lib  # noqa: E402

TRUSTED_BASE = [
    "Coq 8.16.1 kernel including the bytecode VM (vm_compute); no native_compute",
    "harness/gen_tables.py translator (tables/constants from /repo into coq/gen/*.v)",
    "extraction with ExtrOcamlBasic only (no own Extract Constant/Inductive) + extract/driver.ml, cross-checked by vm_compute on a sample of this run's cases",
    "Python harness: generators, canonicalisation, comparison, scripted I/O objects",
    "CPython semantics of int/bytes/slicing as transcribed in the hand-written model (tied by the correspondence check)",
]


class Ctx:
    def __init__(self, pid, tier):
        self.pid, self.tier = pid, tier
        self.seed = lib.seed()
        self.thorough = tier == "thorough"
        self.dist = collections.Counter()
        self.samples = []
        self.evaluations = 0
        self.nontrivial = set()
        self.corr_cases = []        # (op, arg)
        self.corr_model = []        # model answers
        self.corr_total = 0
        self.disagreements = []     # dicts
        self.failures = []          # property failures on the implementation (unlisted)
        self.known_hits = collections.Counter()
        self.obligation_failures = []   # strings naming what no longer checks
        self.notes = []
        self.exhaustive = []
        self.extra = {}
        self.classifiers = {}
        self.proofs_ok = False
        self.findings = lib.known_findings(pid)

    def scale(self, quick, thorough):
        return thorough if self.thorough else quick

    # ---- correspondence: model vs implementation on the same inputs
    def corr(self, cases, impl_fn, label, nontrivial=lambda arg, out: not isinstance(out, lib.E), decisive=None, skip_model=None):
        """cases: list of (op, arg). impl_fn(op, arg) -> canonical python value / lib.E.
        decisive(op, arg) -> True when the theorems of this property determine the model's answer on
        this input (it lies in the proved domain): then, with the proofs intact, a disagreement means the
        implementation deviates from the proved-standard behaviour and is reported as a failing input."""
        if not cases:
            return
        model = lib.run_model(cases)
        for (op, arg), m in zip(cases, model):
            if skip_model is not None and skip_model(lib.canon(m)):
                self.dist[f"corr:{label}:unmodelled"] += 1       # the model declares the input outside what it models
                continue
            got = lib.canon(impl_fn(op, arg))
            self.corr_total += 1
            self.evaluations += 1
            self.dist[f"corr:{label}:{'err' if isinstance(got, lib.E) else 'ok'}"] += 1
            if nontrivial(arg, got):
                self.nontrivial.add((op, lib.v_text(arg)))
            if lib.canon(m) != got:
                if len(self.disagreements) < 50:
                    self.disagreements.append({"label": label, "op": op, "arg": lib.v_text(arg),
                                               "impl": lib.v_text(got), "model": lib.v_text(m)})
                self.dist[f"corr:{label}:DISAGREE"] += 1
                if decisive is not None and self.proofs_ok and decisive(op, arg):
                    self.fail("model_vs_impl:" + label, {"op": op, "arg": lib.v_text(arg)},
                              lib.v_text(m), lib.v_text(got))
        if len(self.samples) < 12:
            op, arg = cases[len(cases) // 2]
            self.samples.append({"kind": "correspondence", "label": label, "op": op, "arg": lib.v_text(arg)[:200],
                                 "model": lib.v_text(model[len(cases) // 2])[:200]})
        # keep a bounded sample for the kernel cross-check
        step = max(1, len(cases) // 150)
        for i in range(0, len(cases), step):
            if len(lib.v_text(cases[i][1])) < 3000:
                self.corr_cases.append(cases[i])
                self.corr_model.append(model[i])

    # ---- direct search: the property predicate on the implementation
    def tried(self, label, n=1, key=None):
        self.evaluations += n
        self.dist[f"search:{label}"] += n
        if key is not None:
            self.nontrivial.add(("search", label, key))

    def fail(self, label, case, expected, observed):
        """the implementation violates the property on `case` (a JSON-able dict)"""
        for f in self.findings:
            fn = self.classifiers.get(f["classifier"])
            if fn is not None and fn(label, case):
                self.known_hits[f["classifier"]] += 1
                return
        if len(self.failures) < 20:
            self.failures.append({"label": label, "case": case, "expected": expected, "observed": observed})
        self.dist[f"FAIL:{label}"] += 1

    def obligation_failed(self, what):
        self.obligation_failures.append(what)

    def sample(self, s):
        if len(self.samples) < 16:
            self.samples.append(s)


def generic_replay(ctx, mod, rp):
    """re-execute exactly the recorded case against the current implementation and model"""
    case = rp.get("case", {})
    if rp.get("kind") == "obligation":
        with lib.Lock():
            ok_tr, _ = lib.translator()
            ok_b, _ = lib.coq_build([f"properties/{ctx.pid}.vo"]) if ok_tr else (False, "")
            ok_m, _ = lib.model_build()
        ctx.proofs_ok = ok_tr and ok_b
        if ok_m:
            mod.run(ctx)
        return (not ctx.proofs_ok) or bool(ctx.disagreements) or bool(ctx.failures)
    if str(rp.get("label", "")).startswith("model_vs_impl:") and "op" in case:
        with lib.Lock():
            lib.model_build()
        arg = lib.v_parse(case["arg"])
        m = lib.run_model([(case["op"], arg)])[0]
        got = lib.canon(mod.impl(case["op"], arg))
        print(f"model: {lib.v_text(m)}  implementation: {lib.v_text(got)}")
        return lib.canon(m) != got
    with lib.Lock():
        lib.model_build()
    return mod.replay(ctx, rp)


def main():
    ap = argparse.ArgumentParser()
    ap.add_argument("pid")
    ap.add_argument("--tier", default=os.environ.get("VERIF_TIER", "quick"))
    ap.add_argument("--replay")
    args = ap.parse_args()
    pid = args.pid
    tier = args.tier if args.tier in ("quick", "thorough") else "quick"
    t0 = time.time()
    mod = importlib.import_module(f"props.{pid}")
    ctx = Ctx(pid, tier)
    ctx.classifiers = getattr(mod, "CLASSIFIERS", {})

    if args.replay:
        rp = json.load(open(args.replay))
        still = generic_replay(ctx, mod, rp)
        if still:
            print(f"VIOLATION property={pid} replay={args.replay}")
            sys.exit(1)
        print(f"replay passes: property={pid} {args.replay}")
        sys.exit(0)

    build_log = ""
    pa_text, thms = {}, []
    proofs_ok = False
    n_obl = 0
    checker_cmd = f"./build.sh properties/{pid}.vo  (coq_makefile + make -j16, full .vo) ; coqc Print Assumptions"
    with lib.Lock():
        ok_tr, tr_report = lib.translator()
        if not ok_tr:
            ctx.obligation_failed(f"translator: {tr_report}")
        gate = lib.grep_gate()
        if gate:
            ctx.obligation_failed("grep gate: " + "; ".join(gate[:5]))
        ok_b, build_log = lib.coq_build([f"properties/{pid}.vo"]) if ok_tr else (False, "translator failed")
        if ok_tr and not ok_b:
            errs = [l for l in build_log.splitlines() if "Error" in l or l.startswith("File ")]
            ctx.obligation_failed(f"coq build of properties/{pid}.vo failed: " + " | ".join(errs[:6]))
        files = lib.closure_files(f"properties/{pid}.v")
        n_obl = lib.count_qed(files)
        if ok_b:
            ok_pa, pa_text, thms = lib.print_assumptions(pid)
            if not ok_pa:
                ctx.obligation_failed("Print Assumptions did not run for every theorem")
            for t, txt in pa_text.items():
                if "Closed under the global context" not in txt:
                    allowed = getattr(mod, "ALLOWED_AXIOMS", [])
                    names = [l.split(":")[0].strip() for l in txt.splitlines()[1:] if ":" in l and not l.startswith(" ")]
                    extra = [n for n in names if n not in allowed]
                    if extra:
                        ctx.obligation_failed(f"theorem {t} depends on undeclared axioms: {extra}")
            proofs_ok = ok_pa and not gate and not ctx.obligation_failures
            ctx.proofs_ok = proofs_ok
        ok_m, mlog = lib.model_build(keep_gen=not ok_tr)
        if not ok_m:
            ctx.obligation_failed("model/extraction build failed: " + mlog[-400:])
        if ctx.thorough and ok_b:
            rc, out = lib.sh(f"timeout 3000 coqchk -silent -o -Q theories Dlms -Q gen Dlms.Gen -Q properties Dlms.Props Dlms.Props.{pid} 2>&1 | tail -40",
                             cwd=lib.COQ, timeout=3100)
            ctx.extra["coqchk"] = out[-3000:]
            if rc != 0:
                ctx.obligation_failed("coqchk failed: " + out[-300:])

    try:
        if ok_m:
            mod.run(ctx)
        else:
            mod.run_without_model(ctx) if hasattr(mod, "run_without_model") else None
    except Exception as e:
        ctx.obligation_failed(f"harness error: {type(e).__name__}: {e}\n{traceback.format_exc()[-1500:]}")

    # kernel cross-check of the extraction glue
    kc = (0, 0, "")
    if ok_m and ctx.corr_cases and not ctx.obligation_failures:
        with lib.Lock():
            kc = lib.kernel_crosscheck(ctx.corr_cases, ctx.corr_model, max_files=ctx.scale(2, 8))
        if kc[1]:
            ctx.obligation_failed(f"kernel cross-check: {kc[1]} of {kc[0]} cases differ between vm_compute and the extracted model {kc[2]}")
    if ctx.disagreements:
        d = ctx.disagreements[0]
        ctx.obligation_failed(f"correspondence: model and implementation disagree on {len(ctx.disagreements)}+ cases, first: {d}")

    # ---- decision
    rc = 0
    lines = []
    for f in ctx.findings:
        lines.append(f"KNOWN-FINDING: property={pid} {f['classifier']}: {f['what']} (hits this run: {ctx.known_hits.get(f['classifier'], 0)})")
    violations = 0
    if ctx.failures:
        f0 = ctx.failures[0]
        path = lib.write_replay(pid, {"property": pid, "kind": "input", "seed": ctx.seed, "label": f0["label"],
                                      "case": f0["case"], "expected": f0["expected"], "observed": f0["observed"],
                                      "other_failures": ctx.failures[1:6],
                                      "broken_obligations": ctx.obligation_failures[:5]})
        lines.append(f"VIOLATION property={pid} replay={path}")
        violations = len(ctx.failures)
        rc = 1
    elif ctx.obligation_failures:
        path = lib.write_replay(pid, {"property": pid, "kind": "obligation", "seed": ctx.seed,
                                      "case": {"obligations": ctx.obligation_failures[:10]},
                                      "disagreements": ctx.disagreements[:10],
                                      "expected": "every theorem, the translator and the correspondence check",
                                      "observed": "see obligations"})
        lines.append(f"VIOLATION property={pid} replay={path} no-failing-input-found")
        violations = 1
        rc = 1

    # ---- evidence
    discharged = n_obl if (proofs_ok and not any("coq build" in o or "translator" in o or "axioms" in o for o in ctx.obligation_failures)) else 0
    ev = {
        "property_id": pid, "tier": tier, "seed": ctx.seed, "level": "proof",
        "coverage": {
            "obligations": max(n_obl, 1), "discharged": discharged,
            "checker_cmd": checker_cmd,
            "trusted_base": TRUSTED_BASE + getattr(mod, "TRUSTED_EXTRA", []) +
                            [f"Print Assumptions {t}: {' '.join(txt.split())[:300]}" for t, txt in pa_text.items()],
            "theorems": thms,
            "evaluations": ctx.evaluations, "distinct_nontrivial": len(ctx.nontrivial),
            "rule": getattr(mod, "RULE", ""),
            "samples": ctx.samples[:16] or [{"note": "no cases run"}],
            "exhaustive": bool(ctx.exhaustive),
            "exhaustive_domains": ctx.exhaustive,
            "correspondence": {"evaluations": ctx.corr_total, "disagreements": len(ctx.disagreements),
                               "kernel_crosscheck": {"cases": kc[0], "differ": kc[1]}},
            "distribution": dict(sorted(ctx.dist.items())),
            "known_finding_hits": dict(ctx.known_hits),
            "broken_obligations": ctx.obligation_failures[:10],
            "translator": tr_report,
            **ctx.extra,
        },
        "assumptions": getattr(mod, "ASSUMPTIONS", []),
        "wall_s": round(time.time() - t0, 2),
        "violations": violations,
    }
    os.makedirs(os.path.join(lib.VERIF, "evidence"), exist_ok=True)
    with open(os.path.join(lib.VERIF, "evidence", f"{pid}.json"), "w") as f:
        json.dump(ev, f, indent=1, default=repr)
    for l in lines:
        print(l)
    print(f"{pid}: tier={tier} seed={ctx.seed} obligations={n_obl} discharged={discharged} "
          f"corr={ctx.corr_total} disagreements={len(ctx.disagreements)} kernel={kc[0]}/{kc[1]} "
          f"evaluations={ctx.evaluations} failures={len(ctx.failures)} wall={ev['wall_s']}s")
    sys.exit(rc)


if __name__ == "__main__":
    main()
