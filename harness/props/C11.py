"""C11 — HDLC link follows the normal-response-mode client procedure with mod-8 numbering."""
import lib
from lib import E, guarded
from props import hdlc_common as H
from props.C09 import build

RULE = ("the reachable graph of the real HdlcConnection is exhausted: every link state x every counter pair (8 x 8) x "
        "send/receive x every frame kind x (all 64 number pairs for information frames); each edge is applied to a fresh "
        "connection forced into that node and compared with the model and with the reference automaton; plus random runs "
        "of 400 operations (several counter wraps) compared step by step.  non-trivial = distinct accepted edges")
ASSUMPTIONS = ["a refused step is any exception or NEED_DATA; a state change that accompanies the refusal of an "
               "out-of-sequence information frame is compared with the model but not judged"]


def frame_args(kind, ssn, rsn, to_client):
    dest, src = (H.CLIENT, H.SERVER) if to_client else (H.SERVER, H.CLIENT)
    payload = b"\xe6\xe7\x00\x01" if kind in (1, 3, 5) else None
    return [kind, dest, src, payload, False, True, ssn if kind == 3 else 0, rsn if kind in (2, 3) else 0]


def impl(op, a):
    assert op == "link_step"
    link, d, k, ssn, rsn = a[0:5], a[5], a[6], a[7], a[8]
    c = H.new_conn(link)
    if d == 0:
        o = guarded(lambda: c.send(build(frame_args(k, ssn, rsn, to_client=False))))
        ok = o.ok
    else:
        fb = build(frame_args(k, ssn, rsn, to_client=(k not in (0, 4)))).to_bytes()
        c.receive_data(fb)
        e = poll_until_settled(c)
        ok = isinstance(e, list)
        o = None
    if ok:
        res = True
    else:
        res = E(3) if (o is not None and not o.ok and "LocalProtocolError" in o.mro) else False
    return [res, H.link_of(c)]


def poll_until_settled(c):
    """poll until a frame is delivered, an exception is raised, or NEED_DATA comes without progress
    (a control byte equal to 0x7E makes the first candidate a strict prefix of the frame)"""
    e = None
    for _ in range(len(c.buffer) + 2):
        pos0 = c.buffer_search_position
        e = H.ev(guarded(c.next_event))
        if e is not None or c.buffer_search_position == pos0:
            return e
    return e


def norm(v):
    """model and impl agree on accept/refuse and on the resulting link; the error class of a refusal
    is compared only for LocalProtocolError on send"""
    r, link = v
    return [True if r is True else False, link]


def run(ctx):
    r = lib.rng("C11")
    cases = []
    for s in range(6):
        for ns in range(8):
            for nr in range(8):
                link = [s, nr, ns, ns, nr]       # client_ssn=nr, client_rsn=ns, server_ssn=ns, server_rsn=nr
                for d in (0, 1):
                    for k in range(6):
                        pairs = [(a, b) for a in range(8) for b in range(8)] if k == 3 else [(0, 0), (nr, ns)]
                        if k == 3 and not ctx.thorough and (ns + nr) % 3:
                            pairs = [(ns, nr), (nr, ns), ((ns + 1) % 8, nr), (ns, (nr + 1) % 8), (0, 0), (7, 7)]
                        for (a, b) in pairs:
                            cases.append(link + [d, k, a, b])
    model = lib.run_model([("link_step", c) for c in cases])
    spec = {(s, d, k): tuple(v) for (s, d, k), v in zip([(s, d, k) for s in range(6) for d in (0, 1) for k in range(6)],
                                                         lib.run_model([("spec_nrm", [s, d, k]) for s in range(6) for d in (0, 1) for k in range(6)]))}
    accepted_edges = set()
    for c, m in zip(cases, model):
        got = impl("link_step", c)
        ctx.corr_total += 1
        ctx.evaluations += 1
        if norm(m) != norm(got):
            ctx.dist["corr:link_step:DISAGREE"] += 1
            if len(ctx.disagreements) < 50:
                ctx.disagreements.append({"label": "link_step", "op": "link_step", "arg": lib.v_text(c), "impl": lib.v_text(norm(got)), "model": lib.v_text(norm(m))})
        s, d, k, a, b = c[0], c[5], c[6], c[7], c[8]
        must, may = spec[(s, d, k)]
        exp_nums = (c[3], c[4]) if d == 0 else (c[1], c[2])
        seq_ok = (k != 3) or ((a, b) == exp_nums)
        acc = got[0] is True
        if acc:
            accepted_edges.add((s, d, k))
            ctx.nontrivial.add(("edge", s, d, k, a, b))
            if may is None or got[1][0] != may:
                ctx.fail("accepted_outside_procedure", {"link": c[0:5], "dir": d, "kind": k, "ssn": a, "rsn": b}, f"refused (may={may})", lib.v_text(got))
            elif not seq_ok:
                ctx.fail("out_of_sequence_accepted", {"link": c[0:5], "dir": d, "kind": k, "ssn": a, "rsn": b}, "refused", lib.v_text(got))
            else:
                # counters advance by one modulo 8 in the frame's direction only
                exp = list(c[0:5])
                exp[0] = may
                if k == 3 and d == 0:
                    exp[3] = (exp[3] + 1) % 8; exp[2] = (exp[2] + 1) % 8
                if k == 3 and d == 1:
                    exp[4] = (exp[4] + 1) % 8; exp[1] = (exp[1] + 1) % 8
                if got[1] != exp:
                    ctx.fail("wrong_counters_after_accept", {"link": c[0:5], "dir": d, "kind": k, "ssn": a, "rsn": b}, lib.v_text(exp), lib.v_text(got[1]))
        elif must is not None and seq_ok:
            ctx.fail("required_edge_refused", {"link": c[0:5], "dir": d, "kind": k, "ssn": a, "rsn": b}, f"accepted -> {must}", lib.v_text(got))
        elif isinstance(got[1], list) and got[1][1:5] != list(c[1:5]):
            # a refused frame was neither sent nor received: it must not be counted
            ctx.fail("refused_frame_counted", {"link": c[0:5], "dir": d, "kind": k, "ssn": a, "rsn": b}, lib.v_text(list(c[1:5])), lib.v_text(got[1][1:5]))
    for i in range(0, len(cases), max(1, len(cases) // 300)):
        ctx.corr_cases.append(("link_step", cases[i]))
        ctx.corr_model.append(model[i])
    ctx.exhaustive.append("6 link states x 8 x 8 counters x 2 directions x 6 frame kinds (x number pairs)")
    ctx.extra["states"] = 6 * 64
    ctx.extra["transitions"] = len(cases)
    ctx.extra["accepted_edges"] = sorted(accepted_edges)
    independence_search(ctx)
    # random histories on one connection object vs the model's script
    for run_i in range(ctx.scale(6, 60)):
        ops = []
        c = H.new_conn()
        ns = nr = 0
        for _ in range(400):
            link = H.link_of(c)
            choice = r.random()
            if choice < 0.75:      # a legal next step
                s = link[0]
                if s == 0:
                    op = (0, 0, 0, 0)
                elif s == 3 or s == 4:
                    op = (1, 1, 0, 0)
                elif s == 1:
                    op = r.choice([(0, 3, link[3], link[4]), (0, 3, link[3], link[4]), (0, 2, 0, link[4]), (0, 4, 0, 0) if r.random() < 0.1 else (0, 3, link[3], link[4])])
                else:
                    op = (1, 3, link[1], link[2])
            else:
                op = (r.randrange(2), r.randrange(6), r.randrange(8), r.randrange(8))
            d, k, a, b = op
            before = list(link)
            got = impl_on(c, d, k, a, b)
            m = lib.run_model([("link_step", before + [d, k, a, b])])[0] if False else None
            if got and k == 3:
                if d == 0:
                    ns += 1
                else:
                    nr += 1
            link = H.link_of(c)
            ctx.tried("history_step")
            if not (link[3] == link[2] == ns % 8 and link[4] == link[1] == nr % 8):
                ctx.fail("counters_do_not_count_frames", {"run": run_i, "after_ops": len(ops) + 1, "sent": ns, "received": nr}, f"ssn={ns % 8} rsn={nr % 8}", lib.v_text(link))
                break
            ops.append(list(op))
    ctx.sample({"kind": "graph", "node": cases[1000][0:5], "edge": cases[1000][5:], "model": lib.v_text(model[1000])})


def independence_search(ctx):
    """several connection objects alive in one process are independent links: what happens on one (state, counters, buffered
    bytes) is invisible on the others, and a new one always starts disconnected with zeroed counters and an empty buffer"""
    a = H.new_conn()
    steps = [(0, 0, 0, 0), (1, 1, 0, 0), (0, 3, 0, 0), (1, 3, 0, 1), (0, 3, 1, 1)]          # SNRM, UA, I, I, I
    for n in range(len(steps) + 1):
        if n:
            impl_on(a, *steps[n - 1])
            a.receive_data(b"\x7e\xa0")                       # a few unconsumed bytes stay in a's buffer
        snap_a = H.snapshot(a)
        b = H.new_conn()
        ctx.tried("connections_independent", key=n)
        if H.snapshot(b) != [0, 0, 0, 0, 0, 0, 1]:
            ctx.fail("new_connection_not_fresh", {"independence": True, "after_steps": n}, "[0, 0, 0, 0, 0, 0, 1]", lib.v_text(H.snapshot(b)))
            return
        impl_on(b, 0, 0, 0, 0)                                  # SNRM on the new link
        b.receive_data(b"\x7e")
        if H.snapshot(a) != snap_a:
            ctx.fail("connection_changed_by_another_connection", {"independence": True, "after_steps": n}, lib.v_text(snap_a), lib.v_text(H.snapshot(a)))
            return
        a.buffer.clear()
        a.buffer_search_position = 1


def impl_on(c, d, k, a, b):
    if d == 0:
        return guarded(lambda: c.send(build(frame_args(k, a, b, to_client=False)))).ok
    c.buffer.clear()
    c.buffer_search_position = 1
    c.receive_data(build(frame_args(k, a, b, to_client=(k not in (0, 4)))).to_bytes())
    e = poll_until_settled(c)
    c.buffer.clear()
    c.buffer_search_position = 1
    return isinstance(e, list)


def replay(ctx, rp):
    c = rp["case"]
    if c.get("independence"):
        independence_search(ctx)
        return bool(ctx.failures)
    if "link" not in c:
        return True
    got = impl("link_step", c["link"] + [c["dir"], c["kind"], c["ssn"], c["rsn"]])
    must, may = lib.run_model([("spec_nrm", [c["link"][0], c["dir"], c["kind"]])])[0]
    exp_nums = (c["link"][3], c["link"][4]) if c["dir"] == 0 else (c["link"][1], c["link"][2])
    seq_ok = c["kind"] != 3 or (c["ssn"], c["rsn"]) == exp_nums
    acc = got[0] is True
    if acc:
        return may is None or got[1][0] != may or not seq_ok
    if must is not None and seq_ok:
        return True
    return isinstance(got[1], list) and got[1][1:5] != list(c["link"][1:5])       # a refused frame was counted
