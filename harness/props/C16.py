"""C16 — date-time codec round-trips and keeps the DLMS sign convention for UTC deviation."""
import datetime
import lib
from lib import E, guarded

RULE = ("correspondence + search: boundary-complete instants (first/last day of every month of 13 probe years incl. "
        "leap/non-leap centuries, Feb 29, times 00:00:00.000000 / 23:59:59.999999 / hundredths edges), EVERY offset "
        "-840..840 plus None and +-1439, all 32 status flag sets, all 256 status bytes on decode, random instants; "
        "12-byte inputs with each field driven out of range; odd lengths.  non-trivial = distinct inputs that "
        "produced a value")
ASSUMPTIONS = ["UTC offsets are whole minutes (the property's quantifier); CPython's date/time constructors are modelled as "
               "range + Gregorian calendar validity; dateutil.tz.tzoffset as an integer number of minutes",
               "int(microsecond / 10000) is modelled as integer division (the float quotient of an integer < 10^6 by "
               "10^4 cannot round up to the next integer)"]
YEARS = [1, 4, 100, 400, 1600, 1900, 1999, 2000, 2020, 2023, 2024, 2100, 2400, 9999]


def _val(o):
    return lib.canon(o.value) if o.ok else E(lib.err_code(o))


def canon_dt(dt):
    off = None
    if dt.tzinfo is not None:
        secs = dt.tzinfo.utcoffset(None).total_seconds()
        off = int(secs // 60) if secs % 60 == 0 else ["seconds", secs]
    return [dt.year, dt.month, dt.day, dt.hour, dt.minute, dt.second, dt.microsecond, off]


def mk_dt(x):
    from dateutil.tz import tzoffset
    tz = None if x[7] is None else tzoffset(None, x[7] * 60)
    return datetime.datetime(x[0], x[1], x[2], x[3], x[4], x[5], x[6], tzinfo=tz)


def st_list(s):
    return [s.invalid, s.doubtful, s.different_base, s.invalid_status, s.daylight_saving_active]


def impl(op, a):
    from dlms_cosem import time as t

    if op == "datetime_from_bytes":
        return lib.bytes_and_bytearray(lambda x: (lambda dt, st: [canon_dt(dt), st_list(st)])(*t.datetime_from_bytes(x)), a, _val)
    if op == "date_from_bytes":
        return lib.bytes_and_bytearray(lambda x: (lambda d: [d.year, d.month, d.day])(t.date_from_bytes(x)), a, _val)
    if op == "time_from_bytes":
        return lib.bytes_and_bytearray(lambda x: (lambda y: [y.hour, y.minute, y.second, y.microsecond])(t.time_from_bytes(x)), a, _val)

    def f():
        if op == "datetime_to_bytes":
            st = None if a[1] is None else t.ClockStatus(*a[1])
            return t.datetime_to_bytes(mk_dt(a[0]), st)
        if op == "datetime_from_bytes":
            dt, st = t.datetime_from_bytes(a)
            return [canon_dt(dt), st_list(st)]
        if op == "date_from_bytes":
            d = t.date_from_bytes(a)
            return [d.year, d.month, d.day]
        if op == "time_from_bytes":
            x = t.time_from_bytes(a)
            return [x.hour, x.minute, x.second, x.microsecond]
        if op == "date_to_bytes":
            return t.date_to_bytes(datetime.date(*a))
        if op == "time_to_bytes":
            return t.time_to_bytes(datetime.time(*a))
        raise KeyError(op)
    return _val(guarded(f))


def dim(y, m):
    return [31, 29 if (y % 4 == 0 and (y % 100 != 0 or y % 400 == 0)) else 28, 31, 30, 31, 30, 31, 31, 30, 31, 30, 31][m - 1]


def instants(ctx):
    r = lib.rng("C16")
    out = []
    times = [(0, 0, 0, 0), (23, 59, 59, 999999), (12, 30, 15, 990000), (1, 2, 3, 10000), (1, 2, 3, 9999), (0, 0, 0, 999)]
    for y in YEARS:
        for m in range(1, 13):
            for d in {1, dim(y, m), 28}:
                out.append((y, m, d) + times[(y + m + d) % len(times)])
    for _ in range(ctx.scale(4000, 100000)):
        y = r.choice([r.randrange(1, 10000), r.randrange(1990, 2040)])
        m = r.randrange(1, 13)
        out.append((y, m, r.randrange(1, dim(y, m) + 1), r.randrange(24), r.randrange(60), r.randrange(60),
                    r.choice([0, r.randrange(1000000), r.randrange(100) * 10000])))
    return out


def run(ctx):
    returned_objects_search(ctx)
    r = lib.rng("C16b")
    ins = instants(ctx)
    offsets = [None] + list(range(-840, 841)) + [-1439, 1439, -1000, 1000]
    allst = [[bool((n >> i) & 1) for i in range(5)] for n in range(32)]
    enc = []
    for i, t in enumerate(ins):
        enc.append([list(t) + [offsets[i % len(offsets)]], allst[i % 32] if i % 5 else None])
    for off in offsets:                      # every offset at least once with a fixed instant as well
        enc.append([[2020, 1, 1, 0, 3, 0, 0, off], allst[(off or 0) % 32]])
    ctx.exhaustive.append("every UTC offset -840..840 minutes (+ None), all 32 status flag sets, all 256 status bytes")
    ctx.corr([("datetime_to_bytes", e) for e in enc], impl, "datetime_to_bytes", decisive=lambda op, a: True)
    # the standard bytes, then decode them
    spec = lib.run_model([("spec_datetime", [e[0], e[1] or [False] * 5]) for e in enc])
    dec = list(spec)
    base = spec[7]
    dec += [base[:11] + bytes([v]) for v in range(256)]
    # out-of-range / special fields
    for pos, vals in ((0, [0, 0x27, 0x28, 0xFF]), (1, [0, 0x10, 0xFF]), (2, [0, 1, 12, 13, 0x7F, 0xFE, 0xFF]), (3, [0, 1, 28, 29, 30, 31, 32, 0xFE, 0xFF]),
                      (4, list(range(0, 12)) + [0x7F, 0xFE, 0xFF]), (5, [0, 23, 24, 0xFE, 0xFF]), (6, [0, 59, 60, 0xFF]), (7, [0, 59, 60, 61, 0xFF]),
                      (8, [0, 99, 100, 0xFE, 0xFF]), (9, [0, 0x7F, 0x80, 0xFF]), (10, [0, 1, 0xFF])):
        for b in (spec[3], spec[40], spec[len(ins) // 2], bytes.fromhex("07e4021dff173b3b63000000")):
            for v in vals:
                dec.append(b[:pos] + bytes([v]) + b[pos + 1:])
    dec += [bytes(r.getrandbits(8) for _ in range(12)) for _ in range(ctx.scale(3000, 100000))]
    dec += [b"", base[:11], base + b"\x00", base[:5]]
    ctx.corr([("datetime_from_bytes", b) for b in dec], impl, "datetime_from_bytes", decisive=lambda op, a: True)
    ctx.corr([("date_from_bytes", b[:5]) for b in dec[::5]] + [("date_from_bytes", b"\x07\xe4\x01"), ("date_from_bytes", b"\xff\xff\x01\x01\xff")],
             impl, "date_from_bytes", decisive=lambda op, a: True)
    ctx.corr([("time_from_bytes", b[5:9]) for b in dec[::5]] + [("time_from_bytes", b"\xff\xff\xff\xff"), ("time_from_bytes", b"\x01")],
             impl, "time_from_bytes", decisive=lambda op, a: True)
    ctx.corr([("date_to_bytes", list(t[:3])) for t in ins[::4]], impl, "date_to_bytes", decisive=lambda op, a: True)
    ctx.corr([("time_to_bytes", list(t[3:])) for t in ins[::4]], impl, "time_to_bytes", decisive=lambda op, a: True)
    # ---- search: the property on the implementation, with the extracted standard layout as reference
    for e, s in zip(enc, spec):
        check_one(ctx, e, s)
    ctx.sample({"kind": "search", "datetime": enc[5], "std_bytes": spec[5].hex()})


def check_one(ctx, e, s):
    x, st = e
    ctx.tried("layout+roundtrip", key=tuple(x))
    got = impl("datetime_to_bytes", e)
    if got != s:
        ctx.fail("layout", {"dt": x, "status": st}, s.hex(), lib.v_text(got))
        return
    back = impl("datetime_from_bytes", s)
    want = [x[:6] + [x[6] // 10000 * 10000, x[7]], st or [False] * 5]
    if back != want:
        ctx.fail("roundtrip", {"dt": x, "status": st}, lib.v_text(want), lib.v_text(back))



def returned_objects_search(ctx):
    """decode, change the returned object (clear / set its flags), decode the same bytes again: the second result is what the
    bytes say (a decoder must not hand out an object it will hand out again)"""
    import attr
    from dlms_cosem import time as t
    for b in list(range(0, 256, 5)) + [0x81, 0xFF, 0x0F, 0x80, 0x01]:
        first = guarded(lambda: t.ClockStatus.from_bytes(bytes([b])))
        if not first.ok:
            continue
        want = st_list(first.value)
        try:
            for f in attr.fields(type(first.value)):
                setattr(first.value, f.name, not getattr(first.value, f.name))
        except Exception:
            continue
        again = guarded(lambda: t.ClockStatus.from_bytes(bytes([b])))
        ctx.tried("decode_after_changing_result", key=("status", b))
        if not again.ok or st_list(again.value) != want:
            ctx.fail("decoded_object_shared_between_calls", {"shared_result": True, "status_byte": b}, lib.v_text(want), lib.v_text(st_list(again.value)) if again.ok else repr(again))
            return
    for status in (0x00, 0x81, 0xFF):
        raw = bytes([0x07, 0xE4, 1, 2, 0xFF, 3, 4, 5, 0, 0x00, 0x3C, status])
        first = guarded(lambda: t.datetime_from_bytes(raw))
        if not first.ok or first.value[1] is None:
            continue
        want = st_list(first.value[1])
        try:
            for f in attr.fields(type(first.value[1])):
                setattr(first.value[1], f.name, not getattr(first.value[1], f.name))
        except Exception:
            continue
        again = guarded(lambda: t.datetime_from_bytes(raw))
        ctx.tried("decode_after_changing_result", key=("datetime", status))
        if not again.ok or st_list(again.value[1]) != want:
            ctx.fail("decoded_object_shared_between_calls", {"shared_result": True, "status_byte": status, "via": "datetime_from_bytes"}, lib.v_text(want),
                     lib.v_text(st_list(again.value[1])) if again.ok else repr(again))
            return


def replay(ctx, rp):
    if rp["case"].get("shared_result"):
        returned_objects_search(ctx)
        return bool(ctx.failures)
    c = rp["case"]
    e = [c["dt"], c["status"]]
    s = lib.run_model([("spec_datetime", [e[0], e[1] or [False] * 5])])[0]
    check_one(ctx, e, s)
    return bool(ctx.failures)
