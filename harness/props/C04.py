"""C04 — with keys set, every APDU sent is ciphered; plaintext answers are refused."""
import lib
from lib import E
from props import conn_common as cc, C01, C02

RULE = ("keyed connections for suites 0, 1 (AES-128) and 2 (AES-256), several titles and starting counters (0, 1, 2^32-2): every "
        "APDU kind the client can send (AARQ, RLRQ with and without user information, GET normal/next, SET, ACTION) in every "
        "protocol state reached by complete sessions, payloads whose ciphered content crosses the 127/128 and 255/256 length "
        "boundaries (plaintext 100..125 and 230..250 bytes) and up to 2000 bytes; connections with only one key; every plain "
        "response kind, data-notification, exception and service error delivered at every position of keyed sessions. Scripts "
        "run on the implementation and the model (compared after every step); each real output is parsed and decrypted "
        "with OpenSSL under the configured keys and compared with the plain encoding. non-trivial = outputs decrypted / "
        "plain inputs refused")
ASSUMPTIONS = ["'the plain encoding never appears in the output' is checked as a substring test for plain encodings of 8 bytes or "
               "more (a theorem cannot state it: a ciphertext may contain any short string); the theorem instead shows every "
               "output is built from the GCM protection of the plain encoding"]
impl = cc.impl


def send_cases(ctx):
    """(cfg, cst, [send]) for every sendable kind in every state of keyed connections"""
    r = lib.rng("C04")
    rb = lambda n: bytes(r.getrandbits(8) for _ in range(n))
    out = []
    # SET request = 13 bytes + data; ciphered content = 1 (security control) + 4 (counter) + plain + 12 (tag): the content
    # length crosses the one-/two-/three-byte length-prefix boundaries (127/128, 255/256) at data sizes 97/98 and 225/226
    edge = [n - 30 for n in (126, 127, 128, 129, 130, 254, 255, 256, 257, 258)]
    sizes = sorted(set(list(range(90, 126)) + list(range(220, 251)) + [0, 1, 2000] + edge)) if ctx.thorough else [0, 1, 105, 111, 120, 238, 2000] + edge
    for suite in (0, 1, 2):
        ek, ak = cc.keys(suite)
        for cic in (0, 1, 4294967294, 77):
            for title in (cc.CLIENT_TITLE, b"\x00" * 8, b"\xff" * 8):
                k = cc.cfg(title=title, ek=ek, ak=ak, suite=suite, pre=False)
                msgs = [cc.aarq_v(cc.CONF_C, 65535, title, 5, cc.CHALLENGE_C, True), cc.aarq_v(cc.CONF, 1200, None, None, None, False),    # also an AARQ that does not announce ciphering
                        cc.aarq_v(cc.CONF_C, 65535, title, 1, b"12345678", False), cc.rlrq_v(cc.CONF_C, 1200), [3, [0, None]], [3, [None, None]],
                        cc.get_v(), cc.next_v(r.getrandbits(32)), cc.set_v(rb(r.choice(sizes))), cc.action_v(rb(r.choice(sizes)) or None), cc.action_v(None)]
                for st in range(12):
                    for m in msgs if (ctx.thorough or (suite, cic) in ((0, 0), (2, 77)) or st in (0, 2, 9)) else msgs[6:10:3]:
                        conf = r.choice([cc.CONF_C, cc.CONF, [r.random() < .5 for _ in range(17)]])     # protection must not depend on the negotiated conformance
                        out.append([k, cc.cst(state=st, cic=cic, mic=5, mtitle=cc.METER_TITLE, auth=5, mchallenge=cc.CHALLENGE_M, conf=conf), [[0, m]]])
    for n in sizes:
        ek, ak = cc.keys(2)
        out.append([cc.cfg(ek=ek, ak=ak, suite=2, pre=True), cc.cst(state=2, cic=n, conf=r.choice([cc.CONF_C, cc.CONF])), [[0, cc.set_v(rb(n))]]])
    # one key only, empty keys
    for ek, ak in ((cc.EK, None), (None, cc.AK), (b"", cc.AK), (cc.EK, b""), (b"", b"")):
        for m in (cc.get_v(), cc.aarq_v(cc.CONF_C, 65535, cc.CLIENT_TITLE, None, None, True), [3, [0, None]], cc.rlrq_v(cc.CONF_C, 1200)):
            out.append([cc.cfg(ek=ek, ak=ak), cc.cst(state=2 if m[0] != 1 else 0), [[0, m]]])
    return out


def decrypt(k, counter, content):
    from dlms_cosem import security
    from dlms_cosem.security import SecurityControlField
    sc = SecurityControlField(k[3], authenticated=True, encrypted=True)
    return security.decrypt(sc, k[0], counter, k[1], content, k[2])


def run(ctx):
    cases = send_cases(ctx)
    ctx.corr([("dlms_script", s) for s in cases], impl, "send_every_kind_every_state", decisive=lambda op, a: True)
    sessions = [cc.hls_session(suite=s, cic=c0, mic=m0, meter_ic=m0 + 1) for s, c0, m0 in ((0, 0, 0), (1, 9, 4), (2, 4294967200, 100))] + [cc.pre_session(suite=2)]
    ctx.corr([("dlms_script", [k, c, ops]) for k, c, ops, _ in sessions], impl, "sessions", decisive=lambda op, a: True)
    # ---- a connection object that was first used without keys and is then given its keys by attribute assignment protects
    #      everything from then on (and one whose keys are removed stops): the part after the assignment must agree with the
    #      model started from the new configuration and the state reached
    k_plain, c_plain, ops_plain, _ = cc.plain_session()
    for suite in (0, 2):
        ek, ak = cc.keys(suite)
        k_keyed = cc.cfg(ek=ek, ak=ak, suite=suite)
        variants = [(k_plain, c_plain, ops_plain[:3], k_keyed, [[0, cc.get_v()], [0, cc.set_v()]]),                      # READY after a plain association
                    (k_plain, c_plain, ops_plain, k_keyed, [[0, cc.aarq_v(cc.CONF_C, 65535, cc.CLIENT_TITLE, 5, cc.CHALLENGE_C, True)]]),   # released, then a new association
                    (k_plain, c_plain, [], k_keyed, [[0, cc.aarq_v(cc.CONF_C, 65535, cc.CLIENT_TITLE, 5, cc.CHALLENGE_C, True)]]),
                    (k_keyed, cc.cst(state=2, cic=3, mic=5, mtitle=cc.METER_TITLE), [[0, cc.get_v()]], k_plain, [[1, cc.plain_responses()[8]], [0, cc.get_v()]])]
        for k1, c1, ops1, k2, ops2 in variants:
            rows = cc.run_impl(k1, c1, ops1 + [[3, k2]] + ops2)
            after = rows[len(ops1)][1]
            want = lib.run_model([("dlms_script", [k2, after, ops2])])[0]
            got = lib.canon([[x[0], x[1]] for x in rows[len(ops1) + 1:]])
            ctx.tried("keys_assigned_later", key=lib.v_text([k1, k2, ops2])[:300])
            if lib.v_text(lib.canon(want)) != lib.v_text(got):
                ctx.fail("protection_does_not_follow_assigned_keys", {"rekey": True, "script": lib.v_text([k1, c1, ops1, k2, ops2])[:12000]},
                         lib.v_text(want)[:300], lib.v_text(got)[:300])
    # ---- search 1: every output of a keyed connection is the ciphered form of what was sent
    for k, c, ops in cases + [[k, c, ops] for k, c, ops, _ in sessions]:
        if k[1] is None and k[2] is None:
            continue
        rows = cc.run_impl(k, c, ops)
        cur = c
        for o, (res, after) in zip(ops, rows):
            before, cur = cur, after
            if o[0] != 0 or isinstance(res, E):
                continue
            m = o[1]
            ctx.tried("output_is_ciphered", key=lib.v_text([k[3], before[0], before[1], m])[:300])
            case = {"cfg": lib.v_text(k), "cst": lib.v_text(before), "msg": lib.v_text(m)[:3000]}
            plain_obj = cc.build_msg(m)
            try:
                if m[0] == 0:
                    plain = plain_obj.to_bytes()
                    ok = res[:2] == bytes([219, 8]) and res[2:10] == k[0]
                    from dlms_cosem.a_xdr import decode_variable_integer
                    n, rest = decode_variable_integer(res[10:])
                    ok = ok and n == len(rest) and rest[0] == 0x30 + k[3] and int.from_bytes(rest[1:5], "big") == before[1]
                    ok = ok and decrypt(k, before[1], rest[5:]) == plain
                else:
                    kind = {1: "aarq", 3: "rlrq"}[m[0]]
                    back = C02.impl(f"{kind}_from_bytes", res)
                    user = back[0] if kind == "aarq" else back[1]
                    want_user = m[1][0] if kind == "aarq" else m[1][1]
                    if want_user is None:
                        ok, plain = user is None, b""
                    else:
                        plain = C01.build(want_user).to_bytes()
                        ok = user[0] == 18 and user[1] == [k[3], True, True, False, False] and user[2] == before[1] and decrypt(k, before[1], user[3]) == plain
            except Exception as e:                      # noqa: BLE001 - anything that prevents decryption is a failure of the property
                ok, plain = False, b""
                case["exception"] = repr(e)[:200]
            if not ok:
                ctx.fail("output_not_the_ciphered_form", case, "general-glo-ciphering / glo-initiate-request around the plain encoding", res.hex()[:200])
            elif len(plain) >= 8 and plain in res:
                ctx.fail("plain_encoding_in_output", case, "absent", res.hex()[:200])
    # ---- search 2: plain answers on a keyed connection are never delivered
    plain = cc.plain_responses()
    for k, c, ops, peer in sessions:
        base = cc.run_impl(k, c, ops)
        for j in range(len(ops) + 1):
            before = c if j == 0 else base[j - 1][1]
            for kind, b0 in plain.items():
                before = before[:6] + [cc.CONF if (j + kind) % 2 else before[6]] + before[7:]
                # the plain answer itself, and the same answer inside a general-glo-ciphering envelope whose security control
                # says "no protection applied" (neither authenticated nor encrypted), with a fresh counter and the meter's title
                from dlms_cosem.a_xdr import encode_variable_integer
                title = before[3] or cc.METER_TITLE
                wrapped = []
                for sc in (k[3], 0x40 + k[3], 0x80 + k[3]):
                    inner = bytes([sc]) + min(4294967295, before[2] + 1).to_bytes(4, "big") + b0
                    wrapped.append((f"{kind}/sc{sc:02x}", bytes([219, 8]) + title + encode_variable_integer(len(inner)) + inner))
                for label, b in [(str(kind), b0)] + (wrapped if (j + kind) % 3 == 0 else wrapped[:1]):
                    rows = cc.run_impl(k, before, [[1, b]])
                    ctx.tried("plain_answer_refused", key=f"{k[3]}:{before[0]}:{label}")
                    if not isinstance(rows[0][0], E):
                        ctx.fail("plain_answer_delivered", {"cfg": lib.v_text(k), "cst": lib.v_text(before), "plain": b.hex(), "kind": label}, "refused", lib.v_text(rows[0][0])[:200])
    ctx.corr([("dlms_script", [k, cc.cst(state=st, mic=3, mtitle=cc.METER_TITLE, conf=cc.CONF if st % 2 else cc.CONF_C), [[1, b]]]) for k in (sessions[0][0], sessions[3][0]) for st in range(12) for b in plain.values()],
             impl, "plain_answers", decisive=lambda op, a: True)
    ctx.sample({"kind": "search", "what": "outputs decrypted with OpenSSL under the configured keys"})


def replay(ctx, rp):
    c = rp["case"]
    if c.get("rekey"):
        k1, c1, ops1, k2, ops2 = lib.v_parse(c["script"])
        rows = cc.run_impl(k1, c1, ops1 + [[3, k2]] + ops2)
        want = lib.run_model([("dlms_script", [k2, rows[len(ops1)][1], ops2])])[0]
        got = lib.canon([[x[0], x[1]] for x in rows[len(ops1) + 1:]])
        print("model from the new configuration:", lib.v_text(lib.canon(want))[:300], "\nimplementation:", lib.v_text(got)[:300])
        return lib.v_text(lib.canon(want)) != lib.v_text(got)
    k, before = lib.v_parse(c["cfg"]), lib.v_parse(c["cst"])
    if "plain" in c:
        rows = cc.run_impl(k, before, [[1, bytes.fromhex(c["plain"])]])
        print("result:", rows[0][0])
        return not isinstance(rows[0][0], E)
    m = lib.v_parse(c["msg"])
    rows = cc.run_impl(k, before, [[0, m]])
    res = rows[0][0]
    print("output:", lib.v_text(res)[:300])
    if isinstance(res, E):
        return False
    if m[0] == 0:
        plain = cc.build_msg(m).to_bytes()
        try:
            from dlms_cosem.a_xdr import decode_variable_integer
            n, rest = decode_variable_integer(res[10:])
            return not (res[0] == 219 and res[2:10] == k[0] and rest[0] == 0x30 + k[3] and int.from_bytes(rest[1:5], "big") == before[1]
                        and decrypt(k, before[1], rest[5:]) == plain) or (len(plain) >= 8 and plain in res)
        except Exception:
            return True
    return True
