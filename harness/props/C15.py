"""C15 — profile buffers and association object lists are interpreted column-by-column."""
import datetime
import lib
from lib import E, guarded
from props.C14 import canon_py

RULE = ("profile buffers of 0..200 rows x 1..12 columns with clock columns in any position (also several, also none), every "
        "null-pattern class (first row null, runs of nulls, all null), capture periods 1..1440 and month/year roll-overs, rows of "
        "wrong width, through parse_entries and through parse_bytes (standard encoding from the extracted encoder); all 256 "
        "access-mode bytes; one parser object used for two buffers in a row (the second result must equal a fresh parser's); object lists with any attribute/method counts and optional selector lists, unknown class ids. "
        "non-trivial = distinct inputs that produced a value")
ASSUMPTIONS = ["datetime + timedelta(minutes) is modelled with the proleptic Gregorian day count and compared with CPython on every run",
               "with more than one clock column the running timestamp is shared between the columns (the model and the theorem state exactly that)"]


def parser(clock, period):
    from dlms_cosem import cosem, enumerations, parsers
    objs = [cosem.CosemAttribute(enumerations.CosemInterface.CLOCK if c else enumerations.CosemInterface.REGISTER,
                                 cosem.Obis(1, 0, i, 8, 0, 255), 2) for i, c in enumerate(clock)]
    return parsers.ProfileGenericBufferParser(objs, period), objs


def canon_rows(rows, objs):
    from props.C16 import canon_dt
    out = []
    for r in rows:
        row = []
        for cv in r:
            if cv is None:
                row.append(None)
            else:
                col = [i for i, o in enumerate(objs) if o is cv.attribute]
                v = cv.value
                row.append([col[0] if col else -1, [b"dt", canon_dt(v)] if isinstance(v, datetime.datetime) else canon_py(v)])
        out.append(row)
    return out


def impl(op, a):
    from dlms_cosem import parsers

    def f():
        if op == "profile_parse_entries":
            p, objs = parser(a[0], a[1])
            return canon_rows(p.parse_entries(a[2]), objs)
        if op == "profile_parse_entries_reused":
            # one parser object used for two buffers: the second result
            p, objs = parser(a[0], a[1])
            try:
                p.parse_entries(a[2])
            except Exception:
                pass
            return canon_rows(p.parse_entries(a[3]), objs)
        if op == "profile_parse_bytes":
            p, objs = parser(a[0], a[1])
            return canon_rows(p.parse_bytes(a[2]), objs)
        if op == "parse_access_right":
            return [int(x) for x in parsers.AssociationObjectListParser.parse_access_right(a)]
        if op == "parse_object_list":
            out = []
            for it in parsers.AssociationObjectListParser.parse_entries(a):
                out.append([int(it.interface), it.version, it.logical_name.to_bytes(),
                            [[k, [int(x) for x in v.access_rights], canon_py(v.access_selectors)] for k, v in it.attribute_access_rights.items()],
                            [[k, [int(x) for x in v.access_rights], None] for k, v in it.method_access_rights.items()]])
            return out
        if op == "add_minutes":
            from props.C16 import mk_dt, canon_dt
            return canon_dt(mk_dt(a[0]) + datetime.timedelta(minutes=a[1]))
        raise KeyError(op)
    o = guarded(f)
    return lib.canon(o.value) if o.ok else E(lib.err_code(o))


def ts_bytes(r, y=None):
    y = y or r.choice([2019, 2020, 2023, 2024, 1999, 9999, 1])
    m = r.randrange(1, 13)
    d = r.choice([1, 28, r.randrange(1, 29)])
    dev = r.choice([0x8000, 0, 0xFFC4, 60, 0xFD30])
    return bytes([y >> 8, y & 255, m, d, 0xFF, r.choice([0, 23, r.randrange(24)]), r.choice([0, 59, r.randrange(60)]), r.randrange(60), 0]) + dev.to_bytes(2, "big") + b"\x00"


def buffers(ctx):
    r = lib.rng("C15")
    out = []
    shapes = [(1, 0), (1, 1), (3, 1), (3, 0), (12, 1), (4, 2), (2, 2), (6, 3)] + [(r.randrange(1, 13), r.choice([0, 1, 1, 1, 2])) for _ in range(ctx.scale(60, 600))]
    for ncol, nclock in shapes:
        clock_pos = set(r.sample(range(ncol), min(nclock, ncol)))
        clock = [i in clock_pos for i in range(ncol)]
        period = r.choice([1, 15, 60, 1440, 43200, r.randrange(1, 2000)])
        nrows = r.choice([0, 1, 2, 3, 5, 20, 200]) if ctx.thorough or r.random() < 0.2 else r.randrange(0, 8)
        pattern = r.choice(["mixed", "first_null", "all_null", "no_null", "run"])
        rows = []
        for i in range(nrows):
            row = []
            for c in range(ncol):
                null = {"mixed": r.random() < 0.4, "first_null": i == 0 or r.random() < 0.3, "all_null": True, "no_null": False,
                        "run": 2 <= i <= 6}[pattern]
                if clock[c]:
                    row.append(None if null else ts_bytes(r))
                else:
                    row.append(None if null else r.choice([r.randrange(100000), 0, 0, False, b"", [], bytes(r.getrandbits(8) for _ in range(3)), [1, 2], True]))
            rows.append(row)
        out.append([clock, period, rows])
        if rows and r.random() < 0.3:
            bad = [list(x) for x in rows]
            k = r.randrange(len(bad))
            bad[k] = bad[k][:-1] if r.random() < 0.5 else bad[k] + [1]
            out.append([clock, period, bad])
    # year roll-over beyond 9999 and malformed clock cells
    out.append([[True], 1440 * 400, [[bytes.fromhex("270f0c1fff173b0000800000")], [None], [None]]])
    out.append([[True, False], 15, [[b"\x01\x02", 1]]])
    out.append([[True, False], 15, [[5, 1]]])
    return out


def to_tree(v):
    """python entries -> value tree for the extracted standard encoder"""
    if v is None:
        return [0]
    if v is True or v is False:
        return [3, v]
    if isinstance(v, int):
        return [6, v]
    if isinstance(v, bytes):
        return [9, v]
    return [1 if v and isinstance(v[0], list) else 2, [to_tree(x) for x in v]]


def run(ctx):
    r = lib.rng("C15b")
    bufs = buffers(ctx)
    ctx.corr([("profile_parse_entries", b) for b in bufs], impl, "parse_entries", decisive=lambda op, a: True)
    # through parse_bytes: array of structures
    trees = [[1, [[2, [to_tree(c) for c in row]] for row in b[2]]] for b in bufs if len(b[2]) != 1 or True]
    enc = lib.run_model([("spec_encode", t) for t in trees])
    ctx.corr([("profile_parse_bytes", [b[0], b[1], e]) for b, e in zip(bufs, enc) if len(b[2]) >= 1], impl, "parse_bytes")
    ctx.corr([("parse_access_right", m) for m in range(256)] + [("parse_access_right", 256), ("parse_access_right", 0x1FF)], impl, "access_right",
             decisive=lambda op, a: a < 256)
    ctx.exhaustive.append("all 256 access-mode bytes")
    # object lists
    from dlms_cosem import enumerations
    ifaces = [int(x) for x in enumerations.CosemInterface]
    lists = []
    for _ in range(ctx.scale(300, 5000)):
        objs = []
        for _ in range(r.randrange(0, 5)):
            na, nm = r.randrange(0, 6), r.randrange(0, 4)
            attrs = [[i + 1, r.getrandbits(8), r.choice([None, [], [1, 2], [r.randrange(5)]])] for i in range(na)]
            meths = [[i + 1, r.getrandbits(8)] for i in range(nm)]
            objs.append([r.choice(ifaces) if r.random() < 0.9 else r.choice([0, 2, 9999]), r.randrange(4), bytes(r.getrandbits(8) for _ in range(r.choice([6, 6, 6, 5]))), [attrs, meths]])
        lists.append(objs)
    ctx.corr([("parse_object_list", l) for l in lists], impl, "object_list", decisive=lambda op, a: True)
    dts = [[r.choice([1, 2020, 2024, 9999]), r.randrange(1, 13), r.randrange(1, 29), r.randrange(24), r.randrange(60), r.randrange(60), 0, r.choice([None, 0, 60])] for _ in range(ctx.scale(2000, 50000))]
    ctx.corr([("add_minutes", [d, r.choice([1, 15, 60, 1440, 43200, 525600, r.randrange(1, 10 ** 7)])]) for d in dts], impl, "add_minutes")
    # ---- search: the property itself on the implementation (independent restatement)
    for clock, period, rows in bufs:
        got = impl("profile_parse_entries", [clock, period, rows])
        ctx.tried("profile", key=lib.v_text([clock, period, rows])[:300])
        widths_ok = all(len(row) == len(clock) for row in rows)
        case = {"clock": clock, "period": period, "rows": lib.v_text(rows)[:1500]}
        if not widths_ok:
            if not isinstance(got, E):
                ctx.fail("wrong_width_accepted", case, "refused", lib.v_text(got)[:200])
            continue
        if isinstance(got, E):
            continue          # malformed timestamps / overflow: compared with the model above
        if len(got) != len(rows) or any(len(g) != len(clock) for g in got):
            ctx.fail("row_or_cell_count", case, f"{len(rows)} x {len(clock)}", lib.v_text([len(g) for g in got])[:200])
            continue
        for i, (row, g) in enumerate(zip(rows, got)):
            for c, (x, cell) in enumerate(zip(row, g)):
                if cell is not None and cell[0] != c:
                    ctx.fail("cell_bound_to_wrong_column", dict(case, row=i, col=c), str(c), lib.v_text(cell)[:100])
                if not clock[c]:
                    if cell is None or lib.canon(cell[1]) != lib.canon(canon_py(x)):
                        ctx.fail("value_not_transmitted_value", dict(case, row=i, col=c), lib.v_text(canon_py(x))[:100], lib.v_text(cell)[:100])
    # a parser object used for several buffers: every buffer is interpreted on its own (what was seen in an earlier buffer -
    # the running timestamp in particular - does not leak into the next one)
    by_shape = {}
    for clock, period, rows in bufs:
        by_shape.setdefault((tuple(clock), period), []).append(rows)
    pairs = []
    for (clock, period), lst in by_shape.items():
        for rows in lst:
            if all(len(row) == len(clock) for row in rows):
                first = [[ts_bytes(r) if c else 1 for c in clock]] * 2
                pairs.append((list(clock), period, first, rows))
                pairs.append((list(clock), period, rows, rows))
    for clock, period, first, rows in pairs:
        fresh = impl("profile_parse_entries", [clock, period, rows])
        again = impl("profile_parse_entries_reused", [clock, period, first, rows])
        ctx.tried("parser_reused", key=lib.v_text([clock, period, first, rows])[:300])
        if lib.canon(fresh) != lib.canon(again):
            ctx.fail("parser_state_leaks_between_buffers", {"clock": clock, "period": period, "first_rows": lib.v_text(first)[:1500], "rows": lib.v_text(rows)[:1500]},
                     lib.v_text(fresh)[:300], lib.v_text(again)[:300])
    ctx.sample({"kind": "search", "clock": bufs[3][0], "period": bufs[3][1], "rows": lib.v_text(bufs[3][2])[:200]})


def replay(ctx, rp):
    c = rp["case"]
    rows = lib.v_parse(c["rows"])
    if "first_rows" in c:
        fresh = impl("profile_parse_entries", [c["clock"], c["period"], rows])
        again = impl("profile_parse_entries_reused", [c["clock"], c["period"], lib.v_parse(c["first_rows"]), rows])
        return lib.canon(fresh) != lib.canon(again)
    got = impl("profile_parse_entries", [c["clock"], c["period"], rows])
    if not all(len(row) == len(c["clock"]) for row in rows):
        return not isinstance(got, E)
    if isinstance(got, E):
        return False
    if len(got) != len(rows) or any(len(g) != len(c["clock"]) for g in got):
        return True
    for row, g in zip(rows, got):
        for col, (x, cell) in enumerate(zip(row, g)):
            if cell is not None and cell[0] != col:
                return True
            if not c["clock"][col] and (cell is None or lib.canon(cell[1]) != lib.canon(canon_py(x))):
                return True
    return False
