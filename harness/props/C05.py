"""C05 — AES-GCM protection matches the DLMS construction and detects every tampering."""
import lib
from lib import E, guarded

RULE = ("correspondence of the Gallina AES-GCM / key-wrap model with the library (OpenSSL) byte for byte: plaintext lengths "
        "0..2048 (every length 0..80, block boundaries, sampled beyond), suites 0, 1, 2 with 16/32-byte keys, random and "
        "boundary counters (0, 1, 2^32-1, beyond), titles of 7/8/9 bytes, keys of wrong length, unauthenticated+unencrypted "
        "control bytes; fault enumeration on the real decrypt: EVERY single-bit flip of ciphertext and tag and every "
        "truncation of protected texts up to 40 bytes, every single-bit flip of security-control byte, title, counter, "
        "encryption key and authentication key; GMAC and key wrap/unwrap on the same grid. search: output = GCM of the "
        "extracted reference with nonce title||counter and AAD SC||AK, round trip, every tampering refused. "
        "non-trivial = distinct inputs that produced a value")
ASSUMPTIONS = ["that a change of ciphertext, associated data, nonce or key changes the 96-bit tag is GCM's unforgeability - true "
               "with overwhelming probability, not a theorem; the fault enumeration is test evidence for it",
               "AES itself (the Gallina S-box/key-schedule implementation) is validated by FIPS-197 vectors and by comparison "
               "with OpenSSL on every run, it is not proved invertible"]
NAMED = {"DecryptionError": 5, "CipheringError": 10}


def _val(o):
    return lib.canon(o.value) if o.ok else E(lib.err_code(o, named=NAMED))


def mk_sc(x):
    from dlms_cosem.security import SecurityControlField
    return SecurityControlField(*x)


def impl(op, a):
    from dlms_cosem import security

    def f():
        if op == "sec_encrypt":
            return security.encrypt(mk_sc(a[0]), a[1], a[2], a[3], a[5], a[4])
        if op == "sec_decrypt":
            return security.decrypt(mk_sc(a[0]), a[1], a[2], a[3], a[5], a[4])
        if op == "sec_gmac":
            return security.gmac(mk_sc(a[0]), a[1], a[2], a[3], a[4], a[5])
        if op == "sec_wrap_key":
            return security.wrap_key(mk_sc(a[0]), a[1], a[2])
        if op == "sec_unwrap_key":
            return security.unwrap_key(mk_sc(a[0]), a[1], a[2])
        raise KeyError(op)
    return _val(guarded(f))


def rb(r, n):
    return bytes(r.getrandbits(8) for _ in range(n))


def flips(b):
    for i in range(len(b)):
        for bit in range(8):
            x = bytearray(b)
            x[i] ^= 1 << bit
            yield bytes(x)


def run(ctx):
    r = lib.rng("C05")
    enc, dec, gm = [], [], []
    lens = list(range(0, 81)) + [95, 96, 97, 127, 128, 129, 255, 256, 257, 511, 512, 513, 1000, 1023, 1024, 1025, 1536, 2047, 2048] if ctx.thorough else \
        list(range(0, 36)) + [47, 48, 49, 63, 64, 65, 127, 128, 129, 255, 256, 511, 512, 513, 1000, 1023, 1024, 1025, 2047, 2048]
    ics = [0, 1, 2, 255, 256, 2 ** 31, 2 ** 32 - 2, 2 ** 32 - 1]
    for suite in (0, 1, 2):
        kl = 32 if suite == 2 else 16
        for n in lens:
            sc = [suite, True, True, False, False]
            enc.append([sc, rb(r, 8), r.choice(ics + [r.randrange(2 ** 32)]), rb(r, kl), rb(r, kl), rb(r, n)])
    # parameter refusals
    base = [[0, True, True, False, False], b"12345678", 7, bytes(range(16)), bytes(range(16, 32)), b"hello world"]
    for title in (b"", b"1234567", b"123456789"):
        enc.append([base[0], title] + base[2:])
    for ic in (2 ** 32, 2 ** 40):
        enc.append(base[:2] + [ic] + base[3:])
    for suite, kl, al in ((0, 15, 16), (0, 17, 16), (0, 32, 16), (0, 16, 15), (0, 16, 32), (2, 16, 32), (2, 32, 16), (2, 31, 32), (1, 24, 16), (0, 0, 16)):
        enc.append([[suite, True, True, False, False], b"12345678", 7, rb(r, kl), rb(r, al), b"data"])
    for a_, e_ in ((False, False), (True, False), (False, True)):
        enc.append([[0, a_, e_, False, False]] + base[1:])
    enc.append([[0, True, True, True, True]] + base[1:])
    ctx.corr([("sec_encrypt", x) for x in enc], impl, "encrypt", decisive=lambda op, a: True)
    # decrypt: valid texts, then faults
    prot = [(x, impl("sec_encrypt", x)) for x in enc]
    valid = [(x, p) for x, p in prot if isinstance(p, bytes)]
    dec = [x[:5] + [p] for x, p in valid]
    faults = []
    for x, p in valid:
        if len(p) <= (40 if not ctx.thorough else 80) and x[0][0] == len(p) % 3 or len(p) <= 14:
            faults += [("ct/tag bit", x[:5] + [f]) for f in flips(p)]
            faults += [("truncation", x[:5] + [p[:k]]) for k in range(len(p))]
    sample_valid = valid[::7][:12]
    for x, p in sample_valid:
        sc, title, ic, key, ak = x[:5]
        for f in flips(title):
            faults.append(("title bit", [sc, f, ic, key, ak, p]))
        for bit in range(32):
            faults.append(("counter bit", [sc, title, ic ^ (1 << bit), key, ak, p]))
        for f in flips(key):
            faults.append(("key bit", [sc, title, ic, f, ak, p]))
        for f in flips(ak):
            faults.append(("auth key bit", [sc, title, ic, key, f, p]))
        for bit in range(8):
            v = (sc[0] + 16 * sc[1] + 32 * sc[2] + 64 * sc[3] + 128 * sc[4]) ^ (1 << bit)
            s2 = [v & 15, bool(v & 16), bool(v & 32), bool(v & 64), bool(v & 128)]
            if s2[0] <= 2:
                faults.append(("security control bit", [s2, title, ic, key, ak, p]))
    ctx.corr([("sec_decrypt", d) for d in dec] + [("sec_decrypt", f[1]) for f in faults], impl, "decrypt", decisive=lambda op, a: True)
    ctx.exhaustive.append("every single-bit flip and every truncation of the selected protected texts; every single-bit flip of title, counter, both keys and the security-control byte for 12 texts")
    # gmac, wrap
    for suite in (0, 1, 2):
        kl = 32 if suite == 2 else 16
        for n in (0, 1, 8, 16, 32, 64):
            gm.append([[suite, True, False, False, False], rb(r, 8), r.choice(ics), rb(r, kl), rb(r, kl), rb(r, n)])
    gm.append([[0, True, True, False, False], b"12345678", 1, bytes(16), bytes(16), b"challenge"])
    gm.append([[0, True, False, False, False], b"1234567", 1, bytes(16), bytes(16), b"challenge"])
    gm.append([[0, True, False, False, False], b"12345678", 2 ** 32, bytes(16), bytes(16), b"challenge"])
    gm.append([[2, True, False, False, False], b"12345678", 1, bytes(16), bytes(32), b"challenge"])
    ctx.corr([("sec_gmac", x) for x in gm], impl, "gmac", decisive=lambda op, a: True)
    wr = []
    for suite in (0, 1, 2):
        kl = 32 if suite == 2 else 16
        for _ in range(ctx.scale(6, 60)):
            wr.append([[suite, True, True, False, False], rb(r, kl), rb(r, kl)])
    wr += [[[0, True, True, False, False], bytes(16), bytes(15)], [[0, True, True, False, False], bytes(15), bytes(16)], [[2, True, True, False, False], bytes(32), bytes(16)]]
    ctx.corr([("sec_wrap_key", x) for x in wr], impl, "wrap_key", decisive=lambda op, a: True)
    wrapped = [(x, impl("sec_wrap_key", x)) for x in wr]
    un = [[x[0], x[1], w] for x, w in wrapped if isinstance(w, bytes)]
    unf = []
    for x, w in [(x, w) for x, w in wrapped if isinstance(w, bytes)][:6]:
        unf += [[x[0], x[1], f] for f in flips(w)][::5] + [[x[0], x[1], w[:k]] for k in (0, 8, 16, 23, len(w) - 8, len(w) - 1)] + [[x[0], x[1], w + bytes(8)]]
        unf += [[x[0], f, w] for f in flips(x[1])][::9]
    ctx.corr([("sec_unwrap_key", x) for x in un + unf], impl, "unwrap_key", decisive=lambda op, a: True)
    # ---- search: the property on the implementation, reference = extracted GCM
    ref = lib.run_model([("spec_gcm", [x[3], x[1] + x[2].to_bytes(4, "big"), bytes([x[0][0] + 16 * x[0][1] + 32 * x[0][2] + 64 * x[0][3] + 128 * x[0][4]]) + x[4], x[5]]) for x, p in valid])
    for (x, p), (c, t) in zip(valid, ref):
        ctx.tried("construction", key=(x[0][0], len(x[5]), x[2]))
        if p != c + t[:12]:
            ctx.fail("not_dlms_gcm", {"args": lib.v_text(x)}, (c + t[:12]).hex()[:120], p.hex()[:120])
            continue
        back = impl("sec_decrypt", x[:5] + [p])
        if back != x[5]:
            ctx.fail("roundtrip", {"args": lib.v_text(x)}, x[5].hex()[:80], lib.v_text(back)[:80])
    for what, f in faults:
        got = impl("sec_decrypt", f)
        ctx.tried("tamper:" + what)
        if not isinstance(got, E):
            ctx.fail("tampering_not_detected", {"what": what, "args": lib.v_text(f)}, "refused", lib.v_text(got)[:80])
    for x, w in [(x, w) for x, w in wrapped if isinstance(w, bytes)]:
        got = impl("sec_unwrap_key", [x[0], x[1], w])
        ctx.tried("unwrap_wrap")
        if got != x[2]:
            ctx.fail("unwrap_of_wrap", {"args": lib.v_text(x)}, x[2].hex(), lib.v_text(got)[:80])
    for x in enc:
        bad_key = len(x[3]) != (32 if x[0][0] == 2 else 16) or len(x[4]) != (32 if x[0][0] == 2 else 16)
        if bad_key or len(x[1]) != 8:
            got = impl("sec_encrypt", x)
            ctx.tried("refusal")
            if not isinstance(got, E):
                ctx.fail("bad_parameter_accepted", {"args": lib.v_text(x)}, "refused", lib.v_text(got)[:60])
    ctx.sample({"kind": "search", "args": lib.v_text(valid[5][0])[:200], "protected": valid[5][1].hex()})
    ctx.extra["fault_enumeration"] = {"faults": len(faults)}


def replay(ctx, rp):
    c = rp["case"]
    x = lib.v_parse(c["args"])
    if "what" in c:
        return not isinstance(impl("sec_decrypt", x), E)
    if len(x) == 3:
        w = impl("sec_wrap_key", x)
        return not isinstance(w, bytes) or impl("sec_unwrap_key", [x[0], x[1], w]) != x[2]
    p = impl("sec_encrypt", x)
    m = lib.run_model([("sec_encrypt", x)])[0]
    return lib.canon(p) != lib.canon(m) or (isinstance(p, bytes) and impl("sec_decrypt", x[:5] + [p]) != x[5])
