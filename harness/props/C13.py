"""C13 — HDLC addresses use the 1/2/4-byte extended form and decode to the same address."""
import lib
from lib import E, guarded

RULE = ("correspondence: every client address -2..130 x physical {None,0,5,127,128}, every server upper address "
        "-1..16385 alone (exhaustive), boundary grid x boundary grid + random pairs; address location on frames "
        "built from those addresses with random tails, on short frames and on random bytes.  search: each address "
        "pair is put into real I/UI/UA/RR/SNRM/DISC frames, parsed back, and compared; the bytes are compared with "
        "the extracted standard encoder.  non-trivial = distinct inputs that produced a value")
ASSUMPTIONS = ["proved domain addr_ok: client without physical part, server upper <= 127 alone, server with both parts "
               "(each <= 16383); everything else is refused at construction (former findings F13a, F13d, repaired)"]
GRID = [0, 1, 2, 16, 63, 64, 126, 127, 128, 129, 255, 256, 257, 1000, 8191, 8192, 16256, 16382, 16383]


def _val(o):
    return lib.canon(o.value) if o.ok else E(lib.err_code(o))


def impl(op, a):
    from dlms_cosem.hdlc.address import HdlcAddress

    def kind(server):
        return "server" if server else "client"

    def f():
        if op == "addr_make_to_bytes":
            return HdlcAddress(a[0], a[1], kind(a[2])).to_bytes()
        if op == "find_addresses":
            d, s = HdlcAddress.find_address_in_frame_bytes(a)
            return [list(d), list(s)]
        if op == "destination_from_bytes":
            x = HdlcAddress.destination_from_bytes(a[0], kind(a[1]))
            return [x.logical_address, x.physical_address, x.address_type == "server"]
        if op == "source_from_bytes":
            x = HdlcAddress.source_from_bytes(a[0], kind(a[1]))
            return [x.logical_address, x.physical_address, x.address_type == "server"]
        raise KeyError(op)
    return _val(guarded(f))


_impl_plain = impl
impl = lib.with_bytearray_variant(_impl_plain, ['find_addresses', 'destination_from_bytes', 'source_from_bytes'])


def addr_ok(l, p, server):
    if p is None:
        return 0 <= l <= 127
    return server and 0 <= l <= 16383 and 0 <= p <= 16383


def f13a(l, p, server):
    return server and p is None and 127 < l <= 16383


def f13d(l, p, server):
    return (not server) and p is not None and 0 <= l <= 127 and 0 <= p <= 127


def decisive(op, a):
    # since the repair of F13a / F13d every accepted address lies in the proved domain (C13_accepted_is_standard):
    # the model's answer is determined by the theorems for every input
    return op == "addr_make_to_bytes"


CLASSIFIERS = {}


def frame_roundtrip(ctx, d, s, spec_d, spec_s):
    """d = client address, s = server address (each (l, p, server)); all six frame kinds"""
    from dlms_cosem.hdlc import frames
    from dlms_cosem.hdlc.address import HdlcAddress

    def mk(x):
        return HdlcAddress(x[0], x[1], "server" if x[2] else "client")
    oc, os_ = guarded(lambda: mk(d)), guarded(lambda: mk(s))
    unrepresentable = [x for x in (d, s) if f13a(*x) or f13d(*x)]
    if unrepresentable:
        # no 1/2/4-byte form exists: such an address must be refused when it is constructed
        for x, o in ((d, oc), (s, os_)):
            if (f13a(*x) or f13d(*x)) and o.ok:
                ctx.fail("unrepresentable_address_accepted", {"addr": [list(d), list(s)]}, "refused", repr(o.value))
        return
    if not (oc.ok and os_.ok):
        ctx.fail("accepted_address_refused", {"addr": [list(d), list(s)]}, "constructed", repr((oc, os_)))
        return
    c, sv = oc.value, os_.value
    for x, sp in ((c, spec_d), (sv, spec_s)):
        o = guarded(lambda: x.to_bytes())
        if not o.ok or bytes(o.value) != sp:
            ctx.fail("address_bytes_not_standard", {"addr": [list(d), list(s)]}, sp.hex(), repr(o))
            return
    builders = [
        ("I", lambda: frames.InformationFrame(c, sv, b"\x01\x7e\x02", False, True, 3, 5), frames.InformationFrame, "to_client"),
        ("UI", lambda: frames.UnnumberedInformationFrame(c, sv, b"ab"), frames.UnnumberedInformationFrame, "to_client"),
        ("UA", lambda: frames.UnNumberedAcknowledgmentFrame(c, sv, b"xyz"), frames.UnNumberedAcknowledgmentFrame, "to_client"),
        ("RR", lambda: frames.ReceiveReadyFrame(c, sv, None, False, True, 2), frames.ReceiveReadyFrame, "to_client"),
        ("DISC", lambda: frames.DisconnectFrame(sv, c), frames.DisconnectFrame, "to_server"),
    ]
    for name, build, cls, direction in builders:
        o = guarded(lambda: cls.from_bytes(build().to_bytes()))
        ctx.tried("frame_roundtrip:" + name, key=(tuple(d), tuple(s)))
        want = (c, sv) if direction == "to_client" else (sv, c)
        if not o.ok:
            ctx.fail("frame_refused", {"addr": [list(d), list(s)], "kind": name}, "parsed", repr(o))
        else:
            g = o.value
            got = (g.destination_address, g.source_address)
            if got != want:
                ctx.fail("frame_attributed_to_other_station", {"addr": [list(d), list(s)], "kind": name}, repr(want), repr(got))
    # SNRM has no parser; locate the addresses directly
    o = guarded(lambda: HdlcAddress.find_address_in_frame_bytes(frames.SetNormalResponseModeFrame(sv, c).to_bytes()))
    ctx.tried("frame_roundtrip:SNRM", key=(tuple(d), tuple(s)))
    if not o.ok or (o.value[0][0], o.value[0][1], o.value[1][0], o.value[1][1]) != (s[0], s[1], d[0], d[1]):
        ctx.fail("snrm_addresses", {"addr": [list(d), list(s)], "kind": "SNRM"}, repr((s, d)), repr(o))


def run(ctx):
    r = lib.rng("C13")
    cases = [("addr_make_to_bytes", [l, p, False]) for l in range(-2, 131) for p in (None, 0, 5, 127, 128)]
    cases += [("addr_make_to_bytes", [l, None, True]) for l in range(-1, 16386)]
    ctx.exhaustive += ["client addresses -2..130", "server upper addresses -1..16385 without lower address"]
    pairs = [(l, p) for l in GRID for p in GRID] + [(r.randrange(16384), r.randrange(16384)) for _ in range(ctx.scale(20000, 400000))]
    pairs += [(16384, 1), (1, 16384), (-1, 1), (1, -1), (70000, 70000)]
    cases += [("addr_make_to_bytes", [l, p, True]) for l, p in pairs]
    ctx.corr(cases, impl, "addr_to_bytes", decisive=decisive)
    # address location: frames made of prefix + address bytes + tail
    def ab(l, p, server):
        v = impl("addr_make_to_bytes", [l, p, server])
        return v if isinstance(v, bytes) else b""
    fcases = []
    servers = [(l, None) for l in (0, 1, 16, 127, 128, 200, 16383)] + [(l, p) for l in (0, 1, 127, 128, 16383) for p in (0, 1, 127, 128, 16383)]
    servers += [(r.randrange(16384), r.choice([None, r.randrange(16384)])) for _ in range(ctx.scale(300, 5000))]
    clients = [0, 1, 16, 127] + [r.randrange(128) for _ in range(6)]
    for (l, p) in servers:
        for c in clients[:4] if len(fcases) > 4000 else clients:
            tail = bytes(r.getrandbits(8) for _ in range(r.choice([0, 1, 3, 6, 12])))
            fcases.append(b"\x7e\xa0\x10" + ab(c, None, False) + ab(l, p, True) + tail)
            fcases.append(b"\x7e\xa0\x10" + ab(l, p, True) + ab(c, None, False) + tail)
    # every pair of length classes, also server to server (both addresses in the 2- or 4-byte form): C13_locate_decode covers
    # any two standard addresses, so on these frames the model's answer is determined by the theorems (decisive)
    std_frames = set()
    reps = [(1, None), (127, None), (1, 17), (127, 127), (0, 0), (128, 1), (1, 128), (300, 17), (16383, 16383), (200, 0)]
    reps += [(r.randrange(16384), r.choice([None, r.randrange(128), r.randrange(128, 16384)])) for _ in range(ctx.scale(12, 60))]
    for (l, p) in reps:
        for (l2, p2) in reps:
            x, y = ab(l, p, True), ab(l2, p2, True)
            if x and y:
                for tail in (b"", b"\x93", bytes(r.getrandbits(8) for _ in range(r.choice([2, 5, 12])))):
                    fcases.append(b"\x7e\xa0\x10" + x + y + tail)
                    std_frames.add(fcases[-1])
    # neighbours decoded one after the other: frames that agree in everything but the last address byte (a result remembered
    # for "the same header" must not be handed out for a different station)
    neighbours = []
    for (l, p) in [(1, 0x1234), (300, 16383), (128, 128), (16383, 1), (0, 200)] + [(r.randrange(128, 16384), r.randrange(1, 16383)) for _ in range(ctx.scale(40, 400))]:
        tail = bytes(r.getrandbits(8) for _ in range(6))
        c = r.choice(clients)
        g1 = [b"\x7e\xa0\x10" + ab(c, None, False) + ab(l, q, True) + tail for q in (p, p ^ 1, p, p + 1 if p < 16383 else p - 1)]
        g2 = [b"\x7e\xa0\x10" + ab(l, p, True) + ab(c2, None, False) + tail for c2 in (c, c ^ 1, c, (c + 1) % 128)]
        fcases += g1 + g2
        neighbours += list(zip(g1, g1[1:])) + list(zip(g2, g2[1:]))
    fcases += [bytes(r.getrandbits(8) for _ in range(n)) for n in range(0, 16) for _ in range(ctx.scale(40, 400))]
    fcases += [bytes([0x7e, 0xa0, 7] + [r.choice([0, 2, 4, 0xfe, 1, 3, 0xff]) for _ in range(n)]) for n in range(0, 10) for _ in range(ctx.scale(60, 600))]
    ctx.corr([("find_addresses", f) for f in fcases], impl, "find_addresses", decisive=lambda op, a: bytes(a) in std_frames)
    ctx.corr([(op, [f, sv]) for op in ("destination_from_bytes", "source_from_bytes") for sv in (True, False) for f in fcases[::3] + fcases[1::3][:3000]],
             impl, "from_bytes")
    # ---- search: the answer for a frame does not depend on the frame decoded before it
    unrelated = b"\x7e\xa0\x07\x03\x21\x93\x0f\x01\x7e"
    for first, frame in neighbours:
        ctx.tried("neighbour_frames", key=(first, frame))
        _impl_plain("find_addresses", unrelated)
        alone = _impl_plain("find_addresses", frame)
        _impl_plain("find_addresses", unrelated)
        _impl_plain("find_addresses", first)
        after = _impl_plain("find_addresses", frame)
        if lib.v_text(lib.canon(alone)) != lib.v_text(lib.canon(after)):
            ctx.fail("address_depends_on_previous_frame", {"first": first.hex(), "frame": frame.hex()}, lib.v_text(alone)[:200], lib.v_text(after)[:200])
    # ---- search: real frames
    cl = [(c, None, False) for c in (0, 1, 16, 127)]
    sv = [(l, None, True) for l in list(range(0, 128, 9)) + [127]] + [(l, p, True) for l in GRID[::2] for p in GRID[::2]]
    sv += [(r.randrange(16384), r.randrange(16384), True) for _ in range(ctx.scale(300, 5000))]
    sv += [(200, None, True), (16383, None, True), (128, None, True)]          # no standard form: must be refused
    cl2 = cl + [(16, 5, False)]                                                 # client with a physical part: must be refused
    spec_cases = [("spec_addr", list(x)) for x in cl2 + sv]
    spec = dict(zip([tuple(x) for x in cl2 + sv], lib.run_model(spec_cases)))
    for i, s in enumerate(sv):
        d = cl2[i % len(cl2)] if i % 7 == 0 else cl[i % len(cl)]
        frame_roundtrip(ctx, d, s, spec[tuple(d)], spec[tuple(s)])
    ctx.sample({"kind": "search", "client": cl[2], "server": sv[40], "std_bytes": spec[tuple(sv[40])].hex()})


def replay(ctx, rp):
    if "first" in rp["case"]:
        first, frame = bytes.fromhex(rp["case"]["first"]), bytes.fromhex(rp["case"]["frame"])
        _impl_plain("find_addresses", b"\x7e\xa0\x07\x03\x21\x93\x0f\x01\x7e")
        alone = _impl_plain("find_addresses", frame)
        _impl_plain("find_addresses", b"\x7e\xa0\x07\x03\x21\x93\x0f\x01\x7e")
        _impl_plain("find_addresses", first)
        after = _impl_plain("find_addresses", frame)
        print("alone:", lib.v_text(alone)[:200], "\nafter the first frame:", lib.v_text(after)[:200])
        return lib.v_text(lib.canon(alone)) != lib.v_text(lib.canon(after))
    d, s = [tuple(x) for x in rp["case"]["addr"]]
    spec = lib.run_model([("spec_addr", list(d)), ("spec_addr", list(s))])
    ctx.findings = []
    frame_roundtrip(ctx, d, s, spec[0], spec[1])
    return bool(ctx.failures)
