"""C03 — association state machine admits exactly the legal request/response sequences."""
import lib
from lib import E, guarded
from props import dlms_common as D

RULE = ("the reachable graph of the real DlmsConnection is exhausted for the plain, LLS, HLS-GMAC/ciphered and pre-established "
        "configurations: every protocol state x every event of the property's alphabet (6 request kinds sent as real APDU "
        "objects, 15 response kinds received as bytes - ciphered where the connection is - with every attribute combination "
        "the code branches on: accepted/rejected association, HLS or not, action status, valid/invalid/malformed HLS proof); "
        "each edge on a fresh connection forced into the state; compared with the model (accept/refuse, error class, next "
        "state) and with the reference procedure; plus random histories.  non-trivial = distinct accepted edges")
ASSUMPTIONS = ["a connection is put into a protocol state by assigning its state attribute (plus the meter identity the HLS states need); "
               "sends range over the 6 request kinds and receives over the 15 response kinds of the property's alphabet"]
CONFIGS = ["plain", "lls", "hls", "pre"]


def events():
    out = [(0, k, False, False, 0) for k in (0, 2, 4, 5, 6, 7)]
    for k in (1,):
        out += [(1, 1, a, b, 0) for a in (False, True) for b in (False, True)]
    out += [(1, k, False, False, 0) for k in (3, 8, 9, 10, 11, 12, 13, 14, 16, 17, 18, 19, 20)]
    out += [(1, 15, a, False, p) for a in (True, False) for p in (0, 1, 2)]
    # the same last-block answers with the BOOLEAN written as another non-zero byte (A-XDR: any non-zero byte is TRUE)
    out += [(1, k, False, True, 0) for k in (11, 12)]
    return out


def apply_event(config, s, d, k, a, b, p):
    """fresh connection in state s; returns [outcome, state after]"""
    conn = D.make_conn(config, state=s)
    ciphered = config == "hls"
    meter = D.Meter(ciphered, ic=5)
    if d == 0:
        o = guarded(lambda: conn.send(D.request(conn, k)))
        return [D.outcome(o), D.state_of(conn)]
    if k == 1:
        # both rejection results (permanent / transient) must reset the association: alternate between them
        data = meter.aare(rejected=("transient" if (s + int(b)) % 2 else True) if a else False, hls=b)
    elif k == 3:
        data = meter.rlre()
    elif k == 15:
        if p == 2:
            payload = b"\x09\x03abc"          # too short to hold a proof: validation raises
        else:
            payload = b"\x09\x11" + meter.hls_proof(valid=(p == 0))
        data = meter.protect(D.plain_apdu(15, data=payload, status=0 if a else 3))
    else:
        plain = D.plain_apdu(k)
        if k in (11, 12) and b:
            assert plain[3] == 1
            plain = plain[:3] + bytes([(0xFF, 0x80, 0x02)[s % 3]]) + plain[4:]
        data = meter.protect(plain)
    conn.receive_data(data)
    o = guarded(conn.next_event)
    return [D.outcome(o), D.state_of(conn)]


def model_args(config, s, d, k, a, b, p):
    pre = config == "pre"
    if k == 15 and config != "hls":
        p = 2         # without keys the validation raises (ProtectionError)
    if k != 1:
        b = False     # for the other kinds b only selects an alternative encoding of the same event
    return [pre, s, d, k, a, b, p]


def run(ctx):
    r = lib.rng("C03")
    evs = events()
    cases = [(cfg, s) + e for cfg in CONFIGS for s in range(12) for e in evs]
    margs = [model_args(*c) for c in cases]
    model = lib.run_model([("assoc_step", m) for m in margs])
    spec = lib.run_model([("assoc_spec", m[1:]) for m in margs])
    for c, m, ma, sp in zip(cases, model, margs, spec):
        cfg, s, d, k, a, b, p = c
        got = apply_event(*c)
        ctx.corr_total += 1
        ctx.evaluations += 1
        gm = [True if m[0] is True else m[0], m[1]]
        # the error class is compared when it is one the property names; other exceptions are plain refusals
        def cls(x):
            return x if x is True else (x if x.code in (3, 4) else E(1))
        if [cls(got[0]), got[1]] != [cls(gm[0]), gm[1]]:
            ctx.dist["corr:assoc_step:DISAGREE"] += 1
            if len(ctx.disagreements) < 50:
                ctx.disagreements.append({"label": "assoc_step", "op": "assoc_step", "arg": repr(c), "impl": lib.v_text(got), "model": lib.v_text(gm)})
            if ctx.proofs_ok:
                ctx.fail("model_vs_impl:assoc_step", {"config": cfg, "state": s, "dir": d, "kind": k, "a": a, "b": b, "proof": p}, lib.v_text(gm), lib.v_text(got))
        must, may = sp
        pre = cfg == "pre"
        acse = (d == 0 and k in (0, 2)) or (d == 1 and k in (1, 3))
        case = {"config": cfg, "state": s, "dir": d, "kind": k, "a": a, "b": b, "proof": ma[6]}
        if got[0] is True:
            ctx.nontrivial.add((cfg, s, d, k, a, b, p))
            if may is None or may != got[1]:
                ctx.fail("accepted_outside_procedure", case, f"refused or state {may}", lib.v_text(got))
            elif pre and acse:
                ctx.fail("acse_accepted_on_preestablished", case, "PreEstablishedAssociationError", lib.v_text(got))
        else:
            if must is not None and not (pre and acse):
                ctx.fail("required_step_refused", case, f"accepted -> {must}", lib.v_text(got))
            if pre and acse and got[0] != E(4):
                ctx.fail("acse_on_preestablished_wrong_error", case, "PreEstablishedAssociationError", lib.v_text(got))
            if not (pre and acse) and must is None and may is None and got[0] != E(3) and k not in (15,):
                # everything else must be refused with a protocol error
                ctx.fail("refused_without_protocol_error", case, "LocalDlmsProtocolError", lib.v_text(got))
    for i in range(0, len(cases), max(1, len(cases) // 300)):
        ctx.corr_cases.append(("assoc_step", margs[i]))
        ctx.corr_model.append(model[i])
    ctx.exhaustive.append("12 protocol states x the 21-kind alphabet with all attribute combinations x 4 configurations")
    ctx.extra["states"] = 12 * len(CONFIGS)
    ctx.extra["transitions"] = len(cases)
    # a send leaves the state unchanged when it is refused and moves it as the procedure says when it is accepted - whatever
    # the size of the request and the negotiated maximum PDU size (the library does not segment, nor is it asked to refuse)
    from dlms_cosem.protocol import xdlms
    big = {6: lambda: xdlms.SetRequestNormal(D.attr(), b"\x09\x64" + bytes(100)), 7: lambda: xdlms.ActionRequestNormal(D.method(), b"\x09\x64" + bytes(100)),
           4: lambda: xdlms.GetRequestNormal(D.attr())}
    for cfg in CONFIGS:
        for size in (0, 12, 64, 65535):
            for k, mk in big.items():
                conn = D.make_conn(cfg, state=2)
                conn.max_pdu_size = size
                before = D.state_of(conn)
                o = guarded(lambda: conn.send(mk()))
                after = D.state_of(conn)
                ctx.tried("send_with_small_pdu_size", key=(cfg, size, k))
                want = lib.run_model([("assoc_step", model_args(cfg, 2, 0, k, False, False, 0))])[0][1]
                if o.ok and after != want:
                    ctx.fail("accepted_send_wrong_state", {"config": cfg, "max_pdu_size": size, "request": k}, str(want), str(after))
                if not o.ok and after != before:
                    ctx.fail("refused_send_changed_state", {"config": cfg, "max_pdu_size": size, "request": k}, str(before), f"{after} after {o.exc}")
    # random histories on one connection (plain and pre-established): the state follows the model
    for cfg in ("plain", "pre"):
        for run_i in range(ctx.scale(10, 100)):
            conn = D.make_conn(cfg)
            s = D.state_of(conn)
            hist = []
            for _ in range(60):
                e = r.choice(evs)
                d, k, a, b, p = e
                ma = model_args(cfg, s, d, k, a, b, p)
                m = lib.run_model([("assoc_step", ma)])[0] if False else None
                meter = D.Meter(False)
                if d == 0:
                    o = guarded(lambda: conn.send(D.request(conn, k)))
                else:
                    data = meter.aare(rejected=("transient" if len(hist) % 2 else True) if a else False, hls=b) if k == 1 else meter.rlre() if k == 3 else D.plain_apdu(k, status=0 if a else 3) if k == 15 else D.plain_apdu(k)
                    conn.buffer = bytearray()
                    conn.receive_data(data)
                    o = guarded(conn.next_event)
                hist.append(list(e))
                s2 = D.state_of(conn)
                ctx.tried("history_step")
                if cfg == "pre" and s2 not in (2, 4, 5, 6, 7, 8):
                    ctx.fail("preestablished_left_association", {"config": cfg, "history": hist}, "READY/awaiting/should-ack", str(s2))
                    break
                s = s2
    ctx.sample({"kind": "graph", "case": list(cases[100]), "model": lib.v_text(model[100])})


def replay(ctx, rp):
    c = rp["case"]
    if "max_pdu_size" in c:
        from dlms_cosem.protocol import xdlms
        mk = {6: lambda: xdlms.SetRequestNormal(D.attr(), b"\x09\x64" + bytes(100)), 7: lambda: xdlms.ActionRequestNormal(D.method(), b"\x09\x64" + bytes(100)),
              4: lambda: xdlms.GetRequestNormal(D.attr())}[c["request"]]
        conn = D.make_conn(c["config"], state=2)
        conn.max_pdu_size = c["max_pdu_size"]
        before = D.state_of(conn)
        o = guarded(lambda: conn.send(mk()))
        after = D.state_of(conn)
        print("send ok:", o.ok, "state before/after:", before, after)
        want = lib.run_model([("assoc_step", model_args(c["config"], 2, 0, c["request"], False, False, 0))])[0][1]
        return (o.ok and after != want) or (not o.ok and after != before)
    if "state" not in c:
        return True
    got = apply_event(c["config"], c["state"], c["dir"], c["kind"], c["a"], c["b"], c["proof"])
    ma = model_args(c["config"], c["state"], c["dir"], c["kind"], c["a"], c["b"], c["proof"])
    must, may = lib.run_model([("assoc_spec", ma[1:])])[0]
    pre = c["config"] == "pre"
    acse = (c["dir"] == 0 and c["kind"] in (0, 2)) or (c["dir"] == 1 and c["kind"] in (1, 3))
    if got[0] is True:
        return may is None or may != got[1] or (pre and acse)
    return (must is not None and not (pre and acse)) or (pre and acse and got[0] != E(4))
