"""C06 — invocation counters: a fresh nonce per protected send, replays refused."""
import lib
from lib import E, guarded
from props import conn_common as cc

RULE = ("random histories of protected sends (AARQ, RLRQ, GET, SET, ACTION), HLS replies and receives, 10..60 operations (thorough: "
        "up to 150), on keyed connections of every suite, starting client counters 0, 1, 7 and 2^32-3 (so the counter runs into "
        "the 32-bit limit) and starting meter counters 0, 5 and 2^32-3; received counters in every order: increasing, equal to "
        "the last accepted, duplicates (the recorded APDU delivered again, also right after a poll with nothing received), decreasing runs, 0 and 2^32-1; each history runs on "
        "the implementation with the AES-GCM primitive wrapped to record the nonces actually passed to it, and on the "
        "model (compared after every step). non-trivial = histories")
ASSUMPTIONS = ["the nonces of the client's cryptographic operations are observed at cryptography's Cipher(...) call inside "
               "dlms_cosem.security (wrapped by the harness); the model's claim is about the counter passed to sec_encrypt / sec_gmac"]
impl = cc.impl


class Recorder:
    """wraps dlms_cosem.security.Cipher: records (iv, is_encryption) of every AES-GCM operation"""

    def __enter__(self):
        from dlms_cosem import security
        self.security, self.orig, self.ops = security, security.Cipher, []

        def wrapped(algorithm, mode, *a, **kw):
            self.ops.append((bytes(mode.initialization_vector), mode.tag is None))
            return self.orig(algorithm, mode, *a, **kw)
        security.Cipher = wrapped
        return self

    def __exit__(self, *a):
        self.security.Cipher = self.orig


def history(r, ctx, suite, cic, mic, n):
    from props.dlms_common import plain_apdu
    ek, ak = cc.keys(suite)
    pre = r.random() < .5
    k = cc.cfg(ek=ek, ak=ak, suite=suite, pre=pre)
    c = cc.cst(state=2 if pre else r.choice([0, 1, 2, 3, 9]), cic=cic, mic=mic, mtitle=cc.METER_TITLE, auth=5, mchallenge=cc.CHALLENGE_M)
    peer = cc.Peer(True, suite=suite, ic=mic + 1, ek=ek, ak=ak)
    ops, recorded, last = [], [], mic
    for _ in range(n):
        x = r.random()
        if x < .45:
            ops.append([0, r.choice([cc.get_v(), cc.next_v(r.randrange(5)), cc.set_v(), cc.action_v(b"\x09\x01\x00"), cc.rlrq_v(cc.CONF_C, 1200),
                                     cc.aarq_v(cc.CONF_C, 65535, cc.CLIENT_TITLE, 5, cc.CHALLENGE_C, True)])])
        elif x < .52:
            ops.append([2])
        elif x < .55:
            # polling with nothing received (an empty transport read), then the most recent APDU delivered again
            ops.append([1, b""])
            if recorded:
                ops.append([1, recorded[-1]])
        elif x < .63:
            # an association / release response, possibly from another meter that shares the keys, with a fresh, equal or old counter
            title = r.choice([cc.METER_TITLE, cc.METER_TITLE, b"METER002"])
            ic = r.choice([last + 1, last + 3, last, max(0, last - 1), 0])
            other = cc.Peer(True, suite=suite, ic=min(ic, 4294967295), ek=ek, ak=ak, title=title)
            b = other.aare(hls=r.random() < .5) if r.random() < .7 else rlre_ciphered(other)
            recorded.append(b)
            ops.append([1, b])
            last = max(last, min(ic, 4294967295))
        else:
            kind = r.choice([8, 8, 10, 11, 13, 14, 15, 17])
            y = r.random()
            if y < .4:
                ic = last + r.choice([1, 1, 2, 50])
            elif y < .55:
                ic = last                                  # equal to the last accepted
            elif y < .7 and recorded:
                ops.append([1, r.choice(recorded)])        # a recorded APDU delivered again
                continue
            elif y < .85:
                ic = max(0, last - r.choice([1, 2, 10]))
            else:
                ic = r.choice([0, 4294967295, 4294967294])
            if ic > 4294967295:
                ic = 4294967295
            if r.random() < .15:
                # exception-response: invocation-counter error reporting some counter (lower, equal or higher than the client's)
                plain = b"\xd8\x01\x06" + min(4294967295, r.choice([0, 1, 5, cic, cic + 1, cic + 1000, 4294967295])).to_bytes(4, "big")
            else:
                plain = plain_apdu(kind)
            b = peer.ggc(plain, ic=ic)
            recorded.append(b)
            ops.append([1, b])
            last = max(last, ic)       # an upper bound on what may have been accepted; only used to aim the next counters
    return k, c, ops


def rlre_ciphered(peer):
    from dlms_cosem.protocol import acse, xdlms
    from dlms_cosem import enumerations as en, security
    ir = xdlms.InitiateResponse(xdlms.Conformance(general_protection=True, get=True), 1200)
    ic = peer.ic
    peer.ic += 1
    ct = security.encrypt(peer.sc(), peer.title, ic, peer.ek, ir.to_bytes(), peer.ak)
    return acse.ReleaseResponse(en.ReleaseResponseReason.NORMAL, acse.UserInformation(xdlms.GlobalCipherInitiateResponse(peer.sc(), ic, ct))).to_bytes()


def resend_search(ctx):
    """the same request OBJECT handed to send() twice (a retried AARQ, a re-used RLRQ): every protected send carries the
    client's current counter, which then advances - nothing ciphered for an earlier send goes out again"""
    from props import C02
    for suite in (0, 1, 2):
        ek, ak = cc.keys(suite)
        for kind, state, msg in (("aarq", 0, cc.aarq_v(cc.CONF_C, 65535, cc.CLIENT_TITLE, 5, cc.CHALLENGE_C, True)), ("rlrq", 2, cc.rlrq_v(cc.CONF_C, 1200))):
            conn = cc.make_conn(cc.cfg(ek=ek, ak=ak, suite=suite), cc.cst(state=state, cic=1000 + suite, mic=5, mtitle=cc.METER_TITLE, auth=5, mchallenge=cc.CHALLENGE_M))
            obj = cc.build_msg(msg)
            seen = []
            for attempt in range(3):
                conn.state.current_state = cc.sentinels()[state]                  # the earlier attempt was rejected / released: same state again
                before = conn.client_invocation_counter
                o = guarded(lambda: conn.send(obj))
                ctx.tried("same_object_sent_again", key=(suite, kind, attempt))
                if not o.ok:
                    break
                back = C02.impl(f"{kind}_from_bytes", bytes(o.value))
                user = back[0] if kind == "aarq" else back[1]
                carried = user[2] if isinstance(user, list) and user and user[0] == 18 else None
                case = {"resend": True, "suite": suite, "kind": kind, "attempt": attempt}
                if carried != before or conn.client_invocation_counter != before + 1 or carried in seen:
                    ctx.fail("resent_object_carries_stale_counter", case, f"counter {before}, then {before + 1}", f"carried {carried}, connection now at {conn.client_invocation_counter}, earlier {seen}")
                    break
                seen.append(carried)


def run(ctx):
    resend_search(ctx)
    r = lib.rng("C06")
    hs = []
    for i in range(ctx.scale(60, 160)):
        suite = i % 3
        hs.append(history(r, ctx, suite, r.choice([0, 1, 7, 4294967293]), r.choice([0, 5, 4294967293]), r.randrange(10, ctx.scale(60, 150))))
    for s, c0, m0 in ((0, 0, 0), (1, 4294967290, 4), (2, 5, 4294967000)):
        k, c, ops, _ = cc.hls_session(suite=s, cic=c0, mic=m0, meter_ic=m0 + 1)
        hs.append((k, c, ops))
    ctx.corr([("dlms_script", [k, c, ops]) for k, c, ops in hs], impl, "histories", decisive=lambda op, a: True, skip_model=cc.unmodelled)
    # ---- search: nonces actually used, counters on the wire, accepted counters
    for k, c, ops in hs:
        with Recorder() as rec:
            marks, rows = [], []
            conn_rows = []
            conn = cc.make_conn(k, c)
            for o in ops:
                start = len(rec.ops)
                rows += run_one(conn, o)
                marks.append(rec.ops[start:])
        ctx.tried("history", key=lib.v_text([k[3], c[1], c[2], len(ops)]) + str(len(hs)))
        case = {"script": lib.v_text([k, c, ops])[:20000]}
        # client side
        used = [iv for per in marks for iv, enc in per if enc and iv[:8] == k[0]]
        want = [k[0] + (c[1] + i).to_bytes(4, "big") for i in range(len(used))] if c[1] + len(used) <= 2 ** 32 else None
        if len(set(used)) != len(used):
            ctx.fail("nonce_used_twice", case, "all different", [x.hex() for x in used][:12])
            continue
        if want is not None and used != want:
            ctx.fail("nonce_not_start_plus_k", case, [x.hex() for x in want][:6], [x.hex() for x in used][:6])
            continue
        cur, sent, bad = c, 0, False
        for o, (res, after), per in zip(ops, rows, marks):
            before, cur = cur, after
            if o[0] == 0 and not isinstance(res, E):
                carried = wire_counter_of_output(res, o[1])
                if carried is not None and carried != before[1]:
                    ctx.fail("carried_counter_is_not_the_one_used", case, before[1], carried)
                    bad = True
                    break
        if bad:
            continue
        # meter side: accepted only above everything accepted before
        top, cur = c[2], c
        for o, (res, after) in zip(ops, rows):
            if o[0] == 1 and not isinstance(res, E):
                ic = received_counter(o[1])
                if ic is not None:
                    if ic <= top:
                        ctx.fail("replayed_or_old_counter_accepted", case, f"> {top}", ic)
                        break
                    top = ic
    ctx.sample({"kind": "search", "histories": len(hs)})


def run_one(conn, o):
    from lib import guarded
    if o[0] == 0:
        f = lambda: conn.send(cc.build_msg(o[1]))
    elif o[0] == 1:
        def f():
            conn.receive_data(o[1])
            return cc.describe_msg(conn.next_event())
    else:
        f = lambda: conn.get_hls_reply()
    g = guarded(f)
    return [[lib.canon(g.value) if g.ok else E(lib.err_code(g, named=cc.NAMED)), cc.snapshot(conn)]]


def wire_counter_of_output(b, m):
    """the invocation counter a protected output carries"""
    from props import C02
    from dlms_cosem.a_xdr import decode_variable_integer
    if m[0] == 0:
        if b[0] != 219:
            return None
        n, rest = decode_variable_integer(b[2 + b[1]:])
        return int.from_bytes(rest[1:5], "big")
    kind = {1: "aarq", 3: "rlrq"}[m[0]]
    back = C02.impl(f"{kind}_from_bytes", b)
    if isinstance(back, E):
        return None
    user = back[0] if kind == "aarq" else back[1]
    return user[2] if user and user[0] == 18 else None


def received_counter(b):
    from dlms_cosem.a_xdr import decode_variable_integer
    if b[0] == 219:
        n, rest = decode_variable_integer(b[2 + b[1]:])
        return int.from_bytes(rest[1:5], "big")
    if b[0] in (0x61, 0x63):
        from props import C02
        back = C02.impl("aare_from_bytes" if b[0] == 0x61 else "rlre_from_bytes", b)
        if isinstance(back, E):
            return None
        user = back[7] if b[0] == 0x61 else back[1]
        return user[2] if user and user[0] == 19 else None
    return None


def replay(ctx, rp):
    if rp["case"].get("resend"):
        ctx.failures_before = len(ctx.failures) if hasattr(ctx, "failures") else 0
        resend_search(ctx)
        return bool(ctx.failures)
    s = lib.v_parse(rp["case"]["script"])
    k, c, ops = s
    with Recorder() as rec:
        conn = cc.make_conn(k, c)
        rows = []
        for o in ops:
            rows += run_one(conn, o)
    used = [iv for iv, enc in rec.ops if enc and iv[:8] == k[0]]
    print("nonces:", [x.hex() for x in used][:10])
    if len(set(used)) != len(used):
        return True
    if c[1] + len(used) <= 2 ** 32 and used != [k[0] + (c[1] + i).to_bytes(4, "big") for i in range(len(used))]:
        return True
    top = c[2]
    cur = c
    for o, (res, after) in zip(ops, rows):
        before, cur = cur, after
        if o[0] == 0 and not isinstance(res, E):
            w = wire_counter_of_output(res, o[1])
            if w is not None and w != before[1]:
                return True
        if o[0] == 1 and not isinstance(res, E):
            ic = received_counter(o[1])
            if ic is not None:
                if ic <= top:
                    return True
                top = ic
    return False
