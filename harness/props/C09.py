"""C09 — HDLC frames follow the frame format, round-trip; corruption never alters content."""
import lib
from lib import E, guarded

RULE = ("frames of all six kinds over client/server addresses in 1/2/4-byte forms, all ssn/rsn 0..7, both flag bits, "
        "payload lengths 0,1,2,125..129,2030 and beyond the limit, 0x7E-dense payloads; correspondence on building and on "
        "parsing (valid frames, every single-bit flip and every truncation point of every generated frame up to 80 bytes, "
        "sampled flips on long ones, 2-/3-bit flips and 16-bit bursts on short frames, random bytes). search: layout against "
        "the extracted reference frame, parse(build(f)) = observable fields, and for every fault: refused or identical "
        "observable content.  non-trivial = distinct inputs that produced a value")
ASSUMPTIONS = ["observable fields per kind: I: addresses, ssn, rsn, segmentation, P/F, payload; UI: addresses, segmentation, "
               "P/F, payload; UA: addresses, segmentation, payload; RR: addresses, segmentation, rsn; DISC/SNRM: addresses, segmentation (the P/F bit of SNRM/UA/DISC/RR is always 1 on the wire whatever the `final` attribute says - known finding F09b)"]
KINDS = ["SNRM", "UA", "RR", "I", "DISC", "UI"]
NAMED = {"HdlcParsingError": 7}


def _val(o):
    return lib.canon(o.value) if o.ok else E(lib.err_code(o, named=NAMED))


def mk_addr(x):
    from dlms_cosem.hdlc.address import HdlcAddress
    return HdlcAddress(x[0], x[1], "server" if x[2] else "client")


def classes():
    from dlms_cosem.hdlc import frames
    return [frames.SetNormalResponseModeFrame, frames.UnNumberedAcknowledgmentFrame, frames.ReceiveReadyFrame,
            frames.InformationFrame, frames.DisconnectFrame, frames.UnnumberedInformationFrame]


def build(a):
    k, dest, src, payload, seg, fin, ssn, rsn = a
    cls = classes()[k]
    d, s = mk_addr(dest), mk_addr(src)
    if k == 2:
        return cls(d, s, payload, seg, fin, rsn)
    if k == 3:
        return cls(d, s, payload, seg, fin, ssn, rsn)
    return cls(d, s, payload, seg, fin)


def canon_frame(f):
    def ad(x):
        return [x.logical_address, x.physical_address, x.address_type == "server"]
    return [ad(f.destination_address), ad(f.source_address), None if f.payload is None else bytes(f.payload),
            bool(f.segmented), bool(f.final), getattr(f, "send_sequence_number", 0), getattr(f, "receive_sequence_number", 0)]


def impl(op, a):
    def f():
        if op == "frame_make_to_bytes":
            return build(a).to_bytes()
        if op == "frame_from_bytes":
            return canon_frame(classes()[a[0]].from_bytes(a[1]))
        raise KeyError(op)
    return _val(guarded(f))


_impl_plain = impl
impl = lib.with_bytearray_variant(_impl_plain, ['frame_from_bytes'])


def observable(k, c):
    """c = canonical frame list"""
    dest, src, payload, seg, fin, ssn, rsn = c
    p = payload or b""
    if k == 3:
        return [dest, src, p, seg, fin, ssn, rsn]
    if k == 5:
        return [dest, src, p, seg, fin]
    if k == 1:
        return [dest, src, p, seg]
    if k == 2:
        return [dest, src, rsn, seg]
    return [dest, src, seg]


def gen_frames(ctx):
    r = lib.rng("C09")
    clients = [(16, None, False), (1, None, False), (127, None, False), (0, None, False)]
    servers = [(1, None, True), (1, 17, True), (127, None, True), (0, 0, True), (1, 0, True), (128, 17, True), (1, 200, True),
               (16383, 16383, True), (200, 300, True), (0, 1, True)]
    pl = [None, b"", b"\x01", b"\x7e", b"ab\x7e\x7ecd", bytes(range(125)), bytes(126), b"\x7e" * 127, bytes(128), bytes(129)]
    out = []
    for k in range(6):
        for i, s in enumerate(servers):
            c = clients[i % len(clients)]
            dest, src = (s, c) if k in (0, 4) else (c, s)
            for j in range(ctx.scale(3, 12)):
                payload = pl[(i + j + k) % len(pl)] if k in (1, 3, 5) else None
                seg = (k in (3, 5)) and (i + j) % 3 == 0
                fin = not ((k in (3, 5)) and (i + j) % 4 == 1)
                out.append([k, list(dest), list(src), payload, seg, fin, (i + j) % 8 if k == 3 else 0, (i * 3 + j) % 8 if k in (2, 3) else 0])
    for ssn in range(8):
        for rsn in range(8):
            out.append([3, [16, None, False], [1, 17, True], b"\xe6\xe7\x00\xc4\x01", bool(ssn & 1), bool(rsn & 1), ssn, rsn])
    for n in (2030, 2031, 2035, 2036, 2040, 3000):
        out.append([3, [16, None, False], [1, None, True], bytes(r.getrandbits(8) for _ in range(n)), False, True, 1, 2])
        out.append([5, [16, None, False], [1, 17, True], bytes(r.choice([0x7e, r.getrandbits(8)]) for _ in range(n)), True, False, 0, 0])
    # frames whose check sequences contain the flag byte (and 00 / FF) in each of their positions: found by search
    out += crafted_check_sequences(r)
    # outside the round-trip domain (known findings / refusals), still compared with the model
    out += [[1, [16, None, False], [1, None, True], b"ab", True, True, 0, 0], [2, [16, None, False], [1, None, True], None, True, False, 0, 3],
            [4, [1, None, True], [16, None, False], None, True, False, 0, 0], [0, [1, None, True], [16, None, False], b"xx", True, False, 0, 0],
            [3, [16, None, False], [1, None, True], b"x", False, True, 8, 0], [3, [16, None, False], [1, None, True], b"x", False, True, 0, -1],
            [2, [16, None, False], [1, None, True], None, False, True, 0, 9], [3, [16, 5, False], [200, None, True], b"x", False, True, 0, 0]]
    return out


def crafted_check_sequences(r):
    """for every frame kind: frames whose FCS (and, where there is one, HCS) has 0x7E / 0x00 / 0xFF as first and as last byte"""
    out, want = [], {}
    for k in (1, 2, 3, 4, 5):
        for pos in ("fcs0", "fcs1", "hcs0", "hcs1"):
            for val in (0x7E, 0x00, 0xFF):
                want[(k, pos, val)] = None
    for _ in range(60000):
        if all(v is not None for v in want.values()):
            break
        k = r.choice([1, 2, 3, 4, 5])
        srv = [r.randrange(128), r.choice([None, r.randrange(128), r.randrange(16384)]), True]
        if srv[1] is not None and srv[1] > 127:
            srv[0] = r.randrange(16384)
        cl = [r.randrange(128), None, False]
        dest, src = (srv, cl) if k == 4 else (cl, srv)
        payload = bytes(r.getrandbits(8) for _ in range(r.randrange(1, 6))) if k in (1, 3, 5) else None
        a = [k, dest, src, payload, False, True, r.randrange(8) if k == 3 else 0, r.randrange(8) if k in (2, 3) else 0]
        b = impl("frame_make_to_bytes", a)
        if not isinstance(b, bytes):
            continue
        found = {"fcs0": b[-3], "fcs1": b[-2]}
        if payload:
            h = len(b) - 3 - len(payload) - 2
            found["hcs0"], found["hcs1"] = b[h], b[h + 1]
        for pos, v in found.items():
            if (k, pos, v) in want and want[(k, pos, v)] is None:
                want[(k, pos, v)] = a
                out.append(a)
    return out


def in_domain(a):
    k, dest, src, payload, seg, fin, ssn, rsn = a
    from props.C13 import addr_ok
    if not (addr_ok(*dest) and addr_ok(*src)):
        return False
    if not 0 <= ssn <= 7 or not 0 <= rsn <= 7:
        return False
    return True


def faults(b, r, ctx):
    n = len(b)
    out = []
    if n <= 80:
        out += [("flip1", i, bit) for i in range(n) for bit in range(8)]
        out += [("trunc", i) for i in range(n)]
    else:
        out += [("flip1", i, bit) for i in list(range(12)) + list(range(n - 4, n)) + [r.randrange(n) for _ in range(6)] for bit in range(8)]
        out += [("trunc", i) for i in (0, 1, 2, 3, 5, 8, n // 2, n - 3, n - 2, n - 1)]
    out += [("extend", bytes([x])) for x in (0x00, 0x7e)] + [("extend", b"\x7e\xa0")]
    if n <= 30:
        for _ in range(ctx.scale(60, 2000)):
            out.append(("flipk", tuple(sorted(r.sample(range(n * 8), r.choice([2, 3]))))))
        for _ in range(ctx.scale(40, 1000)):
            start = r.randrange(n * 8 - 16)
            width = r.randrange(2, 17)
            pat = r.getrandbits(width) | 1 | (1 << (width - 1))
            out.append(("burst", start, width, pat))
    return out


def apply_fault(b, f):
    b = bytearray(b)
    if f[0] == "flip1":
        b[f[1]] ^= 1 << f[2]
    elif f[0] == "trunc":
        b = b[:f[1]]
    elif f[0] == "extend":
        b = b + f[1]
    elif f[0] == "flipk":
        for pos in f[1]:
            b[pos // 8] ^= 1 << (pos % 8)
    elif f[0] == "burst":
        _, start, width, pat = f
        for i in range(width):
            if (pat >> i) & 1:
                pos = start + i
                b[pos // 8] ^= 1 << (pos % 8)       # wire order: LSB of each byte first
    return bytes(b)


def classify_accept(k, orig_obs, got):
    return "different_content" if observable(k, got) != orig_obs else None


CLASSIFIERS = {}


def reuse_search(ctx, fr, label_prefix=""):
    """a frame object that was serialised once (its check sequences read) and whose fields are then changed serialises like a
    freshly built frame"""
    by_kind = {}
    for a in fr:
        by_kind.setdefault(a[0], []).append(a)
    for k, lst in by_kind.items():
        picks = lst[::max(1, len(lst) // ctx.scale(60, 600))]
        for a1, a2 in zip(picks, picks[1:] + picks[:1]):
            res = lib.encode_after_field_change(build, a1, a2, touch=lambda f: (f.hcs, f.fcs))
            if res is None:
                continue
            ctx.tried("serialise_after_field_change", key=lib.v_text(a1)[:100] + lib.v_text(a2)[:100])
            if lib.v_text(res[0]) != lib.v_text(res[1]):
                ctx.fail(label_prefix + "frame_stale_after_field_change", {"first": lib.v_text(a1)[:3000], "then": lib.v_text(a2)[:3000]},
                         lib.v_text(res[1])[:200], lib.v_text(res[0])[:200])


def run(ctx):
    r = lib.rng("C09f")
    fr = gen_frames(ctx)
    ctx.corr([("frame_make_to_bytes", a) for a in fr], impl, "to_bytes", decisive=lambda op, a: in_domain(a))
    reuse_search(ctx, fr)
    built = [(a, impl("frame_make_to_bytes", a)) for a in fr]
    parse_cases = []
    search_items = []
    for a, b in built:
        if not isinstance(b, bytes):
            continue
        k = a[0]
        for pk in ({k} | ({3} if k == 2 else set())) - {0}:
            parse_cases.append(("frame_from_bytes", [pk, b]))
        if k == 0:
            continue
        fl = faults(b, r, ctx)
        for f in fl:
            parse_cases.append(("frame_from_bytes", [k, apply_fault(b, f)]))
        search_items.append((a, b, fl))
    parse_cases += [("frame_from_bytes", [k, bytes(r.getrandbits(8) for _ in range(n))]) for k in range(1, 6) for n in range(0, 14) for _ in range(ctx.scale(10, 100))]
    parse_cases += [("frame_from_bytes", [k, b"\x7e" + bytes(r.getrandbits(8) for _ in range(n)) + b"\x7e"]) for k in range(1, 6) for n in range(0, 12) for _ in range(ctx.scale(10, 100))]
    ctx.corr(parse_cases, impl, "from_bytes")
    # ---- search on the implementation
    okd = [a for a in fr if in_domain(a)]
    spec = lib.run_model([("spec_std_frame", a) for a in okd])
    for a, (sb, fits) in zip(okd, spec):
        ctx.tried("layout", key=lib.v_text(a)[:200])
        got = impl("frame_make_to_bytes", a)
        if fits and got != sb:
            ctx.fail("layout_not_standard", {"frame_v": lib.v_text(a)}, sb.hex()[:200], lib.v_text(got)[:200])
        if not fits and not isinstance(got, E):
            ctx.fail("overlong_frame_built", {"frame_v": lib.v_text(a)}, "refused (length > 2047)", lib.v_text(got)[:100])
    for a, b, fl in search_items:
        k = a[0]
        got = impl("frame_from_bytes", [k, b])
        ctx.tried("parse_build", key=lib.v_text(a)[:200])
        dom = in_domain(a)
        if isinstance(got, E):
            if dom:
                ctx.fail("own_frame_refused", {"frame_v": lib.v_text(a), "frame": lib.v_text(a)[:300], "bytes": b.hex()[:200]}, "parsed", lib.v_text(got))
            continue
        want_c = [a[1], a[2], a[3], a[4], a[5], a[6], a[7]]
        obs = observable(k, want_c)
        if dom and observable(k, got) != obs:
            ctx.fail("parse_build_differs", {"frame_v": lib.v_text(a), "frame": lib.v_text(a)[:300], "bytes": b.hex()[:200]}, lib.v_text(obs)[:200], lib.v_text(observable(k, got))[:200])
            continue
        if not dom:
            continue
        alen = len(b) and (3 + len(bytes.fromhex("")))  # placeholder, address span computed below
        da = impl_addr_len(a[1]) + impl_addr_len(a[2])
        for f in fl:
            fb = apply_fault(b, f)
            g = impl("frame_from_bytes", [k, fb])
            ctx.tried("fault:" + f[0])
            if isinstance(g, E):
                continue
            if f[0] in ("trunc", "extend"):
                ctx.fail("resized_frame_accepted", {"frame_v": lib.v_text(a), "fault": [str(x) for x in f], "bytes": fb.hex()}, "refused", lib.v_text(g)[:200])
            elif observable(k, g) != obs:
                ctx.fail("fault_changes_content", {"frame_v": lib.v_text(a), "fault": [str(x) for x in f], "bytes": fb.hex(),
                                                   "hits_address": hits_address(f, 3, 3 + da)},
                         lib.v_text(obs)[:200], lib.v_text(observable(k, g))[:200])
    ctx.sample({"kind": "search", "frame": lib.v_text(search_items[5][0])[:200], "bytes": search_items[5][1].hex()[:80], "faults": len(search_items[5][2])})
    ctx.exhaustive.append("every single-bit flip and every truncation point of every generated frame of at most 80 bytes")


def impl_addr_len(x):
    o = guarded(lambda: len(mk_addr(x).to_bytes()))
    return o.value if o.ok else 0


def hits_address(f, lo, hi):
    if f[0] == "flip1":
        return lo <= f[1] < hi
    if f[0] == "flipk":
        return any(lo <= pos // 8 < hi for pos in f[1])
    if f[0] == "burst":
        return any(lo <= (f[1] + i) // 8 < hi for i in range(f[2]) if (f[3] >> i) & 1)
    return False


def replay(ctx, rp):
    """re-run the recorded frame (and fault, if any) against the current implementation"""
    c = rp["case"]
    if "then" in c:
        res = lib.encode_after_field_change(build, lib.v_parse(c["first"]), lib.v_parse(c["then"]), touch=lambda f: (f.hcs, f.fcs))
        print("re-used object:", lib.v_text(res[0])[:200], "\nfresh object  :", lib.v_text(res[1])[:200])
        return lib.v_text(res[0]) != lib.v_text(res[1])
    a = lib.v_parse(c["frame_v"]) if "frame_v" in c else c["frame"]
    k = a[0]
    b = impl("frame_make_to_bytes", a)
    if not isinstance(b, bytes):
        return True
    sb, fits = lib.run_model([("spec_std_frame", a)])[0]
    if fits and b != sb:
        return True
    if k == 0:
        return False
    got = impl("frame_from_bytes", [k, b])
    if isinstance(got, E):
        return True
    obs = observable(k, [a[1], a[2], a[3], a[4], a[5], a[6], a[7]])
    if observable(k, got) != obs:
        return True
    if "bytes" in c and "fault" in c:
        g = impl("frame_from_bytes", [k, bytes.fromhex(c["bytes"])])
        return not isinstance(g, E) and observable(k, g) != obs
    return False
