"""C19 — client GET returns exact data for every block split; errors never pass as data."""
import lib
from lib import E, guarded
from props import dlms_common as D

RULE = ("sessions of GET / SET / ACTION operations on one association of a real DlmsClient over a scripted io_interface: "
        "attribute data of 0..100000 bytes split into 2..200 blocks of any sizes (empty blocks included; blocks of 126..129, 255..257, 65535/65536 bytes - the boundaries of the length prefix) or one normal "
        "response, every DataAccessResult as immediate error and on the last block, SET results, ACTION statuses with and "
        "without data, unexpected answers; plain, pre-established and ciphered (general-glo-ciphering, suite 0) connections. "
        "The same session runs on the model (abstract APDUs). search: returned bytes = concatenation, acknowledgements carry "
        "the block numbers and the invoke id, READY afterwards, errors raise.  non-trivial = distinct sessions")
ASSUMPTIONS = ["a session goes on after an error answer (the association must be usable again); it ends at an answer of the wrong "
               "kind, which the association refuses and which leaves the request outstanding"]
NAMED = dict(D.NAMED, DataResultError=8, ActionError=9)


class ScriptIO:
    def __init__(self, responses):
        self.responses = list(responses)
        self.sent = []

    def connect(self):
        pass

    def disconnect(self):
        pass

    def send(self, b):
        self.sent.append(bytes(b))
        return self.responses.pop(0)


def encode_resp(r):
    kind, data, block, iid, code = r
    iidb = bytes([iid])
    from dlms_cosem.a_xdr import encode_variable_integer as evi
    if kind == 8:
        return b"\xc4\x01" + iidb + b"\x00" + data
    if kind == 9:
        return b"\xc4\x01" + iidb + b"\x01" + bytes([code])
    if kind == 10:
        return b"\xc4\x02" + iidb + b"\x00" + block.to_bytes(4, "big") + b"\x00" + evi(len(data)) + data
    if kind == 11:
        return b"\xc4\x02" + iidb + b"\x01" + block.to_bytes(4, "big") + b"\x00" + evi(len(data)) + data
    if kind == 12:
        return b"\xc4\x02" + iidb + b"\x01" + block.to_bytes(4, "big") + b"\x01" + bytes([code])
    if kind == 13:
        return b"\xc5\x01" + iidb + bytes([code])
    if kind == 14:
        return b"\xc7\x01" + iidb + bytes([code]) + b"\x00"
    if kind == 15:
        return b"\xc7\x01" + iidb + bytes([code]) + b"\x01\x00" + data
    if kind == 16:
        return b"\xc7\x01" + iidb + bytes([code]) + b"\x01\x01\x03"      # status (possibly SUCCESS) + data-access-result error 3
    if kind == 18:
        return b"\xd8\x01\x01"
    if kind == 17:
        return b"\x0f\x00\x00\x00\x01\x00" + data
    raise KeyError(kind)


def describe(ev):
    from dlms_cosem.protocol import xdlms
    if isinstance(ev, xdlms.GetRequestNormal):
        return [4, 0, 0]
    if isinstance(ev, xdlms.GetRequestNext):
        return [5, ev.block_number, ev.invoke_id_and_priority.to_bytes()[0]]
    if isinstance(ev, xdlms.SetRequestNormal):
        return [6, 0, 0]
    if isinstance(ev, xdlms.ActionRequestNormal):
        return [7, 0, 0]
    return [99, 0, 0]


def run_session(a, config="plain"):
    from dlms_cosem.clients.dlms_client import DlmsClient
    from dlms_cosem.protocol import xdlms
    pre, responses, ops = a
    meter = D.Meter(config in ("hls", "pre_c"), ic=10)
    io = ScriptIO([meter.protect(encode_resp(r)) for r in responses])
    kw = {}
    if config in ("hls", "pre_c"):
        kw = dict(encryption_key=D.EK, authentication_key=D.AK, client_system_title=D.CLIENT_TITLE)
    cl = DlmsClient(16, 1, io, **kw)
    if pre:
        cl.dlms_connection.is_pre_established = True
    cl.dlms_connection.meter_system_title = D.METER_TITLE
    D.set_state(cl.dlms_connection, 2)
    sent = []
    orig = cl.dlms_connection.send

    def rec(ev):
        sent.append(describe(ev))
        return orig(ev)
    cl.dlms_connection.send = rec
    outs = []
    for o in ops:
        if o == 0:
            r = guarded(lambda: cl.get(D.attr()), timeout=20.0)
            outs.append(bytes(r.value) if r.ok else E(lib.err_code(r, named=NAMED)))
        elif o == 1:
            r = guarded(lambda: cl.set(D.attr(), b"\x11\x01"))
            if r.ok:
                x = r.value
                outs.append([13, b"", 0, x.invoke_id_and_priority.to_bytes()[0], int(x.result)] if isinstance(x, xdlms.SetResponseNormal) else [99, b"", 0, 0, 0])
            else:
                outs.append(E(lib.err_code(r, named=NAMED)))
        else:
            r = guarded(lambda: cl.action(D.method(), b"\x09\x01a"))
            outs.append((None if r.value is None else bytes(r.value)) if r.ok else E(lib.err_code(r, named=NAMED)))
    return [outs, D.state_of(cl.dlms_connection), sent, len(io.responses)]


def impl(op, a):
    return lib.canon(run_session(a))


def split(data, nblocks, r):
    cuts = sorted(r.randrange(0, len(data) + 1) for _ in range(nblocks - 1))
    parts, prev = [], 0
    for c in cuts + [len(data)]:
        parts.append(data[prev:c])
        prev = c
    return parts


def make_session(r, ctx, nops):
    responses, ops, expect = [], [], []
    from dlms_cosem import enumerations as en
    dars = [int(x) for x in en.DataAccessResult if int(x) != 0]
    for i in range(nops):
        kind = r.choice(["get_blocks", "get_blocks", "get_normal", "get_err", "get_err_last", "set", "action", "action_data", "action_err", "get_unexpected"])
        iid = r.choice([0xC1, 0x81, 0x41, 0x0F, 0xC0])
        if kind == "get_blocks":
            n = r.choice([0, 1, 5, 100, 1000]) if r.random() < 0.8 else r.choice([20000, 100000])
            data = bytes(r.getrandbits(8) for _ in range(n)) if n < 5000 else bytes(n)
            nb = r.choice([2, 2, 3, 5, 17]) if r.random() < 0.85 else r.choice([60, 200])
            parts = split(data, nb, r)
            if r.random() < 0.3:
                # blocks whose length sits on a boundary of the A-XDR length prefix (127/128/129, 255/256/257, 65535/65536)
                edge = [r.choice([126, 127, 128, 129, 255, 256, 257]) if r.random() < 0.9 else r.choice([65535, 65536]) for _ in range(nb)]
                parts = [bytes(r.getrandbits(8) for _ in range(e)) if e < 5000 else bytes(e) for e in edge]
                data = b"".join(parts)
            start = r.choice([1, 1, 0, 7, 2 ** 32 - nb - 1])
            for j, p in enumerate(parts):
                responses.append([11 if j == nb - 1 else 10, p, start + j, iid, 0])
            ops.append(0)
            expect.append(("data", data, [[5, start + j, iid] for j in range(nb - 1)]))
        elif kind == "get_normal":
            data = bytes(r.getrandbits(8) for _ in range(r.choice([0, 1, 2, 50, 300])))
            responses.append([8, data, 0, iid, 0])
            ops.append(0)
            expect.append(("data", data, []))
        elif kind == "get_err":
            responses.append([9, b"", 0, iid, r.choice(dars)])
            ops.append(0)
            expect.append(("raise",))
        elif kind == "get_err_last":
            nb = r.choice([2, 3, 9])
            for j in range(nb - 1):
                responses.append([10, bytes(r.getrandbits(8) for _ in range(r.randrange(0, 9))), j + 1, iid, 0])
            responses.append([12, b"", nb, iid, r.choice(dars)])
            ops.append(0)
            expect.append(("raise", None, [[5, j + 1, iid] for j in range(nb - 1)]))      # the blocks before the error are acknowledged
        elif kind == "set":
            code = r.choice([0] + dars)
            responses.append([13, b"", 0, iid, code])
            ops.append(1)
            expect.append(("set", code, iid))
        elif kind == "action":
            st = r.choice([0, 0, 1, 3, 250])
            responses.append([14, b"", 0, iid, st])
            ops.append(2)
            expect.append(("none",) if st == 0 else ("raise",))
        elif kind == "action_data":
            st = r.choice([0, 0, 0, 2])
            d = bytes(r.getrandbits(8) for _ in range(r.randrange(0, 20)))
            responses.append([15, d, 0, iid, st])
            ops.append(2)
            expect.append(("adata", d) if st == 0 else ("raise",))
        elif kind == "action_err":
            responses.append([16, b"", 0, iid, r.choice([0, 0, 1, 3])])        # an error as return parameters raises even with status SUCCESS
            ops.append(2)
            expect.append(("raise",))
        else:
            responses.append([r.choice([13, 14, 18, 17]), b"", 0, iid, 0])
            ops.append(0)
            expect.append(("raise",))
        if kind == "get_unexpected":
            break                  # a wrong kind of answer is refused by the association and leaves the request outstanding
        # an error answer ends the request: the association must be usable for the next one, so the session goes on
    return [False, responses, ops], expect


def run(ctx):
    r = lib.rng("C19")
    sessions = [make_session(r, ctx, r.choice([1, 2, 4, 8, 20])) for _ in range(ctx.scale(150, 2000))]
    small = [s for s in sessions if sum(len(x[1]) for x in s[0][1]) < 30000]
    ctx.corr([("client_script", s[0]) for s in small] + [("client_script", [True] + s[0][1:]) for s in small[::5]], impl, "client_script",
             nontrivial=lambda a, out: True, decisive=lambda op, a: True)
    for cfg in ("plain", "pre_c"):
        for args, expect in sessions if cfg == "plain" else sessions[::3]:
            a = list(args)
            if cfg == "pre_c":
                a[0] = True
            out = run_session(a, cfg)
            outs, state, sent, left = out
            ctx.tried("session:" + cfg, key=(cfg, len(expect), tuple(e[0] for e in expect), len(args[1])))
            case = {"config": cfg, "session": lib.v_text(args) if sum(len(x[1]) for x in args[1]) < 3000 else None, "ops": args[2], "nresp": len(args[1])}
            acks = [s for s in sent if s[0] == 5]
            want_acks = [x for e in expect if len(e) > 2 and e[0] in ("data", "raise") for x in e[2]]
            unexpected_last = bool(args[1]) and args[1][-1][0] in (13, 14, 18, 17) and args[2][-1] == 0
            for e, o in zip(expect, outs):
                if e[0] == "data" and o != e[1]:
                    ctx.fail("get_returned_wrong_data", dict(case, expected_len=len(e[1])), e[1].hex()[:80], lib.v_text(o)[:80])
                    break
                if e[0] == "raise" and not isinstance(o, E):
                    ctx.fail("error_passed_as_data", case, "raise", lib.v_text(o)[:80])
                    break
                if e[0] == "set" and o != [13, b"", 0, e[2], e[1]]:
                    ctx.fail("set_result_changed", case, str(e[1]), lib.v_text(o)[:80])
                    break
                if e[0] == "none" and o is not None:
                    ctx.fail("action_result", case, "None", lib.v_text(o)[:80])
                    break
                if e[0] == "adata" and o != e[1]:
                    ctx.fail("action_data", case, e[1].hex()[:60], lib.v_text(o)[:80])
                    break
            else:
                if acks[:len(want_acks)] != want_acks:
                    ctx.fail("block_acknowledgements", case, lib.v_text(want_acks)[:200], lib.v_text(acks)[:200])
                elif not unexpected_last and state != 2:
                    ctx.fail("not_ready_after_session", case, "READY", str(state))
    ctx.sample({"kind": "session", "ops": sessions[2][0][2], "responses": len(sessions[2][0][1])})


def replay(ctx, rp):
    c = rp["case"]
    if not c.get("session"):
        return True
    args = lib.v_parse(c["session"])
    out = run_session(args, c.get("config", "plain"))
    if c.get("config", "plain") != "plain":
        args = [True] + args[1:]
    m = lib.run_model([("client_script", args)])[0]
    return lib.canon(out) != lib.canon(m)
