"""C01 — xDLMS APDUs encode to the standard A-XDR bytes and decoding inverts encoding."""
import datetime
import lib
from lib import E, guarded

RULE = ("every APDU kind with boundary-complete field grids: invoke-id 0..15 x both flags, every member of every result / "
        "error / interface enumeration (taken from the source), OBIS byte boundaries, attribute/method ids 0/1/127/128/255, "
        "block numbers and counters 0, 1, 2^32-1 and random, long-invoke-ids 0, 2^24-1 and random, payload / ciphertext "
        "lengths 0,1,2,127,128,129,255,256,257,1000,65535,70000 and random; each value is encoded by the implementation and "
        "by the model (compared), compared with the extracted standard encoder, decoded again through the tag-dispatching "
        "decoder and compared with the original; the decoder also runs on truncations, bit flips and random bytes. "
        "non-trivial = distinct inputs that produced a value")
ASSUMPTIONS = ["value domain: optional fields the code treats by truthiness are identified with their falsy representative "
               "(None == b''); InitiateRequest fields the encoder does not carry (quality of service, DLMS version, "
               "response-allowed) are fixed to what the decoder returns - known findings F01e/F01f"]


class Sel(bytes):
    def to_bytes(self):
        return bytes(self)


def mk_iid(x):
    from dlms_cosem.protocol.xdlms import InvokeIdAndPriority
    return InvokeIdAndPriority(*x)


def mk_attr(x, method=False):
    from dlms_cosem import cosem, enumerations as en
    cls = cosem.CosemMethod if method else cosem.CosemAttribute
    return cls(en.CosemInterface(x[0]), cosem.Obis(*x[1]), x[2])


def mk_dt(x):
    from props.C16 import mk_dt as m
    return m(x)


def mk_sc(x):
    from dlms_cosem.security import SecurityControlField
    return SecurityControlField(*x)


ERR_CLASSES = ["ApplicationReferenceError", "HardwareResourceError", "VdeStateError", "ServiceError", "DefinitionError", "AccessError",
               "InitiateError", "LoadDataError", "DataScopeError", "TaskError", "OtherError"]


def build(a):
    from dlms_cosem import enumerations as en
    from dlms_cosem.protocol import xdlms
    from dlms_cosem.protocol.xdlms.data_notification import LongInvokeIdAndPriority
    k = a[0]
    if k == 0:
        return xdlms.GetRequestNormal(mk_attr(a[1]), mk_iid(a[2]), None if a[3] is None else Sel(a[3]))
    if k == 1:
        return xdlms.GetRequestNext(a[1], mk_iid(a[2]))
    if k == 2:
        return xdlms.GetResponseNormal(a[1], mk_iid(a[2]))
    if k == 3:
        return xdlms.GetResponseNormalWithError(en.DataAccessResult(a[1]), mk_iid(a[2]))
    if k == 4:
        return xdlms.GetResponseWithBlock(a[1], a[2], mk_iid(a[3]))
    if k == 5:
        return xdlms.GetResponseLastBlock(a[1], a[2], mk_iid(a[3]))
    if k == 6:
        return xdlms.GetResponseLastBlockWithError(en.DataAccessResult(a[1]), a[2], mk_iid(a[3]))
    if k == 7:
        return xdlms.SetRequestNormal(mk_attr(a[1]), a[2], None, mk_iid(a[3]))
    if k == 8:
        return xdlms.SetResponseNormal(en.DataAccessResult(a[1]), mk_iid(a[2]))
    if k == 9:
        return xdlms.ActionRequestNormal(mk_attr(a[1], True), a[2], mk_iid(a[3]))
    if k == 10:
        return xdlms.ActionResponseNormal(en.ActionResultStatus(a[1]), mk_iid(a[2]))
    if k == 11:
        return xdlms.ActionResponseNormalWithData(en.ActionResultStatus(a[1]), a[2], mk_iid(a[3]))
    if k == 12:
        return xdlms.ActionResponseNormalWithError(en.ActionResultStatus(a[1]), en.DataAccessResult(a[2]), mk_iid(a[3]))
    if k == 13:
        return xdlms.DataNotification(LongInvokeIdAndPriority(*a[1]), None if a[2] is None else mk_dt(a[2]), a[3])
    if k == 14:
        return xdlms.ExceptionResponse(en.StateException(a[1]), en.ServiceException(a[2]), a[3])
    if k == 15:
        return xdlms.ConfirmedServiceError(getattr(en, ERR_CLASSES[a[1]])(a[2]))
    if k == 16:
        return xdlms.InitiateRequest(xdlms.Conformance(*a[1]), a[2], a[3], a[4], a[5], a[6])
    if k == 17:
        return xdlms.InitiateResponse(xdlms.Conformance(*a[1]), a[2], a[3], a[4])
    if k == 18:
        return xdlms.GlobalCipherInitiateRequest(mk_sc(a[1]), a[2], a[3])
    if k == 19:
        return xdlms.GlobalCipherInitiateResponse(mk_sc(a[1]), a[2], a[3])
    if k == 20:
        return xdlms.GeneralGlobalCipher(a[1], mk_sc(a[2]), a[3], a[4])
    raise KeyError(k)


def describe(o):
    """implementation object -> canonical list (same shape as the model's v_apdu)"""
    import attr
    from dlms_cosem.protocol import xdlms
    from dlms_cosem.protocol.xdlms.conformance import Conformance
    from props.C16 import canon_dt
    if o is None:
        return None

    def iid(x):
        return [x.invoke_id, x.confirmed, x.high_priority]

    def desc(x, m=False):
        ob = x.instance
        return [int(x.interface), bytes([ob.a, ob.b, ob.c, ob.d, ob.e, ob.f]), x.method if m else x.attribute]

    def sc(x):
        return [x.security_suite, x.authenticated, x.encrypted, x.broadcast_key, x.compressed]

    def conf(c):
        return [getattr(c, f.name) for f in attr.fields(Conformance)]

    def ob(x):
        return None if x is None else bytes(x)
    t = type(o)
    if t is xdlms.GetRequestNormal:
        return [0, desc(o.cosem_attribute), iid(o.invoke_id_and_priority), ob(o.access_selection)]
    if t is xdlms.GetRequestNext:
        return [1, o.block_number, iid(o.invoke_id_and_priority)]
    if t is xdlms.GetResponseNormal:
        return [2, bytes(o.data), iid(o.invoke_id_and_priority)]
    if t is xdlms.GetResponseNormalWithError:
        return [3, int(o.error), iid(o.invoke_id_and_priority)]
    if t is xdlms.GetResponseWithBlock:
        return [4, bytes(o.data), o.block_number, iid(o.invoke_id_and_priority)]
    if t is xdlms.GetResponseLastBlock:
        return [5, bytes(o.data), o.block_number, iid(o.invoke_id_and_priority)]
    if t is xdlms.GetResponseLastBlockWithError:
        return [6, int(o.error), o.block_number, iid(o.invoke_id_and_priority)]
    if t is xdlms.SetRequestNormal:
        return [7, desc(o.cosem_attribute), bytes(o.data), iid(o.invoke_id_and_priority)]
    if t is xdlms.SetResponseNormal:
        return [8, int(o.result), iid(o.invoke_id_and_priority)]
    if t is xdlms.ActionRequestNormal:
        return [9, desc(o.cosem_method, True), ob(o.data), iid(o.invoke_id_and_priority)]
    if t is xdlms.ActionResponseNormal:
        return [10, int(o.status), iid(o.invoke_id_and_priority)]
    if t is xdlms.ActionResponseNormalWithData:
        return [11, int(o.status), bytes(o.data), iid(o.invoke_id_and_priority)]
    if t is xdlms.ActionResponseNormalWithError:
        return [12, int(o.status), int(o.error), iid(o.invoke_id_and_priority)]
    if t is xdlms.DataNotification:
        l = o.long_invoke_id_and_priority
        return [13, [l.long_invoke_id, l.prioritized, l.confirmed, l.self_descriptive, l.break_on_error],
                None if o.date_time is None else canon_dt(o.date_time), bytes(o.body)]
    if t is xdlms.ExceptionResponse:
        return [14, int(o.state_error), int(o.service_error), o.invocation_counter_data]
    if t is xdlms.ConfirmedServiceError:
        return [15, ERR_CLASSES.index(type(o.error).__name__), int(o.error)]
    if t is xdlms.InitiateRequest:
        return [16, conf(o.proposed_conformance), o.proposed_quality_of_service, o.client_max_receive_pdu_size,
                o.proposed_dlms_version_number, o.response_allowed, ob(o.dedicated_key)]
    if t is xdlms.InitiateResponse:
        return [17, conf(o.negotiated_conformance), o.server_max_receive_pdu_size, o.negotiated_dlms_version_number, o.negotiated_quality_of_service]
    if t is xdlms.GlobalCipherInitiateRequest:
        return [18, sc(o.security_control), o.invocation_counter, bytes(o.ciphered_text)]
    if t is xdlms.GlobalCipherInitiateResponse:
        return [19, sc(o.security_control), o.invocation_counter, bytes(o.ciphered_text)]
    if t is xdlms.GeneralGlobalCipher:
        return [20, bytes(o.system_title), sc(o.security_control), o.invocation_counter, bytes(o.ciphered_text)]
    return [99, repr(type(o)).encode()]


def impl(op, a):
    from dlms_cosem.connection import XDlmsApduFactory

    def f():
        if op == "apdu_to_bytes":
            return build(a).to_bytes()
        if op == "xdlms_from_bytes":
            return describe(XDlmsApduFactory.apdu_from_bytes(a))
        raise KeyError(op)
    o = guarded(f)
    return lib.canon(o.value) if o.ok else E(lib.err_code(o))


_impl_plain = impl
impl = lib.with_bytearray_variant(_impl_plain, ['xdlms_from_bytes'])


LENS = [0, 1, 2, 127, 128, 129, 255, 256, 257, 1000, 65535, 70000]


def gen_values(ctx):
    from dlms_cosem import enumerations as en
    r = lib.rng("C01")
    rb = lambda n: bytes(r.getrandbits(8) for _ in range(n)) if n < 3000 else bytes([r.getrandbits(8)]) * n
    iids = [[i, c, h] for i in range(16) for c in (True, False) for h in (True, False)]
    ifaces = [int(x) for x in en.CosemInterface]
    dars = [int(x) for x in en.DataAccessResult]
    ars = [int(x) for x in en.ActionResultStatus]
    obis = [bytes(x) for x in ([0, 0, 1, 0, 0, 255], [255] * 6, [0] * 6, [1, 0, 127, 128, 255, 254], [1, 0, 99, 1, 0, 255])]
    ids = [0, 1, 2, 127, 128, 255]
    blocks = [0, 1, 255, 256, 65535, 65536, 2 ** 32 - 1]
    ri = lambda: r.choice(iids)
    rattr = lambda: [r.choice(ifaces), r.choice(obis + [rb(6)]), r.choice(ids)]
    out = []
    # boundary-complete single-field sweeps
    for i in iids:
        out += [[1, 7, i], [3, 1, i], [8, 0, i], [10, 0, i], [2, b"\x09\x01a", i]]
    for f in ifaces:
        out += [[0, [f, obis[0], 2], ri(), None], [9, [f, obis[1], 1], None, ri()]]
    for o in obis:
        for a in ids:
            out += [[0, [1, o, a], ri(), None], [7, [3, o, a], b"\x11\x05", ri()], [9, [15, o, a], b"\x09\x00", ri()]]
    for d in dars:
        out += [[3, d, ri()], [6, d, r.choice(blocks), ri()], [8, d, ri()], [12, r.choice(ars), d, ri()]]
    for s in ars:
        out += [[10, s, ri()], [11, s, rb(r.choice([0, 1, 5])), ri()], [12, s, r.choice(dars), ri()]]
    for b in blocks:
        out += [[1, b, ri()], [4, rb(3), b, ri()], [5, rb(3), b, ri()], [6, 1, b, ri()]]
    for n in LENS:
        if n > 1000 and not ctx.thorough and n != 65535:
            continue
        out += [[2, rb(n), ri()], [4, rb(n), r.choice(blocks), ri()], [5, rb(n), r.choice(blocks), ri()], [7, rattr(), rb(n), ri()],
                [9, rattr(), rb(n) if n else None, ri()], [11, 0, rb(n), ri()], [13, [r.getrandbits(24), True, False, True, False], None, rb(n)],
                [18, [0, True, True, False, False], r.choice(blocks), rb(n)], [19, [1, True, True, False, False], r.choice(blocks), rb(n)],
                [20, rb(8), [2, True, True, False, False], r.choice(blocks), rb(n)]]
    for n in (117, 118, 119, 120, 121, 122, 123, 124, 245, 250, 251, 252, 253):       # content length crosses 127/128 and 255/256
        out += [[20, rb(8), [0, True, True, False, False], 1, rb(n)], [18, [0, True, True, False, False], 1, rb(n)], [19, [0, True, True, False, False], 1, rb(n)]]
    for lid in (0, 1, 2 ** 24 - 1, 2 ** 16):
        for fl in range(16):
            out.append([13, [lid] + [bool(fl >> j & 1) for j in range(4)], None, b"\x00"])
    for dt in ([2020, 1, 1, 0, 3, 0, 0, None], [9999, 12, 31, 23, 59, 59, 990000, 60], [1, 1, 1, 0, 0, 0, 0, -840], [2024, 2, 29, 12, 0, 0, 0, 0]):
        out.append([13, [5, False, False, False, False], dt, b"\x09\x02ab"])
    for st in [int(x) for x in en.StateException]:
        for sv in [int(x) for x in en.ServiceException]:
            for c in ([None] if sv != 6 else [0, 1, 255, 256, 2 ** 32 - 1]):
                out.append([14, st, sv, c])
    for ci, cname in enumerate(ERR_CLASSES):
        for m in getattr(en, cname):
            out.append([15, ci, int(m)])
    for n in range(0, 2 ** 17, 331):
        flags = [bool(n >> j & 1) for j in range(17)]
        out += [[16, flags, 0, r.choice([0, 1, 1200, 65535]), 6, True, r.choice([None, rb(16), rb(32)])], [17, flags, r.choice([0, 500, 65535]), 6, r.choice([0, 0, 5, 255])]]
    for kl in (1, 16, 127, 128, 255, 256, 1000):
        out.append([16, [True] * 17, 0, 1200, 6, True, rb(kl)])
    for flags in ([True] * 17, [False] * 17, [True] + [False] * 16, [False, True] + [False] * 15, [False, False, True] + [False] * 14):
        out += [[16, flags, 0, 1200, 6, True, None], [17, flags, 500, 6, 0]]
    for title_len in (0, 1, 7, 8, 9, 16, 127, 128, 255, 256, 300):
        out.append([20, rb(title_len), [0, True, True, False, False], 7, rb(20)])
    for suite in (0, 1, 2):
        for fl in range(16):
            out.append([20, rb(8), [suite] + [bool(fl >> j & 1) for j in range(4)], r.getrandbits(32), rb(13)])
    # outside the canonical domain: compared with the model, not judged
    extra = [[0, rattr(), ri(), b"\x01\x02\x04\x05"], [0, rattr(), ri(), b"\x03abc"], [16, [False] * 17, None, 1200, 6, True, None], [16, [False] * 17, 3, 1200, 5, False, None],
             [1, 2 ** 32, ri()], [14, 1, 6, 2 ** 32], [9, rattr(), b"", ri()], [14, 1, 6, None], [14, 1, 2, 77],
             [17, [False] * 17, 70000, 6, 0], [2, b"", [16, True, True]], [2, b"", [255, True, True]]]
    for _ in range(ctx.scale(600, 20000)):
        k = r.randrange(21)
        n = r.choice([0, 1, 5, 30, 200])
        v = {0: lambda: [0, rattr(), ri(), None], 1: lambda: [1, r.getrandbits(32), ri()], 2: lambda: [2, rb(n), ri()], 3: lambda: [3, r.choice(dars), ri()],
             4: lambda: [4, rb(n), r.getrandbits(32), ri()], 5: lambda: [5, rb(n), r.getrandbits(32), ri()], 6: lambda: [6, r.choice(dars), r.getrandbits(32), ri()],
             7: lambda: [7, rattr(), rb(n), ri()], 8: lambda: [8, r.choice(dars), ri()], 9: lambda: [9, rattr(), rb(n) or None, ri()],
             10: lambda: [10, r.choice(ars), ri()], 11: lambda: [11, r.choice(ars), rb(n), ri()], 12: lambda: [12, r.choice(ars), r.choice(dars), ri()],
             13: lambda: [13, [r.getrandbits(24)] + [r.random() < .5 for _ in range(4)], None, rb(n)], 14: lambda: [14, 1, 6, r.getrandbits(32)],
             15: lambda: [15, 6, r.randrange(5)], 16: lambda: [16, [r.random() < .5 for _ in range(17)], 0, r.getrandbits(16), 6, True, None],
             17: lambda: [17, [r.random() < .5 for _ in range(17)], r.getrandbits(16), 6, 0], 18: lambda: [18, [r.randrange(3), True, True, False, False], r.getrandbits(32), rb(n)],
             19: lambda: [19, [r.randrange(3), True, True, False, False], r.getrandbits(32), rb(n)], 20: lambda: [20, rb(8), [r.randrange(3), True, True, False, False], r.getrandbits(32), rb(n)]}[k]()
        out.append(v)
    return out, extra


CLASSIFIERS = {
    # F01e: GetRequestNormal with an access selection does not decode to an equal value
    "C01.get_request_access_selection_not_inverted": lambda label, case: case.get("kind") == 0 and case.get("class") == "access_selection",
    # F01f: InitiateRequest never encodes quality of service, DLMS version or response-allowed
    "C01.initiate_request_fields_not_encoded": lambda label, case: case.get("kind") == 16 and case.get("class") == "fields_not_encoded",
}


def finding_class(v):
    if v[0] == 0 and v[3]:
        return "access_selection"
    if v[0] == 16 and not (v[2] == 0 and v[4] == 6 and v[5] is True):
        return "fields_not_encoded"
    return None


def canonical(a):
    """in the proved domain?"""
    k = a[0]
    if k == 0:
        return a[3] is None
    if k == 16:
        return a[2] == 0 and a[4] == 6 and a[5] is True
    if k in (7, 9):
        return k == 7 or bool(a[2]) or a[2] is None
    return True


def run(ctx):
    r = lib.rng("C01b")
    vals, extra = gen_values(ctx)
    ctx.corr([("apdu_to_bytes", v) for v in vals + extra], impl, "to_bytes", decisive=lambda op, a: canonical(a))
    enc = [(v, impl("apdu_to_bytes", v)) for v in vals + extra]
    good = [(v, b) for v, b in enc if isinstance(b, bytes)]
    dec = [b for _, b in good]
    # malformed stream: truncations, bit flips, random bytes
    mal = []
    for v, b in good[::max(1, len(good) // ctx.scale(400, 4000))]:
        if len(b) > 300:
            continue
        mal += [b[:k] for k in range(len(b))][::max(1, len(b) // 12)]
        for _ in range(6):
            x = bytearray(b)
            x[r.randrange(len(x))] ^= 1 << r.randrange(8)
            mal.append(bytes(x))
    tags = [1, 8, 14, 15, 33, 40, 216, 219, 192, 193, 195, 196, 197, 199, 0, 2, 255]
    mal += [bytes([r.choice(tags)]) + bytes(r.getrandbits(8) for _ in range(r.randrange(0, 24))) for _ in range(ctx.scale(3000, 60000))]
    mal += [bytes.fromhex(x) for x in ("c401c102", "c402c1000000000102", "c701c10001 02".replace(" ", ""), "c001", "c003c1", "c101", "c402c100000000010005", "")]
    # inputs whose tag byte belongs to an ACSE APDU (a flipped bit can produce one) are dispatched to the ACSE decoders, which
    # this property's model does not contain (error 100+k); they are C02's and C07's subject and are skipped here
    ctx.corr([("xdlms_from_bytes", b) for b in dec + mal], impl, "from_bytes", decisive=lambda op, a: True,
             skip_model=lambda m: isinstance(m, E) and 100 <= m.code < 120)
    # ---- search: an APDU object that was encoded once and whose fields are then changed encodes like a fresh object
    by_kind = {}
    for v in vals:
        by_kind.setdefault(v[0], []).append(v)
    for k, lst in by_kind.items():
        picks = lst[::max(1, len(lst) // ctx.scale(40, 400))]
        for v1, v2 in zip(picks, picks[1:] + picks[:1]):
            res = lib.encode_after_field_change(build, v1, v2)
            if res is None:
                continue
            ctx.tried("encode_after_field_change", key=lib.v_text(v1)[:100] + lib.v_text(v2)[:100])
            if lib.v_text(res[0]) != lib.v_text(res[1]):
                ctx.fail("encoding_stale_after_field_change", {"kind": k, "first": lib.v_text(v1)[:3000], "then": lib.v_text(v2)[:3000]},
                         lib.v_text(res[1])[:200], lib.v_text(res[0])[:200])
    # ---- search: the implementation against the extracted standard encoder and the inverse law
    allv = vals + extra
    spec = lib.run_model([("spec_apdu", v) for v in allv])
    for (v, b), sb in zip(enc, spec):
        fc = finding_class(v)
        case = {"apdu": lib.v_text(v)[:3000] if not isinstance(b, bytes) or len(b) < 1500 else None, "kind": v[0], "class": fc}
        ctx.tried("std_bytes_and_inverse", key=lib.v_text(v)[:200])
        sb = lib.canon(sb)
        if sb is None and fc is None:
            continue                                   # outside the domain (refused or unrepresentable values)
        if fc is None and b != sb:
            ctx.fail("encoding_differs_from_standard", case, lib.v_text(sb)[:200], lib.v_text(b)[:200])
            continue
        if not isinstance(b, bytes):
            continue
        back = impl("xdlms_from_bytes", b)
        want = lib.canon(v)
        if back != want:
            ctx.fail("decode_of_encode_differs", case, lib.v_text(want)[:200], lib.v_text(back)[:200])
    ctx.sample({"kind": "search", "apdu": lib.v_text(good[50][0])[:200], "bytes": good[50][1].hex()[:100]})


def replay(ctx, rp):
    c = rp["case"]
    if "then" in c:
        res = lib.encode_after_field_change(build, lib.v_parse(c["first"]), lib.v_parse(c["then"]))
        print("re-used object:", lib.v_text(res[0])[:200], "\nfresh object  :", lib.v_text(res[1])[:200])
        return lib.v_text(res[0]) != lib.v_text(res[1])
    if not c.get("apdu"):
        return True
    v = lib.v_parse(c["apdu"])
    b = impl("apdu_to_bytes", v)
    m = lib.run_model([("apdu_to_bytes", v)])[0]
    if lib.canon(m) != b:
        return True
    sb = lib.canon(lib.run_model([("spec_apdu", v)])[0])
    print("implementation:", lib.v_text(b)[:300], " standard:", lib.v_text(sb)[:300])
    if sb is not None and b != sb:
        return True
    return isinstance(b, bytes) and impl("xdlms_from_bytes", b) != lib.canon(v)
