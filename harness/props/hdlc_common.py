"""helpers shared by the HDLC connection checks (C10, C11, C18)"""
import lib
from lib import E, guarded
from props.C09 import build, canon_frame, classes, mk_addr

STATES = ["NOT_CONNECTED", "IDLE", "AWAITING_RESPONSE", "AWAITING_CONNECTION", "AWAITING_DISCONNECT", "CLOSED"]
NAMED = {"LocalProtocolError": 3, "HdlcParsingError": 7}
CLIENT = [16, None, False]
SERVER = [1, 17, True]


def sentinels():
    from dlms_cosem.hdlc import state as st
    return [getattr(st, n) for n in STATES]


def new_conn(link=None, client=CLIENT, server=SERVER):
    from dlms_cosem.hdlc.connection import HdlcConnection
    c = HdlcConnection(mk_addr(client), mk_addr(server))
    if link is not None:
        set_link(c, link)
    return c


def set_link(c, link):
    s, cssn, crsn, sssn, srsn = link
    c.state.current_state = sentinels()[s]
    c.client_ssn, c.client_rsn, c.server_ssn, c.server_rsn = cssn, crsn, sssn, srsn


def link_of(c):
    return [sentinels().index(c.state.current_state), c.client_ssn, c.client_rsn, c.server_ssn, c.server_rsn]


def snapshot(c):
    return link_of(c) + [len(c.buffer), c.buffer_search_position]


def kind_of(frame):
    return [type(frame) is k for k in classes()].index(True)


def ev(o):
    """outcome of next_event -> canonical event"""
    from dlms_cosem.hdlc import state as st
    if not o.ok:
        return E(lib.err_code(o, named=NAMED))
    if o.value is st.NEED_DATA:
        return None
    return [kind_of(o.value), canon_frame(o.value)]


def drain(c, client, server):
    from dlms_cosem.hdlc import frames
    evs = []
    fuel = len(c.buffer) + 4
    while fuel:
        fuel -= 1
        pos0 = c.buffer_search_position
        e = ev(guarded(c.next_event))
        evs.append(e)
        if isinstance(e, E):
            return evs
        if e is None:
            if c.buffer_search_position == pos0:
                return evs
            continue
        if link_of(c)[0] == 1 and e[1][3]:
            guarded(lambda: c.send(frames.ReceiveReadyFrame(mk_addr(server), mk_addr(client), None, False, True, c.server_rsn)))
    evs.append(E(2))
    return evs


def run_script(ops, client=CLIENT, server=SERVER):
    """execute a conn_script operation list on the real HdlcConnection"""
    c = new_conn(None, client, server)
    out = []
    for o in ops:
        code = o[0]
        if code == 0:
            c.receive_data(o[1])
            out.append(snapshot(c))
        elif code == 1:
            e = ev(guarded(c.next_event))
            out.append([e, snapshot(c)])
        elif code == 2:
            evs = drain(c, o[1], o[2])
            out.append([evs, snapshot(c)])
        elif code == 3:
            r = guarded(lambda: c.send(build([o[1]] + o[2:9])))
            out.append([lib.canon(r.value) if r.ok else E(lib.err_code(r, named=NAMED)), snapshot(c)])
        else:
            set_link(c, o[1:6])
            out.append(snapshot(c))
    return out
