"""C17 — IP wrapper frames by length; TCP transport returns whole APDUs for any chunking."""
import lib
from lib import E, guarded

RULE = ("correspondence: header pack/unpack over boundary+random ports/lengths/versions incl. out-of-range values, "
        "PDUs with matching and mismatching length fields, transport wrap, and transport recv over scripted sockets: "
        "every single and double cut of header+payload for short messages, random multi-splits down to 1-byte reads "
        "for long ones, back-to-back messages, early EOF; k successive recv() calls on one transport object over 1..6 "
        "messages (truncated / over-long streams); sessions of 1..5 send() calls (out-of-range ports, requests of "
        "65535..65537 bytes, answers cut short, unsolicited trailing message) comparing results, unread bytes and "
        "every sendall() argument.  search: send() output and recv() result against the "
        "extracted standard header.  non-trivial = distinct inputs that produced a value")
ASSUMPTIONS = ["the operating system delivers what the schedule says (each read returns >= 1 byte unless the peer closed); "
               "timeouts and OS errors are outside the model", "socket.recv with a negative size raises (as CPython's does)"]
TRUSTED_EXTRA = ["scripted socket object handed to BlockingTcpTransport.tcp_socket (recv/sendall only)"]
EDGE = [0, 1, 2, 16, 127, 128, 255, 256, 257, 32767, 32768, 65534, 65535]


class FakeSock:
    def __init__(self, stream, sched):
        self.stream, self.sched, self.sent = bytes(stream), list(sched), []

    def recv(self, n):
        if n < 0:
            raise ValueError("negative buffersize in recv")
        k = n if not self.sched else min(n, self.sched.pop(0))
        chunk, self.stream = self.stream[:k], self.stream[k:]
        return chunk

    def sendall(self, b):
        self.sent.append(bytes(b))


def transport(client=16, server=1):
    from dlms_cosem.clients.blocking_tcp_transport import BlockingTcpTransport
    return BlockingTcpTransport("localhost", 4059, client, server)


def _val(o):
    return lib.canon(o.value) if o.ok else E(lib.err_code(o))


def impl(op, a):
    from dlms_cosem.protocol.wrappers import WrapperHeader, WrapperProtocolDataUnit

    def f():
        if op == "whdr_to_bytes":
            return WrapperHeader(a[0], a[1], a[2], a[3]).to_bytes()
        if op == "whdr_from_bytes":
            h = WrapperHeader.from_bytes(a)
            return [h.source_wport, h.destination_wport, h.length, h.version]
        if op == "wpdu_from_bytes":
            p = WrapperProtocolDataUnit.from_bytes(a)
            h = p.wrapper_header
            return [p.data, [h.source_wport, h.destination_wport, h.length, h.version]]
        if op == "tcp_wrap":
            return transport(a[0], a[1]).wrap(a[2])
        raise KeyError(op)
    if op == "tcp_recv":
        t = transport()
        s = FakeSock(a[0], a[1])
        t.tcp_socket = s
        o = guarded(t.recv)
        return [_val(o), s.stream]
    if op == "tcp_recv_n":
        # k successive recv() calls of one transport object on one socket
        t = transport()
        s = FakeSock(a[0], a[1])
        t.tcp_socket = s
        return [[_val(guarded(t.recv)) for _ in range(a[2])], s.stream]
    if op == "tcp_session":
        # one transport object, one send() per request; the answers are on the scripted socket
        t = transport(a[0], a[1])
        s = FakeSock(a[3], a[4])
        t.tcp_socket = s
        return [[_val(guarded(lambda q=q: t.send(q))) for q in a[2]], s.stream, list(s.sent)]
    return _val(guarded(f))


_impl_plain = impl
impl = lib.with_bytearray_variant(_impl_plain, ['whdr_from_bytes', 'wpdu_from_bytes'])


def splits(total, r, ctx):
    """schedules (lists of read sizes) for a stream of `total` bytes"""
    out = [[], [total + 8]] + ([[1] * (total + 2)] if total <= 1100 else [[1] * 30 + [997] * (total // 997 + 2)])
    if total <= 40:
        out += [[i, total] for i in range(1, total)]
        out += [[i, j, total] for i in range(1, total) for j in range(1, total - i)] if total <= 24 else []
    for _ in range(ctx.scale(4, 30)):
        sch, left = [], total
        while left > 0:
            k = r.choice([1, 1, 2, 3, 4, 7, 8, 9, 100, 1460, r.randrange(1, max(2, left + 1))] if total <= 1100 or len(sch) < 12
                         else [536, 1460, 4096, r.randrange(200, max(201, left + 1))])
            sch.append(k)
            left -= k
        out.append(sch)
    return out


def run(ctx):
    # a transport object that has already wrapped / sent an APDU and whose addresses are then changed uses the addresses it has now
    for (c1, s1, c2, s2) in ((16, 1, 1, 17), (1, 1, 65535, 0), (16, 1, 16, 1)):
        t1 = transport(c1, s1)
        guarded(lambda: t1.wrap(b"first"))
        t1.client_logical_address, t1.server_logical_address = c2, s2
        o = guarded(lambda: t1.wrap(b"second!"))
        fresh = guarded(lambda: transport(c2, s2).wrap(b"second!"))
        ctx.tried("wrap_after_address_change", key=(c1, s1, c2, s2))
        if _val(o) != _val(fresh):
            ctx.fail("header_stale_after_address_change", {"reuse": [c1, s1, c2, s2]}, lib.v_text(_val(fresh))[:100], lib.v_text(_val(o))[:100])
    r = lib.rng("C17")
    hv = [[s, d, l, v] for s in (0, 1, 16, 65535, 65536) for d in (0, 1, 65535, 70000) for l in EDGE + [65536] for v in (1, 0, 2, 65535, 65536)]
    hv += [[r.randrange(65536), r.randrange(65536), r.randrange(65536), r.choice([1, r.randrange(65536)])] for _ in range(ctx.scale(3000, 100000))]
    ctx.corr([("whdr_to_bytes", h) for h in hv], impl, "whdr_to_bytes", decisive=lambda op, a: True)
    hb = [bytes(r.getrandbits(8) for _ in range(8)) for _ in range(ctx.scale(3000, 100000))] + [bytes(n) for n in range(0, 12)]
    hb += [bytes([0, 1, 0, 1, 0, 16]) + l.to_bytes(2, "big") for l in EDGE]
    ctx.corr([("whdr_from_bytes", b) for b in hb], impl, "whdr_from_bytes", decisive=lambda op, a: True)
    pd = []
    for l in [0, 1, 2, 7, 8, 9, 127, 128, 255, 256, 1000, 32767, 32768, 40000, 65535]:
        body = bytes(r.getrandbits(8) for _ in range(l))
        for decl in {l, max(0, l - 1), min(65535, l + 1), 0, 65535}:
            pd.append(bytes([0, 1]) + r.randrange(65536).to_bytes(2, "big") + r.randrange(65536).to_bytes(2, "big") + decl.to_bytes(2, "big") + body)
    pd += [bytes(r.getrandbits(8) for _ in range(n)) for n in range(0, 20)]
    ctx.corr([("wpdu_from_bytes", b) for b in pd], impl, "wpdu_from_bytes", decisive=lambda op, a: True)
    wr = [[c, s, bytes(r.getrandbits(8) for _ in range(l))] for c in (0, 16, 65535, 65536) for s in (1, 65535) for l in (0, 1, 127, 128, 255, 256, 32768, 65535, 65536)]
    ctx.corr([("tcp_wrap", w) for w in wr], impl, "tcp_wrap", decisive=lambda op, a: True)
    # ---- recv under schedules
    rc = []
    lens = [0, 1, 2, 5, 8, 16] + ([24] if ctx.thorough else []) + [127, 128, 255, 256, 1000, 32767, 32768, 40000, 65535]
    msgs = []
    for l in lens:
        payload = bytes(r.getrandbits(8) for _ in range(l))
        hdr = bytes([0, 1]) + r.choice([1, 16, 65535]).to_bytes(2, "big") + r.choice([1, 16, 65535]).to_bytes(2, "big") + l.to_bytes(2, "big")
        nxt = r.choice([b"", b"\x00\x01\x00\x01\x00\x10\x00\x02ab", bytes(r.getrandbits(8) for _ in range(5))])
        msgs.append((hdr, payload, nxt))
        for sch in splits(8 + l, r, ctx):
            rc.append([hdr + payload + nxt, sch])
        # early EOF
        for cut in {0, 1, 7, 8, 8 + l // 2, max(0, 8 + l - 1)}:
            rc.append([(hdr + payload)[:cut], r.choice([[], [1] * 40, [3, 5, 9]])])
    ctx.corr([("tcp_recv", c) for c in rc], impl, "tcp_recv",
             decisive=lambda op, a: all(x >= 1 for x in a[1]))
    ctx.exhaustive.append("every single and double cut position of header+payload for payloads of 0,1,2,5,8,16 bytes")
    # ---- several messages back to back on one stream, one transport object, k calls (C17_recv_stream_* theorems)
    rn = []
    for _ in range(ctx.scale(150, 3000)):
        n = r.choice([1, 2, 2, 3, 4, 6])
        parts = []
        for _ in range(n):
            l = r.choice([0, 0, 1, 2, 7, 8, 9, 16, 127, 128, 255, 256, 300, r.randrange(0, 2000)])
            parts.append(bytes([0, 1]) + r.choice([1, 16, 65535]).to_bytes(2, "big") + r.choice([1, 16, 65535]).to_bytes(2, "big")
                         + l.to_bytes(2, "big") + bytes(r.getrandbits(8) for _ in range(l)))
        stream = b"".join(parts)
        mode = r.randrange(4)
        if mode == 0:      # the stream ends inside the last message: the last call must be an error, the others whole
            stream = stream[:len(stream) - r.randrange(1, len(parts[-1]) + 1)] if len(parts[-1]) else stream
        elif mode == 1:    # unread bytes of a further message stay on the socket
            stream += bytes([0, 1, 0, 1, 0, 16, 0, 9]) + bytes(r.randrange(0, 9))
        for sch in r.sample(splits(len(stream), r, ctx), 3) + [[1] * r.randrange(0, 40)]:
            rn.append([stream, sch[:4000], n + (1 if mode == 2 else 0)])
    ctx.corr([("tcp_recv_n", c) for c in rn], impl, "tcp_recv_n",
             decisive=lambda op, a: all(x >= 1 for x in a[1]))
    # ---- whole sessions: send() per request (C17_session_any_schedule, C17_send_too_long_refused)
    ss = []
    for _ in range(ctx.scale(120, 2500)):
        n = r.choice([1, 2, 3, 5])
        cl, sv = r.choice([(16, 1), (1, 1), (65535, 65535), (0, 16), (65536, 1), (16, 70000)])
        reqs, ans = [], []
        for _ in range(n):
            ql = r.choice([0, 1, 2, 13, 64, 127, 128, 255, 256, 1000]) if r.random() < 0.97 else r.choice([65535, 65536, 65537])
            reqs.append(bytes(r.getrandbits(8) for _ in range(ql)))
            l = r.choice([0, 1, 2, 7, 8, 9, 127, 128, 255, 256, 700, r.randrange(0, 3000)])
            ans.append(bytes([0, r.choice([1, 1, 1, 2])]) + r.choice([1, 16, 65535]).to_bytes(2, "big") + r.choice([1, 16, 65535]).to_bytes(2, "big")
                       + l.to_bytes(2, "big") + bytes(r.getrandbits(8) for _ in range(l)))
        stream = b"".join(ans)
        mode = r.randrange(5)
        if mode == 0 and len(stream) > 1:      # the meter stops answering inside an answer
            stream = stream[:r.randrange(1, len(stream))]
        elif mode == 1:                         # an unsolicited message follows the answers
            stream += bytes([0, 1, 0, 1, 0, 16, 0, 2, 5, 6])
        for sch in r.sample(splits(len(stream), r, ctx), 2):
            ss.append([cl, sv, reqs, stream, sch[:4000]])
    ctx.corr([("tcp_session", c) for c in ss], impl, "tcp_session",
             decisive=lambda op, a: all(x >= 1 for x in a[4]))
    # ---- search against the standard header
    spec = lib.run_model([("spec_std_header", [1, 16, 1, len(p)]) for _, p, _ in msgs])
    for (hdr, payload, nxt), sh in zip(msgs, spec):
        t = transport(16, 1)
        reply_hdr = bytes([0, 1, 0, 1, 0, 16]) + len(payload).to_bytes(2, "big")
        s = FakeSock(reply_hdr + payload[::-1] + nxt, [1, 2, 3, 1, 1, 1, 2, 500, 1, 7] * 4)
        t.tcp_socket = s
        o = guarded(lambda: t.send(payload))
        ctx.tried("send_then_recv", key=(len(payload), len(nxt)))
        if s.sent != [sh + payload]:
            ctx.fail("send_not_header_plus_payload", {"payload": payload.hex()[:200], "len": len(payload)}, (sh + payload).hex()[:80], repr(s.sent)[:160])
        if not o.ok or bytes(o.value) != payload[::-1] or s.stream != nxt:
            ctx.fail("recv_not_exact_payload", {"payload_len": len(payload), "next": nxt.hex(), "sched": "[1,2,3,1,1,1,2,500,1,7]*4"},
                     "payload reversed, next unread", repr(o)[:120] + " left=" + str(len(s.stream)))
    ctx.sample({"kind": "search", "payload_len": len(msgs[3][1]), "std_header": spec[3].hex()})


def replay(ctx, rp):
    c = rp["case"]
    if "reuse" in c:
        c1, s1, c2, s2 = c["reuse"]
        t1 = transport(c1, s1)
        guarded(lambda: t1.wrap(b"first"))
        t1.client_logical_address, t1.server_logical_address = c2, s2
        return _val(guarded(lambda: t1.wrap(b"second!"))) != _val(guarded(lambda: transport(c2, s2).wrap(b"second!")))
    r = lib.rng("replay")
    l = c.get("payload_len", c.get("len", 5))
    payload = bytes(r.getrandbits(8) for _ in range(l))
    nxt = bytes.fromhex(c.get("next", ""))
    t = transport(16, 1)
    s = FakeSock(bytes([0, 1, 0, 1, 0, 16]) + l.to_bytes(2, "big") + payload + nxt, [1, 2, 3, 1, 1, 1, 2, 500, 1, 7] * 4)
    t.tcp_socket = s
    o = guarded(lambda: t.send(payload))
    sh = lib.run_model([("spec_std_header", [1, 16, 1, l])])[0]
    return (not o.ok) or bytes(o.value) != payload or s.stream != nxt or s.sent != [sh + payload]
