"""C12 — check sequences equal CRC-16/X-25 for every message."""
import lib
from lib import E, guarded

RULE = ("correspondence: all 256 table entries, all 256 byte reversals (exhaustive), per-byte register "
        "update from boundary + random (register, byte) pairs, calculate_for on byte strings of length "
        "0..4096 in both byte orders, plus messages crafted so that the running register passes through 0x0000, 0xFFFF and other boundary values after k bytes (every k <= 160 and block-size multiples up to 4094); search: implementation vs the extracted X-25 reference and the "
        "residue 0xF0B8, on fresh objects, on one shared object in mixed call orders, and again after further calculator objects (another instance, a subclass with another polynomial constant) were created and used.  non-trivial = distinct inputs that produced a value")
ASSUMPTIONS = ["the 2^24 (register, byte) update space is covered in the proof by 2^16 sweeps + one algebraic "
               "lemma, and on the Python side by sampling (thorough: 2 000 000 pairs)"]


def impl(op, arg):
    from dlms_cosem import crc
    c = crc.CRCCCITT()
    if op == "crc_table_entry":
        o = guarded(lambda: c.crc_ccitt_table[arg])
    elif op == "crc_reverse_byte":
        o = guarded(lambda: ord(crc.reverse_byte(arg)))
    elif op == "crc_calculate_from":
        def f():
            c.starting_value = arg[0]
            return c._calculate(arg[1])
        o = guarded(f)
    elif op == "crc_calculate_for":
        o = guarded(lambda: c.calculate_for(arg[0], arg[1]))
    else:
        raise KeyError(op)
    return o.value if o.ok else E(lib.err_code(o))


def messages(ctx):
    r = lib.rng("C12-msg")
    msgs = [b"", b"\x00", b"\xff", b"123456789", b"\x7e", bytes(range(256)), b"\x00" * 64, b"\xff" * 64]
    n = ctx.scale(300, 5000)
    for i in range(n):
        ln = r.choice([1, 2, 3, 7, 8, 16, 127, 128, 255, 256, 1000, 2047, 4096, r.randrange(0, 4097)]) if i % 3 else r.randrange(0, 200)
        msgs.append(bytes(r.getrandbits(8) for _ in range(ln)))
    return msgs


# ---- input generation helper (not an oracle): drive the CRC register through chosen values
_T = []
for _i in range(256):
    _c = _i
    for _ in range(8):
        _c = (_c >> 1) ^ 0x8408 if _c & 1 else _c >> 1
    _T.append(_c)
_HI = {t >> 8: i for i, t in enumerate(_T)}


def _reg(msg, reg=0xFFFF):
    for b in msg:
        reg = (reg >> 8) ^ _T[(reg ^ b) & 0xFF]
    return reg


def force_register(prefix, target):
    """two bytes that bring the (reflected) X-25 register to `target` after `prefix`"""
    reg = _reg(prefix)
    idx = _HI[target >> 8]
    for b1 in range(256):
        r1 = (reg >> 8) ^ _T[(reg ^ b1) & 0xFF]
        if (_T[idx] ^ (r1 >> 8)) & 0xFF == target & 0xFF:
            return bytes([b1, idx ^ (r1 & 0xFF)])
    raise AssertionError("no forcing bytes")


def crafted_messages(ctx):
    """messages whose running register equals a boundary value (0, 0xFFFF, 1, 0x8000, 0x00FF, 0xFF00) after k
    bytes, for every k up to 160 and for block-size multiples up to 4096, followed by a short tail"""
    r = lib.rng("C12-craft")
    ks = list(range(2, 161)) + [192, 255, 256, 257, 320, 384, 448, 512, 640, 768, 1024, 1536, 2048, 3072, 4094]
    out = []
    for k in ks:
        for target in ((0x0000, 0xFFFF) if k > 160 or k % 8 else (0x0000, 0xFFFF, 0x0001, 0x8000, 0x00FF, 0xFF00)):
            prefix = bytes(r.getrandbits(8) for _ in range(k - 2))
            m = prefix + force_register(prefix, target)
            assert _reg(m) == target
            out.append(m + bytes(r.getrandbits(8) for _ in range(r.choice([1, 2, 5]))))
            if ctx.thorough:
                out.append(m)
    return out


def check_msg(ctx, msg, spec_fcs, spec_res):
    from dlms_cosem import crc
    from dlms_cosem.hdlc import frames
    for name, f in (("CRCCCITT().calculate_for", lambda: crc.CRCCCITT().calculate_for(msg)),
                    ("frames.FCS.calculate_for", lambda: frames.FCS.calculate_for(msg)),
                    ("frames.HCS.calculate_for", lambda: frames.HCS.calculate_for(msg))):
        o = guarded(f)
        ctx.tried("fcs", key=(name, msg[:64], len(msg)))
        got = bytes(o.value) if o.ok and isinstance(o.value, (bytes, bytearray)) else repr(o)
        if got != spec_fcs:
            ctx.fail("fcs_is_x25", {"msg": msg.hex(), "via": name}, spec_fcs.hex(), got.hex() if isinstance(got, bytes) else got)
    o = guarded(lambda: crc.CRCCCITT().calculate_for(msg, lsb_first=True))
    got = bytes(o.value) if o.ok and isinstance(o.value, (bytes, bytearray)) else repr(o)
    if got != spec_fcs[::-1]:
        ctx.fail("fcs_is_x25_msb_first", {"msg": msg.hex(), "lsb_first": True}, spec_fcs[::-1].hex(), got.hex() if isinstance(got, bytes) else got)
    if spec_res != 0xF0B8:
        ctx.fail("residue", {"msg": msg.hex()}, "f0b8", "%x" % spec_res)


def run(ctx):
    r = lib.rng("C12")
    # --- correspondence
    ctx.corr([("crc_table_entry", i) for i in range(256)], impl, "table")
    ctx.corr([("crc_reverse_byte", i) for i in range(256)], impl, "reverse")
    ctx.exhaustive += ["256 table entries", "256 byte reversals"]
    regs = [0, 1, 0x00FF, 0x0100, 0x7FFF, 0x8000, 0x8408, 0x1021, 0xFF00, 0xFFFE, 0xFFFF]
    pairs = [(a, bytes([b])) for a in regs for b in (0, 1, 0x7E, 0x80, 0xFF)]
    n = ctx.scale(30000, 2000000)
    pairs += [(r.getrandbits(16), bytes([r.getrandbits(8)])) for _ in range(n)]
    for k in range(0, len(pairs), 200000):
        ctx.corr([("crc_calculate_from", list(p)) for p in pairs[k:k + 200000]], impl, "bytestep")
    msgs = messages(ctx) + crafted_messages(ctx)
    ctx.corr([("crc_calculate_for", [m, lf]) for m in msgs for lf in (False, True)], impl, "calculate_for")
    # --- search against the reference
    spec = lib.run_model([("spec_x25_fcs", m) for m in msgs])
    from dlms_cosem import crc
    appended = []
    for m in msgs:
        o = guarded(lambda: crc.CRCCCITT().calculate_for(m))
        appended.append(m + (bytes(o.value) if o.ok and isinstance(o.value, (bytes, bytearray)) else b""))
    res = lib.run_model([("spec_x25_reg", a) for a in appended])
    for m, s, rr in zip(msgs, spec, res):
        check_msg(ctx, m, s, rr)
    # one calculator object used for many messages, both byte orders interleaved and repeated (a value must not depend on
    # what the object computed before)
    shared = crc.CRCCCITT()
    order = [(i, lf) for i in range(len(msgs)) for lf in (True, False, False, True)]
    order += [(i, lf) for i in reversed(range(0, len(msgs), 3)) for lf in (False, True)]
    for i, lf in order:
        o = guarded(lambda: shared.calculate_for(msgs[i], lsb_first=lf))
        got = bytes(o.value) if o.ok and isinstance(o.value, (bytes, bytearray)) else repr(o)
        want = spec[i][::-1] if lf else spec[i]
        ctx.tried("fcs_shared_object", key=(i, lf))
        if got != want:
            ctx.fail("fcs_depends_on_earlier_calls", {"msg": msgs[i].hex(), "lsb_first": lf, "shared_object": True}, want.hex(), got.hex() if isinstance(got, bytes) else got)
            break
    # a call that fails part-way (input that is not a byte string) leaves nothing behind on the calculator object
    for bad in ([0x7E, 0xA0, None], [1, 2, "x"], [300], "text", None, [0x7E, -1]):
        for i in (9, 40, 3):
            guarded(lambda: shared.calculate_for(bad))
            o = guarded(lambda: shared.calculate_for(msgs[i]))
            got = bytes(o.value) if o.ok and isinstance(o.value, (bytes, bytearray)) else repr(o)
            ctx.tried("fcs_after_failed_call", key=(repr(bad), i))
            if got != spec[i]:
                ctx.fail("fcs_depends_on_earlier_failed_call", {"msg": msgs[i].hex(), "after_failed_call": repr(bad)}, spec[i].hex(), got.hex() if isinstance(got, bytes) else got)
                break
    # the check sequences frames carry: a frame object serialised once and then changed carries the check values of what it
    # emits now (HCS / FCS are this property's check value as the frame classes compute it)
    from props import C09
    C09.reuse_search(ctx, C09.gen_frames(ctx)[:ctx.scale(3000, 30000)], "fcs_of_")
    # other calculator objects - further instances, a subclass with another polynomial constant - do not disturb the X-25
    # check values (the table is a class attribute shared by every instance). Last, because a failure poisons the process.
    guarded(disturb)
    calculators = [("earlier object", shared)] + module_level_calculators()
    for i in list(range(0, len(msgs), 5))[:200]:
        for name, obj in calculators:
            o = guarded(lambda: obj.calculate_for(msgs[i]))
            got = bytes(o.value) if o.ok and isinstance(o.value, (bytes, bytearray)) else repr(o)
            ctx.tried("fcs_after_other_instances", key=(i, name))
            if got != spec[i]:
                ctx.fail("fcs_changed_by_other_calculator_objects", {"msg": msgs[i].hex(), "after_other_instances": True, "calculator": name},
                         spec[i].hex(), got.hex() if isinstance(got, bytes) else got)
                break
        else:
            continue
        break
    ctx.sample({"kind": "search", "msg": msgs[9].hex()[:80], "x25_fcs": spec[9].hex()})


def disturb():
    """create and use further calculator objects: a plain one and a subclass configured for another polynomial"""
    from dlms_cosem import crc

    class OtherPolynomial(crc.CRCCCITT):
        crc_ccitt_constant = 0x8005
    crc.CRCCCITT().calculate_for(b"abc")
    o = OtherPolynomial()          # the last object created is the foreign one (a further plain instance could hide the effect)
    o.calculate_for(b"abc")


def module_level_calculators():
    from dlms_cosem.hdlc import frames
    return [(n, getattr(frames, n)) for n in ("FCS", "HCS") if hasattr(getattr(frames, n, None), "calculate_for")]


def replay(ctx, rp):
    if "then" in rp["case"]:
        from props import C09
        return C09.replay(ctx, rp)
    msg = bytes.fromhex(rp["case"]["msg"])
    spec = lib.run_model([("spec_x25_fcs", msg)])[0]
    from dlms_cosem import crc
    o = guarded(lambda: crc.CRCCCITT().calculate_for(msg))
    app = msg + (bytes(o.value) if o.ok else b"")
    res = lib.run_model([("spec_x25_reg", app)])[0]
    check_msg(ctx, msg, spec, res)
    if rp["case"].get("after_failed_call"):
        shared = crc.CRCCCITT()
        guarded(lambda: shared.calculate_for(eval(rp["case"]["after_failed_call"], {})))
        o = guarded(lambda: shared.calculate_for(msg))
        got = bytes(o.value) if o.ok else None
        print("after a failed call:", got.hex() if got else got, "expected", spec.hex())
        return got != spec
    if rp["case"].get("after_other_instances"):
        earlier = crc.CRCCCITT()
        guarded(disturb)
        for name, obj in [("earlier object", earlier)] + module_level_calculators():
            o = guarded(lambda: obj.calculate_for(msg))
            got = bytes(o.value) if o.ok else None
            if got != spec:
                print(name, "after other calculator objects were created:", got.hex() if got else got, "expected", spec.hex())
                return True
    if rp["case"].get("shared_object"):
        shared = crc.CRCCCITT()
        for lf in (True, False, False, True):
            o = guarded(lambda: shared.calculate_for(msg, lsb_first=lf))
            got = bytes(o.value) if o.ok else None
            if got != (spec[::-1] if lf else spec):
                print("same object, lsb_first =", lf, ":", got.hex() if got else got, "expected", (spec[::-1] if lf else spec).hex())
                return True
    return bool(ctx.failures)


