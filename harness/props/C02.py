"""C02 — ACSE APDUs (AARQ/AARE/RLRQ/RLRE) encode to valid BER and decode back unchanged."""
import lib
from lib import E, guarded
from props import C01

RULE = ("AARQ: plain/ciphered context x every authentication mechanism (and none) x system title / certificate / password "
        "lengths 0,1,8,16,63,64 plus boundary lengths chosen so that inner and outer TLV lengths cross 127/128 and 255/256, "
        "plain and global-ciphered initiate requests of several lengths, every optional raw component present/absent; "
        "AARE: every association result x every diagnostic of both kinds x the same optional components x every user-"
        "information kind; RLRQ/RLRE: every reason (and none) x user information present/absent. Each value is encoded by the "
        "implementation and the model (compared), compared with the extracted standard BER writer, judged by an "
        "independent TLV well-formedness checker, decoded again and compared with the original; decoders also run on "
        "truncated, bit-flipped and random inputs. non-trivial = distinct inputs that produced a value")
ASSUMPTIONS = ["value domain: authentication None and AuthenticationMechanism.NONE are identified (the code treats the field by "
               "truthiness); the user-information content lies in the domain of C01",
               "asn1crypto's decoding of the result-source-diagnostic is modelled on the canonical five-byte form only; other "
               "contents are excluded from the malformed-input comparison (model answers 'unmodelled')"]
TRUSTED_EXTRA = ["asn1crypto (third-party) encodes/decodes the result-source-diagnostic CHOICE: modelled, not verified"]

MECHS = [None, 0, 1, 2, 3, 4, 5, 6, 7]


def mk_user(v):
    from dlms_cosem.protocol.acse import UserInformation
    return None if v is None else UserInformation(C01.build(v))


def d_user(u):
    return None if u is None else C01.describe(u.content)


def mk_mech(m):
    from dlms_cosem import enumerations as en
    return None if m is None else en.AuthenticationMechanism(m)


def ob(x):
    return None if x is None else bytes(x)


def build(kind, a):
    from dlms_cosem import enumerations as en
    from dlms_cosem.protocol import acse
    if kind == "aarq":
        return acse.ApplicationAssociationRequest(
            user_information=mk_user(a[0]), system_title=a[1], public_cert=a[2], authentication=mk_mech(a[3]), ciphered=a[4],
            authentication_value=a[5], calling_ae_invocation_identifier=a[6], called_ap_title=a[7], called_ae_qualifier=a[8],
            called_ap_invocation_identifier=a[9], called_ae_invocation_identifier=a[10], calling_ap_invocation_identifier=a[11],
            implementation_information=a[12])
    if kind == "aare":
        diag = (en.AcseServiceProviderDiagnostics if a[1][0] else en.AcseServiceUserDiagnostics)(a[1][1])
        return acse.ApplicationAssociationResponse(
            result=en.AssociationResult(a[0]), result_source_diagnostics=diag, ciphered=a[2], authentication=mk_mech(a[3]),
            system_title=a[4], public_cert=a[5], authentication_value=a[6], user_information=mk_user(a[7]),
            implementation_information=a[8], responding_ap_invocation_id=a[9], responding_ae_invocation_id=a[10])
    if kind == "rlrq":
        return acse.ReleaseRequest(reason=None if a[0] is None else en.ReleaseRequestReason(a[0]), user_information=mk_user(a[1]))
    if kind == "rlre":
        return acse.ReleaseResponse(reason=None if a[0] is None else en.ReleaseResponseReason(a[0]), user_information=mk_user(a[1]))
    raise KeyError(kind)


def describe(kind, o):
    from dlms_cosem import enumerations as en
    oi = lambda x: None if x is None else int(x)
    if kind == "aarq":
        return [d_user(o.user_information), ob(o.system_title), ob(o.public_cert), oi(o.authentication), bool(o.ciphered), ob(o.authentication_value),
                ob(o.calling_ae_invocation_identifier), ob(o.called_ap_title), ob(o.called_ae_qualifier), ob(o.called_ap_invocation_identifier),
                ob(o.called_ae_invocation_identifier), ob(o.calling_ap_invocation_identifier), ob(o.implementation_information)]
    if kind == "aare":
        d = o.result_source_diagnostics
        return [int(o.result), [isinstance(d, en.AcseServiceProviderDiagnostics), int(d)], bool(o.ciphered), oi(o.authentication), ob(o.system_title),
                ob(o.public_cert), ob(o.authentication_value), d_user(o.user_information), ob(o.implementation_information),
                ob(o.responding_ap_invocation_id), ob(o.responding_ae_invocation_id)]
    return [oi(o.reason), d_user(o.user_information)]


CLS = {"aarq": "ApplicationAssociationRequest", "aare": "ApplicationAssociationResponse", "rlrq": "ReleaseRequest", "rlre": "ReleaseResponse"}


def impl(op, a):
    from dlms_cosem.protocol import acse
    kind, what = op.split("_", 1)

    def f():
        if what == "to_bytes":
            return build(kind, a).to_bytes()
        return describe(kind, getattr(acse, CLS[kind]).from_bytes(a))
    o = guarded(f)
    return lib.canon(o.value) if o.ok else E(lib.err_code(o))


_impl_plain = impl
impl = lib.with_bytearray_variant(_impl_plain, ["aarq_from_bytes", "aare_from_bytes", "rlrq_from_bytes", "rlre_from_bytes"])


def wellformed(b, depth=0, constructed_tags=(0x60, 0x61, 0x62, 0x63, 0xA1, 0xA2, 0xA3, 0xA4, 0xA5, 0xA6, 0xA7, 0xAA, 0xAC, 0xBE)):
    """independent judge: a sequence of definite-length TLVs that exactly fills b; constructed ones recursively.
       Components the library treats as opaque byte strings (called-AP-title ... 0xA2-0xA9 in an AARQ) are not entered."""
    i = 0
    while i < len(b):
        tag = b[i]
        i += 1
        if i >= len(b):
            return False
        first = b[i]
        i += 1
        if first < 0x80:
            n = first
        else:
            k = first & 0x7F
            if k == 0 or i + k > len(b) or b[i] == 0 or (k == 1 and b[i] < 0x80):
                return False                      # indefinite, truncated or non-minimal length
            n = int.from_bytes(b[i:i + k], "big")
            i += k
        if i + n > len(b):
            return False
        if depth == 0 and tag in (0x60, 0x61, 0x62, 0x63):
            if not wellformed(b[i:i + n], 1):
                return False
        i += n
    return True


def gen_values(ctx):
    from dlms_cosem import enumerations as en
    r = lib.rng("C02")
    rb = lambda n: bytes(r.getrandbits(8) for _ in range(n))
    conf = lambda: [r.random() < .5 for _ in range(17)]
    ir = lambda: [16, conf(), 0, r.choice([0, 1200, 65535]), 6, True, r.choice([None, None, rb(16)])]
    glo = lambda n: [18, [r.randrange(3), True, True, False, False], r.getrandbits(32), rb(n)]
    iresp = lambda: [17, conf(), r.choice([0, 500, 65535]), 6, r.choice([0, 0, 7])]
    gloresp = lambda n: [19, [r.randrange(3), True, True, False, False], r.getrandbits(32), rb(n)]
    cse = lambda: [15, 6, r.randrange(5)]
    lens = [None] + list(range(0, 21)) + [63, 64]          # every short length: a decoder must not special-case one
    out = []
    # ---- AARQ
    base_q = lambda: [ir(), None, None, None, False, None] + [None] * 7
    for m in MECHS:
        for c in (False, True):
            for tl in lens:
                for vl in ((None, 0, 8, 64) if tl in (None, 0, 8, 16) else (None, 6, 7, 9)):
                    a = base_q()
                    a[1], a[3], a[4], a[5] = (None if tl is None else rb(tl)), m, c, (None if vl is None else rb(vl))
                    out.append(("aarq", a))
    for cl in lens + [100, 127, 128, 200, 255, 256, 300, 1000]:
        a = base_q(); a[2] = None if cl is None else rb(cl); a[3] = 5; a[5] = rb(16); a[1] = rb(8); out.append(("aarq", a))
    for n in list(range(60, 90)) + list(range(180, 215)) + [0, 1, 500, 70000]:          # total and inner lengths cross 127/128 and 255/256
        a = base_q(); a[0] = glo(n); a[4] = True; a[1] = rb(8); out.append(("aarq", a))
        a = base_q(); a[5] = rb(min(n, 300)); a[3] = 1; out.append(("aarq", a))
        a = base_q(); a[1] = rb(min(n, 300)); out.append(("aarq", a))
    for mask in range(128):
        a = base_q()
        for j in range(7):
            if mask >> j & 1:
                a[6 + j] = rb(r.choice([0, 1, 3, 9]))
        out.append(("aarq", a))
    # values that end / begin with NUL or blank bytes or consist of them: no layer may trim a title, password or challenge
    PAD = [b"\x00", b"abc\x00", b"\x00\x00abc", b"abc\x00\x00\x00", bytes(8), b" pw ", b"pw\n", b"\x00" * 16, b"12345678\x00", b"\xff\x00"]
    for v in PAD:
        for m in (1, 5):
            a = base_q(); a[3], a[5], a[1] = m, v, r.choice([None, v[:8].ljust(8, b"\x00")]); out.append(("aarq", a))
            e = [0, [False, 0], False, m, r.choice([None, v[:8].ljust(8, b"\x00")]), None, v, iresp(), None, None, None]; out.append(("aare", e))
    # ---- AARE
    base_e = lambda: [0, [False, 0], False, None, None, None, None, iresp(), None, None, None]
    for res in [int(x) for x in en.AssociationResult]:
        for prov, cls in ((False, en.AcseServiceUserDiagnostics), (True, en.AcseServiceProviderDiagnostics)):
            for d in cls:
                a = base_e(); a[0] = res; a[1] = [prov, int(d)]; out.append(("aare", a))
    for m in MECHS:
        for c in (False, True):
            for tl in lens:
                for vl in ((None, 0, 8, 64) if tl in (None, 0, 8, 16) else (None, 6, 7, 9)):
                    a = base_e()
                    a[2], a[3], a[4], a[6] = c, m, (None if tl is None else rb(tl)), (None if vl is None else rb(vl))
                    out.append(("aare", a))
    for u in [None, iresp(), cse(), gloresp(0), gloresp(30), [16, conf(), 0, 1200, 6, True, None], glo(12)]:
        for mask in range(8):
            a = base_e(); a[7] = u
            for j in range(3):
                if mask >> j & 1:
                    a[8 + j] = rb(r.choice([0, 2, 7]))
            out.append(("aare", a))
    for n in list(range(40, 75)) + list(range(170, 200)) + [500, 70000]:
        a = base_e(); a[7] = gloresp(n); a[2] = True; a[4] = rb(8); a[3] = 5; a[6] = rb(8); out.append(("aare", a))
        a = base_e(); a[5] = rb(min(n, 400)); out.append(("aare", a))
    # ---- RLRQ / RLRE
    for kind, cls in (("rlrq", en.ReleaseRequestReason), ("rlre", en.ReleaseResponseReason)):
        for reason in [None] + [int(x) for x in cls]:
            users = [None, ir(), glo(0), glo(40), glo(120), glo(130), glo(260)] if kind == "rlrq" else [None, iresp(), gloresp(0), gloresp(118), gloresp(125), gloresp(300)]
            for u in users:
                out.append((kind, [reason, u]))
    return out


def finding_class(kind, v):
    """F02c: an authentication value without a mechanism (or a mechanism without a value) - only the 'present exactly when' clause"""
    if kind in ("aarq", "aare"):
        mech, val = (v[3], v[5]) if kind == "aarq" else (v[3], v[6])
        has_mech = mech not in (None, 0)
        if has_mech != (val is not None):
            return "value_without_mechanism" if not has_mech else "mechanism_without_value"
    return None


def normal(kind, v):
    """identify AuthenticationMechanism.NONE with None"""
    v = list(v)
    if kind in ("aarq", "aare") and v[3] == 0:
        v[3] = None
    return v


def run(ctx):
    r = lib.rng("C02b")
    vals = gen_values(ctx)
    ctx.corr([(f"{k}_to_bytes", v) for k, v in vals], impl, "to_bytes", decisive=lambda op, a: True)
    enc = [(k, v, impl(f"{k}_to_bytes", v)) for k, v in vals]
    good = [(k, v, b) for k, v, b in enc if isinstance(b, bytes)]
    cases = [(f"{k}_from_bytes", b) for k, v, b in good]
    mal = []
    step = max(1, len(good) // ctx.scale(300, 3000))
    for k, v, b in good[::step]:
        if len(b) > 400:
            continue
        mal += [(f"{k}_from_bytes", b[:j]) for j in range(0, len(b), max(1, len(b) // 10))]
        for _ in range(8):
            x = bytearray(b)
            x[r.randrange(len(x))] ^= 1 << r.randrange(8)
            mal.append((f"{k}_from_bytes", bytes(x)))
        # a component repeated, and a component of another APDU appended
        mal.append((f"{k}_from_bytes", b[:1] + bytes([min(127, b[1] + 4)]) + b[2:] + b"\x80\x02\x07\x80") if b[1] < 120 else (f"{k}_from_bytes", b))
    for k in ("aarq", "aare", "rlrq", "rlre"):
        tag = {"aarq": 0x60, "aare": 0x61, "rlrq": 0x62, "rlre": 0x63}[k]
        for _ in range(ctx.scale(300, 6000)):
            body = bytes(r.getrandbits(8) for _ in range(r.randrange(0, 20)))
            mal.append((f"{k}_from_bytes", bytes([tag, len(body)]) + body))
        mal += [(f"{k}_from_bytes", x) for x in (b"", bytes([tag]), bytes([tag, 0]), bytes([tag, 0x81, 0]), bytes([tag, 0x80]), bytes([tag, 2, 0x80, 0]), bytes([tag, 2, 0xBE, 0]))]
    ctx.corr(cases + mal, impl, "from_bytes", decisive=lambda op, a: True, skip_model=lambda m: m == E(98))
    # ---- search: an APDU object that was encoded once and whose fields are then changed encodes like a fresh object
    by_kind = {}
    for k, v in vals:
        by_kind.setdefault(k, []).append(v)
    for k, lst in by_kind.items():
        step = max(1, len(lst) // ctx.scale(150, 1500))
        picks = lst[::step]
        for v1, v2 in zip(picks, picks[1:] + picks[:1]):
            res = lib.encode_after_field_change(lambda v: build(k, v), v1, v2)
            if res is None:
                continue
            ctx.tried("encode_after_field_change", key=k + lib.v_text(v1)[:100] + lib.v_text(v2)[:100])
            if lib.v_text(res[0]) != lib.v_text(res[1]):
                ctx.fail("encoding_stale_after_field_change", {"kind": k, "first": lib.v_text(v1)[:3000], "then": lib.v_text(v2)[:3000]},
                         lib.v_text(res[1])[:200], lib.v_text(res[0])[:200])
    # ---- search: standard bytes, well-formed BER, inverse law, authentication components
    spec = lib.run_model([(f"spec_{k}", v) for k, v in vals])
    for (k, v, b), sb in zip(enc, spec):
        sb = lib.canon(sb)
        fc = finding_class(k, v)
        case = {"kind": k, "value": lib.v_text(v)[:3000] if not isinstance(b, bytes) or len(b) < 1500 else None, "class": fc}
        ctx.tried("std_bytes_wellformed_inverse", key=k + lib.v_text(v)[:200])
        if sb is None:
            continue                                  # outside the domain
        if b != sb:
            ctx.fail("encoding_differs_from_standard", case, lib.v_text(sb)[:200], lib.v_text(b)[:200])
            continue
        if not wellformed(b):
            ctx.fail("not_wellformed_ber", case, "definite-length TLVs filling the APDU", b.hex()[:200])
            continue
        back = impl(f"{k}_from_bytes", b)
        if back != lib.canon(normal(k, v)):
            ctx.fail("decode_of_encode_differs", case, lib.v_text(normal(k, v))[:300], lib.v_text(back)[:300])
            continue
        if k in ("aarq", "aare"):
            tags = top_tags(b)
            has_mech = v[3] not in (None, 0)
            req, mech, val = ((0x8A, 0x8B, 0xAC) if k == "aarq" else (0x88, 0x89, 0xAA))
            if (req in tags) != has_mech or (mech in tags) != has_mech:
                ctx.fail("authentication_components_vs_mechanism", case, f"requirements/mechanism-name present = {has_mech}", str(sorted(tags)))
            elif (val in tags) != has_mech:
                ctx.fail("authentication_value_vs_mechanism", case, f"authentication value present = {has_mech}", str(sorted(tags)))
    ctx.sample({"kind": "search", "value": lib.v_text(good[5][1])[:300], "bytes": good[5][2].hex()[:120]})


def top_tags(b):
    out, i = set(), 2 if b[1] < 0x80 else 2 + (b[1] & 0x7F)
    while i < len(b):
        out.add(b[i])
        first = b[i + 1]
        if first < 0x80:
            n, i = first, i + 2
        else:
            k = first & 0x7F
            n, i = int.from_bytes(b[i + 2:i + 2 + k], "big"), i + 2 + k
        i += n
    return out


CLASSIFIERS = {
    "C02.authentication_value_without_mechanism": lambda label, case: label == "authentication_value_vs_mechanism" and case.get("class") in ("value_without_mechanism", "mechanism_without_value"),
}


def replay(ctx, rp):
    if "then" in rp["case"]:
        c = rp["case"]
        res = lib.encode_after_field_change(lambda v: build(c["kind"], v), lib.v_parse(c["first"]), lib.v_parse(c["then"]))
        print("re-used object:", lib.v_text(res[0])[:200], "\nfresh object  :", lib.v_text(res[1])[:200])
        return lib.v_text(res[0]) != lib.v_text(res[1])
    c = rp["case"]
    if not c.get("value"):
        return True
    k, v = c["kind"], lib.v_parse(c["value"])
    b = impl(f"{k}_to_bytes", v)
    sb = lib.canon(lib.run_model([(f"spec_{k}", v)])[0])
    print("implementation:", lib.v_text(b)[:300], " standard:", lib.v_text(sb)[:300])
    if sb is not None and b != sb:
        return True
    if not isinstance(b, bytes):
        return False
    return (not wellformed(b)) or impl(f"{k}_from_bytes", b) != lib.canon(normal(k, v)) or rp.get("label", "").startswith("authentication")
