"""C18 — HDLC transport reassembles segmented responses exactly, for every segmentation."""
import lib
from lib import E, guarded
from props import hdlc_common as H
from props.C09 import build, mk_addr

RULE = ("sessions of connect, 1..12 request/response exchanges and disconnect on a real SerialHdlcTransport over a scripted "
        "serial port: answers of 1..5000 bytes with arbitrary bytes incl. flag bytes, segmentations into 1..40 information "
        "frames of 1..128 bytes (also first segments of 1 or 2 bytes, so the LLC header is split; also answers that contain the LLC header values with segments cut exactly in front of them), read granularities from "
        "whole frames down to single bytes, sequence numbers wrapping within a session; requests up to the maximum "
        "information size. The same script runs on the model. search: returned answer = APDU, request frames = LLC||APDU, "
        "receive-ready numbers, link state after connect/disconnect.  non-trivial = distinct sessions completed")
ASSUMPTIONS = ["the scripted serial port releases the meter's next frame after each client write; read_until returns up to and "
               "including the first flag byte or what the schedule allows (>= 1 byte)",
               "requests longer than the maximum information size (128 bytes incl. LLC) are segmented by the transport, but "
               "the meter's RR is then parsed with the information-frame parser: known finding F18"]
TRUSTED_EXTRA = ["scripted serial object handed to SerialHdlcTransport(serial=...) (write / read_until only)"]
NAMED = dict(H.NAMED)


class FakeSerial:
    def __init__(self, pending, sched):
        self.pending, self.readable, self.sched, self.written = [bytes(p) for p in pending], bytearray(), list(sched), []

    def write(self, b):
        self.written.append(bytes(b))
        if self.pending:
            self.readable += self.pending.pop(0)

    def read_until(self, expected=b"\x7e", size=None):
        i = self.readable.find(b"\x7e")
        want = len(self.readable) if i < 0 else i + 1
        k = want if not self.sched else min(want, self.sched.pop(0))
        out = bytes(self.readable[:k])
        del self.readable[:k]
        return out


def run_session(a):
    from dlms_cosem.clients.hdlc_transport import SerialHdlcTransport
    client, server, pending, sched, ops = a
    ser = FakeSerial(pending, sched)
    t = SerialHdlcTransport(client_logical_address=client[0], server_logical_address=server[0], serial_port="none",
                            server_physical_address=server[1], client_physical_address=client[1], serial=ser)
    outs = []
    for o in ops:
        if o[0] == 0:
            r = guarded(t.connect, timeout=2.0)
            outs.append(H.ev(r))
        elif o[0] == 1:
            r = guarded(lambda: t.send(o[1]), timeout=2.0)
            outs.append(lib.canon(r.value) if r.ok else E(lib.err_code(r, named=NAMED)))
        else:
            r = guarded(t.disconnect, timeout=2.0)
            outs.append(H.ev(r))
    c = t.hdlc_connection
    return [outs, ser.written, H.link_of(c), len(c.buffer), len(t.out_buffer)]


def impl(op, a):
    return lib.canon(run_session(a))


def segments(r, answer, style):
    data = b"\xe6\xe7\x00" + answer
    if style == "one" or len(data) <= 1:
        return [data] if len(data) <= 128 else [data[i:i + 128] for i in range(0, len(data), 128)]
    out, pos = [], 0
    while pos < len(data):
        if style == "tiny_first" and pos == 0:
            k = r.choice([1, 2])
        elif style == "bytes":
            k = 1
        else:
            # 114..118: information sizes for which the frame's length byte (or a byte next to it) equals the flag 0x7E
            k = r.choice([1, 2, 3, 7, 64, 127, 128, 114, 115, 116, 117, 118, r.randrange(1, 129)])
        out.append(data[pos:pos + k])
        pos += k
    return out


def make_session(r, nexch, ctx):
    """returns (script args, expectations)"""
    client, server = H.CLIENT, r.choice([H.SERVER, [1, None, True], [200, 300, True]])
    # the UA may carry negotiated parameters; a maximum information length of 126 puts the flag byte inside the UA
    ua_info = r.choice([b"", b"", b"\x81\x80\x12\x05\x01\x7e\x06\x01\x7e\x07\x04\x00\x00\x00\x01\x08\x04\x00\x00\x00\x01", b"\x7e", b"\x7e\x7e\x00"])
    pending = [build([1, client, server, ua_info, False, True, 0, 0]).to_bytes()]          # UA for the SNRM
    ops = [[0]]
    ns = nr = 0          # information frames sent by the client / received by the client
    expect = []
    for i in range(nexch):
        req = bytes(r.getrandbits(8) for _ in range(r.choice([1, 5, 13, 60, 124, 125])))
        alen = r.choice([1, 2, 3, 10, 100, 126, 300, 1000]) if r.random() < 0.85 else r.choice([2000, 5000])
        answer = bytes(r.choice([0x7e, r.getrandbits(8)]) if r.random() < 0.3 else r.getrandbits(8) for _ in range(alen))
        style = r.choice(["one", "rand", "rand", "tiny_first", "bytes" if alen <= 40 else "rand"])
        segs = segments(r, answer, style)
        if len(segs) > 40:
            segs = segments(r, answer, "one")
        if r.random() < 0.2:
            # the answer itself contains the LLC header values, and the meter cuts its segments exactly in front of them:
            # follow-up segments then begin with e6 e7 00 / e6 e6 00 / part of it, which is data and must be kept
            pieces = [bytes(r.getrandbits(8) for _ in range(r.choice([0, 1, 3, 50, 125])))]
            for _ in range(r.choice([1, 2, 5, 12])):
                pieces.append(r.choice([b"\xe6\xe7\x00", b"\xe6\xe7\x00", b"\xe6\xe6\x00", b"\xe6\xe7", b"\xe6", b"\xe6\xe7\x00\xe6\xe7\x00"])
                              + bytes(r.getrandbits(8) for _ in range(r.choice([0, 0, 1, 2, 30, 120]))))
            answer = b"".join(pieces)
            segs = [b"\xe6\xe7\x00" + pieces[0]] + pieces[1:]
        ns += 1
        rrs = []
        for j, sg in enumerate(segs):
            last = j == len(segs) - 1
            fr = [3, client, server, sg, not last, True, nr % 8, ns % 8]
            pending.append(build(fr).to_bytes())
            nr += 1
            if not last:
                rrs.append(nr % 8)
        ops.append([1, req])
        expect.append({"request": req, "answer": answer, "nseg": len(segs), "rr_numbers": rrs})
    pending.append(build([1, client, server, r.choice([b"", ua_info]), False, True, 0, 0]).to_bytes())      # UA for the DISC
    ops.append([2])
    gran = r.choice(["whole", "whole", "mixed", "bytes"])
    total = sum(len(p) for p in pending)
    if gran == "whole":
        sched = []
    elif gran == "bytes" and total < 3000:
        sched = [1] * (total + 10)
    else:
        sched = [r.choice([1, 2, 3, 5, 8, 50, 200]) for _ in range(min(total, 4000))]
    return [client, server, pending, sched, ops], expect


def run(ctx):
    r = lib.rng("C18")
    sessions = [make_session(r, r.choice([1, 2, 3, 9, 12]) if i % 4 else 1, ctx) for i in range(ctx.scale(60, 600))]
    ctx.corr([("transport_script", s[0]) for s in sessions], impl, "transport_script", nontrivial=lambda a, out: True)
    # request longer than one information field: known finding F18
    client, server = H.CLIENT, H.SERVER
    long_req = bytes(range(200))
    pend = [build([1, client, server, b"", False, True, 0, 0]).to_bytes(), build([2, client, server, None, False, True, 0, 1]).to_bytes(),
            build([3, client, server, b"\xe6\xe7\x00ok", False, True, 0, 2]).to_bytes()]
    f18 = [client, server, pend, [], [[0], [1, long_req]]]
    ctx.corr([("transport_script", f18)], impl, "transport_script_long_request")
    o18 = run_session(f18)
    ctx.tried("long_request")
    if o18[0][1] != b"ok":
        ctx.fail("long_request_not_delivered", {"request_len": len(long_req)}, "answer b'ok'", lib.v_text(o18[0][1])[:100])
    # ---- search
    for args, expect in sessions:
        out = run_session(args)
        outs, written, link, buflen, outlen = out
        ctx.tried("session", key=(len(expect), tuple(e["nseg"] for e in expect), len(args[3])))
        case = {"script": lib.v_text(args) if sum(len(p) for p in args[2]) < 1500 else None, "exchanges": len(expect),
                "segments": [e["nseg"] for e in expect], "schedule_len": len(args[3])}
        if not (isinstance(outs[0], list) and outs[0][0] == 1):
            ctx.fail("connect_did_not_return_ua", case, "UA frame", lib.v_text(outs[0])[:100])
            continue
        ok = True
        for e, o in zip(expect, outs[1:-1]):
            if o != e["answer"]:
                ctx.fail("answer_not_reassembled_exactly", dict(case, answer_len=len(e["answer"]), nseg=e["nseg"]), e["answer"].hex()[:120], lib.v_text(o)[:120])
                ok = False
                break
        if not ok:
            continue
        if not (isinstance(outs[-1], list) and outs[-1][0] == 1) or link[0] != 0:
            ctx.fail("disconnect_did_not_leave_link_disconnected", case, "UA frame, NOT_CONNECTED", lib.v_text([outs[-1], link])[:120])
            continue
        # what was written: SNRM, then per exchange one I frame carrying LLC||APDU and the RR frames, then DISC
        wi = 1
        for e in expect:
            g = H.guarded(lambda: H.classes()[3].from_bytes(written[wi])) if False else None
            from dlms_cosem.hdlc import frames
            fo = guarded(lambda: frames.InformationFrame.from_bytes(written[wi]))
            # the client's frames have dest=server, src=client: parse by swapping roles is not possible with the
            # library's parser, so the payload is located structurally instead
            raw = written[wi]
            if b"\xe6\xe6\x00" + e["request"] not in raw:
                ctx.fail("request_frame_payload", case, (b"\xe6\xe6\x00" + e["request"]).hex()[:100], raw.hex()[:160])
                break
            wi += 1
            for num in e["rr_numbers"]:
                rr = written[wi]
                ctrl = rr[-4]
                if (ctrl & 0x0F) != 1 or (ctrl >> 5) != num:
                    ctx.fail("receive_ready_number", dict(case, expected_rsn=num), f"RR with rsn {num}", rr.hex())
                    break
                wi += 1
    ctx.sample({"kind": "session", "exchanges": len(sessions[3][1]), "segments": [e["nseg"] for e in sessions[3][1]], "schedule_len": len(sessions[3][0][3])})


CLASSIFIERS = {"C18.request_longer_than_one_information_field": lambda label, case: label == "long_request_not_delivered" and case.get("request_len", 0) > 125}


def replay(ctx, rp):
    c = rp["case"]
    if not c.get("script"):
        return True
    args = lib.v_parse(c["script"])
    out = run_session(args)
    m = lib.run_model([("transport_script", args)])[0]
    return lib.canon(out) != lib.canon(m)
