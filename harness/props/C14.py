"""C14 — DLMS data codec: values decode as encoded, lengths honoured, truncation refused."""
import datetime
import lib
from lib import E, guarded

RULE = ("value trees to depth 6 and width 300 over all supported types with integers at their range boundaries, "
        "octet strings of length 0..70000 across the 1/0x81/0x82/0x83 prefix forms, element counts 0..300; each tree "
        "is encoded by the extracted standard encoder, decoded by the implementation and compared with the extracted "
        "expected value; EVERY proper prefix of encodings <= 80 bytes and sampled prefixes (incl. all cuts inside length "
        "prefixes) of longer ones; multi-value buffers; declared-count-exceeds-data inputs; random bytes; the four value "
        "encoders and the capture-object encoder at boundary lengths.  non-trivial = distinct inputs that produced a value")
ASSUMPTIONS = ["types without a decoder in the library (bit-string, visible-string, utf8, bcd, compact-array, float32/64, "
               "dont-care) are refused by it and are outside the property's list of supported types"]
T = {"null": 0, "bool": 3, "i8": 15, "i16": 16, "i32": 5, "i64": 20, "u8": 17, "u16": 18, "u32": 6, "u64": 21,
     "enum": 22, "oct": 9, "dt": 25, "date": 26, "time": 27, "arr": 1, "str": 2}


def canon_py(v):
    if v is None or isinstance(v, bool) or isinstance(v, int):
        return v
    if isinstance(v, (bytes, bytearray)):
        return bytes(v)
    if isinstance(v, tuple) and len(v) == 2 and isinstance(v[0], datetime.datetime):
        from props.C16 import canon_dt, st_list
        return [b"dt", canon_dt(v[0]), st_list(v[1])]
    if isinstance(v, datetime.datetime):
        from props.C16 import canon_dt
        return [b"dt1", canon_dt(v)]
    if isinstance(v, datetime.date):
        return [b"d", v.year, v.month, v.day]
    if isinstance(v, datetime.time):
        return [b"t", v.hour, v.minute, v.second, v.microsecond]
    if isinstance(v, (list, tuple)):
        return [canon_py(x) for x in v]
    return [b"?", repr(v).encode()]


def _val(o):
    return canon_py(o.value) if o.ok else E(lib.err_code(o))


def impl(op, a):
    from dlms_cosem import a_xdr, dlms_data, utils, cosem, enumerations
    from dlms_cosem.protocol.xdlms.selective_access import CaptureObject

    def f():
        if op == "parse_as_dlms_data":
            return utils.parse_as_dlms_data(a)
        if op == "axdr_get_len":
            d = a_xdr.AXdrDecoder(encoding_conf=a_xdr.EncodingConf(attributes=[]), buffer=bytearray(a))
            n = d.get_axdr_length()
            return [n, bytes(d.buffer[d.pointer:])]
        if op == "decode_variable_integer":
            n, rest = a_xdr.decode_variable_integer(a)
            return [n, rest]
        if op == "encode_variable_integer":
            return a_xdr.encode_variable_integer(a)
        if op == "enc_octet_string":
            return dlms_data.OctetStringData(a).to_bytes()
        if op == "enc_double_long_unsigned":
            return dlms_data.DoubleLongUnsignedData(a).to_bytes()
        if op == "enc_integer":
            return dlms_data.IntegerData(a).to_bytes()
        if op == "enc_unsigned_long":
            return dlms_data.UnsignedLongData(a).to_bytes()
        if op == "enc_capture_object":
            class Iface(int):
                value = property(lambda self: int(self))
            class Inst:
                def __init__(self, b): self.b = b
                def to_bytes(self): return self.b
            class Attr:
                pass
            ca = Attr(); ca.interface = Iface(a[0]); ca.instance = Inst(a[1]); ca.attribute = a[2]
            return CaptureObject(ca, a[3]).to_bytes()
        raise KeyError(op)
    return _val(guarded(f, timeout=5.0))


# ---------------------------------------------------------------- tree generation
INTS = {"i8": 8, "i16": 16, "i32": 32, "i64": 64}
UINTS = {"u8": 8, "u16": 16, "u32": 32, "u64": 64, "enum": 8}


_impl_plain = impl
impl = lib.with_bytearray_variant(_impl_plain, ['parse_as_dlms_data', 'axdr_get_len', 'decode_variable_integer'])


def scalar(r):
    k = r.choice(["null", "bool", "i8", "i16", "i32", "i64", "u8", "u16", "u32", "u64", "enum", "oct", "oct", "dt", "date", "time"])
    if k == "null":
        return [0]
    if k == "bool":
        return [3, r.random() < 0.5]
    if k in INTS:
        b = INTS[k]
        return [T[k], r.choice([-2 ** (b - 1), 2 ** (b - 1) - 1, -1, 0, 1, r.randrange(-2 ** (b - 1), 2 ** (b - 1))])]
    if k in UINTS:
        b = UINTS[k]
        return [T[k], r.choice([0, 1, 2 ** b - 1, 2 ** (b - 1), 127, 128, 255, r.randrange(2 ** b)]) % 2 ** b]
    if k == "oct":
        n = r.choice([0, 1, 2, 5, 12, 127, 128, 129, 200, 255, 256, 257, 300, r.randrange(0, 400)])
        return [9, bytes(r.getrandbits(8) for _ in range(n))]
    y = r.choice([1, 2020, 9999, r.randrange(1, 10000)])
    m = r.randrange(1, 13)
    d = r.randrange(1, 29)
    if k == "date":
        return [26, y, m, d]
    if k == "time":
        return [27, r.randrange(24), r.randrange(60), r.randrange(60), r.choice([0, 99, r.randrange(100)])]
    off = r.choice([None, 0, 60, -120, 840, -840, r.randrange(-1439, 1440)])
    return [25, [y, m, d, r.randrange(24), r.randrange(60), r.randrange(60), r.randrange(100) * 10000, off],
            [r.random() < 0.3 for _ in range(5)]]


def tree(r, depth, width):
    if depth <= 0 or r.random() < 0.35:
        return scalar(r)
    n = r.choice([0, 1, 2, 3, 3, 5, width]) if width > 5 else r.randrange(0, width + 1)
    return [r.choice([1, 2]), [tree(r, depth - 1, max(1, min(6, width // 3))) for _ in range(n)]]


def trees(ctx):
    r = lib.rng("C14")
    out = [[0], [3, True], [3, False], [1, []], [2, []], [1, [[0]]], [9, b""], [9, b"\x7e" * 127], [9, b"a" * 128], [9, b"b" * 255], [9, b"c" * 256],
           [9, bytes(65535)], [9, bytes(65536)], [9, b"x" * 70000], [1, [[17, i % 256] for i in range(127)]], [1, [[17, i % 256] for i in range(128)]],
           [2, [[0]] * 255], [1, [[18, i] for i in range(256)]], [1, [[0]] * 300], [1, [[9, b"ab"]] * 300]]
    # the upper and lower boundary of every date / time field (hundredths 0 and 99, hour 23, minute / second 59, day 31, month 12)
    out += [[27, 23, 59, 59, 99], [27, 0, 0, 0, 0], [27, 12, 0, 0, 98], [26, 2020, 12, 31], [26, 1, 1, 1], [26, 9999, 12, 31],
            [25, [2020, 12, 31, 23, 59, 59, 990000, 0], [False] * 5], [25, [1, 1, 1, 0, 0, 0, 0, None], [False] * 5],
            [25, [2024, 2, 29, 23, 59, 59, 990000, -840], [True] * 5], [2, [[27, 23, 59, 59, 99], [25, [2020, 1, 31, 0, 0, 0, 990000, 840], [False] * 5]]]]
    deep = [17, 5]
    for _ in range(6):
        deep = [1, [deep, [2, [deep]]]]
    out.append(deep)
    for k in list(INTS) + list(UINTS):
        b = INTS.get(k) or UINTS[k]
        vals = [-2 ** (b - 1), -2 ** (b - 1) + 1, -1, 0, 1, 2 ** (b - 1) - 1] if k in INTS else [0, 1, 2 ** (b - 1) - 1, 2 ** (b - 1), 2 ** b - 1]
        out += [[T[k], v] for v in vals]
    for _ in range(ctx.scale(1500, 30000)):
        out.append(tree(r, r.choice([1, 2, 3, 4, 6]), r.choice([3, 6, 12, 40, 300]) if r.random() < 0.1 else 6))
    return out


def prefixes(b, r, ctx):
    n = len(b)
    if n <= 80:
        return list(range(0, n))
    cuts = {0, 1, 2, 3, 4, 5, n - 1, n - 2, n // 2, 127, 128, 129, 130, 255, 256, 257, 258, 259}
    cuts |= {r.randrange(n) for _ in range(ctx.scale(6, 40))}
    return sorted(c for c in cuts if 0 <= c < n)


def run(ctx):
    r = lib.rng("C14b")
    ts = trees(ctx)
    okf = lib.run_model([("spec_data_ok", t) for t in ts])
    ts = [t for t, ok in zip(ts, okf) if ok is True]
    enc = lib.run_model([("spec_encode", t) for t in ts])
    exp = lib.run_model([("spec_py", t) for t in ts])
    # correspondence on complete encodings, on buffers with several values, and on truncations
    cases = [("parse_as_dlms_data", e) for e in enc]
    multi = [enc[i] + enc[j] for i, j in ((r.randrange(len(enc)), r.randrange(len(enc))) for _ in range(ctx.scale(300, 5000))) if len(enc[i]) + len(enc[j]) < 5000]
    cases += [("parse_as_dlms_data", m) for m in multi]
    trunc = []
    for e in enc:
        if len(e) > 20000 and not ctx.thorough:
            cs = [0, 1, 2, 3, 4, len(e) - 1]
        else:
            cs = prefixes(e, r, ctx)
        trunc += [e[:c] for c in cs]
    cases += [("parse_as_dlms_data", t) for t in trunc]
    # declared count exceeds data, unknown tags, non-minimal length forms, random bytes
    odd = [bytes.fromhex(x) for x in ("0103120001", "0105", "0205110111", "090561", "0600", "0981", "098200", "09820005", "0982000561626364",
                                      "0981056162636465", "098300000361626364", "04", "0a0161", "ff", "13", "17", "1801", "010111", "0102110111")]
    odd += [bytes(r.getrandbits(8) for _ in range(r.randrange(1, 40))) for _ in range(ctx.scale(2000, 50000))]
    odd += [bytes([r.choice([0, 1, 2, 3, 9, 15, 17, 18, 22, 25]) if r.random() < 0.7 else r.getrandbits(8) for _ in range(r.randrange(1, 30))]) for _ in range(ctx.scale(3000, 50000))]
    cases += [("parse_as_dlms_data", o) for o in odd]
    ctx.corr(cases, impl, "parse_as_dlms_data", decisive=lambda op, a: True)
    lens = [0, 1, 5, 126, 127, 128, 129, 255, 256, 257, 65535, 65536, 70000, 2 ** 24 - 1, 2 ** 24, 2 ** 32 - 1] + [r.randrange(2 ** 20) for _ in range(300)]
    ctx.corr([("encode_variable_integer", n) for n in lens], impl, "encode_variable_integer", decisive=lambda op, a: a < 2 ** 32)
    lb = [lib.run_model([("encode_variable_integer", n)])[0] + bytes(r.getrandbits(8) for _ in range(r.randrange(0, 4))) for n in lens[:60]]
    lb += [bytes.fromhex(x) for x in ("", "00", "7f", "80", "81", "8105", "82", "8200", "820005", "83000005", "8400000005aa", "85", "ff")]
    lb += [bytes(r.getrandbits(8) for _ in range(r.randrange(0, 7))) for _ in range(ctx.scale(500, 10000))]
    ctx.corr([("axdr_get_len", b) for b in lb], impl, "axdr_get_len", decisive=lambda op, a: True)
    ctx.corr([("decode_variable_integer", b) for b in lb], impl, "decode_variable_integer")
    octs = [bytes(r.getrandbits(8) for _ in range(n)) for n in (0, 1, 2, 127, 128, 129, 200, 255, 256, 257, 1000, 65535, 65536, 70000)]
    ctx.corr([("enc_octet_string", o) for o in octs], impl, "enc_octet_string", decisive=lambda op, a: True)
    ctx.corr([("enc_double_long_unsigned", n) for n in (0, 1, 255, 256, 2 ** 31, 2 ** 32 - 1, 2 ** 32)], impl, "enc_u32", decisive=lambda op, a: True)
    ctx.corr([("enc_integer", n) for n in range(-130, 131)], impl, "enc_i8", decisive=lambda op, a: True)
    ctx.corr([("enc_unsigned_long", n) for n in (0, 1, 255, 256, 65535, 65536)], impl, "enc_u16", decisive=lambda op, a: True)
    ctx.corr([("enc_capture_object", [i, bytes([1, 0, r.getrandbits(8), 8, 0, 255]), at, dx]) for i in (1, 3, 7, 8, 255, 65535) for at in (0, 1, 2, 127, -128) for dx in (0, 1, 65535)],
             impl, "enc_capture_object", decisive=lambda op, a: True)
    # ---- search: the property itself on the implementation
    for t, e, x in zip(ts, enc, exp):
        ctx.tried("decode_std", key=lib.v_text(t)[:300])
        got = impl("parse_as_dlms_data", e)
        if got != lib.canon(x):
            ctx.fail("decode_of_standard_encoding", {"tree": lib.v_text(t)[:2000], "encoding": e.hex()[:400], "len": len(e)},
                     lib.v_text(x)[:300], lib.v_text(got)[:300])
    for t in trunc:
        if not t:
            continue
        got = impl("parse_as_dlms_data", t)
        ctx.tried("truncation")
        if not (isinstance(got, E) and got.code == lib.ERR_REFUSED):
            ctx.fail("truncated_input_not_refused", {"input": t.hex()[:400], "len": len(t)}, "refused", lib.v_text(got)[:200])
    ctx.sample({"kind": "search", "tree": lib.v_text(ts[30])[:200], "std_encoding": enc[30].hex()[:120]})
    ctx.exhaustive.append("every proper prefix of every generated encoding of at most 80 bytes")


def replay(ctx, rp):
    c = rp["case"]
    if "tree" in c:
        t = lib.v_parse(c["tree"])
        e, x = lib.run_model([("spec_encode", t), ("spec_py", t)])
        return impl("parse_as_dlms_data", e) != lib.canon(x)
    got = impl("parse_as_dlms_data", bytes.fromhex(c["input"]))
    return not (isinstance(got, E) and got.code == lib.ERR_REFUSED)
