"""C20 — bit-packed protocol fields use the standard bit positions and round-trip."""
import lib
from lib import E, guarded

RULE = ("exhaustive correspondence on every domain <= 2^17 (all 2^17 conformance flag sets, all 256 values of every "
        "one-byte field, all 2^16 format fields, all ssn/rsn in -1..9, lengths -1..2049+), boundary+random for "
        "2^24 conformance words, 2^32 long-invoke words and OBIS codes; conformance is also compared with the "
        "extracted Green-Book reference (independent of the generated table).  non-trivial = distinct inputs "
        "that produced a value")
ASSUMPTIONS = ["values outside the stated ranges that the library does not refuse (invoke-id > 15, OBIS component "
               "> 255 given to the constructor) are outside the property's refusal list; they are compared with the "
               "model but not judged"]


def _val(o):
    return lib.canon(o.value) if o.ok else E(lib.err_code(o))


def impl(op, a):
    import attr
    from dlms_cosem.protocol.xdlms.conformance import Conformance
    from dlms_cosem.security import SecurityControlField
    from dlms_cosem.protocol.xdlms.invoke_id_and_priority import InvokeIdAndPriority
    from dlms_cosem.protocol.xdlms.data_notification import LongInvokeIdAndPriority
    from dlms_cosem.time import ClockStatus
    from dlms_cosem.hdlc import fields
    from dlms_cosem.cosem.obis import Obis

    def f():
        if op == "conf_to_bytes":
            return Conformance(*a).to_bytes()
        if op == "conf_from_bytes":
            c = Conformance.from_bytes(a)
            return [getattr(c, x.name) for x in attr.fields(Conformance)]
        if op == "sc_from_bytes":
            x = SecurityControlField.from_bytes(a)
            return [x.security_suite, x.authenticated, x.encrypted, x.broadcast_key, x.compressed]
        if op == "sc_make_to_bytes":
            return SecurityControlField(*a).to_bytes()
        if op == "iid_from_bytes":
            x = InvokeIdAndPriority.from_bytes(a)
            return [x.invoke_id, x.confirmed, x.high_priority]
        if op == "iid_to_bytes":
            return InvokeIdAndPriority(*a).to_bytes()
        if op == "liid_from_bytes":
            x = LongInvokeIdAndPriority.from_bytes(a)
            return [x.long_invoke_id, x.prioritized, x.confirmed, x.self_descriptive, x.break_on_error]
        if op == "liid_to_bytes":
            return LongInvokeIdAndPriority(*a).to_bytes()
        if op == "cstat_from_bytes":
            x = ClockStatus.from_bytes(a)
            return [x.invalid, x.doubtful, x.different_base, x.invalid_status, x.daylight_saving_active]
        if op == "cstat_to_bytes":
            return ClockStatus(*a).to_bytes()
        if op == "ictrl_make_to_bytes":
            return fields.InformationControlField(*a).to_bytes()
        if op == "ictrl_from_bytes":
            x = fields.InformationControlField.from_bytes(a)
            return [x.send_sequence_number, x.receive_sequence_number, x.final]
        if op == "rr_make_to_bytes":
            return fields.ReceiveReadyControlField(a).to_bytes()
        if op == "rr_from_bytes":
            return fields.ReceiveReadyControlField.from_bytes(a).receive_sequence_number
        if op == "uictrl_to_bytes":
            return fields.UnnumberedInformationControlField(a).to_bytes()
        if op == "uictrl_from_bytes":
            return fields.UnnumberedInformationControlField.from_bytes(a).final
        if op == "fixed_ctrl_bytes":
            return (fields.SnrmControlField().to_bytes() + fields.UaControlField().to_bytes()
                    + fields.DisconnectControlField().to_bytes())
        if op == "fmt_make_to_bytes":
            return fields.DlmsHdlcFrameFormatField(*a).to_bytes()
        if op == "fmt_from_bytes":
            x = fields.DlmsHdlcFrameFormatField.from_bytes(a)
            return [x.length, x.segmented]
        if op == "obis_to_bytes":
            return Obis(*a).to_bytes()
        if op == "obis_from_bytes":
            x = Obis.from_bytes(a)
            return [x.a, x.b, x.c, x.d, x.e, x.f]
        if op == "obis_dotted":
            return Obis(*a).dotted_repr().encode("ascii")
        if op == "obis_from_dotted":
            x = Obis.from_dotted(a.decode("ascii"))
            return [x.a, x.b, x.c, x.d, x.e, x.f]
        raise KeyError(op)
    return _val(guarded(f))


_impl_plain = impl
impl = lib.with_bytearray_variant(_impl_plain, ['conf_from_bytes', 'sc_from_bytes', 'iid_from_bytes', 'liid_from_bytes', 'cstat_from_bytes', 'ictrl_from_bytes', 'rr_from_bytes', 'uictrl_from_bytes', 'fmt_from_bytes', 'obis_from_bytes'])


def bits(n, k):
    return [bool((n >> i) & 1) for i in range(k)]


def decisive(op, a):
    if op == "iid_to_bytes":
        return 0 <= a[0] < 16
    if op == "liid_to_bytes":
        return 0 <= a[0]          # C20_long_invoke_id_total_inverse / _out_of_range_refused cover every id
    if op in ("obis_to_bytes", "obis_dotted"):
        return all(0 <= x < 256 for x in a)
    if op == "obis_from_dotted":
        return False      # only the round-trip is a theorem; handled in the search step
    if op in ("iid_from_bytes", "liid_from_bytes", "cstat_from_bytes", "ictrl_from_bytes", "rr_from_bytes",
              "uictrl_from_bytes", "sc_from_bytes"):
        return len(a) == 1 or (op == "liid_from_bytes" and len(a) == 4)
    if op == "fmt_from_bytes":
        return len(a) == 2
    if op == "conf_from_bytes":
        return len(a) == 4
    if op == "obis_from_bytes":
        return len(a) == 6
    return True


def run(ctx):
    r = lib.rng("C20")
    all_b = [True, False]
    # ---------------- conformance
    flagsets = [bits(n, 17) for n in range(2 ** 17)]
    ctx.corr([("conf_to_bytes", f) for f in flagsets], impl, "conf_to_bytes", decisive=decisive)
    ctx.exhaustive.append("2^17 conformance flag sets (encode)")
    words = [0, 1, 0xFFFFFF, 0x800000, 0x7FFFFF, 0x00FF00, 0x1F, 0x7E1F, 0x501F] + [1 << i for i in range(24)] \
        + [0xFFFFFF ^ (1 << i) for i in range(24)] + [r.getrandbits(24) for _ in range(ctx.scale(50000, 1500000))]
    dec_cases = [("conf_from_bytes", bytes([r.choice([0, 0, 0, 7, 255])]) + w.to_bytes(3, "big")) for w in words]
    dec_cases += [("conf_from_bytes", b), ] if False else []
    dec_cases += [("conf_from_bytes", x) for x in (b"", b"\x00", b"\x00\x01", b"\x00\x00\x01", b"\x00\x01\x00\x00\x1f")]
    ctx.corr(dec_cases, impl, "conf_from_bytes", decisive=decisive)
    # search against the Green-Book reference (does not use the generated table)
    sample = flagsets if ctx.thorough else [flagsets[i] for i in range(0, 2 ** 17, 7)] + [bits(1 << i, 17) for i in range(17)]
    spec = lib.run_model([("spec_conformance", f) for f in sample])
    for f, s in zip(sample, spec):
        got = impl("conf_to_bytes", f)
        ctx.tried("conformance_vs_greenbook", key=tuple(f))
        if got != s:
            ctx.fail("conformance_encode", {"flags": f}, lib.v_text(s), lib.v_text(got))
            continue
        back = impl("conf_from_bytes", s)
        if back != f:
            ctx.fail("conformance_roundtrip", {"flags": f}, lib.v_text(f), lib.v_text(back))
    wsample = words[:2000]
    spec = lib.run_model([("spec_conformance_decode", w) for w in wsample])
    for w, s in zip(wsample, spec):
        got = impl("conf_from_bytes", b"\x00" + w.to_bytes(3, "big"))
        ctx.tried("conformance_decode_vs_greenbook", key=w)
        if got != s:
            ctx.fail("conformance_decode", {"word": w}, lib.v_text(s), lib.v_text(got))
    # ---------------- one-byte fields: all 256 values
    one = [bytes([v]) for v in range(256)]
    odd = [b"", b"\x00\x00", b"\x01\x02\x03"]
    for op in ("sc_from_bytes", "iid_from_bytes", "cstat_from_bytes", "ictrl_from_bytes", "rr_from_bytes", "uictrl_from_bytes"):
        ctx.corr([(op, b) for b in one + odd], impl, op, decisive=decisive)
    ctx.exhaustive.append("all 256 byte values of security control, invoke-id, clock status, I/RR/UI control fields")
    ctx.corr([("sc_make_to_bytes", [s, a, e, k, c]) for s in range(0, 18) for a in all_b for e in all_b for k in all_b for c in all_b],
             impl, "sc_make_to_bytes", decisive=decisive)
    ctx.corr([("iid_to_bytes", [i, c, h]) for i in list(range(0, 20)) + [127, 255] for c in all_b for h in all_b],
             impl, "iid_to_bytes", decisive=decisive)
    ctx.corr([("cstat_to_bytes", bits(n, 5)) for n in range(32)], impl, "cstat_to_bytes", decisive=decisive)
    ctx.corr([("ictrl_make_to_bytes", [s, rr, f]) for s in range(-1, 10) for rr in range(-1, 10) for f in all_b],
             impl, "ictrl_make_to_bytes", decisive=decisive)
    ctx.corr([("rr_make_to_bytes", rr) for rr in range(-2, 12)], impl, "rr_make_to_bytes", decisive=decisive)
    ctx.corr([("uictrl_to_bytes", f) for f in all_b], impl, "uictrl_to_bytes", decisive=decisive)
    ctx.corr([("fixed_ctrl_bytes", None)], impl, "fixed_ctrl_bytes", decisive=decisive)
    # ---------------- long invoke id
    ids = [0, 1, 255, 256, 65535, 65536, 2 ** 24 - 1, 2 ** 24, 2 ** 24 + 1] + [r.getrandbits(24) for _ in range(ctx.scale(3000, 100000))]
    ctx.corr([("liid_to_bytes", [i] + bits(r.getrandbits(4) if k > 8 else k, 4)) for k, i in enumerate(ids)]
             + [("liid_to_bytes", [0x123456] + bits(n, 4)) for n in range(16)], impl, "liid_to_bytes", decisive=decisive)
    lw = [bytes([s]) + bytes(r.getrandbits(8) for _ in range(3)) for s in range(256)] \
        + [r.getrandbits(32).to_bytes(4, "big") for _ in range(ctx.scale(20000, 500000))] + [b"", b"\x00" * 3, b"\x00" * 5]
    ctx.corr([("liid_from_bytes", b) for b in lw], impl, "liid_from_bytes", decisive=decisive)
    # ---------------- format field: all 2^16
    ctx.corr([("fmt_from_bytes", w.to_bytes(2, "big")) for w in range(65536)] + [("fmt_from_bytes", x) for x in (b"", b"\xa0", b"\xa0\x00\x00")],
             impl, "fmt_from_bytes", decisive=decisive)
    ctx.exhaustive.append("all 2^16 format fields (decode), lengths -2..2050 x segmentation (encode)")
    ctx.corr([("fmt_make_to_bytes", [l, s]) for l in list(range(-2, 2051)) + [4095, 4096, 65535, 70000] for s in all_b],
             impl, "fmt_make_to_bytes", decisive=decisive)
    # ---------------- OBIS
    obs = [[v if p == pos else 1 for p in range(6)] for pos in range(6) for v in range(256)]
    obs += [[r.choice([0, 1, 9, 10, 99, 100, 127, 128, 255, r.randrange(256)]) for _ in range(6)] for _ in range(ctx.scale(3000, 50000))]
    obs += [[256, 0, 0, 0, 0, 0], [0, 0, 0, 0, 0, 1000], [1, 2, 3, 4, 5, 300]]
    ctx.corr([("obis_to_bytes", o) for o in obs], impl, "obis_to_bytes", decisive=decisive)
    ctx.corr([("obis_dotted", o) for o in obs], impl, "obis_dotted", decisive=decisive)
    ctx.corr([("obis_from_bytes", bytes(o)) for o in obs if max(o) < 256] + [("obis_from_bytes", x) for x in (b"", b"\x01" * 5, b"\x01" * 7)],
             impl, "obis_from_bytes", decisive=decisive)
    dotted = [".".join(str(x) for x in o).encode() for o in obs]
    dotted += [b"", b"1.2.3", b"1.2.3.4.5.6.7", b"1..3.4.5.6", b"01.002.3.4.5.6", b"1.2.3.4.5.", b".1.2.3.4.5", b"1.2.3.4.5.6"]
    ctx.corr([("obis_from_dotted", d) for d in dotted], impl, "obis_from_dotted")
    # dotted round trip on the implementation itself
    for o in obs:
        if max(o) > 255:
            continue
        d = impl("obis_dotted", o)
        back = impl("obis_from_dotted", d) if isinstance(d, bytes) else d
        ctx.tried("obis_dotted_roundtrip", key=tuple(o))
        if back != o:
            ctx.fail("obis_dotted_roundtrip", {"obis": o}, lib.v_text(o), lib.v_text(back))
    ctx.sample({"kind": "search", "flags": sample[5], "greenbook": spec[5] if spec else None})


def replay(ctx, rp):
    case = rp["case"]
    label = rp.get("label", "")
    if "flags" in case:
        f = case["flags"]
        s = lib.run_model([("spec_conformance", f)])[0]
        got = impl("conf_to_bytes", f)
        return got != s or impl("conf_from_bytes", s) != f
    if "word" in case:
        w = case["word"]
        s = lib.run_model([("spec_conformance_decode", w)])[0]
        return impl("conf_from_bytes", b"\x00" + w.to_bytes(3, "big")) != s
    if "obis" in case:
        o = case["obis"]
        d = impl("obis_dotted", o)
        return (impl("obis_from_dotted", d) if isinstance(d, bytes) else d) != o
    return True
