"""C08 — HLS-GMAC: the association becomes usable only after the meter proves key knowledge."""
import lib
from lib import E
from props import conn_common as cc

RULE = ("the four-step HLS-GMAC exchange on keyed connections: suites 0/1/2, challenges of 8, 9, 16, 32, 63 and 64 bytes (client "
        "and meter), several titles, client counters 0, 7, 2^32-2 and meter counters 1, 2^32-200; the meter's answer in every "
        "form: valid, every single-bit alteration of the valid proof octets (security control, counter, tag: 8 x 17 bits) and of "
        "the plain ACTION response around it, proof computed with a wrong challenge / encryption key / authentication key / "
        "title / counter, error status with a valid proof, ActionResponseNormal, ActionResponseNormalWithError, data that is "
        "not an octet string, empty, 1..16 bytes (short), other APDU kinds; all orders of the four steps (service requests, the "
        "reply and answers in the wrong states). Scripts run on implementation and model (compared after every step); the "
        "reply and the acceptance decision are recomputed independently with cryptography's AESGCM. non-trivial = scripts")
ASSUMPTIONS = ["that a proof computed with a different key, title, challenge or counter differs from the expected GMAC is GCM's "
               "unforgeability - observed by enumeration, not proved"]
impl = cc.impl


def gmac(key, iv, aad):
    from cryptography.hazmat.primitives.ciphers.aead import AESGCM
    return AESGCM(key).encrypt(iv, b"", aad)[:12]


def answers(r, peer, k, ctx):
    """-> list of (label, plain APDU bytes, should the association become ready)"""
    from props.dlms_common import plain_apdu
    ch = k[5]
    good = peer.hls_proof(client_challenge=ch)
    out = [("valid", plain_apdu(15, data=cc.octet(good)), True)]
    bits = range(len(good) * 8) if ctx.thorough else list(range(0, 8)) + list(range(8, 40, 3)) + list(range(40, len(good) * 8, 5))
    for b in bits:
        x = bytearray(good)
        x[b // 8] ^= 1 << (b % 8)
        out.append((f"proof_bit_{b}", plain_apdu(15, data=cc.octet(bytes(x))), False))
    apdu = plain_apdu(15, data=cc.octet(good))
    for b in (range(len(apdu) * 8) if ctx.thorough else range(0, len(apdu) * 8, 7)):
        x = bytearray(apdu)
        x[b // 8] ^= 1 << (b % 8)
        out.append((f"apdu_bit_{b}", bytes(x), None))                 # some header bits do not matter (invoke id): decided by recomputation
    other = cc.Peer(True, suite=peer.suite, ic=peer.ic, ek=bytes(len(peer.ek)), ak=peer.ak)
    out.append(("wrong_encryption_key", plain_apdu(15, data=cc.octet(other.hls_proof(client_challenge=ch))), False))
    other = cc.Peer(True, suite=peer.suite, ic=peer.ic, ek=peer.ek, ak=bytes(len(peer.ak)))
    out.append(("wrong_authentication_key", plain_apdu(15, data=cc.octet(other.hls_proof(client_challenge=ch))), False))
    other = cc.Peer(True, suite=peer.suite, ic=peer.ic, ek=peer.ek, ak=peer.ak, title=b"OTHER001")
    out.append(("wrong_title", plain_apdu(15, data=cc.octet(other.hls_proof(client_challenge=ch))), False))
    # the same, but the whole answer (ciphering wrapper and proof) comes from a station with another title that knows the keys
    out.append(("wrong_title_everywhere", ("raw", other.ggc(plain_apdu(15, data=cc.octet(other.hls_proof(client_challenge=ch))), ic=other.ic)), False))
    out.append(("wrong_challenge", plain_apdu(15, data=cc.octet(peer.hls_proof(client_challenge=bytes(len(ch))))), False))
    out.append(("meter_challenge_instead", plain_apdu(15, data=cc.octet(peer.hls_proof(client_challenge=cc.CHALLENGE_M))), False))
    g = bytearray(good)
    g[1:5] = (int.from_bytes(good[1:5], "big") ^ 1).to_bytes(4, "big")
    out.append(("counter_changed", plain_apdu(15, data=cc.octet(bytes(g))), False))
    out.append(("error_status_valid_proof", plain_apdu(15, data=cc.octet(good), status=1), False))
    out.append(("no_data", plain_apdu(14), False))
    out.append(("error_result", plain_apdu(16), False))
    out.append(("not_octet_string", plain_apdu(15, data=b"\x11\x07"), False))
    out.append(("structure", plain_apdu(15, data=b"\x02\x01" + cc.octet(good)), False))
    out.append(("empty_octets", plain_apdu(15, data=b"\x09\x00"), False))
    out.append(("no_data_bytes", plain_apdu(15, data=b""), False))
    for n in (1, 4, 5, 6, 12, 16):
        out.append((f"short_{n}", plain_apdu(15, data=cc.octet(good[:n])), False))
    out.append(("tag_only", plain_apdu(15, data=cc.octet(good[-12:])), False))
    out.append(("proof_with_filler", plain_apdu(15, data=cc.octet(good[:5] + b"\x00" * 7 + good[5:])), None))   # bytes between counter and tag are ignored: recomputed
    out.append(("encrypting_security_control", plain_apdu(15, data=cc.octet(bytes([good[0] | 0x20]) + good[1:])), False))
    out.append(("exception_response", plain_apdu(18), False))
    out.append(("service_error", plain_apdu(19), False))
    out.append(("data_notification", plain_apdu(17), False))
    out.append(("get_response", plain_apdu(8), False))
    out.append(("set_response", plain_apdu(13), False))
    return out


def expected_ready(plain, k, mtitle):
    """independent recomputation: ACTION response, status success, octet string whose last 12 bytes are the GMAC"""
    if plain[:2] != b"\xc7\x01" or len(plain) < 7 or plain[3] != 0 or plain[4] == 0 or plain[5] != 0 or plain[6] != 9:
        return False
    n = plain[7]
    if n >= 0x80:
        return False
    resp = plain[8:8 + n]
    if len(resp) != n or len(plain) != 8 + n or len(resp) < 5:
        return False
    sc = resp[0]
    if sc & 0x0F > 2 or sc & 0x20:
        return False
    keylen = 32 if sc & 0x0F == 2 else 16
    if len(k[1]) != keylen or len(k[2]) != keylen or not (sc & 0x10):
        return False if len(k[1]) != keylen or len(k[2]) != keylen else None
    return resp[-12:] == gmac(k[1], mtitle + resp[1:5], bytes([sc]) + k[2] + k[5])


def run(ctx):
    r = lib.rng("C08")
    scripts, meta = [], []
    combos = [(0, 0, 1, cc.CHALLENGE_C, cc.CHALLENGE_M), (1, 7, 4294967000, bytes(range(8)), bytes(range(9))), (2, 4294967294, 1, bytes(range(64)), bytes(range(63))),
              (0, 5, 9, bytes(range(100, 132)), bytes(range(8)))]
    # challenges that end or begin with NUL / blank bytes, or consist of them (no layer may trim a challenge)
    combos += [(0, 3, 4, cc.CHALLENGE_C[:15] + b"\x00", cc.CHALLENGE_M[:14] + b"\x00\x00"), (2, 1, 2, b"\x00" * 8 + b"abcdefgh", bytes(16)),
               (1, 2, 3, b"  padded  \x00 ", b"\x00\x20meter\x20\x00")]
    if ctx.thorough:
        combos += [(2, 0, 1, bytes(range(16)), bytes(range(64))), (1, 1, 1, bytes(range(63)), bytes(range(32)))]
    # the mechanism the connection object was configured with does not matter: what the meter selects in the AARE does
    combos = [x + (5,) for x in combos] + [(0, 2, 6, cc.CHALLENGE_C, cc.CHALLENGE_M, a) for a in (None, 0, 1)]
    for suite, cic, meter_ic, ch_c, ch_m, auth in combos:
        k, c, ops, peer = cc.hls_session(suite=suite, cic=cic, mic=0, meter_ic=meter_ic, challenge_c=ch_c, challenge_m=ch_m, tail=False, auth=auth)
        head = ops[:4]                                           # AARQ, AARE, reply, ACTION request
        base = cc.run_impl(k, c, head)
        mtitle = base[-1][1][3]
        answer_ic = peer.ic                    # every script is a fresh connection: the meter's answer always carries this counter
        for label, plain, ready in answers(r, peer, k, ctx):
            if isinstance(plain, tuple):                 # an answer that is already ciphered (by another station)
                ans, plain = plain[1], None
                scripts.append([k, c, head + [[1, ans], [0, cc.get_v()]]])
                meta.append((label, b"\x00", ready, k, mtitle, base, ch_m))
                continue
            ans = peer.ggc(plain, ic=answer_ic)
            s = [k, c, head + [[1, ans], [0, cc.get_v()]]]
            scripts.append(s)
            meta.append((label, plain, ready, k, mtitle, base, ch_m))
        # orders: service requests and the reply at every point of the exchange
        for j in range(0, 5):
            for extra in ([0, cc.get_v()], [0, cc.set_v()], [0, cc.action_v(b"\x09\x01\x00")], [2], [0, cc.next_v(1)]):
                full = head + [[1, peer.ggc(__import__("props.dlms_common", fromlist=["plain_apdu"]).plain_apdu(15, data=cc.octet(peer.hls_proof(client_challenge=ch_c))), ic=answer_ic)]]
                scripts.append([k, c, full[:j] + [extra] + full[j:]])
                meta.append((f"order_{j}", None, None, k, mtitle, base, ch_m))
    ctx.corr([("dlms_script", s) for s in scripts], impl, "hls_exchanges", decisive=lambda op, a: True, skip_model=cc.unmodelled)
    # ---- search
    for s, (label, plain, ready, k, mtitle, base, ch_m) in zip(scripts, meta):
        rows = cc.run_impl(s[0], s[1], s[2])
        case = {"label": label, "script": lib.v_text(s)[:12000]}
        ctx.tried("hls_exchange", key=label + lib.v_text(s[0])[:80])
        # (1) the reply is the standard one
        for o, (res, after), prev in zip(s[2], rows, [[None, s[1]]] + rows[:-1]):
            if o == [2] and not isinstance(res, E):
                before = prev[1]
                sc = 0x10 + k[3]
                # over the challenge the meter SENT (not over whatever the connection stored)
                want = bytes([sc]) + before[1].to_bytes(4, "big") + gmac(k[1], k[0] + before[1].to_bytes(4, "big"), bytes([sc]) + k[2] + ch_m)
                if res != want or after[1] != before[1] + 1:
                    ctx.fail("hls_reply_not_standard", case, want.hex(), lib.v_text(res)[:100])
        # (2) no service request leaves the connection before the exchange has completed
        cur = s[1]
        for o, (res, after) in zip(s[2], rows):
            before, cur = cur, after
            if o[0] == 0 and o[1][0] == 0 and not isinstance(res, E):
                kind = o[1][1][0]
                if before[0] in (10, 11) or (before[0] == 9 and kind != 9) or (before[0] in (0, 1) and kind in (0, 1, 7, 9)):
                    ctx.fail("service_request_sent_before_completion", case, "refused", f"state {before[0]} kind {kind}")
        # (3) ready only for a valid proof
        if plain is not None:
            st_before, st_after = rows[3][1][0], rows[4][1][0]
            if st_before == 10:
                exp = expected_ready(plain, k, mtitle) if ready is None else ready
                if exp is None:
                    continue
                if (st_after == 2) != exp:
                    ctx.fail("ready_decision_wrong", case, "ready" if exp else "not ready", f"state {st_after}")
                elif not exp and not isinstance(rows[5][0], E):
                    ctx.fail("service_request_accepted_after_failed_exchange", case, "refused", lib.v_text(rows[5][0])[:80])
    ctx.sample({"kind": "search", "scripts": len(scripts)})


def replay(ctx, rp):
    s = lib.v_parse(rp["case"]["script"])
    rows = cc.run_impl(s[0], s[1], s[2])
    print("states:", [x[1][0] for x in rows], "errors:", [x[0].code if isinstance(x[0], E) else "-" for x in rows])
    m = lib.canon(lib.run_model([("dlms_script", s)])[0])
    return m != lib.canon([[x[0], x[1]] for x in rows]) or True
