"""the whole DlmsConnection against the model (ConnModel.v): scripted sessions, shared by C04, C06, C07, C08"""
import copy
import lib
from lib import E, guarded
from props import C01, C02
from props.dlms_common import STATES, sentinels, EK, AK, CLIENT_TITLE, METER_TITLE, CHALLENGE_C, CHALLENGE_M, Meter

NAMED = {"LocalDlmsProtocolError": 3, "PreEstablishedAssociationError": 4, "DecryptionError": 5, "CipheringError": 10}
EK32 = bytes(range(0x40, 0x60))
AK32 = bytes(range(0x80, 0xA0))
CONF = [False] * 17
CONF_C = [True] + [False] * 16


def keys(suite):
    return (EK32, AK32) if suite == 2 else (EK, AK)


def cfg(title=CLIENT_TITLE, ek=EK, ak=AK, suite=0, pre=False, challenge=CHALLENGE_C):
    return [title, ek, ak, suite, pre, challenge]


def cst(state=0, cic=0, mic=0, mtitle=None, auth=None, mchallenge=None, conf=None, maxpdu=65535):
    return [state, cic, mic, mtitle, auth, mchallenge, list(conf if conf is not None else CONF_C), maxpdu]


def make_conn(k, c):
    from dlms_cosem.connection import DlmsConnection
    from dlms_cosem import enumerations as en
    from dlms_cosem.protocol.xdlms import Conformance
    conn = DlmsConnection(client_system_title=k[0], global_encryption_key=k[1], global_authentication_key=k[2], security_suite=k[3],
                          is_pre_established=k[4], challenge_length=32)
    conn.client_to_meter_challenge = k[5]
    conn.state.current_state = sentinels()[c[0]]
    conn.client_invocation_counter, conn.meter_invocation_counter = c[1], c[2]
    conn.meter_system_title = c[3]
    conn.authentication_method = None if c[4] is None else en.AuthenticationMechanism(c[4])
    conn.meter_to_client_challenge = c[5]
    conn.conformance = Conformance(*c[6])
    conn.max_pdu_size = c[7]
    return conn


def snapshot(conn):
    import attr
    from dlms_cosem.protocol.xdlms.conformance import Conformance
    ob = lambda x: None if x is None else bytes(x)
    return [sentinels().index(conn.state.current_state), conn.client_invocation_counter, conn.meter_invocation_counter, ob(conn.meter_system_title),
            None if conn.authentication_method is None else int(conn.authentication_method), ob(conn.meter_to_client_challenge),
            [getattr(conn.conformance, f.name) for f in attr.fields(Conformance)], conn.max_pdu_size]


def build_msg(m):
    t, x = m
    if t == 0:
        return C01.build(x)
    return C02.build({1: "aarq", 2: "aare", 3: "rlrq", 4: "rlre"}[t], x)


def describe_msg(o):
    from dlms_cosem.protocol import acse
    for t, (cls, kind) in {1: (acse.ApplicationAssociationRequest, "aarq"), 2: (acse.ApplicationAssociationResponse, "aare"),
                           3: (acse.ReleaseRequest, "rlrq"), 4: (acse.ReleaseResponse, "rlre")}.items():
        if isinstance(o, cls):
            return [t, C02.describe(kind, o)]
    return [0, C01.describe(o)]


def run_impl(k, c, ops, extra=None):
    """-> list of [result, snapshot]; extra(conn) is appended to each entry when given (not compared with the model)"""
    conn = make_conn(k, c)
    out = []
    for o in ops:
        if o[0] == 0:
            f = lambda: conn.send(build_msg(o[1]))
        elif o[0] == 1:
            def f():
                conn.receive_data(o[1])
                return describe_msg(conn.next_event())
        elif o[0] == 3:
            # the application assigns another security configuration to the existing connection object (implementation only:
            # the caller compares what follows with a model script that starts from the new configuration)
            def f():
                conn.client_system_title, conn.global_encryption_key, conn.global_authentication_key, conn.security_suite = o[1][0], o[1][1], o[1][2], o[1][3]
                return None
        else:
            f = lambda: conn.get_hls_reply()
        r = guarded(f)
        res = lib.canon(r.value) if r.ok else E(lib.err_code(r, named=NAMED))
        row = [res, snapshot(conn)]
        if extra:
            row.append(extra(conn))
        out.append(row)
    return out


def impl(op, a):
    if op == "dlms_script":
        return lib.canon([[r[0], r[1]] for r in run_impl(a[0], a[1], a[2])])
    if op == "msg_from_bytes":
        from dlms_cosem.connection import XDlmsApduFactory
        o = guarded(lambda: describe_msg(XDlmsApduFactory.apdu_from_bytes(a)))
        return lib.canon(o.value) if o.ok else E(lib.err_code(o, named=NAMED))
    raise KeyError(op)


# ------------------------------------------------------------------ the peer and the client's requests, as values
IID = [1, True, True]
ATTR = [1, bytes([0, 0, 1, 0, 0, 255]), 2]
METHOD = [15, bytes([0, 0, 40, 0, 0, 255]), 1]


def aarq_v(conf, maxpdu, title, auth, value, ciphered):
    return [1, [[16, list(conf), None, maxpdu, 6, True, None], title, None, auth, ciphered, value] + [None] * 7]


def rlrq_v(conf, maxpdu):
    return [3, [0, [16, list(conf), None, maxpdu, 6, True, None]]]


def get_v(iid=IID):
    return [0, [0, ATTR, iid, None]]


def next_v(block, iid=IID):
    return [0, [1, block, iid]]


def set_v(data=b"\x11\x05"):
    return [0, [7, ATTR, data, IID]]


def action_v(data):
    return [0, [9, METHOD, data, IID]]


class Peer(Meter):
    """the meter: Meter plus arbitrary counters and the pieces needed for forged / replayed input"""

    def ggc(self, plain, ic=None, ek=None, ak=None, title=None, suite=None, bad_tag=False):
        from dlms_cosem import security
        from dlms_cosem.security import SecurityControlField
        from dlms_cosem.a_xdr import encode_variable_integer
        if ic is None:
            ic = self.ic
            self.ic += 1
        title = self.title if title is None else title
        sc = SecurityControlField(self.suite if suite is None else suite, authenticated=True, encrypted=True)
        ct = security.encrypt(sc, title, ic, self.ek if ek is None else ek, plain, self.ak if ak is None else ak)
        if bad_tag:
            ct = ct[:-1] + bytes([ct[-1] ^ 0x01])
        inner = sc.to_bytes() + ic.to_bytes(4, "big") + ct
        return bytes([219, len(title)]) + title + encode_variable_integer(len(inner)) + inner


def octet(b):
    from dlms_cosem.a_xdr import encode_variable_integer
    return b"\x09" + encode_variable_integer(len(b)) + b


# ------------------------------------------------------------------ sessions
def plain_responses():
    from props.dlms_common import plain_apdu
    return {k: plain_apdu(k) for k in (8, 9, 10, 11, 12, 13, 14, 15, 16, 17, 18, 19, 20)}


def hls_session(suite=0, cic=0, mic=0, meter_ic=1, challenge_m=CHALLENGE_M, challenge_c=CHALLENGE_C, valid=True, status=0, tail=True, auth=5):
    """the four-step HLS-GMAC exchange on a ciphered connection followed by service requests and a release:
       -> (cfg, cst, ops, peer) where ops contains the genuine meter answers"""
    from props.dlms_common import plain_apdu
    ek, ak = keys(suite)
    k = cfg(ek=ek, ak=ak, suite=suite, challenge=challenge_c)
    c = cst(state=0, cic=cic, mic=mic, auth=auth)            # auth: the mechanism the connection was configured with
    peer = Peer(True, suite=suite, ic=meter_ic, ek=ek, ak=ak)
    ops = [[0, aarq_v(CONF_C, 65535, CLIENT_TITLE, 5, challenge_c, True)],
           [1, peer.aare(hls=True, challenge=challenge_m)],
           [2]]
    # the reply is produced by the connection itself; the script cannot know it, so the ACTION request carries a placeholder
    # of the same shape (what is checked about the reply is checked on op [2])
    ops.append([0, action_v(octet(bytes(17)))])
    proof = peer.hls_proof(client_challenge=challenge_c, valid=valid)
    ops.append([1, peer.protect(plain_apdu(15, data=octet(proof), status=status))])
    if tail:
        ops += [[0, get_v()], [1, peer.protect(plain_apdu(10, data=b"\x01\x02\x03", block=1))],
                [0, next_v(1)], [1, peer.protect(plain_apdu(11, data=b"\x04", block=2))],
                [0, set_v()], [1, peer.protect(plain_apdu(13))],
                [0, action_v(b"\x09\x01\x07")], [1, peer.protect(plain_apdu(14))],
                [0, rlrq_v(CONF_C, 65535)], [1, peer.rlre()]]
    return k, c, ops, peer


def pre_session(suite=0, cic=0, mic=0, meter_ic=1, n=3):
    from props.dlms_common import plain_apdu
    ek, ak = keys(suite)
    k = cfg(ek=ek, ak=ak, suite=suite, pre=True)
    c = cst(state=2, cic=cic, mic=mic, mtitle=METER_TITLE)
    peer = Peer(True, suite=suite, ic=meter_ic, ek=ek, ak=ak)
    ops = []
    for i in range(n):
        ops += [[0, get_v()], [1, peer.protect(plain_apdu(8, data=bytes([9, 1, i])))]]
    ops += [[0, set_v()], [1, peer.protect(plain_apdu(13))], [0, action_v(None)], [1, peer.protect(plain_apdu(15, data=b"\x11\x01"))]]
    return k, c, ops, peer


def plain_session():
    from props.dlms_common import plain_apdu
    k = cfg(ek=None, ak=None)
    c = cst(state=0, conf=CONF)
    peer = Peer(False)
    ops = [[0, aarq_v(CONF, 65535, CLIENT_TITLE, None, None, False)], [1, peer.aare()],
           [0, get_v()], [1, plain_apdu(8)], [0, get_v()], [1, plain_apdu(10)], [0, next_v(1)], [1, plain_apdu(12)],
           [0, set_v()], [1, plain_apdu(13)], [0, action_v(None)], [1, plain_apdu(16)],
           [0, rlrq_v(CONF, 65535)], [1, peer.rlre()]]
    return k, c, ops, peer


def refused_inputs(r, genuine, peer, mic_now, plain=None):
    """inputs that must be refused at the point where `genuine` (bytes) is the expected answer"""
    from props.dlms_common import plain_apdu
    out = {}
    out["random"] = bytes(r.getrandbits(8) for _ in range(r.randrange(1, 40)))
    out["empty_tag"] = genuine[:1]
    out["nothing"] = b""                               # next_event with nothing received
    out["truncated"] = genuine[:max(1, len(genuine) - r.randrange(1, min(14, len(genuine))))]
    x = bytearray(genuine)
    x[r.randrange(len(x))] ^= 1 << r.randrange(8)
    out["bitflip"] = bytes(x)
    x = bytearray(genuine)
    x[-1] ^= 0x80
    out["last_byte"] = bytes(x)
    if peer.ciphered:
        p = plain if plain is not None else plain_apdu(8)
        out["bad_tag_high_counter"] = peer.ggc(p, ic=4000000000, bad_tag=True)
        out["bad_tag_next_counter"] = peer.ggc(p, ic=mic_now + 1, bad_tag=True)
        out["wrong_key"] = peer.ggc(p, ic=mic_now + 5, ek=bytes(len(peer.ek)))
        out["wrong_auth_key"] = peer.ggc(p, ic=mic_now + 5, ak=bytes(len(peer.ak)))
        out["wrong_title"] = peer.ggc(p, ic=mic_now + 5, title=b"OTHER001")
        out["old_counter"] = peer.ggc(p, ic=mic_now)
        out["zero_counter"] = peer.ggc(p, ic=0)
        # an authentic exception-response reporting an invocation-counter error with a counter of the attacker's choosing
        out["exception_counter_error_high"] = peer.ggc(b"\xd8\x01\x06" + (11259375).to_bytes(4, "big"), ic=mic_now + 1)
        out["exception_counter_error_low"] = peer.ggc(b"\xd8\x01\x06" + (0).to_bytes(4, "big"), ic=mic_now + 1)
        out["plain_response"] = p
        out["plain_notification"] = plain_apdu(17)
        out["stray_aare"] = Peer(True, suite=peer.suite, ic=mic_now + 7, ek=peer.ek, ak=peer.ak, title=b"EVIL0001").aare(hls=True, challenge=b"\xEE" * 16)
        out["stray_aare_plain_user"] = Peer(False, title=b"EVIL0002").aare(hls=True, challenge=b"\xDD" * 16)
    else:
        out["stray_ciphered"] = Peer(True).ggc(plain_apdu(8), ic=9)
    return out


def unmodelled(m):
    """the model met something it declares outside what it models (asn1crypto on a non-canonical diagnostic)"""
    if isinstance(m, E):
        return m.code == 98
    if isinstance(m, list):
        return any(unmodelled(x) for x in m)
    return False
