"""helpers shared by the DLMS connection checks (C03, C04, C06, C07, C08, C19)"""
import lib
from lib import E, guarded

STATES = ["NO_ASSOCIATION", "AWAITING_ASSOCIATION_RESPONSE", "READY", "AWAITING_RELEASE_RESPONSE", "AWAITING_ACTION_RESPONSE",
          "AWAITING_GET_RESPONSE", "AWAITING_GET_BLOCK_RESPONSE", "SHOULD_ACK_LAST_GET_BLOCK", "AWAITING_SET_RESPONSE",
          "SHOULD_SEND_HLS_SEVER_CHALLENGE_RESULT", "AWAITING_HLS_CLIENT_CHALLENGE_RESULT", "HLS_DONE", "NEED_DATA"]
NAMED = {"LocalDlmsProtocolError": 3, "PreEstablishedAssociationError": 4, "DecryptionError": 5}
EK = bytes.fromhex("000102030405060708090a0b0c0d0e0f")
AK = bytes.fromhex("d0d1d2d3d4d5d6d7d8d9dadbdcdddedf")
CLIENT_TITLE = b"CLIENT01"
METER_TITLE = b"METER001"
CHALLENGE_C = bytes(range(0x30, 0x40))      # client to meter
CHALLENGE_M = bytes(range(0x50, 0x60))      # meter to client


def sentinels():
    from dlms_cosem import state as st
    return [getattr(st, n) for n in STATES]


def state_of(conn):
    return sentinels().index(conn.state.current_state)


def set_state(conn, idx):
    conn.state.current_state = sentinels()[idx]


def attr():
    from dlms_cosem import cosem, enumerations
    return cosem.CosemAttribute(enumerations.CosemInterface.DATA, cosem.Obis(0, 0, 1, 0, 0, 255), 2)


def method():
    from dlms_cosem import cosem, enumerations
    return cosem.CosemMethod(enumerations.CosemInterface.ASSOCIATION_LN, cosem.Obis(0, 0, 40, 0, 0, 255), 1)


def make_conn(config, state=None, suite=0, client_ic=0, meter_ic=0, ek=EK, ak=AK):
    """config: plain | lls | hls (HLS-GMAC, ciphered) | pre (pre-established, plain) | pre_c (pre-established, ciphered)"""
    from dlms_cosem.connection import DlmsConnection
    from dlms_cosem import enumerations as en
    from dlms_cosem.protocol.xdlms import Conformance
    if config == "plain":
        c = DlmsConnection(client_system_title=CLIENT_TITLE)
    elif config == "lls":
        c = DlmsConnection(client_system_title=CLIENT_TITLE, authentication_method=en.AuthenticationMechanism.LLS, password=b"12345678")
    elif config == "hls":
        c = DlmsConnection(client_system_title=CLIENT_TITLE, authentication_method=en.AuthenticationMechanism.HLS_GMAC,
                           global_encryption_key=ek, global_authentication_key=ak, security_suite=suite,
                           client_invocation_counter=client_ic, meter_invocation_counter=meter_ic, challenge_length=16)
        c.client_to_meter_challenge = CHALLENGE_C
    elif config == "pre":
        c = DlmsConnection.with_pre_established_association(conformance=Conformance(get=True, set=True, action=True), client_system_title=CLIENT_TITLE)
    elif config == "pre_c":
        c = DlmsConnection.with_pre_established_association(conformance=Conformance(general_protection=True, get=True, set=True, action=True),
                                                            client_system_title=CLIENT_TITLE, meter_system_title=METER_TITLE,
                                                            global_encryption_key=ek, global_authentication_key=ak,
                                                            client_invocation_counter=client_ic, meter_invocation_counter=meter_ic)
    else:
        raise KeyError(config)
    if state is not None:
        set_state(c, state)
        if config == "hls":
            c.meter_system_title = METER_TITLE
            c.meter_to_client_challenge = CHALLENGE_M
    return c


class Meter:
    """the peer: produces the meter's APDUs, ciphered when the connection is"""

    def __init__(self, ciphered, suite=0, ic=1, ek=EK, ak=AK, title=METER_TITLE):
        self.ciphered, self.suite, self.ic, self.ek, self.ak, self.title = ciphered, suite, ic, ek, ak, title

    def sc(self):
        from dlms_cosem.security import SecurityControlField
        return SecurityControlField(self.suite, authenticated=True, encrypted=True)

    def protect(self, plain):
        from dlms_cosem import security
        from dlms_cosem.protocol import xdlms
        if not self.ciphered:
            return plain
        ic = self.ic
        self.ic += 1
        ct = security.encrypt(self.sc(), self.title, ic, self.ek, plain, self.ak)
        # general-glo-ciphering, written out (the library's own encoder uses a one-byte length)
        body = bytes([len(self.title)]) + self.title
        inner = self.sc().to_bytes() + ic.to_bytes(4, "big") + ct
        from dlms_cosem.a_xdr import encode_variable_integer
        return bytes([219]) + body + encode_variable_integer(len(inner)) + inner

    def aare(self, rejected=False, hls=False, challenge=CHALLENGE_M):
        from dlms_cosem.protocol import acse, xdlms
        from dlms_cosem import enumerations as en, security
        conf = xdlms.Conformance(general_protection=self.ciphered, get=True, set=True, action=True, selective_access=True)
        ir = xdlms.InitiateResponse(conf, 1200)
        if self.ciphered:
            ic = self.ic
            self.ic += 1
            ct = security.encrypt(self.sc(), self.title, ic, self.ek, ir.to_bytes(), self.ak)
            content = xdlms.GlobalCipherInitiateResponse(self.sc(), ic, ct)
        else:
            content = ir
        res = (en.AssociationResult.REJECTED_TRANSIENT if rejected == "transient" else
               en.AssociationResult.REJECTED_PERMANENT if rejected else en.AssociationResult.ACCEPTED)
        diag = en.AcseServiceUserDiagnostics.AUTHENTICATION_FAILED if rejected else (
            en.AcseServiceUserDiagnostics.AUTHENTICATION_REQUIRED if hls else en.AcseServiceUserDiagnostics.NULL)
        return acse.ApplicationAssociationResponse(
            res, diag, ciphered=self.ciphered,
            authentication=en.AuthenticationMechanism.HLS_GMAC if hls else None,
            system_title=self.title if (hls or self.ciphered) else None,
            authentication_value=challenge if hls else None,
            user_information=acse.UserInformation(content)).to_bytes()

    def rlre(self):
        from dlms_cosem.protocol import acse
        from dlms_cosem import enumerations as en
        return acse.ReleaseResponse(en.ReleaseResponseReason.NORMAL).to_bytes()

    def hls_proof(self, client_challenge=CHALLENGE_C, valid=True, ic=None):
        """security-control || counter || GMAC over the client's challenge under the meter's nonce"""
        from dlms_cosem import security
        from dlms_cosem.security import SecurityControlField
        sc = SecurityControlField(self.suite, authenticated=True, encrypted=False)
        ic = self.ic + 100 if ic is None else ic
        tag = security.gmac(sc, self.title, ic, self.ek, self.ak, client_challenge)
        if not valid:
            tag = bytes([tag[0] ^ 1]) + tag[1:]
        return sc.to_bytes() + ic.to_bytes(4, "big") + tag


IID = b"\xc1"


def plain_apdu(kind, data=b"\x09\x02ab", block=1, error=1, status=0, a=True, b=False, extra=None):
    """plain encodings of the meter's APDU kinds, written out byte by byte (event numbering of GenDlmsState)"""
    dl = bytes([len(data)]) if len(data) < 128 else (b"\x82" + len(data).to_bytes(2, "big") if len(data) > 255 else b"\x81" + bytes([len(data)]))
    if kind == 8:
        return b"\xc4\x01" + IID + b"\x00" + data
    if kind == 9:
        return b"\xc4\x01" + IID + b"\x01" + bytes([error])
    if kind == 10:
        return b"\xc4\x02" + IID + b"\x00" + block.to_bytes(4, "big") + b"\x00" + dl + data
    if kind == 11:
        return b"\xc4\x02" + IID + b"\x01" + block.to_bytes(4, "big") + b"\x00" + dl + data
    if kind == 12:
        return b"\xc4\x02" + IID + b"\x01" + block.to_bytes(4, "big") + b"\x01" + bytes([error])
    if kind == 13:
        return b"\xc5\x01" + IID + bytes([error if extra == "err" else 0])
    if kind == 14:
        return b"\xc7\x01" + IID + bytes([status]) + b"\x00"
    if kind == 15:
        return b"\xc7\x01" + IID + bytes([status]) + b"\x01\x00" + data
    if kind == 16:
        return b"\xc7\x01" + IID + bytes([status or 1]) + b"\x01\x01" + bytes([error])
    if kind == 17:
        return b"\x0f\x00\x00\x00\x01\x00" + data
    if kind == 18:
        return b"\xd8\x01\x01"
    if kind == 19:
        return b"\x0e\x01\x06\x00"
    if kind == 20:
        return bytes.fromhex("0800065f1f040000501f01f40007")
    raise KeyError(kind)


def request(conn, kind, block=1):
    from dlms_cosem.protocol import xdlms
    if kind == 0:
        return conn.get_aarq()
    if kind == 2:
        return conn.get_rlrq()
    if kind == 4:
        return xdlms.GetRequestNormal(attr())
    if kind == 5:
        return xdlms.GetRequestNext(block)
    if kind == 6:
        return xdlms.SetRequestNormal(attr(), b"\x11\x01")
    if kind == 7:
        return xdlms.ActionRequestNormal(method(), b"\x09\x02ab")
    raise KeyError(kind)


def outcome(o):
    return True if o.ok else E(lib.err_code(o, named=NAMED))
