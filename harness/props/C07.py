"""C07 — a refused incoming APDU leaves the connection exactly as it was."""
import lib
from lib import E
from props import conn_common as cc

RULE = ("complete sessions (HLS-GMAC ciphered for suites 0/1/2 with valid and invalid meter proofs, pre-established ciphered, plain) "
        "x every position of the session (= every reachable protocol state) x every kind of refused input built for that "
        "position (random bytes, truncation, bit flips, bad tag with a huge and with the next counter, wrong encryption key, "
        "wrong authentication key, wrong title, old and zero counter, plain response / notification on a ciphered connection, "
        "stray association responses from another meter, authentic APDU of a kind not allowed in the state, authentic HLS answers refused only after the state machine has moved: error status with a correct proof, empty / short proof) followed by the "
        "genuine continuation of the session; the whole script is run on the implementation and on the model (compared after "
        "every step: result, protocol state, both counters, meter title / mechanism / challenge, conformance, PDU size). "
        "non-trivial = scripts in which the inserted input was refused")
ASSUMPTIONS = ["observable state = protocol state, client and meter invocation counters, meter system title, authentication "
               "mechanism, meter challenge, negotiated conformance and maximum PDU size (and the receive buffer, implementation only)"]
impl = cc.impl
# authentic inputs (refused only because of the state): their counter may be consumed
AUTHENTIC = ("authentic_wrong_state", "exception_counter_error_high", "exception_counter_error_low",
             "authentic_hls_answer_error_status", "authentic_hls_answer_empty_proof", "authentic_hls_answer_short_proof")


def sessions(ctx):
    out = [("hls0", cc.hls_session()), ("hls2_invalid", cc.hls_session(suite=2, cic=5, mic=3, meter_ic=10, valid=False, tail=False)),
           ("hls1", cc.hls_session(suite=1, cic=4294967000, mic=7, meter_ic=4294967100)), ("pre", cc.pre_session(cic=9, mic=0, meter_ic=1)),
           ("plain", cc.plain_session())]
    if ctx.thorough:
        out += [("hls_status", cc.hls_session(suite=0, status=1, tail=False)), ("pre2", cc.pre_session(suite=2, cic=0, mic=100, meter_ic=101, n=6))]
    return out


def run(ctx):
    r = lib.rng("C07")
    from props.dlms_common import plain_apdu
    scripts, meta = [], []
    for name, (k, c, ops, peer) in sessions(ctx):
        base = cc.run_impl(k, c, ops)
        for j in range(len(ops)):
            before = c if j == 0 else base[j - 1][1]
            mic_now = before[2]
            genuine = ops[j][1] if ops[j][0] == 1 else peer.ggc(plain_apdu(8), ic=mic_now + 1) if peer.ciphered else plain_apdu(8)
            bad = cc.refused_inputs(r, genuine, peer, mic_now)
            if peer.ciphered:
                # authentic, but of a kind the state does not allow (a SET response is never expected where a GET response is, etc.)
                wrong_kind = 13 if (ops[j][0] == 1 and before[0] != 8) else 10
                bad["authentic_wrong_state"] = peer.ggc(plain_apdu(wrong_kind), ic=mic_now + 1)
                # authentic ACTION responses that are refused only late - after the state machine has already moved -
                # while the meter's HLS answer is awaited: a correct proof under an error status, an empty and a short proof
                good = peer.hls_proof(client_challenge=cc.CHALLENGE_C, valid=True)
                bad["authentic_hls_answer_error_status"] = peer.ggc(plain_apdu(15, data=cc.octet(good), status=1), ic=mic_now + 1)
                bad["authentic_hls_answer_empty_proof"] = peer.ggc(plain_apdu(15, data=cc.octet(b""), status=0), ic=mic_now + 1)
                bad["authentic_hls_answer_short_proof"] = peer.ggc(plain_apdu(15, data=cc.octet(good[:4]), status=0), ic=mic_now + 1)
            else:
                bad["wrong_state"] = plain_apdu(13 if before[0] != 8 else 10)
            kinds = sorted(bad) if (ctx.thorough or j % 2 == 0 or ops[j][0] == 1) else sorted(bad)[::3]
            if before[0] == 10:                      # awaiting the meter's HLS answer: always include the late refusals
                kinds = sorted(set(kinds) | {k_ for k_ in bad if k_.startswith("authentic_hls_answer")})
            for kind in kinds:
                scripts.append([k, c, ops[:j] + [[1, bad[kind]]] + ops[j:]])
                meta.append((name, j, kind, before, base))
    ctx.corr([("dlms_script", s) for s in scripts], impl, "sessions_with_refused_input", decisive=lambda op, a: True,
             nontrivial=lambda arg, out: False, skip_model=cc.unmodelled)
    # ---- search: the property on the implementation
    for s, (name, j, kind, before, base) in zip(scripts, meta):
        k, c, ops = s
        rows = cc.run_impl(k, c, ops, extra=lambda conn: len(conn.buffer))
        res, after, buf = rows[j]
        if not isinstance(res, E):
            ctx.dist[f"search:not_refused:{kind}"] += 1
            continue                                   # the input was not refused here: nothing to check
        ctx.tried("refusal_leaves_no_trace", key=f"{name}:{j}:{kind}")
        case = {"session": name, "position": j, "kind": kind, "script": lib.v_text(s)[:6000]}
        cmp_after, cmp_before = list(after), list(before)
        if kind in AUTHENTIC:
            cmp_after[2] = cmp_before[2] = None          # the counter of an authentic APDU may be consumed
        if cmp_after != cmp_before or buf != 0:
            ctx.fail("connection_changed_by_refused_input", case, lib.v_text(before)[:300], lib.v_text(after)[:300] + f" buffer={buf}")
            continue
        # the genuine continuation behaves as if the refused input had never arrived
        cont = [[x[0], x[1]] for x in rows[j + 1:]]
        want = [[x[0], x[1]] for x in base[j:]]
        if kind in AUTHENTIC:
            for x in cont + want:
                x[1] = x[1][:2] + [None] + x[1][3:]
        if cont != want:
            d = next(i for i, (a, b) in enumerate(zip(cont, want)) if a != b)
            ctx.fail("genuine_continuation_differs", case, lib.v_text(want[d])[:300], lib.v_text(cont[d])[:300])
    ctx.sample({"kind": "search", "session": meta[0][0], "position": meta[0][1], "refused_kind": meta[0][2]})


def replay(ctx, rp):
    c = rp["case"]
    s = lib.v_parse(c["script"])
    j = c["position"]
    rows = cc.run_impl(s[0], s[1], s[2], extra=lambda conn: len(conn.buffer))
    base = cc.run_impl(s[0], s[1], s[2][:j] + s[2][j + 1:])
    before = s[1] if j == 0 else rows[j - 1][1]
    print("before:", lib.v_text(before)[:300], "\nafter :", lib.v_text(rows[j][1])[:300], "result:", rows[j][0], "buffer:", rows[j][2])
    if not isinstance(rows[j][0], E):
        return False
    a, b = list(rows[j][1]), list(before)
    if c["kind"] in AUTHENTIC:
        a[2] = b[2] = None
    if a != b or rows[j][2] != 0:
        return True
    cont = [[x[0], x[1]] for x in rows[j + 1:]]
    want = [[x[0], x[1]] for x in base[j:]]
    if c["kind"] in AUTHENTIC:
        for x in cont + want:
            x[1] = x[1][:2] + [None] + x[1][3:]
    return cont != want
