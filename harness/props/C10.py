"""C10 — HDLC receive path yields the same frames however the byte stream is chunked."""
import lib
from lib import E, guarded
from props import hdlc_common as H
from props.C09 import build

RULE = ("streams of 1..8 valid frames (a UA for the connect phase, segmented information frames numbered from the link "
        "counters, with or without shared flags, payloads 0..2030 bytes with any density of 0x7E, control bytes equal to "
        "0x7E) are fed to a real HdlcConnection in chunks: every single cut and every pair of cuts for streams <= 40 bytes, "
        "random multi-cuts down to 1-byte chunks otherwise; after every chunk the connection is polled until nothing is "
        "pending (sending the receive-ready frame between segments as the transport does). The same script runs on the "
        "model; search: delivered frames = sent frames in order, exactly once, nothing early, buffer empty at the end. "
        "non-trivial = distinct (stream, chunking) pairs that delivered all frames")
ASSUMPTIONS = ["'polling until none is pending' = call next_event until it returns NEED_DATA without moving the search "
               "position; between two frames of a stream the client sends the receive-ready frame the transport would send"]


def impl(op, a):
    assert op == "conn_script"
    return lib.canon(H.run_script(a))


def payloads(r, n):
    kind = r.choice(["rand", "flags", "dense", "empty", "ctrl"])
    if kind == "empty":
        return b""
    if kind == "flags":
        return b"\x7e" * n
    if kind == "dense":
        return bytes(r.choice([0x7e, 0x7e, r.getrandbits(8)]) for _ in range(n))
    if kind == "ctrl":
        return bytes(r.choice([0x7e, 0xa0, 0x21, 0x02, 0x23]) for _ in range(n))
    return bytes(r.getrandbits(8) for _ in range(n))


def make_stream(r, nframes, maxlen, shared, start_ssn, start_rsn):
    """information frames from the server: ssn counts up from the link's client_ssn, rsn = client_rsn"""
    frames_, parts = [], []
    for i in range(nframes):
        last = i == nframes - 1
        # 115..117 / 372: payload sizes for which a byte of the frame header (the length byte) equals the flag 0x7E
        pl = payloads(r, maxlen if maxlen in (115, 116, 117, 372) else r.choice([0, 1, 2, 3, 5, 8, maxlen]) if maxlen > 8 else r.randrange(0, maxlen + 1))
        a = [3, H.CLIENT, H.SERVER, pl, not last, True, (start_ssn + i) % 8, start_rsn]
        fb = build(a).to_bytes()
        frames_.append((a, fb))
        parts.append(fb[1:] if (shared and i > 0) else fb)
    return frames_, b"".join(parts)


def chunkings(n, r, ctx):
    out = [[n]]
    if n <= 40:
        out += [[i, n - i] for i in range(1, n)]
        if n <= 26 or ctx.thorough:
            out += [[i, j, n - i - j] for i in range(1, n) for j in range(1, n - i)]
    out.append([1] * n)
    for _ in range(ctx.scale(3, 8)):
        cuts, left = [], n
        while left > 0:
            k = min(left, r.choice([1, 1, 2, 3, 5, 8, 13, 64, 128, r.randrange(1, left + 1)]))
            cuts.append(k)
            left -= k
        out.append(cuts)
    return out


def script_for(stream, cuts, link):
    ops = [[4] + link]
    pos = 0
    for k in cuts:
        ops.append([0, stream[pos:pos + k]])
        ops.append([2, H.CLIENT, H.SERVER])
        pos += k
    return ops


def run(ctx):
    r = lib.rng("C10")
    scripts = []      # (ops, frames, stream, cuts)
    # connect phase: one UA in AWAITING_CONNECTION
    for pl in (b"", b"\x81\x80\x12\x05\x01\x80\x06\x01\x80\x07\x04\x00\x00\x00\x01\x08\x04\x00\x00\x00\x01", b"\x7e\x7e"):
        a = [1, H.CLIENT, H.SERVER, pl, False, True, 0, 0]
        fb = build(a).to_bytes()
        for cuts in chunkings(len(fb), r, ctx)[:ctx.scale(60, 100000)]:
            scripts.append((script_for(fb, cuts, [3, 0, 0, 0, 0]), [(a, fb)], fb, cuts))
    # response phase
    plan = [(1, 6, False), (1, 8, False), (2, 4, False), (2, 4, True), (3, 3, True), (3, 2, False)]
    plan += [(r.randrange(1, 9), r.choice([3, 8, 60, 200, 2030]), r.random() < 0.5) for _ in range(ctx.scale(40, 240))]
    plan += [(1, 2030, False), (8, 128, True), (8, 128, False), (1, 116, False), (2, 116, True), (2, 116, False), (1, 115, False), (1, 117, False), (1, 372, False)]
    for nframes, maxlen, shared in plan:
        cs, cr = r.randrange(8), r.randrange(8)
        link = [2, cs, cr, cr, cs]          # AWAITING_RESPONSE; client_ssn=cs, client_rsn=cr, server_ssn=cr, server_rsn=cs
        frs, stream = make_stream(r, nframes, maxlen, shared, cs, cr)
        cks = chunkings(len(stream), r, ctx)
        if len(stream) > 40:
            cks = cks[:1] + cks[-ctx.scale(4, 9):]
            if len(stream) > 3000:
                cks = [c for c in cks if len(c) < 2500]          # no one-byte schedules for 16 KB streams (quadratic in the unary model)
        elif not ctx.thorough and len(cks) > 400:
            cks = cks[:80] + r.sample(cks[80:], 320)
        for cuts in cks:
            scripts.append((script_for(stream, cuts, link), frs, stream, cuts))
    # correspondence: same scripts on the model
    big = [s for s in scripts if len(s[2]) > 3000]
    small = [s for s in scripts if len(s[2]) <= 3000]
    ctx.corr([("conn_script", s[0]) for s in small + big[:ctx.scale(6, 24)]], impl, "conn_script",
             nontrivial=lambda a, out: True, decisive=None)
    # search on the implementation
    for ops, frs, stream, cuts in scripts:
        out = H.run_script(ops)
        delivered, early = [], None
        consumed = 0
        ends, pos = [], 0
        # byte offset at which each frame is complete
        off = 0
        for i, (a, fb) in enumerate(frs):
            ln = len(fb) - (1 if (len(stream) < sum(len(f[1]) for f in frs) and i > 0) else 0)
            off += ln
            ends.append(off)
        for step, o in enumerate(out[1:]):
            if step % 2 == 0:
                consumed += cuts[step // 2]
                continue
            evs, snap = o
            for e in evs:
                if isinstance(e, list):
                    delivered.append(e)
                    if ends[len(delivered) - 1] > consumed:
                        early = (len(delivered), consumed)
                elif isinstance(e, E):
                    delivered.append(e)
        ctx.tried("chunked_stream", key=(stream[:40], tuple(cuts[:12]), len(stream)))
        want = [[3 if a[0] == 3 else 1, [a[1], a[2], a[3] if a[3] is not None else b"", a[4], a[5], a[6], a[7]]] for a, _ in frs]
        got = [[e[0], [e[1][0], e[1][1], e[1][2] or b"", e[1][3], e[1][4], e[1][5], e[1][6]]] if isinstance(e, list) else e for e in delivered]
        case = {"stream": stream.hex() if len(stream) < 400 else stream[:200].hex() + "...", "cuts": cuts[:60], "link": ops[0][1:], "nframes": len(frs),
                "script": lib.v_text(ops) if len(stream) < 400 else None}
        if lib.canon(got) != lib.canon(want):
            ctx.fail("frames_not_delivered_exactly_once_in_order", case, lib.v_text(lib.canon(want))[:300], lib.v_text(lib.canon(got))[:300])
        elif early:
            ctx.fail("frame_delivered_before_its_last_byte", case, "NEED_DATA", f"frame {early[0]} after {early[1]} bytes")
        elif out[-1][1][5] != 0 or out[-1][1][6] != 1:
            ctx.fail("buffer_not_empty_afterwards", case, "len(buffer)=0, search position 1", lib.v_text(out[-1][1]))
    ctx.exhaustive.append("every single cut and every pair of cuts of every generated stream of at most 26 bytes")
    ctx.sample({"kind": "search", "stream": scripts[200][2].hex()[:120], "cuts": scripts[200][3][:20]})


def replay(ctx, rp):
    c = rp["case"]
    if not c.get("script"):
        return True
    ops = lib.v_parse(c["script"])
    out = H.run_script(ops)
    n = sum(1 for o in out[1:] if isinstance(o, list) and len(o) == 2 and isinstance(o[0], list) for e in o[0] if isinstance(e, list))
    return n != c["nframes"] or out[-1][1][5] != 0
