"""Shared harness machinery: guarded implementation calls, the value format spoken with the
extracted Coq model, Coq builds, kernel cross-checks, evidence, replays, known findings."""
import contextlib
import fcntl
import hashlib
import io
import json
import logging
import os
import random
import re
import resource
import shutil
import signal
import subprocess
import sys
import time

VERIF = os.path.dirname(os.path.dirname(os.path.abspath(__file__)))
REPO = os.environ.get("VERIF_REPO", "/repo")
COQ = os.path.join(VERIF, "coq")
BIN = os.path.join(VERIF, "bin", "dlms_model")
os.environ["PYTHONHASHSEED"] = "0"
os.environ["PYTHONDONTWRITEBYTECODE"] = "1"
sys.dont_write_bytecode = True
if REPO not in sys.path:
    sys.path.insert(0, REPO)
logging.disable(logging.CRITICAL)

ERR_REFUSED, ERR_FUEL, ERR_PROTO, ERR_PREEST, ERR_DECRYPT, ERR_NEED = 1, 2, 3, 4, 5, 6


# ------------------------------------------------------------------ guarded impl calls
class Hang(BaseException):
    pass


def _alarm(signum, frame):
    raise Hang()


_guard_ready = False


def _init_guard():
    global _guard_ready
    if not _guard_ready:
        signal.signal(signal.SIGALRM, _alarm)
        try:
            resource.setrlimit(resource.RLIMIT_AS, (4 * 2 ** 30, 4 * 2 ** 30))
        except Exception:
            pass
        _guard_ready = True


class Outcome:
    """ok(value) | exc(class name, mro names) | hang"""
    __slots__ = ("kind", "value", "exc", "mro", "msg")

    def __init__(self, kind, value=None, exc=None, mro=(), msg=""):
        self.kind, self.value, self.exc, self.mro, self.msg = kind, value, exc, mro, msg

    @property
    def ok(self):
        return self.kind == "ok"

    def __repr__(self):
        if self.kind == "ok":
            return f"ok({self.value!r})"
        if self.kind == "hang":
            return "hang"
        return f"exc({self.exc}: {self.msg[:80]})"


def guarded(fn, timeout=3.0):
    """Run fn() with a timer and a memory limit; the implementation's own prints are captured."""
    _init_guard()
    signal.setitimer(signal.ITIMER_REAL, timeout)
    try:
        with contextlib.redirect_stdout(io.StringIO()):
            v = fn()
        return Outcome("ok", v)
    except Hang:
        return Outcome("hang")
    except MemoryError:
        return Outcome("hang")
    except RecursionError as e:
        return Outcome("exc", exc="RecursionError", mro=("RecursionError",), msg=str(e))
    except Exception as e:
        return Outcome("exc", exc=type(e).__name__, mro=tuple(c.__name__ for c in type(e).__mro__), msg=str(e))
    finally:
        signal.setitimer(signal.ITIMER_REAL, 0)


def bytes_and_bytearray(run, data, val):
    """run(data) once with the input as bytes and once as bytearray (the library hands bytearray slices to its own decoders
    in several places, callers hand over bytes): the canonical outcome - or, when the two differ, a marker value that
    no model answer equals, so that the correspondence reports the input"""
    a = val(guarded(lambda: run(bytes(data))))
    b = val(guarded(lambda: run(bytearray(data))))
    if v_text(canon(a)) == v_text(canon(b)):
        return a
    return [b"result depends on bytes vs bytearray input", a, b]


def _to_bytearray(a):
    if isinstance(a, bytes):
        return bytearray(a), True
    if isinstance(a, list):
        out, any_ = [], False
        for x in a:
            y, ch = _to_bytearray(x)
            out.append(y)
            any_ = any_ or ch
        return out, any_
    return a, False


def with_bytearray_variant(impl, ops):
    """wrap a property module's impl(op, arg): the decoding operations named in `ops` are run a second time with every
    bytes value of the argument handed over as a bytearray (what the library's own layers pass down); when the canonical
    outcomes differ the result is a marker no model answer equals, so the correspondence reports the input"""
    def wrapped(op, a):
        r1 = impl(op, a)
        if op not in ops:
            return r1
        a2, changed = _to_bytearray(a)
        if not changed:
            return r1
        r2 = impl(op, a2)
        if v_text(canon(r1)) == v_text(canon(r2)):
            return r1
        return [b"result depends on bytes vs bytearray input", r1, r2]
    return wrapped


def encode_after_field_change(make, v1, v2, encode=lambda o: o.to_bytes(), touch=None):
    """an object built for v1 and used once (encoded), whose attributes are then all assigned the values of an object built for
    v2, must encode like a freshly built v2 (nothing computed for the earlier field values may survive the assignment).
    -> (outcome on the re-used object, outcome on the fresh object) as canonical values, or None when the class is frozen"""
    import attr
    o1, o2 = guarded(lambda: make(v1)), guarded(lambda: make(v2))
    if not (o1.ok and o2.ok) or type(o1.value) is not type(o2.value) or not attr.has(type(o1.value)):
        return None
    a, b = o1.value, o2.value
    guarded(lambda: encode(a))
    if touch:
        guarded(lambda: touch(a))
    try:
        for f in attr.fields(type(b)):
            if f.init is False and f.name.startswith("_"):
                continue
            setattr(a, f.name, getattr(b, f.name))
    except (attr.exceptions.FrozenInstanceError, AttributeError):
        return None
    val = lambda o: canon(o.value) if o.ok else E(err_code(o))
    return val(guarded(lambda: encode(a))), val(guarded(lambda: encode(b)))


def err_code(o, proto=(), named=None):
    """coarse error class of a non-ok outcome"""
    if o.kind == "hang":
        return ERR_FUEL
    named = named or {}
    for cls, code in named.items():
        if cls in o.mro:
            return code
    return ERR_REFUSED


# ------------------------------------------------------------------ value format
class E:
    """error value"""
    def __init__(self, code):
        self.code = code

    def __eq__(self, other):
        return isinstance(other, E) and other.code == self.code

    def __hash__(self):
        return hash(("E", self.code))

    def __repr__(self):
        return f"E({self.code})"


def v_text(x):
    """python value -> driver token string"""
    if x is None:
        return "N"
    if x is True:
        return "T"
    if x is False:
        return "F"
    if isinstance(x, E):
        return "E%x" % x.code
    if isinstance(x, int):
        return ("I-%x" % -x) if x < 0 else ("I%x" % x)
    if isinstance(x, (bytes, bytearray)):
        return "B" + bytes(x).hex()
    if isinstance(x, (list, tuple)):
        return "L( " + "".join(v_text(y) + " " for y in x) + ")"
    raise TypeError(f"cannot encode {type(x)} {x!r}")


def v_coq(x):
    """python value -> Coq term of type V"""
    if x is None:
        return "VNone"
    if x is True:
        return "(VBool true)"
    if x is False:
        return "(VBool false)"
    if isinstance(x, E):
        return "(VErr %d%%N)" % x.code
    if isinstance(x, int):
        return "(VInt (%d)%%Z)" % x
    if isinstance(x, (bytes, bytearray)):
        return "(VBytes [" + ";".join(str(b) for b in bytes(x)) + "]%N)"
    if isinstance(x, (list, tuple)):
        return "(VList [" + ";".join(v_coq(y) for y in x) + "])"
    raise TypeError(f"cannot encode {type(x)}")


def v_parse(s):
    toks = s.split()
    pos = 0

    def parse():
        nonlocal pos
        t = toks[pos]
        pos += 1
        if t == "N":
            return None
        if t == "T":
            return True
        if t == "F":
            return False
        if t == "L(":
            out = []
            while toks[pos] != ")":
                out.append(parse())
            pos += 1
            return out
        c, body = t[0], t[1:]
        if c == "I":
            return int(body, 16)
        if c == "B":
            return bytes.fromhex(body)
        if c == "E":
            return E(int(body.split()[0], 16))
        raise ValueError(f"bad token {t!r} in {s!r}")

    return parse()


def canon(x):
    """canonical comparable form of python-side values (bytearray == bytes, tuple == list)"""
    if isinstance(x, (bytes, bytearray)):
        return bytes(x)
    if isinstance(x, (list, tuple)):
        return [canon(y) for y in x]
    return x


# ------------------------------------------------------------------ opcodes
_OPS = None


def opcodes():
    global _OPS
    if _OPS is None:
        _OPS = {}
        with open(os.path.join(COQ, "theories", "Dispatch.v")) as f:
            for m in re.finditer(r"\|\s*(\d+)\s*\(\*\s*(\w+)\s*\*\)\s*=>", f.read()):
                _OPS[m.group(2)] = int(m.group(1))
    return _OPS


def run_model(cases, timeout=900):
    """cases: list of (opname, python arg) -> list of python values from the extracted model"""
    if not cases:
        return []
    ops = opcodes()
    inp = "".join(f"{ops[op]} {v_text(a)}\n" for op, a in cases)
    p = subprocess.run(["bash", "-c", f"ulimit -s unlimited 2>/dev/null; ulimit -v 8000000 2>/dev/null; exec {BIN}"], input=inp.encode(),
                       stdout=subprocess.PIPE, stderr=subprocess.PIPE, timeout=timeout)
    lines = p.stdout.decode().splitlines()
    if len(lines) != len(cases):
        raise RuntimeError(f"model driver returned {len(lines)} lines for {len(cases)} cases (rc={p.returncode}): "
                           f"{p.stderr.decode()[-300:]}")
    return [v_parse(l) for l in lines]


# ------------------------------------------------------------------ Coq builds
class Lock:
    def __enter__(self):
        os.makedirs(os.path.join(VERIF, "work"), exist_ok=True)
        self.f = open(os.path.join(VERIF, "work", ".lock"), "w")
        fcntl.flock(self.f, fcntl.LOCK_EX)
        return self

    def __exit__(self, *a):
        fcntl.flock(self.f, fcntl.LOCK_UN)
        self.f.close()


def sh(cmd, timeout=3600, cwd=VERIF):
    p = subprocess.run(cmd, shell=True, cwd=cwd, stdout=subprocess.PIPE, stderr=subprocess.STDOUT, timeout=timeout)
    return p.returncode, p.stdout.decode(errors="replace")


def translator():
    rc, out = sh("/venv/bin/python harness/gen_tables.py", timeout=300)
    try:
        rep = json.loads(out.strip().splitlines()[-1])
    except Exception:
        rep = {"translator_error": out[-500:]}
    return rc == 0 and "translator_error" not in rep, rep


def coq_build(targets):
    """build the given make targets (relative to coq/); returns (ok, log)"""
    rc, out = sh("./build.sh " + " ".join(targets), timeout=7200)
    return rc == 0, out


def model_build(keep_gen=False):
    """(re)build the extracted driver: needs only the model files, no proofs.
    keep_gen: the translator refused the current source - build from the generated files of the last accepted source"""
    rc, out = sh(("VERIF_KEEP_GEN=1 " if keep_gen else "") + "./build.sh extract/Extract.vo && ./build_driver.sh", timeout=3600)
    return rc == 0, out


def closure_files(prop_file):
    """the project .v files properties/<id>.v depends on (transitively, itself included), from coqdep"""
    rc, out = sh("coqdep -f _CoqProject 2>/dev/null", cwd=COQ)
    deps = {}
    for line in out.replace("\\\n", " ").splitlines():
        if ":" not in line:
            continue
        lhs, rhs = line.split(":", 1)
        targets = [t for t in lhs.split() if t.endswith(".vo")]
        ds = [d[:-1] for d in rhs.split() if d.endswith(".vo") and not d.startswith("/")]
        for t in targets:
            deps[t[:-1]] = ds
    seen, todo = [], [prop_file]
    while todo:
        f = todo.pop()
        if f in seen:
            continue
        seen.append(f)
        todo.extend(deps.get(f, []))
    return sorted(f for f in seen if os.path.exists(os.path.join(COQ, f)))


def count_qed(files):
    n = 0
    for f in files:
        with open(os.path.join(COQ, f)) as fh:
            n += len(re.findall(r"\b(Qed|Defined)\s*\.", fh.read()))
    return n


FORBIDDEN = re.compile(r"\b(Admitted|admit|Axiom|Parameter|Conjecture|Hypothesis|Variable|Unset\s+Guard|bypass_check|type-in-type|Admit\s+Obligations)\b")


def grep_gate():
    """no Admitted/axioms/etc. anywhere under coq/ (Variable/Hypothesis allowed only inside Sections)"""
    bad = []
    for root in ("theories", "properties", "gen", "extract"):
        d = os.path.join(COQ, root)
        for fn in sorted(os.listdir(d)) if os.path.isdir(d) else []:
            if not fn.endswith(".v"):
                continue
            depth = 0
            text = open(os.path.join(d, fn)).read()
            text = re.sub(r"\(\*.*?\*\)", lambda m: " " * len(m.group(0)), text, flags=re.S)
            for i, line in enumerate(text.splitlines(), 1):
                if re.match(r"\s*Section\b", line):
                    depth += 1
                if re.match(r"\s*End\b", line) and depth > 0:
                    depth -= 1
                m = FORBIDDEN.search(line)
                if m:
                    if m.group(1) in ("Hypothesis", "Variable") and depth > 0:
                        continue
                    bad.append(f"{root}/{fn}:{i}: {m.group(1)}")
    return bad


def print_assumptions(pid):
    """run Print Assumptions on every Theorem of properties/<pid>.v; returns {thm: text}"""
    src = open(os.path.join(COQ, "properties", f"{pid}.v")).read()
    thms = re.findall(r"^\s*Theorem\s+(\w+)", src, flags=re.M)
    wd = workdir()
    fn = os.path.join(wd, f"PA_{pid}.v")
    with open(fn, "w") as f:
        f.write(f"From Dlms.Props Require Import {pid}.\n")
        for t in thms:
            f.write(f'Print Assumptions {t}.\n')
    rc, out = sh(f"coqc -Q theories Dlms -Q gen Dlms.Gen -Q properties Dlms.Props {fn}", cwd=COQ, timeout=600)
    parts = re.split(r"(?=Closed under the global context|Axioms:)", out)
    res = {}
    chunks = [p.strip() for p in parts if p.strip()]
    for t, c in zip(thms, chunks):
        res[t] = c
    return rc == 0 and len(chunks) == len(thms), res, thms


_WD = None


def workdir():
    global _WD
    if _WD is None:
        _WD = os.path.join(VERIF, "work", str(os.getpid()))
        os.makedirs(_WD, exist_ok=True)
        import atexit
        atexit.register(lambda: shutil.rmtree(_WD, ignore_errors=True))
    return _WD


def kernel_crosscheck(cases, expected, per_file=300, max_files=4):
    """Evaluate a sample of (op, arg) cases with vm_compute inside Coq and compare with `expected`
    (the extracted model's answers).  Guards the extraction/driver glue. Returns (n_checked, n_bad, detail)."""
    ops = opcodes()
    wd = workdir()
    files = []
    idx = list(range(len(cases)))
    n = min(len(idx), per_file * max_files)
    step = max(1, len(idx) // n) if n else 1
    sample = idx[::step][:n]
    for k in range(0, len(sample), per_file):
        part = sample[k:k + per_file]
        fn = os.path.join(wd, f"cases_{k}.v")
        with open(fn, "w") as f:
            f.write("From Dlms Require Import Base Dispatch.\nOpen Scope N_scope.\n")
            f.write("Definition cases : list (N * V * V) := [\n")
            f.write(";\n".join(f"({ops[cases[i][0]]}%N, {v_coq(cases[i][1])}, {v_coq(expected[i])})" for i in part))
            f.write("].\n")
            f.write("Definition bad := filter (fun c => negb (v_eqb (run (fst (fst c)) (snd (fst c))) (snd c))) cases.\n")
            f.write("Eval vm_compute in (length cases, length bad).\n")
        files.append(fn)
    if not files:
        return 0, 0, ""
    cmd = "ls " + " ".join(files) + " | xargs -P 8 -n 1 timeout 600 coqc -Q theories Dlms -Q gen Dlms.Gen"
    rc, out = sh("ulimit -s unlimited 2>/dev/null; " + cmd, cwd=COQ, timeout=3000)
    tot = bad = 0
    for m in re.finditer(r"=\s*\((\d+)%nat,\s*(\d+)%nat\)|=\s*\((\d+),\s*(\d+)\)", out):
        a, b = (m.group(1), m.group(2)) if m.group(1) is not None else (m.group(3), m.group(4))
        tot += int(a)
        bad += int(b)
    if tot != len(sample):
        return tot, max(bad, 1), "kernel evaluation incomplete: " + out[-400:]
    return tot, bad, ""


# ------------------------------------------------------------------ findings, replays, evidence
def known_findings(pid):
    fn = os.path.join(VERIF, "known_findings.json")
    if not os.path.exists(fn):
        return []
    return [f for f in json.load(open(fn)) if f["property"] == pid and f.get("status") == "open"]


def write_replay(pid, payload):
    os.makedirs(os.path.join(VERIF, "replays"), exist_ok=True)
    body = json.dumps(payload, sort_keys=True, default=repr)
    h = hashlib.sha1(body.encode()).hexdigest()[:12]
    fn = os.path.join(VERIF, "replays", f"{pid}-{h}.json")
    payload = dict(payload)
    payload["how"] = f"./check {pid} --replay {fn}"
    with open(fn, "w") as f:
        json.dump(payload, f, indent=1, sort_keys=True, default=repr)
    return fn


def seed():
    try:
        return int(os.environ.get("VERIF_SEED", "0"))
    except ValueError:
        return 0


def rng(tag=""):
    return random.Random(f"{seed()}-{tag}")
