#!/bin/bash
# re-applies every stored seeded change to /repo (one at a time), runs the property's quick check, reverts;
# prints which are detected.  /repo must be clean; never leaves a change behind.
cd /repo && [ -z "$(git status --porcelain)" ] || { echo "/repo is not clean"; exit 2; }
for d in /verif/seeded/*/; do
  name=$(basename $d); id=${name%%_*}; id=${id%b}
  [ -f $d/patch.diff ] || continue
  cd /repo
  if git apply --check $d/patch.diff 2>/dev/null; then git apply $d/patch.diff; how=apply
  elif patch -p1 --dry-run -s < $d/patch.diff >/dev/null 2>&1; then patch -p1 -s < $d/patch.diff; how=patch
  else echo "$name: patch no longer applies"; continue; fi
  cd /verif && out=$(timeout 3000 ./check $id 2>&1); rc=$?
  git -C /repo checkout -- . ; find /repo -name "*.orig" -delete
  v=$(echo "$out" | grep VIOLATION | head -1 | cut -c1-120)
  echo "$name ($id, $how): rc=$rc $v"
done
