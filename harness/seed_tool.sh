#!/bin/bash
# seed_tool.sh <id> [worktree] [name]: confirm a seeded change (tests pass, demo fails with / passes without),
# store it under /verif/seeded/<name>/, then run the check against it on /repo and undo.
id=$1; wt=${2:-/tmp/wt_$id}; name=${3:-$id}
set -u
out=/verif/seeded/$name; mkdir -p $out
cd $wt || exit 2
git diff -- dlms_cosem > $out/patch.diff
[ -s $out/patch.diff ] || { echo "empty patch"; exit 2; }
cp seed_demo.py $out/seed_demo.py; cp seed_meta.json $out/agent_meta.json 2>/dev/null
t=$(PYTHONPATH=$wt /venv/bin/python -m pytest -q -p no:cacheprovider tests 2>&1 | tail -1)
PYTHONPATH=$wt timeout 300 /venv/bin/python seed_demo.py >/dev/null 2>&1; with=$?
git apply -R $out/patch.diff; PYTHONPATH=$wt timeout 300 /venv/bin/python seed_demo.py >/dev/null 2>&1; without=$?; git apply $out/patch.diff
echo "tests: $t | demo with change rc=$with | without rc=$without"
cd /repo
if git apply --check $out/patch.diff 2>/dev/null; then git apply $out/patch.diff
elif patch -p1 --dry-run -s < $out/patch.diff >/dev/null 2>&1; then patch -p1 -s < $out/patch.diff; echo "(applied with offset)"
else echo "patch does not apply to /repo HEAD"; exit 3; fi
cd /verif && ./check $id > $out/check_output.txt 2>&1; rc=$?
git -C /repo checkout -- . 
tail -3 $out/check_output.txt | cut -c1-400
echo "check rc=$rc"
python3 - <<PY
import json
m={"property":"$id","tests_with_change":"$t","demo_rc_with_change":$with,"demo_rc_without_change":$without,
   "check_cmd":"./check $id","check_rc":$rc,"detected":$rc==1}
try: m["agent"]=json.load(open("$out/agent_meta.json"))
except Exception: pass
json.dump(m,open("$out/meta.json","w"),indent=1)
PY
