#!/usr/bin/env python3
"""prints the prompt given to a mutation sub-agent for property <id> (property text + worktree only)"""
import json, sys
pid = sys.argv[1]
wt = sys.argv[2] if len(sys.argv) > 2 else f"/tmp/wt_{pid}"
for l in open('/verif/properties.jsonl'):
    p = json.loads(l)
    if p['id'] == pid:
        break
print(f"""You are helping test a verification framework by seeding a realistic bug.

The Python library dlms-cosem (a DLMS/COSEM smart-meter protocol implementation) is checked out as a git worktree at {wt} (your own scratch copy; work ONLY inside that directory; never touch /repo or /verif). Run things with `cd {wt} && PYTHONPATH={wt} /venv/bin/python ...`; the existing test suite runs with `cd {wt} && PYTHONPATH={wt} /venv/bin/python -m pytest -q -p no:cacheprovider tests` (221 tests, all pass, about 5 seconds).

Here is a semantic property the library is supposed to satisfy:

TITLE: {p['title']}
STATEMENT: {p['statement']}
QUANTIFIED OVER: {p['quantifier']['text']}
RELEVANT FILES: {', '.join(p['anchors']['files'])}

Your task: make ONE small, realistic change to the library source under {wt}/dlms_cosem (the kind of mistake a maintainer could plausibly make in a refactor, optimisation or bug fix) that BREAKS this property, while
 (a) the package still imports and the full existing test suite still passes unchanged (do not edit tests), and
 (b) the breakage needs something specific to manifest - an unusual input, a boundary value, a particular multi-step sequence, a particular chunking/ordering, or two sites that each look fine alone - NOT something ordinary use would expose at once. Avoid changes that break every call.
If the unchanged library already violates the property for some inputs, make sure your change breaks it for inputs that work correctly WITHOUT your change.

Deliver, inside {wt}:
 1. the source change itself (leave it applied, uncommitted, in the worktree);
 2. a file {wt}/seed_demo.py: a small standalone program that exits 0 on the unchanged library and exits non-zero (printing what went wrong) with your change applied. It must use PYTHONPATH to import the library from the current directory (do not hardcode /repo);
 3. a file {wt}/seed_meta.json with keys: "property" ("{pid}"), "summary" (one sentence: what you changed), "needs" (what specific input/sequence is needed for the bug to manifest), "files" (list of changed files).
Verify yourself before finishing: run the test suite with your change (must pass), run seed_demo.py with your change (must fail), then save your source change with `git diff -- dlms_cosem > {wt}/my.patch`, undo it with `git apply -R {wt}/my.patch`, run seed_demo.py again (must pass), and restore it with `git apply {wt}/my.patch` (do not use `git stash`: the stash is shared with other worktrees of the same repository). Report briefly what you changed. Do not create any other files outside {wt}.""")
