#!/venv/bin/python
"""Regenerates MANIFEST.json from the table below (kept in one place so it is always valid)."""
import json, os
VERIF = os.path.dirname(os.path.dirname(os.path.abspath(__file__)))
ALL = [f"C{i:02d}" for i in range(1, 21)]

CLAIMS = {
    "C12": dict(
        text="Theorems C12_check_value_is_x25 and C12_residue (Coq, axiom-free): for every byte string of any "
             "length the model of crc.py returns the CRC-16/X-25 of the string, low byte first, and appending it "
             "gives residue 0xF0B8. The per-byte update is exhausted by complete 2^16/2^8 kernel sweeps and lifted to "
             "all lengths by induction. The model is tied to crc.py by the translator (polynomial, initial value) and "
             "a correspondence check (all 256 table entries and reversals, sampled register/byte updates, strings to "
             "4096 bytes); the implementation is also compared directly with the extracted reference.",
        note="Trusted: Coq kernel + VM, translator, extraction (ExtrOcamlBasic) + driver, Python harness; the "
             "hand-written model of crc.py is tied by differential testing, not by a proof about Python.",
        technique="Coq proof (kernel sweeps + induction) + translator + model/implementation correspondence",
        design="4/C12"),
    "C20": dict(
        text="26 Coq theorems (axiom-free) covering every field the property names: the conformance block (all 2^17 "
             "flag sets encode to the Green-Book bits and decode back, injective; all 2^24 words decode through the "
             "Green-Book bits), security control, invoke-id and its 32-bit long form (all id < 2^24, all 2^32 words; ids >= 2^24 refused, so encode-then-decode "
             "is the identity for every constructor argument), "
             "clock status, the six HDLC control bytes (incl. pairwise disjointness and refusal of sequence numbers "
             "> 7), the format field (all 2^16 decodes, all lengths <= 2047, refusal above) and OBIS bytes/dotted. "
             "Finite domains are enumerated completely in the kernel. Tie: conformance table regenerated from the "
             "source on every run; every other field compared with the implementation exhaustively on its whole "
             "domain (<= 2^17) in the quick tier.",
        note="Trusted: Coq kernel + VM, translator, extraction + driver, Python harness. Out-of-range values the "
             "library silently accepts (invoke-id > 15) are compared with the model but are outside the property.",
        technique="Coq proof (complete kernel enumeration of finite domains + structural lemmas) + translator + exhaustive correspondence",
        design="4/C20"),
    "C13": dict(
        text="Coq theorems (axiom-free): on the domain addr_ok (client 0..127 without physical part; server upper "
             "<= 127 alone; server with both parts, each <= 16383) the model of HdlcAddress writes exactly the "
             "standard 1/2/4-byte extended form, locating and decoding destination and source in 7E fmt fmt dest "
             "src tail returns the same logical/physical values and lengths for any tail, the constructed address "
             "objects are equal to the originals, and the encoding is injective (no attribution to another "
             "station); out-of-range values are refused; and EVERY address the library accepts lies in that domain "
             "(addr_make l p s = Ok a -> addr_ok a), so the statements hold for all accepted addresses. Tie: "
             "correspondence exhaustive for single addresses, grid+random for pairs, and on address location in "
             "well-formed, short and random frames; search through all six real frame kinds.",
        note="Full statement since repo fix f38aea9 (addresses without a 1/2/4-byte form - server upper > 127 without lower, "
             "client with a physical part - are refused at construction; formerly findings F13a/F13d). Trusted: Coq "
             "kernel + VM, extraction + driver, Python harness; model follows the fix commits e6b12e3 and f38aea9.",
        technique="Coq proof (14-bit kernel sweeps + structural lemmas) + correspondence + frame-level search",
        design="4/C13"),
    "C17": dict(
        text="Coq theorems (axiom-free): the wrapper header is version|source|destination|length as big-endian 16-bit "
             "fields for all values < 65536; wrap then unwrap returns the same ports and payload for every payload "
             "length 0..65535; a length field that disagrees with the payload is refused; the transport's send wraps "
             "with version 1, client and server address and the exact length; and tcp_recv returns exactly the "
             "announced payload and leaves the following bytes unread for EVERY schedule of read sizes (induction "
             "over the schedule, each read >= 1 byte), while an early EOF is an error, never a short APDU; any number of "
             "messages back to back on one stream: n recv() calls return the n payloads whole and in order, the rest "
             "unread (induction over the messages); whole send() sessions write exactly the standard wrapped requests, "
             "one sendall each, and return every answer whole (induction over the requests); soundness with no "
             "hypothesis on stream or schedule: whatever recv() returns is preceded on the stream by a standard header "
             "announcing exactly its length and followed by exactly the unread rest. Tie: "
             "correspondence on header/PDU codecs and on the real BlockingTcpTransport over scripted sockets (every "
             "single/double cut for short messages, random multi-splits, back-to-back messages, EOF; k calls on one "
             "transport object; sessions of send() calls with the sendall arguments compared).",
        note="Trusted: Coq kernel, extraction + driver, Python harness incl. the scripted socket; OS read splitting is "
             "quantified as a schedule list, timeouts/OS errors are not modelled. Model follows fix commit 604b133.",
        technique="Coq proof (induction over read schedules, messages and requests; receive soundness) + correspondence on scripted sockets",
        design="4/C17"),
    "C16": dict(
        text="Coq theorems (axiom-free): for every valid date-time (year 1..9999, Gregorian calendar incl. leap "
             "rules, any microsecond), every UTC offset of whole minutes within a day or none, and every clock status, "
             "the model of datetime_to_bytes produces the 12-byte DLMS layout with deviation = minus the offset "
             "(0x8000 for naive), and decoding that layout returns the same instant truncated to hundredths with the "
             "same awareness and offset (offset zero stays aware) and the same status; and decoding is sound: "
             "anything accepted has year/month/day-of-month/day-of-week/hour/minute/second/hundredths inside their "
             "calendar ranges (so out-of-range fields are refused). Tie: correspondence + search over boundary-complete "
             "instants, every offset -840..840, all status bytes, out-of-range mutations of every field.",
        note="CPython datetime/dateutil are modelled (range + calendar validity, offsets as whole minutes), compared "
             "with the implementation on every run. Model follows fix commits 9688ff1 (UTC offset 0) and 6d91df4 (validators).",
        technique="Coq proof (symbolic round-trip + decode soundness) + correspondence + reference-layout search",
        design="4/C16"),
    "C14": dict(
        text="Coq theorems (axiom-free) over value trees of unbounded depth and width: decoding the standard A-XDR "
             "encoding of any supported value (null, boolean, 8/16/32/64-bit signed/unsigned, enum, octet-string, "
             "date-time/date/time, arrays, structures) returns the corresponding Python value and consumes exactly "
             "the encoded bytes (nested induction with a mutual list lemma); single- and multi-byte length prefixes "
             "are understood and produced (all lengths < 2^32); the four value encoders and the capture-object / "
             "range-descriptor encoders equal the standard encoder; EVERY non-empty proper prefix of every encoding "
             "is refused by parse_as_dlms_data with an ordinary error; and the decoder terminates on every input "
             "(no fuel exhaustion, proved with a consumption lemma and fuel monotonicity). The tag->decoder table "
             "is regenerated from the source by probing each class. Tie: correspondence on complete encodings, "
             "every proper prefix of encodings <= 80 bytes, multi-value buffers, malformed and random bytes.",
        note="Trusted: Coq kernel, translator (behavioural probing of DlmsDataFactory.MAP), extraction + driver, "
             "Python harness. Model follows fix commits f14702e (bounds check), bace32e (length prefix), 079d089 (signed int8).",
        technique="Coq proof (nested structural induction, fuelled decoder with termination proof) + translator + correspondence",
        design="4/C14"),
    "C09": dict(
        text="Coq theorems (axiom-free): (1) every frame of the six kinds in the domain frame_ok (C13 addresses, "
             "numbers 0..7, both flag bits, any payload, total length <= 2047) serialises to flag|format|dest|src|control|"
             "HCS|information|FCS|flag with the 11-bit length of everything between the flags and both check sequences "
             "equal to the X-25 CRC over the right spans (composition of the C12, C13 and C20 theorems); (2) whatever a "
             "parser accepts is enclosed by flags, has exactly the announced length and a frame check sequence that is "
             "correct for the RECEIVED bytes; (3) every truncation or extension (length differing from the carried "
             "length field) is refused; (4) corruption: the CRC register is linear over GF(2); every error burst of at most 16 "
             "bits (a 2^16 x 8 sweep in the kernel, lifted to messages of ANY length) has a non-zero syndrome; any two flipped "
             "bits have one (the register 1 does not return to 1 within 32766 zero-input steps - walked in the kernel - so for "
             "messages up to 4095 bytes two single-bit syndromes differ); any odd number of flipped bits has one (the generator "
             "has the factor x+1: register parity is invariant). Hence a valid frame of any length hit between its flags by "
             "ANY error of one, two or three bits or by ANY single burst of <= 16 bits no longer carries a correct frame check "
             "sequence and is refused by every parser (a damaged flag is refused by (2)); (5) round trip: parsing the standard "
             "bytes of ANY frame in the domain with the parser of its kind returns its addresses, sequence numbers, poll/final "
             "and segmentation bits and payload (the five parsers; addresses in the direction the parser assumes). The model "
             "is compared with the implementation on every generated frame (incl. frames crafted so that each HCS/FCS byte is "
             "7E/00/FF), on every single-bit flip and truncation of every frame <= 80 bytes and on sampled 2-/3-bit flips and "
             "bursts.",
        note="All clauses of the property are theorems about the model (layout, round trip, acceptance soundness, resize "
             "refusal, corruption); the tie to the code is the correspondence and fault enumeration. Model follows fix "
             "commits 13a5e7c (check sequences over received bytes) and f440141 (segmentation bit kept). Known finding F09b: "
             "P/F attribute of SNRM/UA/DISC/RR is not on the wire.",
        technique="Coq proof (layout, acceptance soundness, CRC linearity, burst / 2-bit / odd-weight detection) + correspondence + exhaustive single-fault enumeration",
        design="4/C09"),
    "C03": dict(
        text="Coq theorems (axiom-free) over the generated transition table and the modelled control flow of send / "
             "next_event (pre-established guards, reject -> reset, HLS start, the HLS_DONE tail): over the property's "
             "alphabet (6 request kinds sent, 15 response kinds received), every state, every attribute combination and "
             "both association modes, whatever is accepted is a legal step of the client procedure with the prescribed "
             "post-state (must/may reference automaton of DESIGN appendix A), every required step is accepted, ACSE APDUs "
             "on a pre-established association are refused in both directions in every state with the pre-established "
             "error; for histories of any length the state stays inside the declared states and a pre-established "
             "association never leaves {ready, awaiting-*, should-ack} (induction over the operation list; the finite "
             "step relation is enumerated completely in the kernel). Tie: table regenerated from the source; the graph of "
             "the real DlmsConnection is exhausted for plain, LLS, HLS-GMAC/ciphered and pre-established configurations.",
        note="Trusted: Coq kernel + VM, translator, extraction + driver, Python harness (connections are forced into a "
             "state by assigning the state attribute). Opposite-direction events (a client 'receiving' a request kind) are "
             "outside the property's alphabet; the table itself has no direction.",
        technique="Coq proof (complete kernel enumeration of the step relation + induction over histories) + translator + exhaustive graph correspondence",
        design="4/C03"),
    "C01": dict(
        text="Coq theorems (axiom-free) over the model of all 21 xDLMS APDU kinds, the four request/response factories and the "
             "tag dispatch of XDlmsApduFactory (tag map, enumerations and service-error maps generated from the source on "
             "every run): for EVERY value in the stated domain - all invoke-ids and flag bits, every enumeration member, "
             "all 2^48 OBIS codes, ids 0..255, block numbers / counters / long-invoke-ids of their full range, payloads and "
             "ciphertexts of ANY length below 2^32 (so every length-prefix boundary) - the encoder produces exactly the "
             "bytes of an independent Green-Book/A-XDR reference encoder, and the tag-dispatching decoder maps those bytes "
             "back to the same value; hence two different values never share an encoding. Correspondence compares "
             "to_bytes and XDlmsApduFactory.apdu_from_bytes with the model on boundary-complete grids, malformed and "
             "truncated inputs; the search compares the implementation with the extracted reference encoder directly.",
        note="Value domain (boolean wf_apdu, inhabited for every kind): optional fields the code treats by truthiness are "
             "identified with their falsy representative; two classes are outside it and proved NOT to round-trip - "
             "known findings F01e (GetRequestNormal access selection) and F01f (InitiateRequest quality of service / "
             "version / response-allowed are never encoded). The with-list variants are not representable in the library.",
        technique="Coq proof (per-kind layout and inverse theorems) + generated tables + differential correspondence",
        design="4/C01"),
    "C02": dict(
        text="Coq theorems (axiom-free) over the model of ber.py, the ACSE component codecs (context / mechanism object "
             "identifiers, authentication value, functional unit, user-information wrapping the xDLMS APDU of C01) and the four "
             "APDUs with their component loops (tag tables, component order and OID constants generated from the source on "
             "every run): for EVERY AARQ, AARE, RLRQ and RLRE in the stated domain - any context, every mechanism, every "
             "result x diagnostic, every release reason, titles / certificates / passwords / challenges / user-information of "
             "ANY length below 2^24, every optional component present or absent - the encoder produces exactly the bytes of "
             "an independent BER reference writer, those bytes are the encoding of a TLV tree (definite lengths, well nested "
             "at every level), decoding them returns the value, different values have different encodings, and the "
             "acse-requirements and mechanism-name components are present exactly when a mechanism other than none is "
             "selected. Correspondence compares to_bytes/from_bytes with the model on boundary-complete grids and on "
             "malformed input; the search compares the implementation with the extracted reference writer and an independent "
             "TLV checker.",
        note="Value domain: authentication None == AuthenticationMechanism.NONE; user-information content in the domain of "
             "C01. The 'authentication value present exactly when a mechanism is selected' clause is proved for the "
             "consistent combinations and proved false for the others (known finding F02c). asn1crypto's handling of the "
             "result-source-diagnostic CHOICE is modelled on its canonical form, not verified.",
        technique="Coq proof (component-list lemmas by induction, per-APDU layout and inverse theorems) + generated tables + differential correspondence",
        design="4/C02"),
    "C07": dict(
        text="Coq theorems (axiom-free, for an arbitrary block function, hence AES) about the model of the whole receive path "
             "(XDlmsApduFactory over all xDLMS and ACSE decoders, update_meter_info, unprotect with counter check and GCM "
             "decryption, the pre-established guard, the state machine and its HLS tail, update_negotiated_parameters): "
             "whenever next_event raises - for ANY input bytes and ANY reason - protocol state, both invocation counters, "
             "meter title, mechanism, challenge, conformance and PDU size are exactly what they were; and a refused input "
             "inserted anywhere in ANY session leaves every later step, genuine answers included, exactly as it would have "
             "been (induction over the session). The model is executable with the Gallina AES-GCM and is compared with the "
             "real DlmsConnection after every step of complete ciphered / pre-established / plain sessions with every kind "
             "of refused input inserted at every position; the search checks the implementation's own attributes (and its "
             "receive buffer) before/after and the genuine continuation.",
        note="The theorems are immediate from the structure next_event has since repo fix 47ff9e5 (restore on raise); what "
             "carries the weight is the tie: the model agrees with the implementation on result and all observables after "
             "every step. asn1crypto's decoding of non-canonical diagnostics is outside the model (such scripts are skipped).",
        technique="Coq proof over an executable model of the connection (AES-GCM included) + session-level differential correspondence + before/after search",
        design="4/C07"),
    "C04": dict(
        text="Coq theorems (axiom-free, arbitrary block function, hence AES) about the model of DlmsConnection.send / protect / "
             "encrypt and the receive path: on a connection that uses protection EVERY output of send - any APDU kind, payload, "
             "protocol state, key, title, suite, counter - is a general-glo-ciphering APDU with the client title, security "
             "control 0x30+suite and the counter used, in the standard layout, around the GCM protection of the plain encoding "
             "(which decrypts to exactly that encoding under the configured keys, by C05), or an AARQ / RLRQ whose "
             "user-information is the glo-initiate-request around the protection of its initiate parameters; there is no "
             "other branch (with a key missing nothing is sent). ANY unciphered xDLMS APDU arriving on such a connection "
             "(GET/SET/ACTION responses, data-notification, ...) is refused, changes nothing and is never delivered. "
             "Correspondence runs every sendable kind in every state and complete sessions on the real connection; the "
             "search decrypts every real output with OpenSSL and compares it with the plain encoding.",
        note="'The plain encoding never appears in the output' is not a theorem (a ciphertext may contain any short string); the "
             "theorem shows every output is built from the protection of the plain encoding, the search adds a substring "
             "test. An association / release RESPONSE with plain user-information is accepted by the library (the property "
             "speaks of GET/SET/ACTION responses and notifications).",
        technique="Coq proof over an executable model of the connection + session-level differential correspondence + OpenSSL decryption of real outputs",
        design="4/C04"),
    "C06": dict(
        text="Coq theorems (axiom-free, arbitrary block function) about the model of the connection, by induction over sessions of "
             "ANY length and order (protected sends of every kind, HLS replies, receives): the counters passed to the AES-GCM "
             "primitive with the global key are start, start+1, start+2, ... - the i-th use takes start+i and a step moves the "
             "counter by 0 or 1 - hence no nonce (system title || counter) is ever used twice, and a protected APDU carries the "
             "counter it used (C04); on the receive side an APDU is accepted only if its counter is strictly above the stored "
             "one, which it then replaces, so the counters of the accepted ciphered APDUs of any session are strictly "
             "increasing: a recorded APDU delivered again, an older one, or one equal to the last accepted is refused. "
             "Correspondence: random histories on the real connection with the AES-GCM primitive wrapped to record the nonces "
             "actually used, starting counters up to the 32-bit limit.",
        note="The HLS reply used to share its nonce with the ACTION request carrying it (repaired: repo fix bb875f9). A first "
             "meter counter of 0 is refused by the library (stored counter starts at 0, test is 'greater than') - stricter "
             "than the property, noted only. At 2^32 the counter does not wrap: the operation raises (modelled as such).",
        technique="Coq proof by induction over operation histories + differential correspondence with recorded nonces",
        design="4/C06"),
    "C08": dict(
        text="Coq theorems (axiom-free, arbitrary block function) about the model of the connection: the reply to the meter's "
             "challenge is SC || counter || first 12 bytes of the GCM tag over AAD = SC || AK || meter challenge under nonce "
             "client title || counter (SC = 0x10+suite), and consumes its counter; no service request can be sent while the "
             "exchange is unfinished (nothing in the two waiting states, only the ACTION request while the reply is due - over "
             "the generated transition table); and for ANY input bytes: if the connection goes from 'awaiting the meter's "
             "result' to READY, the input was an ACTION response with status success whose data is an octet string ending in "
             "the GMAC computed with the configured keys over the client's challenge under the meter's title and the counter "
             "it carries - so an altered proof, wrong challenge / key / title, error status, missing or malformed data never "
             "makes the association ready. Correspondence and search: the exchange on the real connection for several "
             "suites / challenge lengths 8..64 / counters, with bit-altered and structurally different answers and every "
             "order of the four steps; reply and acceptance are recomputed independently with cryptography's AESGCM.",
        note="Not a theorem (cannot be): that a proof made with another key / title / challenge differs from the expected GMAC "
             "(unforgeability); enumerated instead. Bytes between the counter and the last 12 bytes of the meter's answer are "
             "ignored by the library (observed; the property does not forbid it).",
        technique="Coq proof over an executable model of the connection and the generated state table + differential correspondence + independent GMAC recomputation",
        design="4/C08"),
    "C05": dict(
        text="Coq theorems (axiom-free), for an ARBITRARY block function with 16-byte output and hence for AES: protecting a "
             "plaintext yields GCM ciphertext || first 12 tag bytes with nonce = title || 4-byte counter and AAD = "
             "security-control byte || authentication key (NIST SP 800-38D written out: GCTR, GHASH, J0); removing protection "
             "returns the original plaintext for every length, key, title, counter < 2^32 and suite (GCTR involution by "
             "induction); no data is ever returned unless the received tag equals the GCM tag of the received ciphertext; "
             "any change confined to the tag is refused with the decryption error; keys not matching the suite, titles that "
             "are not 8 bytes and texts shorter than a tag are refused; a wrapped key unwraps to the key that was wrapped (RFC 3394: "
             "induction over the six passes and the blocks, for any block functions with D(E x) = x). The executable model (Gallina AES-128/256 with "
             "FIPS-197, NIST-GCM, Green-Book and RFC 3394 vectors checked in the kernel) is compared byte for byte with the "
             "library's OpenSSL-backed functions on every run, including an exhaustive single-bit-flip/truncation fault "
             "enumeration of protected texts and of every parameter.",
        note="Not a theorem (cannot be one): that altering ciphertext, AAD, nonce or key changes the 96-bit tag - GCM's "
             "unforgeability; the fault enumeration is test evidence. AES itself is validated by vectors and by comparison "
             "with OpenSSL, not proved invertible; the key-wrap inverse theorem (proved: unwrap(wrap k) = k for any whole number "
             ">= 2 of 8-byte blocks) assumes D(E(b)) = b on 16-byte blocks.",
        technique="Coq proof over an abstract block cipher + byte-exact correspondence with OpenSSL + fault enumeration",
        design="4/C05"),
    "C19": dict(
        text="Coq theorems (axiom-free) about the model of DlmsClient over the association model: for a block transfer of "
             "two or more blocks of ANY number and sizes (empty blocks included; induction over the block list) GET returns "
             "the concatenation in order, acknowledges every non-final block with a next-block request carrying that "
             "block's number and invoke id, and leaves the association READY with nothing buffered; a single normal "
             "answer returns exactly its data; an error result immediately or on the last block raises and never returns "
             "data; SET returns the meter's result unchanged; ACTION returns data only for a success status. Normal and "
             "pre-established associations. Tie: sessions of many operations (data to 100000 bytes, 2..200 blocks, every "
             "DataAccessResult at both positions, unexpected answers) run as the same script on the model and on the real "
             "DlmsClient over a scripted io_interface, plain and ciphered.",
        note="APDUs are abstract in this model (their encodings are C01); a session goes on after an error answer and ends at an "
             "answer of the wrong kind (refused by the association, request left outstanding). Trusted: Coq kernel, translator (state table), extraction + "
             "driver, Python harness incl. the scripted io object.",
        technique="Coq proof (induction over block lists on top of the association model) + scripted-session correspondence",
        design="4/C19"),
    "C18": dict(
        text="Coq theorems (axiom-free) about the model of SerialHdlcTransport over a scripted serial port. End to end "
             "(C18_send_end_to_end): the transport idle, the meter's answer ANY list of information frames the link accepts "
             "at their points (all but the last segmented), each made readable only after the client's previous write, the "
             "serial line handing bytes over in pieces of ANY positive sizes (read_until semantics, induction over the "
             "transport's read-and-poll loop with an explicit termination measure): send() writes exactly the request frame "
             "(LLC||APDU, unsegmented, numbered from the link) and one receive-ready frame per segment carrying the link's "
             "receive number after that segment (= N(S)+1 mod 8, C18_rr_number, wrap included), returns exactly the "
             "concatenated payloads without the LLC response header and leaves the link idle with nothing buffered or "
             "unread. C18_send_any_segmentation removes the acceptance hypothesis: the meter splits LLC||APDU into ANY list of "
             "segments the frame format can carry and sends the STANDARD frames (C09 reference layout) numbered as the link "
             "prescribes - that they parse is the C09 theorem, that the link admits them is read off the generated table - and "
             "send() returns exactly the answer with exactly one receive-ready per segment but the last. C18_session: ANY "
             "number of such exchanges on one transport (induction; the numbers wrap), and C18_session_counters: afterwards the four "
             "counters equal the requests sent and the segments received modulo 8. C18_connect / C18_disconnect: SNRM/UA leaves the link connected, DISC/UA disconnected, for every read "
             "granularity. The client's frames always encode (short_encodes, info_encodes). Also kept: the loop-level "
             "theorems over delivered frames. Whole sessions (connect, up to 12 exchanges with wrapping numbers, disconnect, "
             "answers to 5000 bytes in 1..40 segments, read granularity down to single bytes) run as the same script on the "
             "model and on the real transport.",
        note="Requests longer than one information field are outside the theorem and do not work in the library (known "
             "finding F18). pyserial is a scripted stand-in (read_until returns at most up to the next flag byte and at "
             "least one byte while data is readable).",
        technique="Coq proof (induction over segments, over the read-and-poll loop and over read schedules) + scripted-session correspondence on the real transport",
        design="4/C18"),
    "C15": dict(
        text="Coq theorems (axiom-free) for buffers of any number of rows and columns, any null pattern, clock columns "
             "anywhere: one row per entry, one cell per capture object, every cell bound to the index of its own column "
             "(induction over rows and cells); a row of the wrong width is refused; cell contents follow the stated rule "
             "(transmitted value; decoded timestamp; null clock cell = running timestamp + capture period, or nothing "
             "before any timestamp was seen); and for all 256 access-mode bytes exactly the rights whose bits are set are "
             "listed (kernel sweep). Tie: AccessRight/CosemInterface members regenerated from the source; correspondence "
             "through parse_entries and parse_bytes incl. month/year roll-over of the timestamp arithmetic, and on object lists.",
        note="datetime + timedelta is modelled (proleptic Gregorian day count) and compared with CPython on every run; "
             "with several clock columns the running timestamp is shared (stated as such). Model follows fix commit 0ddd61b.",
        technique="Coq proof (induction over rows/cells + kernel sweep) + translator + correspondence",
        design="4/C15"),
    "C11": dict(
        text="Coq theorems (axiom-free) over the generated transition table and the guards of HdlcConnection: every step "
             "the link accepts (send or receive, any of the six states, any frame kind) is an edge of the NRM client "
             "procedure with the prescribed post-state, an information frame is accepted for sending or on receipt only "
             "with the link's current send/receive numbers, every required edge is accepted, and after ANY history of "
             "operations of any length (induction over the operation list) the counters the client must use equal the "
             "numbers of information frames sent and received modulo 8. Tie: table/SEND_STATES/PARSE_METHODS regenerated "
             "from the source; the reachable graph of the real connection object (6 states x 8 x 8 counters x direction x "
             "kind x number pairs) is exhausted edge by edge against model and reference automaton, plus random 400-step histories.",
        note="Trusted: Coq kernel, translator, extraction + driver, Python harness. Model follows fix commit 6c7db20 "
             "(send guarded by SEND_STATES). A state change accompanying a refused out-of-sequence frame is modelled, not judged.",
        technique="Coq proof (case analysis over the generated table + induction over histories) + translator + exhaustive graph correspondence",
        design="4/C11"),
    "C10": dict(
        text="Coq theorems (axiom-free): (1) for every byte string F that the state's parser accepts as a frame f (arbitrary "
             "payload bytes incl. flag bytes), every link state that may receive it and EVERY partition of F into non-empty "
             "chunks, polling until nothing is pending after each chunk yields only NEED_DATA before the last chunk and then "
             "exactly f, once, with the buffer empty and the search position reset (induction over the chunk list; key "
             "lemma: a candidate ending at an inner 0x7E is a proper prefix and is refused by the length check with the "
             "parsing error the factory maps to NEED_DATA). (2) C10_any_chunking_stream: for every stream of any number of "
             "frames, each contributing its whole bytes or - shared flag - its bytes without the opening flag, each acceptable "
             "to the link at its point (receive-ready sent between segments as the transport does), and EVERY partition of "
             "the stream into non-empty chunks: nothing is raised, after the first j chunks exactly the frames whose last "
             "byte has been handed over have been delivered (in order, once - never early, never late), and at the end the "
             "buffer is empty with the search position reset (induction over frames inside an induction over chunks). "
             "(3) C10_standard_stream_any_chunking composes this with C09: for the STANDARD frames a meter sends for any list "
             "of segments, numbered as the link prescribes, with any pattern of shared flags - no acceptance hypothesis left. "
             "(4) the polling loop of the correspondence scripts is the proved one. The same scripts run on the real "
             "HdlcConnection (every single and double cut of short streams, random multi-cuts to 1-byte chunks) and the "
             "delivered-frames search runs on the implementation.",
        note="Every clause is a theorem about the model; the model is tied to the code by the scripted correspondence and the "
             "generated link table. Trusted: Coq kernel, translator, extraction + driver, Python harness.",
        technique="Coq proof (induction over frames and chunk partitions) + scripted correspondence on the real connection object",
        design="4/C10"),
}

NOT_YET = "not yet built in this stage of the work; see DESIGN.md section 6 (build order)"


def main():
    checks = []
    for pid in ALL:
        if pid not in CLAIMS:
            continue
        c = CLAIMS[pid]
        checks.append({
            "property_id": pid,
            "quick_cmd": f"./check {pid} --tier quick",
            "thorough_cmd": f"./check {pid} --tier thorough",
            "evidence_file": f"/verif/evidence/{pid}.json",
            "replay_cmd_template": f"./check {pid} --replay {{path}}",
            "engine": "coq-proof",
            "level_claimed": {"category": "proof", "text": c["text"], "design_ref": f"DESIGN.md section {c['design']}"},
            "level_note": c["note"],
            "technique": c["technique"],
        })
    m = {
        "version": 1,
        "setup_cmd": "./build.sh",
        "hooks": {"guard": "PWITAB_DLMS_COSEM_VERIF", "enable": "no hooks are needed: every observation point is a public attribute, return value or an object the harness passes in",
                  "baseline_off_cmd": "cd /repo && /venv/bin/python -m pytest -ra -q -p no:cacheprovider --timeout=900 --continue-on-collection-errors",
                  "source_commits": [], "add_only": True},
        "engines": [{"name": "coq-proof", "path": "/verif/coq", "serves_properties": sorted(CLAIMS),
                     "kind_free_text": "Coq 8.16.1 theorems about an executable Gallina model; model tied to /repo by a translator (coq/gen) and a differential correspondence check (harness/)"}],
        "checks": checks,
        "not_applicable": [{"property_id": p, "reason": NOT_YET} for p in ALL if p not in CLAIMS],
        "notes": "single entry point ./check <id>; see DESIGN.md",
    }
    with open(os.path.join(VERIF, "MANIFEST.json"), "w") as f:
        json.dump(m, f, indent=1)


if __name__ == "__main__":
    main()
