(* Reference encoding of the xDLMS APDUs: the Green Book (IEC 62056-5-3) ASN.1 module "COSEMpdu" encoded with
   A-XDR (IEC 61334-6): INTEGER / Unsigned8/16/32 big endian on their fixed size, ENUMERATED one byte,
   OCTET STRING with a length prefix unless the size is fixed, OPTIONAL = presence byte, DEFAULT = 00 or
   01 + value, CHOICE = tag byte, SEQUENCE = concatenation.  Written from the standard, not from the code;
   and the domain of values of each kind.  No proofs here. *)
From Dlms Require Import Base FieldsModel FieldsSpec TimeModel TimeSpec AxdrSpec XdlmsModel.
From Dlms.Gen Require GenEnums GenApdu.

Definition u16 (n : N) : bytes := [n / 256; n mod 256].
Definition u24 (n : N) : bytes := [n / 65536; n / 256 mod 256; n mod 256].
Definition u32 (n : N) : bytes := [n / 16777216; n / 65536 mod 256; n / 256 mod 256; n mod 256].
Definition octets (b : bytes) : bytes := std_len (len b) ++ b.
Definition flag (b : bool) (w : N) : N := if b then w else 0.

(* Invoke-Id-And-Priority ::= Unsigned8: bits 0-3 invoke-id, bit 6 service-class (1 = confirmed), bit 7 priority (1 = high) *)
Definition std_iid (x : iid) : N := let '(i, c, h) := x in i + flag c 64 + flag h 128.
(* Long-Invoke-Id-And-Priority ::= Unsigned32: bits 0-23 id, 28 self-descriptive, 29 processing-option (break on error),
   30 service-class, 31 priority *)
Definition std_liid (x : liid) : bytes :=
  let '(i, p, c, s, b) := x in (flag p 128 + flag c 64 + flag b 32 + flag s 16) :: u24 i.
(* security control byte: bits 0-3 suite, 4 authentication, 5 encryption, 6 key-set (broadcast), 7 compression *)
Definition std_sc (x : sc) : N := let '(s, a, e, k, c) := x in s + flag a 16 + flag e 32 + flag k 64 + flag c 128.
(* Cosem-Attribute-Descriptor / Cosem-Method-Descriptor ::= SEQUENCE { class-id Unsigned16, instance-id OCTET STRING (SIZE(6)),
   attribute-id / method-id Integer8 } *)
Definition std_desc (c : cosem_desc) : bytes := let '(cls, o, id) := c in u16 cls ++ o ++ [id].
(* ciphered content: security control, invocation counter, ciphertext (and tag) - an OCTET STRING *)
Definition std_ciphered (s : sc) (c : N) (text : bytes) : bytes := octets (std_sc s :: u32 c ++ text).
Definition no_status : cstat := (false, false, false, false, false).

Definition std_apdu (a : apdu) : bytes :=
  match a with
  (* get-request [192] CHOICE { get-request-normal [1] { invoke-id-and-priority, cosem-attribute-descriptor,
     access-selection Selective-Access-Descriptor OPTIONAL }, get-request-next [2] { invoke-id-and-priority, block-number Unsigned32 } } *)
  | GetRequestNormal attr i None => [192; 1; std_iid i] ++ std_desc attr ++ [0]
  | GetRequestNormal attr i (Some s) => [192; 1; std_iid i] ++ std_desc attr ++ 1 :: s
  | GetRequestNext block i => [192; 2; std_iid i] ++ u32 block
  (* get-response [196] CHOICE { get-response-normal [1] { iid, result Get-Data-Result = CHOICE { data [0] Data,
     data-access-result [1] ENUMERATED } }, get-response-with-datablock [2] { iid, result DataBlock-G = SEQUENCE { last-block BOOLEAN,
     block-number Unsigned32, result CHOICE { raw-data [0] OCTET STRING, data-access-result [1] } } } } *)
  | GetResponseNormal data i => [196; 1; std_iid i; 0] ++ data
  | GetResponseNormalWithError e i => [196; 1; std_iid i; 1; e]
  | GetResponseWithBlock data block i => [196; 2; std_iid i; 0] ++ u32 block ++ [0] ++ octets data
  | GetResponseLastBlock data block i => [196; 2; std_iid i; 1] ++ u32 block ++ [0] ++ octets data
  | GetResponseLastBlockWithError e block i => [196; 2; std_iid i; 1] ++ u32 block ++ [1; e]
  (* set-request [193] set-request-normal [1] { iid, cosem-attribute-descriptor, access-selection OPTIONAL, value Data } *)
  | SetRequestNormal attr data i => [193; 1; std_iid i] ++ std_desc attr ++ [0] ++ data
  (* set-response [197] set-response-normal [1] { iid, result Data-Access-Result } *)
  | SetResponseNormal r i => [197; 1; std_iid i; r]
  (* action-request [195] action-request-normal [1] { iid, cosem-method-descriptor, method-invocation-parameters Data OPTIONAL } *)
  | ActionRequestNormal m None i => [195; 1; std_iid i] ++ std_desc m ++ [0]
  | ActionRequestNormal m (Some d) i => [195; 1; std_iid i] ++ std_desc m ++ 1 :: d
  (* action-response [199] action-response-normal [1] { iid, single-response Action-Response-With-Optional-Data = SEQUENCE {
     result Action-Result, return-parameters Get-Data-Result OPTIONAL } } *)
  | ActionResponseNormal st i => [199; 1; std_iid i; st; 0]
  | ActionResponseNormalWithData st data i => [199; 1; std_iid i; st; 1; 0] ++ data
  | ActionResponseNormalWithError st e i => [199; 1; std_iid i; st; 1; 1; e]
  (* data-notification [15] { long-invoke-id-and-priority, date-time OCTET STRING (empty or 12 bytes), notification-body Data } *)
  | DataNotification l None body => [15] ++ std_liid l ++ [0] ++ body
  | DataNotification l (Some x) body => [15] ++ std_liid l ++ [12] ++ std_datetime x no_status ++ body
  (* exception-response [216] { state-error ENUMERATED, service-error CHOICE/ENUMERATED; invocation-counter-error [6] carries
     the expected counter as Unsigned32 } *)
  | ExceptionResponse st sv None => [216; st; sv]
  | ExceptionResponse st sv (Some c) => [216; st; sv] ++ u32 c
  (* confirmedServiceError [14] CHOICE { initiateError [1] ServiceError }, ServiceError ::= CHOICE { application-reference [0],
     hardware-resource [1], vde-state-error [2], service [3], definition [4], access [5], initiate [6], load-data-set [7],
     data-scope [8] (reserved), task [9], other-error [10] } of ENUMERATED; classes are numbered by their CHOICE tag *)
  | ConfirmedServiceError cls v => [14; 1; cls; v]
  (* xDLMS-Initiate.request [1] { dedicated-key OCTET STRING OPTIONAL, response-allowed BOOLEAN DEFAULT TRUE,
     proposed-quality-of-service [0] Integer8 OPTIONAL, proposed-dlms-version-number Unsigned8,
     proposed-conformance [APPLICATION 31] BIT STRING (SIZE(24)) (BER: 5F 1F 04 + unused-bits byte + 3 bytes),
     client-max-receive-pdu-size Unsigned16 } *)
  | InitiateRequest conf _ max_pdu version _ dk =>
      [1] ++ match dk with None => [0] | Some k => 1 :: octets k end ++ [0; 0; version; 95; 31; 4] ++ std_conformance conf ++ u16 max_pdu
  (* xDLMS-Initiate.response [8] { negotiated-quality-of-service [0] Integer8 OPTIONAL, negotiated-dlms-version-number Unsigned8,
     negotiated-conformance, server-max-receive-pdu-size Unsigned16, vaa-name ObjectName (0x0007 for LN referencing) } *)
  | InitiateResponse conf max_pdu version qos =>
      [8] ++ (if qos =? 0 then [0] else [1; qos]) ++ [version; 95; 31; 4] ++ std_conformance conf ++ u16 max_pdu ++ [0; 7]
  (* glo-initiate-request [33] / glo-initiate-response [40] OCTET STRING *)
  | GlobalCipherInitiateRequest s c text => [33] ++ std_ciphered s c text
  | GlobalCipherInitiateResponse s c text => [40] ++ std_ciphered s c text
  (* general-glo-ciphering [219] { system-title OCTET STRING, ciphered-content OCTET STRING } *)
  | GeneralGlobalCipher title s c text => [219] ++ octets title ++ std_ciphered s c text
  | NoneValue => []
  end.

(* ---------- the values of each kind ---------- *)
Definition iid_ok (x : iid) : bool := let '(i, _, _) := x in i <? 16.
Definition desc_ok (c : cosem_desc) : bool :=
  let '(cls, o, id) := c in member cls GenEnums.enum_CosemInterface && Nat.eqb (length o) 6 && bytes_okb o && (id <? 256).
Definition sc_ok (x : sc) : bool := let '(s, _, _, _, _) := x in s <=? 2.
Definition u32_ok (n : N) : bool := n <? 4294967296.
Definition dar_ok (e : N) : bool := member e GenEnums.enum_DataAccessResult.
Definition ars_ok (e : N) : bool := member e GenEnums.enum_ActionResultStatus.
Definition content_ok (text : bytes) : bool := len text + 5 <? 4294967296.
Definition whole_10ms (x : dtime) : bool := let '(_, _, _, _, _, _, us, _) := x in us mod 10000 =? 0.

Definition wf_apdu (a : apdu) : bool :=
  match a with
  | GetRequestNormal attr i access => desc_ok attr && iid_ok i && match access with None => true | Some _ => false end   (* F01e *)
  | GetRequestNext block i => u32_ok block && iid_ok i
  | GetResponseNormal _ i => iid_ok i
  | GetResponseNormalWithError e i => dar_ok e && iid_ok i
  | GetResponseWithBlock data block i | GetResponseLastBlock data block i => u32_ok (len data) && u32_ok block && iid_ok i
  | GetResponseLastBlockWithError e block i => dar_ok e && u32_ok block && iid_ok i
  | SetRequestNormal attr _ i => desc_ok attr && iid_ok i
  | SetResponseNormal r i => dar_ok r && iid_ok i
  | ActionRequestNormal m data i => desc_ok m && iid_ok i && match data with Some [] => false | _ => true end   (* None == b"" *)
  | ActionResponseNormal st i => ars_ok st && iid_ok i
  | ActionResponseNormalWithData st _ i => ars_ok st && iid_ok i
  | ActionResponseNormalWithError st e i => ars_ok st && dar_ok e && iid_ok i
  | DataNotification (i, _, _, _, _) dt _ =>
      (i <? 16777216) && match dt with None => true | Some x => dt_valid x && whole_10ms x end
  | ExceptionResponse st sv c =>
      member st GenEnums.enum_StateException && member sv GenEnums.enum_ServiceException &&
      match c with Some n => (sv =? 6) && u32_ok n | None => negb (sv =? 6) end
  | ConfirmedServiceError cls v =>
      match assoc_n cls GenApdu.error_class_members with Some ms => member v ms | None => false end
  | InitiateRequest conf qos max_pdu version ra dk =>
      Nat.eqb (length conf) 17 && (max_pdu <? 65536) && (version =? 6) && ra &&
      match qos with Some 0 => true | _ => false end &&                                   (* F01f *)
      match dk with None => true | Some k => negb (Nat.eqb (length k) 0) && u32_ok (len k) end
  | InitiateResponse conf max_pdu version qos => Nat.eqb (length conf) 17 && (max_pdu <? 65536) && (version <? 256) && (qos <? 256)
  | GlobalCipherInitiateRequest s c text | GlobalCipherInitiateResponse s c text => sc_ok s && u32_ok c && content_ok text
  | GeneralGlobalCipher title s c text => u32_ok (len title) && sc_ok s && u32_ok c && content_ok text
  | NoneValue => false
  end.
