(* C19: a client GET returns exactly the concatenation of the blocks for every block split, acknowledges
   every non-final block with its number and invoke id, ends READY; errors never pass as data. *)
From Dlms Require Import Base AssocModel AssocSpec ClientModel.

(* ---------- the steps of the association state machine the GET exchange goes through ---------- *)
Lemma send_get pre : assoc_send pre 2 (ev_of 4) = (Ok tt, 5). Proof. destruct pre; reflexivity. Qed.
Lemma send_next pre : assoc_send pre 7 (ev_of 5) = (Ok tt, 6). Proof. destruct pre; reflexivity. Qed.
Lemma recv_in pre s k a s' : (forall p, assoc_recv p s (mk k a false 0) = (Ok tt, s')) ->
  assoc_recv pre s (mk k a false 0) = (Ok tt, s').
Proof. intros H. apply H. Qed.
Lemma recv_normal pre a : assoc_recv pre 5 (mk 8 a false 0) = (Ok tt, 2). Proof. destruct pre, a; reflexivity. Qed.
Lemma recv_block5 pre a : assoc_recv pre 5 (mk 10 a false 0) = (Ok tt, 7). Proof. destruct pre, a; reflexivity. Qed.
Lemma recv_block6 pre a : assoc_recv pre 6 (mk 10 a false 0) = (Ok tt, 7). Proof. destruct pre, a; reflexivity. Qed.
Lemma recv_last6 pre a : assoc_recv pre 6 (mk 11 a false 0) = (Ok tt, 2). Proof. destruct pre, a; reflexivity. Qed.
Lemma recv_lasterr6 pre a : assoc_recv pre 6 (mk 12 a false 0) = (Ok tt, 2). Proof. destruct pre, a; reflexivity. Qed.
Lemma recv_err5 pre a : assoc_recv pre 5 (mk 9 a false 0) = (Ok tt, 2). Proof. destruct pre, a; reflexivity. Qed.
Lemma recv_err6 pre a : assoc_recv pre 6 (mk 9 a false 0) = (Ok tt, 2). Proof. destruct pre, a; reflexivity. Qed.

Definition block (data : bytes) (num iid : N) : resp := {| r_kind := 10; r_data := data; r_block := num; r_iid := iid; r_code := 0 |}.
Definition last_block (data : bytes) (num iid : N) : resp := {| r_kind := 11; r_data := data; r_block := num; r_iid := iid; r_code := 0 |}.
Definition normal (data : bytes) (iid : N) : resp := {| r_kind := 8; r_data := data; r_block := 0; r_iid := iid; r_code := 0 |}.

Definition get_error (code iid : N) : resp := {| r_kind := 9; r_data := []; r_block := 0; r_iid := iid; r_code := code |}.
Definition last_block_error (code num iid : N) : resp := {| r_kind := 12; r_data := []; r_block := num; r_iid := iid; r_code := code |}.

(* non-final blocks as (data, number, invoke id) *)
Definition blk := (bytes * N * N)%type.
Definition blk_resp (b : blk) : resp := let '(d, n, i) := b in block d n i.
Definition blk_data (b : blk) : bytes := fst (fst b).
Definition blk_ack (b : blk) : sent := let '(_, n, i) := b in (5, n, i).

Definition mkcl s pre io buf snt : cl := {| cl_state := s; cl_pre := pre; cl_io := io; cl_buf := buf; cl_sent := snt |}.

Lemma next_block pre s d n i io buf snt : s = 5 \/ s = 6 ->
  cl_next (mkcl s pre io (block d n i :: buf) snt) = (Ok (block d n i), mkcl 7 pre io buf snt).
Proof.
  intros Hs. unfold cl_next, mkcl, block. cbn [cl_buf cl_pre cl_state r_kind r_code cl_io cl_sent N.eqb].
  replace (assoc_recv pre s (mk 10 true false 0)) with (Ok tt, 7 : N)
    by (destruct Hs as [-> | ->]; [symmetry; apply recv_block5 | symmetry; apply recv_block6]).
  reflexivity.
Qed.
Lemma send_ack pre r io buf snt n i :
  cl_send (mkcl 7 pre (r :: io) buf snt) 5 n i = (Ok tt, mkcl 6 pre io (buf ++ [r]) (snt ++ [(5, n, i)])).
Proof. unfold cl_send, mkcl. cbn [cl_buf cl_pre cl_state cl_io cl_sent]. rewrite send_next. reflexivity. Qed.
Lemma send_get_step pre r io buf snt :
  cl_send (mkcl 2 pre (r :: io) buf snt) 4 0 0 = (Ok tt, mkcl 5 pre io (buf ++ [r]) (snt ++ [(4, 0, 0)])).
Proof. unfold cl_send, mkcl. cbn [cl_buf cl_pre cl_state cl_io cl_sent]. rewrite send_get. reflexivity. Qed.
Lemma next_last pre d n i io buf snt :
  cl_next (mkcl 6 pre io (last_block d n i :: buf) snt) = (Ok (last_block d n i), mkcl 2 pre io buf snt).
Proof.
  unfold cl_next, mkcl, last_block. cbn [cl_buf cl_pre cl_state r_kind r_code cl_io cl_sent N.eqb].
  rewrite recv_last6. reflexivity.
Qed.
Lemma next_last_error pre c n i io buf snt :
  cl_next (mkcl 6 pre io (last_block_error c n i :: buf) snt) = (Ok (last_block_error c n i), mkcl 2 pre io buf snt).
Proof.
  unfold cl_next, mkcl, last_block_error. cbn [cl_buf cl_pre cl_state r_kind r_code cl_io cl_sent].
  rewrite recv_lasterr6. reflexivity.
Qed.

(* the loop, started while a block answer is buffered and the connection awaits a (block) response *)
Lemma get_loop_blocks pre : forall (bs : list blk) s (Hs : s = 5 \/ s = 6) b0 lastd lastn lasti rest sent0 data fuel,
  (S (length bs) < fuel)%nat ->
  get_loop fuel (mkcl s pre (map blk_resp bs ++ last_block lastd lastn lasti :: rest) [blk_resp b0] sent0) data
  = (Ok (data ++ blk_data b0 ++ concat (map blk_data bs) ++ lastd),
     mkcl 2 pre rest [] (sent0 ++ blk_ack b0 :: map blk_ack bs)).
Proof.
  induction bs as [|b bs IH]; intros s Hs b0 lastd lastn lasti rest sent0 data fuel Hf.
  - destruct fuel as [|[|fu]]; try (cbn in Hf; lia). destruct b0 as [[d0 n0] i0].
    cbn [get_loop blk_resp map app]. rewrite (next_block pre s d0 n0 i0 _ _ _ Hs).
    cbn [r_kind block N.eqb Pos.eqb r_block r_iid r_data]. rewrite send_ack. cbn [app].
    rewrite next_last. cbn [r_kind last_block N.eqb Pos.eqb r_data orb].
    cbn [blk_data fst concat map blk_ack app]. rewrite <- !app_assoc. reflexivity.
  - destruct fuel as [|fu]; [lia|]. destruct b0 as [[d0 n0] i0].
    cbn [get_loop blk_resp map app]. rewrite (next_block pre s d0 n0 i0 _ _ _ Hs).
    cbn [r_kind block N.eqb Pos.eqb r_block r_iid r_data]. rewrite send_ack. cbn [app].
    change (block (fst (fst b)) (snd (fst b)) (snd b)) with (blk_resp b) || idtac.
    destruct b as [[d1 n1] i1]. cbn [blk_resp].
    change (block d1 n1 i1) with (blk_resp (d1, n1, i1)).
    rewrite (IH 6 (or_intror eq_refl) (d1, n1, i1) lastd lastn lasti rest _ _ fu) by (cbn [length] in Hf; lia).
    cbn [blk_data fst concat map blk_ack]. f_equal.
    + rewrite <- !app_assoc. reflexivity.
    + f_equal. rewrite <- app_assoc. reflexivity.
Qed.

(* GET with a block transfer of two or more blocks, any number and sizes (empty blocks included) *)
Theorem get_returns_concatenation pre b0 bs lastd lastn lasti rest sent0 :
  cl_get (mkcl 2 pre (blk_resp b0 :: map blk_resp bs ++ last_block lastd lastn lasti :: rest) [] sent0)
  = (Ok (blk_data b0 ++ concat (map blk_data bs) ++ lastd),
     mkcl 2 pre rest [] (sent0 ++ (4, 0, 0) :: blk_ack b0 :: map blk_ack bs)).
Proof.
  unfold cl_get. rewrite send_get_step. cbn [app].
  rewrite (get_loop_blocks pre bs 5 (or_introl eq_refl) b0 lastd lastn lasti rest).
  - cbn [app]. unfold mkcl. f_equal. f_equal. rewrite <- app_assoc. reflexivity.
  - unfold mkcl. cbn [cl_io length]. rewrite app_length, map_length. cbn [length]. lia.
Qed.

(* GET answered by one normal response *)
Theorem get_returns_normal_data pre d iid rest sent0 :
  cl_get (mkcl 2 pre (normal d iid :: rest) [] sent0) = (Ok d, mkcl 2 pre rest [] (sent0 ++ [(4, 0, 0)])).
Proof.
  unfold cl_get. rewrite send_get_step. cbn [app]. unfold mkcl at 1. cbn [cl_io length].
  cbn [get_loop]. unfold cl_next, mkcl, normal. cbn [cl_buf r_kind r_code cl_pre cl_state N.eqb Pos.eqb cl_io cl_sent].
  rewrite recv_normal. cbn [r_kind r_data N.eqb Pos.eqb app]. reflexivity.
Qed.

(* an error result - immediately or on the last block - raises instead of returning data *)
Theorem get_error_raises pre code iid rest sent0 :
  fst (cl_get (mkcl 2 pre (get_error code iid :: rest) [] sent0)) = Err EDataResult.
Proof.
  unfold cl_get. rewrite send_get_step. cbn [app]. unfold mkcl at 1. cbn [cl_io length].
  cbn [get_loop]. unfold cl_next, mkcl, get_error. cbn [cl_buf r_kind r_code cl_pre cl_state cl_io cl_sent].
  rewrite recv_err5. cbn [r_kind N.eqb Pos.eqb orb fst]. reflexivity.
Qed.
Lemma get_loop_error_last pre : forall (bs : list blk) s (Hs : s = 5 \/ s = 6) b0 code lastn lasti rest sent0 data fuel,
  (S (length bs) < fuel)%nat ->
  fst (get_loop fuel (mkcl s pre (map blk_resp bs ++ last_block_error code lastn lasti :: rest) [blk_resp b0] sent0) data)
  = Err EDataResult.
Proof.
  induction bs as [|b bs IH]; intros s Hs b0 code lastn lasti rest sent0 data fuel Hf.
  - destruct fuel as [|[|fu]]; try (cbn in Hf; lia). destruct b0 as [[d0 n0] i0].
    cbn [get_loop blk_resp map app]. rewrite (next_block pre s d0 n0 i0 _ _ _ Hs).
    cbn [r_kind block N.eqb Pos.eqb r_block r_iid r_data]. rewrite send_ack. cbn [app].
    rewrite next_last_error. reflexivity.
  - destruct fuel as [|fu]; [lia|]. destruct b0 as [[d0 n0] i0].
    cbn [get_loop blk_resp map app]. rewrite (next_block pre s d0 n0 i0 _ _ _ Hs).
    cbn [r_kind block N.eqb Pos.eqb r_block r_iid r_data]. rewrite send_ack. cbn [app].
    destruct b as [[d1 n1] i1]. cbn [blk_resp]. change (block d1 n1 i1) with (blk_resp (d1, n1, i1)).
    apply (IH 6 (or_intror eq_refl)). cbn [length] in Hf. lia.
Qed.
Theorem get_error_on_last_block_raises pre b0 bs code lastn lasti rest sent0 :
  fst (cl_get (mkcl 2 pre (blk_resp b0 :: map blk_resp bs ++ last_block_error code lastn lasti :: rest) [] sent0))
  = Err EDataResult.
Proof.
  unfold cl_get. rewrite send_get_step. cbn [app].
  apply (get_loop_error_last pre bs 5 (or_introl eq_refl)).
  unfold mkcl. cbn [cl_io length]. rewrite app_length, map_length. cbn [length]. lia.
Qed.

(* SET returns the meter's result unchanged *)
Theorem set_returns_result pre code iid rest sent0 :
  let r := {| r_kind := 13; r_data := []; r_block := 0; r_iid := iid; r_code := code |} in
  cl_set (mkcl 2 pre (r :: rest) [] sent0) = (Ok r, mkcl 2 pre rest [] (sent0 ++ [(6, 0, 0)])).
Proof. destruct pre; reflexivity. Qed.

(* ACTION: data on success, an error for every non-success status or error answer - never data *)
Lemma send_action_step pre r io buf snt :
  cl_send (mkcl 2 pre (r :: io) buf snt) 7 0 0 = (Ok tt, mkcl 4 pre io (buf ++ [r]) (snt ++ [(7, 0, 0)])).
Proof.
  unfold cl_send, mkcl. cbn [cl_buf cl_pre cl_state cl_io cl_sent].
  replace (assoc_send pre 2 (ev_of 7)) with (Ok tt, 4 : N) by (destruct pre; reflexivity). reflexivity.
Qed.
Theorem action_result pre kind status data iid rest sent0 : kind = 14 \/ kind = 15 \/ kind = 16 ->
  let r := {| r_kind := kind; r_data := data; r_block := 0; r_iid := iid; r_code := status |} in
  fst (cl_action (mkcl 2 pre (r :: rest) [] sent0))
  = if kind =? 16 then Err EAction
    else if negb (status =? 0) then Err EAction
    else if kind =? 15 then Ok (Some data) else Ok None.
Proof.
  intros Hk. cbv zeta. unfold cl_action. rewrite send_action_step. cbn [app].
  unfold cl_next, mkcl. cbn [cl_buf cl_pre cl_state r_kind r_code cl_io cl_sent].
  assert (R : assoc_recv pre 4 (mk kind (status =? 0) false 0) = (Ok tt, 2)).
  { destruct Hk as [-> | [-> | ->]]; destruct pre, (status =? 0); reflexivity. }
  rewrite R. cbn [r_kind r_code r_data fst].
  destruct Hk as [-> | [-> | ->]]; cbn [N.eqb Pos.eqb]; destruct (status =? 0); reflexivity.
Qed.
