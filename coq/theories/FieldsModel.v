(* Models of the bit-packed protocol fields (C20), transcribed from
   conformance.py, security.py (SecurityControlField), invoke_id_and_priority.py,
   data_notification.py (LongInvokeIdAndPriority), time.py (ClockStatus),
   hdlc/fields.py, hdlc/validators.py, cosem/obis.py.  No proofs here. *)
From Dlms Require Import Base.
From Dlms.Gen Require GenConformance.

Definition nz (x : N) : bool := negb (x =? 0).          (* bool(int) *)
Definition b2n (b : bool) : N := if b then 1 else 0.

(* ---------------- Conformance ---------------- *)
Definition conf_table := GenConformance.conformance_table.
Definition conf_nfields := GenConformance.conformance_nfields.

(* Conformance.to_bytes: flags in attrs field order *)
Definition conf_word (flags : list bool) : N :=
  fold_left (fun out '(idx, pos) => if nth idx flags false then out + N.shiftl 1 pos else out)
            conf_table 0.
Definition conf_to_bytes (flags : list bool) : res bytes :=
  do w <- to_bytes_be 3 (conf_word flags); Ok (0 :: w).

Fixpoint lookup_pos (idx : nat) (t : list (nat * N)) : option N :=
  match t with
  | [] => None
  | (i, p) :: r => match lookup_pos idx r with   (* later dict entries win: none repeat *)
                   | Some q => Some q
                   | None => if Nat.eqb i idx then Some p else None
                   end
  end.
(* Conformance.from_bytes: in_bytes[1:] as one big-endian integer *)
Definition conf_from_bytes (l : bytes) : list bool :=
  let v := be_val (tl l) in
  map (fun idx => match lookup_pos idx conf_table with
                  | Some pos => nz (N.land v (N.shiftl 1 pos))
                  | None => nth idx GenConformance.conformance_defaults false
                  end) (seq 0 conf_nfields).

(* ---------------- SecurityControlField ---------------- *)
(* value: (suite, authenticated, encrypted, broadcast_key, compressed) *)
Definition sc := (N * bool * bool * bool * bool)%type.
Definition validate_suite (s : N) : bool := (s =? 0) || (s =? 1) || (s =? 2).
Definition sc_make (s : N) (a e k c : bool) : res sc :=
  if validate_suite s then Ok (s, a, e, k, c) else Err ERefused.
Definition sc_from_byte (v : N) : res sc :=
  sc_make (N.land v 15) (nz (N.land v 16)) (nz (N.land v 32)) (nz (N.land v 64)) (nz (N.land v 128)).
Definition sc_from_bytes (l : bytes) : res sc := sc_from_byte (be_val l).
Definition sc_to_byte (x : sc) : N :=
  let '(s, a, e, k, c) := x in
  s + (if a then 16 else 0) + (if e then 32 else 0) + (if k then 64 else 0) + (if c then 128 else 0).
Definition sc_to_bytes (x : sc) : res bytes := to_bytes_be 1 (sc_to_byte x).

(* ---------------- InvokeIdAndPriority ---------------- *)
Definition iid := (N * bool * bool)%type.    (* invoke_id, confirmed, high_priority *)
Definition iid_from_bytes (l : bytes) : res iid :=
  if negb (Nat.eqb (length l) 1) then Err ERefused else
  let v := be_val l in Ok (N.land v 15, nz (N.land v 64), nz (N.land v 128)).
Definition iid_to_bytes (x : iid) : res bytes :=
  let '(i, c, h) := x in to_bytes_be 1 (i + N.shiftl (b2n c) 6 + N.shiftl (b2n h) 7).

(* ---------------- LongInvokeIdAndPriority ---------------- *)
(* long_invoke_id, prioritized, confirmed, self_descriptive, break_on_error *)
Definition liid := (N * bool * bool * bool * bool)%type.
Definition liid_from_bytes (l : bytes) : res liid :=
  if negb (Nat.eqb (length l) 4) then Err ERefused else
  let status := nth 0 l 0 in
  Ok (be_val (tl l), nz (N.land status 128), nz (N.land status 64), nz (N.land status 16),
      nz (N.land status 32)).
Definition liid_to_bytes (x : liid) : res bytes :=
  let '(i, p, c, s, b) := x in
  let st := 0 in
  let st := if p then N.lor st 128 else st in
  let st := if c then N.lor st 64 else st in
  let st := if b then N.lor st 32 else st in
  let st := if s then N.lor st 16 else st in
  do a <- to_bytes_be 1 st; do r <- to_bytes_be 3 i; Ok (a ++ r).

(* ---------------- ClockStatus ---------------- *)
(* invalid, doubtful, different_base, invalid_status, daylight_saving_active *)
Definition cstat := (bool * bool * bool * bool * bool)%type.
Definition cstat_from_byte (v : N) : cstat :=
  (nz (N.land v 1), nz (N.land v 2), nz (N.land v 4), nz (N.land v 8), nz (N.land v 128)).
Definition cstat_from_bytes (l : bytes) : res cstat :=
  if negb (Nat.eqb (length l) 1) then Err ERefused else Ok (cstat_from_byte (be_val l)).
Definition cstat_to_byte (x : cstat) : N :=
  let '(a, b, c, d, e) := x in
  (if a then 1 else 0) + (if b then 2 else 0) + (if c then 4 else 0) + (if d then 8 else 0)
  + (if e then 128 else 0).
Definition cstat_to_bytes (x : cstat) : res bytes := to_bytes_be 1 (cstat_to_byte x).

(* ---------------- HDLC control fields ---------------- *)
Definition validate_seq (v : Z) : bool := ((0 <=? v) && (v <=? 7))%Z.
(* SNRM, UA, DISC: `if self.is_final` tests a bound method, which is always true *)
Definition snrm_ctrl : N := N.lor 131 16.
Definition ua_ctrl : N := N.lor 99 16.
Definition disc_ctrl : N := N.lor 67 16.
(* ReceiveReadyControlField: value = rsn; is_final is a method, so P/F is always set *)
Definition rr_make (rsn : Z) : res N := if validate_seq rsn then Ok (Z.to_N rsn) else Err ERefused.
Definition rr_to_byte (rsn : N) : N := N.lor (1 + N.shiftl rsn 5) 16.
Definition rr_to_bytes (rsn : N) : res bytes := to_bytes_be 1 (rr_to_byte rsn).
Definition rr_from_bytes (l : bytes) : res N :=
  if negb (Nat.eqb (length l) 1) then Err ERefused else
  let v := be_val l in
  if negb (nz (N.land v 1)) then Err ERefused else
  rr_make (Z.of_N (N.shiftr (N.land v 224) 5)).
(* InformationControlField: (ssn, rsn, final) *)
Definition ictrl := (N * N * bool)%type.
Definition ictrl_make (ssn rsn : Z) (final : bool) : res ictrl :=
  if validate_seq ssn && validate_seq rsn then Ok (Z.to_N ssn, Z.to_N rsn, final) else Err ERefused.
Definition ictrl_to_byte (x : ictrl) : N :=
  let '(ssn, rsn, final) := x in
  let out := 0 + N.shiftl ssn 1 + N.shiftl rsn 5 in
  if final then N.lor out 16 else out.
Definition ictrl_to_bytes (x : ictrl) : res bytes := to_bytes_be 1 (ictrl_to_byte x).
Definition ictrl_from_bytes (l : bytes) : res ictrl :=
  if negb (Nat.eqb (length l) 1) then Err ERefused else
  let v := be_val l in
  if nz (N.land v 1) then Err ERefused else
  ictrl_make (Z.of_N (N.shiftr (N.land v 14) 1)) (Z.of_N (N.shiftr (N.land v 224) 5)) (nz (N.land v 16)).
(* UnnumberedInformationControlField: final *)
Definition uictrl_to_byte (final : bool) : N := if final then N.lor 3 16 else 3.
Definition uictrl_to_bytes (final : bool) : res bytes := to_bytes_be 1 (uictrl_to_byte final).
Definition uictrl_from_bytes (l : bytes) : res bool :=
  if negb (Nat.eqb (length l) 1) then Err ERefused else
  let v := be_val l in
  if negb (nz (N.land v 3)) then Err ERefused else Ok (nz (N.land v 16)).

(* ---------------- DlmsHdlcFrameFormatField ---------------- *)
Definition fmt := (N * bool)%type.   (* length, segmented *)
Definition fmt_make (length : Z) (seg : bool) : res fmt :=
  if (2047 <? length)%Z then Err ERefused else
  if (length <? 0)%Z then Err ERefused else Ok (Z.to_N length, seg).
Definition fmt_to_bytes (x : fmt) : res bytes :=
  let '(length, seg) := x in
  let total := N.lor 40960 length in
  let total := if seg then N.lor total 2048 else total in
  to_bytes_be 2 total.
Definition fmt_from_bytes (l : bytes) : res fmt :=
  if negb (Nat.eqb (length l) 2) then Err ERefused else
  if negb (N.land (nth 0 l 0) 240 =? 160) then Err ERefused else
  fmt_make (Z.of_N (N.land (be_val l) 2047)) (nz (N.land (nth 0 l 0) 8)).

(* ---------------- Obis ---------------- *)
(* the validator `0 > value > 255` can never fire; instance_of(int) is guaranteed by typing *)
Definition obis := list N.   (* six components *)
Definition obis_to_bytes (o : obis) : res bytes :=
  if forallb (fun x => x <? 256) o then Ok o else Err ERefused.   (* bytearray([...]) range check *)
Definition obis_from_bytes (l : bytes) : res obis :=
  if negb (Nat.eqb (length l) 6) then Err ERefused else Ok l.

(* decimal text, as ASCII codes *)
Fixpoint digits_fuel (fuel : nat) (n : N) (acc : list N) : list N :=
  match fuel with
  | O => acc
  | S f => let acc' := (48 + n mod 10) :: acc in
           if n <? 10 then acc' else digits_fuel f (n / 10) acc'
  end.
Definition dec_str (n : N) : list N := digits_fuel (S (N.to_nat (N.log2 n))) n [].
Definition is_digit (c : N) : bool := (48 <=? c) && (c <=? 57).
(* int(s) for s made of ASCII digits only; anything else is outside the modelled domain and
   reported as refused (the harness only feeds digit/dot strings) *)
Definition parse_dec (s : list N) : res N :=
  match s with
  | [] => Err ERefused
  | _ => if forallb is_digit s then Ok (fold_left (fun acc c => acc * 10 + (c - 48)) s 0)
         else Err ERefused
  end.
Fixpoint split_on (sep : N) (s : list N) (cur : list N) : list (list N) :=
  match s with
  | [] => [rev cur]
  | c :: r => if c =? sep then rev cur :: split_on sep r [] else split_on sep r (c :: cur)
  end.
Fixpoint join_with (sep : N) (parts : list (list N)) : list N :=
  match parts with
  | [] => []
  | [p] => p
  | p :: r => p ++ sep :: join_with sep r
  end.
Definition obis_dotted (o : obis) : list N := join_with 46 (map dec_str o).
Fixpoint mapM {A B} (f : A -> res B) (l : list A) : res (list B) :=
  match l with
  | [] => Ok []
  | x :: r => do y <- f x; do ys <- mapM f r; Ok (y :: ys)
  end.
Definition obis_from_dotted (s : list N) : res obis :=
  let parts := split_on 46 s [] in
  if negb (Nat.eqb (length parts) 6) then Err ERefused else mapM parse_dec parts.
