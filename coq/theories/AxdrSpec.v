(* Reference for C14: DLMS Data as a tree, its standard A-XDR encoding (Green Book 9.5 /
   IEC 61334-6), and the Python value each tree stands for.  Independent of the decoder. *)
From Dlms Require Import Base FieldsModel TimeModel TimeSpec.

Inductive data :=
| DNull
| DBool (b : bool)
| DI8 (z : Z) | DI16 (z : Z) | DI32 (z : Z) | DI64 (z : Z)
| DU8 (n : N) | DU16 (n : N) | DU32 (n : N) | DU64 (n : N)
| DEnum (n : N)
| DOctets (l : bytes)
| DDateTime (x : dtime) (st : cstat)
| DDate (d : date3)
| DTime (h mi s hundredths : N)
| DArray (l : list data)
| DStruct (l : list data).

(* A-XDR length / element count: one byte below 128, else 0x80+k followed by the minimal k bytes *)
Definition std_len (n : N) : bytes :=
  if n <? 128 then [n]
  else if n <? 256 then 0x81 :: be_bytes 1 n
  else if n <? 65536 then 0x82 :: be_bytes 2 n
  else if n <? 16777216 then 0x83 :: be_bytes 3 n
  else 0x84 :: be_bytes 4 n.
(* two's complement on k bytes *)
Definition std_signed (k : nat) (z : Z) : bytes := be_bytes k (Z.to_N (z mod 256 ^ Z.of_nat k)).

Fixpoint std_encode (d : data) : bytes :=
  match d with
  | DNull => [0]
  | DBool b => [3; if b then 1 else 0]
  | DI8 z => 15 :: std_signed 1 z
  | DI16 z => 16 :: std_signed 2 z
  | DI32 z => 5 :: std_signed 4 z
  | DI64 z => 20 :: std_signed 8 z
  | DU8 n => 17 :: be_bytes 1 n
  | DU16 n => 18 :: be_bytes 2 n
  | DU32 n => 6 :: be_bytes 4 n
  | DU64 n => 21 :: be_bytes 8 n
  | DEnum n => 22 :: be_bytes 1 n
  | DOctets l => 9 :: std_len (len l) ++ l
  | DDateTime x st => 25 :: std_datetime x st
  | DDate (y, m, dd) => [26; y / 256; y mod 256; m; dd; 255]
  | DTime h mi s hu => [27; h; mi; s; hu]
  | DArray l => 1 :: std_len (N.of_nat (length l)) ++ flat_map std_encode l
  | DStruct l => 2 :: std_len (N.of_nat (length l)) ++ flat_map std_encode l
  end.

Definition signed_ok (k : Z) (z : Z) : bool := ((- 2 ^ (8 * k - 1) <=? z) && (z <? 2 ^ (8 * k - 1)))%Z.
Fixpoint data_ok (d : data) : bool :=
  match d with
  | DNull | DBool _ => true
  | DI8 z => signed_ok 1 z | DI16 z => signed_ok 2 z | DI32 z => signed_ok 4 z | DI64 z => signed_ok 8 z
  | DU8 n | DEnum n => n <? 256
  | DU16 n => n <? 65536
  | DU32 n => n <? 4294967296
  | DU64 n => n <? 18446744073709551616
  | DOctets l => len l <? 4294967296
  | DDateTime x _ => dt_valid x
  | DDate (y, m, dd) => date_valid y m dd
  | DTime h mi s hu => in_range 0 23 h && in_range 0 59 mi && in_range 0 59 s && in_range 0 99 hu
  | DArray l | DStruct l => (N.of_nat (length l) <? 4294967296) && forallb data_ok l
  end.

(* the Python value the decoder is expected to return *)
Inductive pyv :=
| YNone | YBool (b : bool) | YInt (z : Z) | YBytes (l : bytes) | YList (l : list pyv)
| YDateTime (x : dtime) (st : cstat) | YDate (d : date3) | YTime (t : time4).
Fixpoint py (d : data) : pyv :=
  match d with
  | DNull => YNone
  | DBool b => YBool b
  | DI8 z | DI16 z | DI32 z | DI64 z => YInt z
  | DU8 n | DU16 n | DU32 n | DU64 n | DEnum n => YInt (Z.of_N n)
  | DOctets l => YBytes l
  | DDateTime x st => YDateTime (trunc10ms x) st
  | DDate d => YDate d
  | DTime h mi s hu => YTime (h, mi, s, hu * 10000)
  | DArray l | DStruct l => YList (map py l)
  end.
