(* Model of protocol/wrappers.py and of BlockingTcpTransport.wrap/send/recv/_recv_exactly
   (clients/blocking_tcp_transport.py, as of the "fix: TCP transport reads until ..." commit)
   over a scripted socket.  No proofs here. *)
From Dlms Require Import Base.

(* (source_wport, destination_wport, length, version) *)
Definition whdr := (N * N * N * N)%type.
Definition whdr_to_bytes (h : whdr) : res bytes :=
  let '(src, dst, ln, ver) := h in
  do v <- to_bytes_be 2 ver; do s <- to_bytes_be 2 src; do d <- to_bytes_be 2 dst; do l <- to_bytes_be 2 ln;
  Ok (v ++ s ++ d ++ l).
Definition whdr_from_bytes (b : bytes) : res whdr :=
  if negb (Nat.eqb (length b) 8) then Err ERefused else
  Ok (be_val (slice 2 4 b), be_val (slice 4 6 b), be_val (slice 6 8 b), be_val (slice 0 2 b)).

(* WrapperProtocolDataUnit *)
Definition wpdu_to_bytes (h : whdr) (data : bytes) : res bytes :=
  do hb <- whdr_to_bytes h; Ok (hb ++ data).
Definition wpdu_from_bytes (b : bytes) : res (bytes * whdr) :=
  let data := skipn 8 b in
  do h <- whdr_from_bytes (slice 0 8 b);
  let '(_, _, ln, _) := h in
  if negb (ln =? len data) then Err ERefused else Ok (data, h).

(* BlockingTcpTransport.wrap *)
Definition tcp_wrap (client server : N) (payload : bytes) : res bytes :=
  wpdu_to_bytes (client, server, len payload, 1) payload.

(* ---- scripted socket: the bytes the peer has sent and, per recv call, the largest number of
   bytes that call will return (an exhausted schedule means "as many as asked for") ---- *)
Definition sock := (bytes * list nat)%type.
Definition sock_recv (n : nat) (s : sock) : bytes * sock :=
  let '(stream, sched) := s in
  let k := match sched with [] => n | c :: _ => Nat.min n c end in
  (firstn k stream, (skipn k stream, tl sched)).

(* _recv_exactly: loop until `length` bytes have been collected; an empty read is an error.
   fuel bounds the iterations (every iteration that continues adds at least one byte) *)
Fixpoint recv_exactly (fuel : nat) (n : nat) (acc : bytes) (s : sock) : res bytes * sock :=
  if Nat.leb n (length acc) then (Ok acc, s) else
  match fuel with
  | O => (Err EFuel, s)
  | S f =>
      let '(chunk, s') := sock_recv (n - length acc) s in
      match chunk with
      | [] => (Err ERefused, s')
      | _ => recv_exactly f n (acc ++ chunk) s'
      end
  end.

(* BlockingTcpTransport.recv *)
Definition tcp_recv (s : sock) : res bytes * sock :=
  match recv_exactly 9 8 [] s with
  | (Err e, s') => (Err e, s')
  | (Ok hb, s') =>
      match whdr_from_bytes hb with
      | Err e => (Err e, s')
      | Ok (_, _, ln, _) => recv_exactly (S (N.to_nat ln)) (N.to_nat ln) [] s'
      end
  end.

(* k successive calls of BlockingTcpTransport.recv on the same socket *)
Fixpoint tcp_recv_n (k : nat) (s : sock) : list (res bytes) * sock :=
  match k with
  | O => ([], s)
  | S k' => let '(r, s') := tcp_recv s in let '(rs, s'') := tcp_recv_n k' s' in (r :: rs, s'')
  end.

(* BlockingTcpTransport.send: wrap, sendall, then recv.  State = scripted socket + the list of sendall() arguments so far.
   A payload the header cannot describe is refused before anything is written or read. *)
Definition tcp_state := (sock * list bytes)%type.
Definition tcp_send (client server : N) (payload : bytes) (st : tcp_state) : res bytes * tcp_state :=
  let '(s, written) := st in
  match tcp_wrap client server payload with
  | Err e => (Err e, st)
  | Ok w => let '(r, s') := tcp_recv s in (r, (s', written ++ [w]))
  end.

(* a session: one send() per request on the same transport *)
Fixpoint tcp_session (client server : N) (reqs : list bytes) (st : tcp_state) : list (res bytes) * tcp_state :=
  match reqs with
  | [] => ([], st)
  | q :: reqs' => let '(r, st') := tcp_send client server q st in
                  let '(rs, st'') := tcp_session client server reqs' st' in (r :: rs, st'')
  end.
