(* C13: accepted addresses are written in the 1/2/4-byte extended form and locating+decoding
   them in a frame returns the same logical and physical values. *)
From Dlms Require Import Base Sweep AddrModel AddrSpec.

Local Opaque N.shiftl N.shiftr N.land N.lor N.modulo N.div.

(* ---------- byte-level facts, complete sweeps over the 14-bit component domain ---------- *)
Definition chk14 (x : N) : bool :=
  (N.shiftl (N.shiftr x 7) 1 =? seven (x / 128) false)
  && (N.shiftl (N.land x 127) 1 =? seven x false)
  && (N.lor (N.shiftl (N.land x 127) 1) 1 =? seven x true)
  && odd_byte (seven x true) && negb (odd_byte (seven x false))
  && (N.shiftr (seven x true) 1 =? x mod 128) && (N.shiftr (seven x false) 1 =? x mod 128)
  && (x mod 128 + N.shiftl ((x / 128) mod 128) 7 =? x)
  && (seven x true <? 256) && (seven x false <? 256).
Lemma chk14_ok : forall_bits 14 chk14 0 = true. Proof. vm_compute. reflexivity. Qed.
Definition chk7 (x : N) : bool :=
  (N.lor (N.shiftl x 1) 1 =? seven x true) && (N.shiftl x 1 =? seven x false)
  && (x mod 128 =? x)
  && list_eqb (addr_to_bytes (x, None, true)) [seven x true]
  && list_eqb (addr_to_bytes (x, None, false)) [seven x true].
Lemma chk7_ok : forall_bits 7 chk7 0 = true. Proof. vm_compute. reflexivity. Qed.

Ltac boolx := repeat match goal with
  | H : _ && _ = true |- _ => apply andb_prop in H; destruct H
  | H : (_ =? _) = true |- _ => apply N.eqb_eq in H
  | H : list_eqb _ _ = true |- _ => apply list_eqb_eq in H
  | H : (_ <? _) = true |- _ => apply N.ltb_lt in H
  | H : negb _ = true |- _ => apply negb_true_iff in H
  end.

Lemma facts14 x : x <= 16383 ->
  N.shiftl (N.shiftr x 7) 1 = seven (x / 128) false /\
  N.shiftl (N.land x 127) 1 = seven x false /\
  N.lor (N.shiftl (N.land x 127) 1) 1 = seven x true /\
  odd_byte (seven x true) = true /\ odd_byte (seven x false) = false /\
  N.shiftr (seven x true) 1 = x mod 128 /\ N.shiftr (seven x false) 1 = x mod 128 /\
  x mod 128 + N.shiftl ((x / 128) mod 128) 7 = x.
Proof.
  intros Hx. pose proof (sweep_k 14 _ chk14_ok x) as H.
  assert (Hlt : x < 2 ^ N.of_nat 14) by (change (2 ^ N.of_nat 14) with 16384; lia).
  specialize (H Hlt). unfold chk14 in H. boolx. repeat split; assumption.
Qed.
Lemma facts7 x : x <= 127 ->
  N.lor (N.shiftl x 1) 1 = seven x true /\ N.shiftl x 1 = seven x false /\ x mod 128 = x /\
  addr_to_bytes (x, None, true) = [seven x true] /\ addr_to_bytes (x, None, false) = [seven x true].
Proof.
  intros Hx. pose proof (sweep_k 7 _ chk7_ok x) as H.
  assert (Hlt : x < 2 ^ N.of_nat 7) by (change (2 ^ N.of_nat 7) with 128; lia).
  specialize (H Hlt). unfold chk7 in H. boolx. repeat split; assumption.
Qed.

(* ---------- encoding is the standard form ---------- *)
Theorem addr_encode_is_standard a : addr_ok a -> addr_to_bytes a = std_addr a.
Proof.
  destruct a as [[l [p|]] [|]]; cbn [addr_ok std_addr]; intros H; try contradiction.
  - destruct H as [Hl Hp]. unfold addr_to_bytes, std_server. cbn [negb].
    destruct (facts14 l Hl) as (A1 & A2 & _). destruct (facts14 p Hp) as (B1 & _ & B3 & _).
    destruct (N.ltb_spec 127 l) as [Hl'|Hl']; destruct (N.ltb_spec 127 p) as [Hp'|Hp']; cbn [orb];
      destruct (N.leb_spec l 127); destruct (N.leb_spec p 127); try lia; cbn [andb];
      try (rewrite A1, A2, B1, B3; reflexivity).
    destruct (facts7 l ltac:(lia)) as (_ & C2 & _). destruct (facts7 p ltac:(lia)) as (D1 & _).
    rewrite C2, D1. reflexivity.
  - destruct (facts7 l H) as (_ & _ & _ & E & _). exact E.
  - destruct (facts7 l H) as (_ & _ & _ & _ & E). exact E.
Qed.

(* ---------- locating one address inside a frame ---------- *)
Lemma idx_app pre l i : idx (pre ++ l) (length pre + i) = idx l i.
Proof.
  unfold idx. rewrite nth_error_app2 by lia.
  replace (length pre + i - length pre)%nat with i by lia. reflexivity.
Qed.
Lemma idx_app0 pre l : idx (pre ++ l) (length pre) = idx l 0.
Proof. rewrite <- (Nat.add_0_r (length pre)) at 1. apply idx_app. Qed.
Lemma slice_app {A} (pre l : list A) k : slice (length pre) (length pre + k) (pre ++ l) = firstn k l.
Proof.
  unfold slice. replace (length pre + k - length pre)%nat with k by lia.
  rewrite skipn_app, skipn_all, Nat.sub_diag. reflexivity.
Qed.

Lemma find_one_1 pre x rest : x <= 16383 ->
  find_one (pre ++ seven x true :: rest) (length pre) = Ok (x mod 128, None, 1%nat).
Proof.
  intros Hx. destruct (facts14 x Hx) as (_ & _ & _ & O & _ & S & _).
  unfold find_one. rewrite idx_app0. cbn [idx nth_error bind]. rewrite O. cbn [bind Nat.eqb].
  rewrite S. reflexivity.
Qed.
Lemma find_one_2 pre u l rest : u <= 16383 -> l <= 16383 ->
  find_one (pre ++ seven u false :: seven l true :: rest) (length pre)
  = Ok (u mod 128, Some (l mod 128), 2%nat).
Proof.
  intros Hu Hl. destruct (facts14 u Hu) as (_ & _ & _ & _ & E & _ & S & _).
  destruct (facts14 l Hl) as (_ & _ & _ & O & _ & S' & _).
  unfold find_one. rewrite idx_app0, idx_app. cbn [idx nth_error bind]. rewrite E. cbn [bind].
  rewrite O. cbn [bind Nat.eqb]. rewrite slice_app. cbn [firstn idx nth_error bind].
  rewrite S, S'. reflexivity.
Qed.
Lemma find_one_4 pre u l rest : u <= 16383 -> l <= 16383 ->
  find_one (pre ++ seven (u / 128) false :: seven u false :: seven (l / 128) false :: seven l true :: rest)
           (length pre) = Ok (u, Some l, 4%nat).
Proof.
  intros Hu Hl.
  assert (Hu' : u / 128 <= 16383) by (apply N.lt_succ_r; apply N.div_lt_upper_bound; lia).
  assert (Hl' : l / 128 <= 16383) by (apply N.lt_succ_r; apply N.div_lt_upper_bound; lia).
  destruct (facts14 u Hu) as (_ & _ & _ & _ & E2 & _ & S2 & J2).
  destruct (facts14 (u / 128) Hu') as (_ & _ & _ & _ & E1 & _ & S1 & _).
  destruct (facts14 l Hl) as (_ & _ & _ & O4 & _ & S4 & _ & J4).
  destruct (facts14 (l / 128) Hl') as (_ & _ & _ & _ & E3 & _ & S3 & _).
  unfold find_one. rewrite idx_app0, !idx_app. cbn [idx nth_error bind]. rewrite E1. cbn [bind].
  rewrite E2. cbn [bind]. rewrite O4. cbn [bind Nat.eqb]. rewrite slice_app.
  cbn [firstn skipn]. unfold parse_two_byte_address. cbn [length Nat.eqb negb idx nth_error bind].
  rewrite S1, S2, S3, S4, J2, J4. reflexivity.
Qed.

(* one statement for all accepted addresses *)
Lemma find_one_std a pre rest : addr_ok a ->
  find_one (pre ++ std_addr a ++ rest) (length pre)
  = Ok (a_logical a, a_physical a, length (std_addr a)).
Proof.
  destruct a as [[l [p|]] [|]]; cbn [addr_ok std_addr a_logical a_physical fst snd]; intros H; try contradiction.
  - destruct H as [Hl Hp]. unfold std_server.
    destruct ((l <=? 127) && (p <=? 127)) eqn:E.
    + apply andb_prop in E as [E1 E2]. apply N.leb_le in E1, E2.
      cbn [app length]. rewrite find_one_2 by lia.
      destruct (facts7 l E1) as (_ & _ & -> & _). destruct (facts7 p E2) as (_ & _ & -> & _). reflexivity.
    + cbn [app length]. apply find_one_4; assumption.
  - unfold std_server. cbn [app length]. rewrite find_one_1 by lia.
    destruct (facts7 l H) as (_ & _ & -> & _). reflexivity.
  - unfold std_client. cbn [app length]. rewrite find_one_1 by lia.
    destruct (facts7 l H) as (_ & _ & -> & _). reflexivity.
Qed.

(* ---------- both addresses in a frame ---------- *)
Theorem addr_locate_decode_roundtrip d s f1 f2 tail : addr_ok d -> addr_ok s ->
  find_addresses ([126; f1; f2] ++ addr_to_bytes d ++ addr_to_bytes s ++ tail)
  = Ok ((a_logical d, a_physical d, addr_length d), (a_logical s, a_physical s, addr_length s)).
Proof.
  intros Hd Hs. unfold addr_length. rewrite (addr_encode_is_standard d Hd), (addr_encode_is_standard s Hs).
  unfold find_addresses.
  change 3%nat with (length [126; f1; f2]) at 1.
  rewrite (find_one_std d [126; f1; f2] _ Hd). cbn [bind snd].
  replace ([126; f1; f2] ++ std_addr d ++ std_addr s ++ tail)
    with (([126; f1; f2] ++ std_addr d) ++ std_addr s ++ tail) by (rewrite <- app_assoc; reflexivity).
  replace (3 + length (std_addr d))%nat with (length ([126; f1; f2] ++ std_addr d))
    by (rewrite app_length; reflexivity).
  rewrite (find_one_std s _ tail Hs). reflexivity.
Qed.

(* construction succeeds exactly on the standard addresses *)
Lemma addr_make_of_ok a : addr_ok a ->
  addr_make (Z.of_N (a_logical a)) (option_map Z.of_N (a_physical a)) (a_server a) = Ok a.
Proof.
  destruct a as [[l [p|]] [|]]; cbn [addr_ok a_logical a_physical a_server fst snd option_map]; intros H; try contradiction;
    unfold addr_make, validate_addr_value.
  - destruct H as [A B].
    destruct (Z.ltb_spec 16383 (Z.of_N l)); [lia|]. destruct (Z.ltb_spec (Z.of_N l) 0); [lia|].
    destruct (Z.ltb_spec 16383 (Z.of_N p)); [lia|]. destruct (Z.ltb_spec (Z.of_N p) 0); [lia|].
    cbn. rewrite !N2Z.id. reflexivity.
  - destruct (Z.ltb_spec 16383 (Z.of_N l)); [lia|]. destruct (Z.ltb_spec (Z.of_N l) 0); [lia|].
    destruct (Z.ltb_spec 127 (Z.of_N l)); [lia|]. cbn. rewrite !N2Z.id. reflexivity.
  - destruct (Z.ltb_spec 127 (Z.of_N l)); [lia|]. destruct (Z.ltb_spec (Z.of_N l) 0); [lia|].
    cbn. rewrite !N2Z.id. reflexivity.
Qed.
(* every address the library accepts is one the standard can express (since the repair of F13a / F13d) *)
Theorem addr_accepted_is_standard l p server a : addr_make l p server = Ok a -> addr_ok a.
Proof.
  unfold addr_make, validate_addr_value.
  destruct server.
  - destruct (Z.ltb_spec 16383 l); [discriminate|]. destruct (Z.ltb_spec l 0); [discriminate|]. cbn [negb andb].
    destruct p as [pz|].
    + destruct (Z.ltb_spec 16383 pz); [discriminate|]. destruct (Z.ltb_spec pz 0); [discriminate|]. cbn [negb andb].
      intros [= <-]. cbn [addr_ok]. lia.
    + cbn [andb]. destruct (Z.ltb_spec 127 l); [discriminate|]. intros [= <-]. cbn [addr_ok]. lia.
  - destruct (Z.ltb_spec 127 l); [discriminate|]. destruct (Z.ltb_spec l 0); [discriminate|]. cbn [negb andb].
    destruct p as [pz|].
    + destruct (Z.ltb_spec 127 pz); [discriminate|]. destruct (Z.ltb_spec pz 0); discriminate.
    + intros [= <-]. cbn [addr_ok]. lia.
Qed.

(* constructing the address objects from the located values gives back the same address *)
Theorem addr_objects_roundtrip d s f1 f2 tail : addr_ok d -> addr_ok s ->
  let f := [126; f1; f2] ++ addr_to_bytes d ++ addr_to_bytes s ++ tail in
  destination_from_bytes f (a_server d) = Ok d /\ source_from_bytes f (a_server s) = Ok s.
Proof.
  intros Hd Hs f. unfold destination_from_bytes, source_from_bytes. subst f.
  rewrite (addr_locate_decode_roundtrip d s f1 f2 tail Hd Hs). cbn [bind fst snd].
  split; apply addr_make_of_ok; assumption.
Qed.


(* never attributed to a different station: two accepted addresses of the same kind with the
   same bytes are the same address *)
Theorem addr_injective a b : addr_ok a -> addr_ok b -> a_server a = a_server b ->
  addr_to_bytes a = addr_to_bytes b -> a = b.
Proof.
  intros Ha Hb Hk E.
  rewrite (addr_encode_is_standard a Ha), (addr_encode_is_standard b Hb) in E.
  pose proof (find_one_std a [] [] Ha) as Fa. pose proof (find_one_std b [] [] Hb) as Fb.
  cbn [app length] in Fa, Fb. rewrite E in Fa. rewrite Fa in Fb.
  destruct a as [[la pa] ka], b as [[lb pb] kb]. cbn in *. congruence.
Qed.

(* out-of-range addresses are refused at construction *)
Theorem addr_out_of_range_refused (l : Z) (p : option Z) (server : bool) :
  ((if server then 16383 else 127) < l \/ l < 0)%Z -> addr_make l p server = Err ERefused.
Proof.
  intros H. unfold addr_make, validate_addr_value.
  destruct server; destruct (Z.ltb_spec 16383 l); destruct (Z.ltb_spec 127 l); destruct (Z.ltb_spec l 0);
    cbn; try reflexivity; lia.
Qed.

