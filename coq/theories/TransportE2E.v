(* C18, end to end over the scripted serial port: the request goes out as one information frame;
   the meter answers with any number of information frames, each acknowledged by a receive-ready
   frame before the next one is made readable; the serial line hands the bytes over in pieces of
   ANY positive sizes (never beyond the next flag byte, as read_until does); send() returns the
   answer without the LLC header, has written exactly the request and one receive-ready frame per
   segment - each carrying the link's receive number at that point - and leaves the link idle
   with an empty receive buffer. *)
From Dlms Require Import Base CrcModel FieldsModel AddrModel FrameModel FrameProofs HdlcConnModel HdlcChunkProofs HdlcStreamProofs
  TransportModel TransportProofs.
From Dlms.Gen Require GenHdlcState.

(* ---------- the serial port ---------- *)
Definition pos_sched (s : serial) : Prop := Forall (fun c => (1 <= c)%nat) (sched s).

Lemma upto_flag_bounds R : (upto_flag R <= length R)%nat /\ (R <> [] -> (1 <= upto_flag R)%nat).
Proof.
  induction R as [|x r [IH1 IH2]]; [split; [cbn; lia|congruence]|].
  cbn [upto_flag length]. destruct (x =? 126); split; intros; lia.
Qed.

Lemma Forall_tl {A} (P : A -> Prop) l : Forall P l -> Forall P (tl l).
Proof. destruct 1; [constructor|assumption]. Qed.

Lemma read_until_spec s : pos_sched s ->
  exists k, (k <= length (readable s))%nat /\ (readable s <> [] -> (1 <= k)%nat) /\
    ser_read_until s = (firstn k (readable s),
      {| pending := pending s; readable := skipn k (readable s); sched := tl (sched s); written := written s |}).
Proof.
  intros Hs. destruct (upto_flag_bounds (readable s)) as [B1 B2]. unfold ser_read_until.
  exists (match sched s with [] => upto_flag (readable s) | c :: _ => Nat.min (upto_flag (readable s)) c end).
  split; [|split; [|reflexivity]].
  - destruct (sched s); lia.
  - intros Hne. specialize (B2 Hne). unfold pos_sched in Hs. destruct (sched s) as [|c r]; [exact B2|].
    inversion Hs; subst. lia.
Qed.

(* what one _read_frame call does: it takes some prefix of what is readable - at least one byte
   when there is any *)
Definition reads (s : serial) (b : bytes) (s' : serial) : Prop :=
  exists k, (k <= length (readable s))%nat /\ (readable s <> [] -> (1 <= k)%nat) /\ b = firstn k (readable s) /\
    readable s' = skipn k (readable s) /\ pending s' = pending s /\ written s' = written s /\ pos_sched s'.

Lemma match_flag {T} (b : bytes) (A B : T) :
  (match b with [126] => A | _ => B end) = A \/ (match b with [126] => A | _ => B end) = B.
Proof.
  destruct b as [|x r]; [right; reflexivity|].
  destruct x as [|p]; [right; reflexivity|].
  do 7 (try (destruct p as [p|p|]; try (right; reflexivity))); destruct r; first [left; reflexivity|right; reflexivity].
Qed.

Lemma firstn_add' {A} (l : list A) a b : firstn a l ++ firstn b (skipn a l) = firstn (a + b) l.
Proof.
  revert l; induction a as [|a IH]; intros l; [reflexivity|].
  destruct l as [|x l]; [cbn; destruct b; reflexivity|]. cbn. f_equal. apply IH.
Qed.

Lemma read_frame_cases s :
  let '(b, s1) := ser_read_until s in
  read_frame s = (b, s1) \/ (let '(b2, s2) := ser_read_until s1 in read_frame s = (b ++ b2, s2)).
Proof.
  unfold read_frame. destruct (ser_read_until s) as [b s1]. destruct (ser_read_until s1) as [b2 s2] eqn:E2.
  destruct (match_flag b (b ++ b2, s2) (b, s1)) as [H|H]; [right|left]; exact H.
Qed.

Lemma read_frame_spec s : pos_sched s -> reads s (fst (read_frame s)) (snd (read_frame s)).
Proof.
  intros Hs. pose proof (read_frame_cases s) as Hc.
  destruct (read_until_spec s Hs) as (k1 & K1 & K1' & E1). rewrite E1 in Hc.
  set (s1 := {| pending := pending s; readable := skipn k1 (readable s); sched := tl (sched s); written := written s |}) in *.
  assert (Hs1 : pos_sched s1) by (apply Forall_tl; exact Hs).
  destruct (read_until_spec s1 Hs1) as (k2 & K2 & K2' & E2). rewrite E2 in Hc.
  destruct Hc as [H|H]; rewrite H; cbn [fst snd].
  - exists k1. repeat split; try assumption.
  - exists (k1 + k2)%nat. cbn [readable s1] in K2. rewrite skipn_length in K2.
    split; [lia|]. split; [intros Hne; specialize (K1' Hne); lia|]. split; [apply firstn_add'|].
    split; [cbn [readable s1]; rewrite skipn_add'; reflexivity|]. split; [reflexivity|]. split; [reflexivity|].
    apply Forall_tl. exact Hs1.
Qed.

Lemma upd_upd t c o s c' o' s' : upd (upd t c o s) c' o' s' = upd t c' o' s'.
Proof. reflexivity. Qed.

(* ---------- the transport's next_event loop delivers one answer frame ---------- *)
Section one_answer_frame.
  Variables (pk : fkind) (F : bytes) (f : frame) (l l2 : link).
  Hypothesis Hacc : frame_from_bytes pk F = Ok f.
  Hypothesis Hpk : parse_kind l = Some pk.
  Hypothesis Hlink : link_on_frame l pk (f_ssn f) (f_rsn f) = (Ok tt, l2).

  Lemma tne_delivers t0 o : forall fuel n p s, (n <= length F)%nat -> (1 <= p <= length F - 1)%nat ->
    readable s = skipn n F -> pos_sched s -> ((length F - n) + (length F - p) < fuel)%nat ->
    exists s', t_next_event fuel (upd t0 (st F l n p) o s)
                 = (EFrame pk f, upd t0 {| c_link := l2; c_buf := []; c_pos := 1 |} o s')
      /\ readable s' = [] /\ pending s' = pending s /\ written s' = written s /\ pos_sched s'.
  Proof.
    induction fuel as [|fu IH]; intros n p s Hn Hp Hr Hs Hf; [lia|].
    cbn [t_next_event]. cbn [t_conn t_out t_ser upd].
    destruct (index_from 0 (firstn n F) p) as [i|] eqn:Hi.
    - pose proof (index_from_spec _ _ _ _ Hi) as (_ & Hpi & _ & Hil). rewrite Nat.sub_0_r, firstn_length in Hil.
      destruct (Nat.eq_dec i (length F - 1)) as [->|Hne].
      + assert (n = length F) by lia. subst n. rewrite firstn_all in Hi.
        rewrite (deliver_full pk F f l l2 Hacc Hpk Hlink p ltac:(lia) Hi).
        exists s. repeat split; try assumption. rewrite Hr. apply skipn_all.
      + destruct (step_candidate pk F f l Hacc Hpk n p i Hn ltac:(lia) Hi ltac:(lia)) as [Hstep _].
        rewrite Hstep.
        destruct (read_frame_spec s Hs) as (k & K1 & K2 & Eb & Er & Ep & Ew & Hs').
        destruct (read_frame s) as [b s1]. cbn [fst snd] in *.
        assert (Hc : receive_data (st F l n (S i)) b = st F l (n + k) (S i)).
        { unfold receive_data, st. cbn [c_link c_buf c_pos]. rewrite Eb, Hr. rewrite firstn_add'. reflexivity. }
        rewrite Hc, upd_upd.
        rewrite Hr, skipn_length in K1.
        destruct (IH (n + k)%nat (S i) s1 ltac:(lia) ltac:(lia)) as (s' & E & A & B & C & D).
        { rewrite Er, Hr. symmetry. apply skipn_add'. }
        { exact Hs'. }
        { lia. }
        rewrite E. exists s'. repeat split; try assumption; congruence.
    - assert (Hne : next_event (st F l n p) = (ENeedData, st F l n p)).
      { unfold next_event, find_frame, st. cbn [c_buf c_pos]. rewrite Hi. reflexivity. }
      rewrite Hne.
      assert (Hlt : (n < length F)%nat).
      { destruct (Nat.eq_dec n (length F)) as [->|]; [|lia]. exfalso. rewrite firstn_all in Hi.
        destruct (index_from_some F 0 p (length F - 1) ltac:(lia) (last_flag_index pk F f Hacc)) as (r & Hr' & _).
        congruence. }
      destruct (read_frame_spec s Hs) as (k & K1 & K2 & Eb & Er & Ep & Ew & Hs').
      destruct (read_frame s) as [b s1]. cbn [fst snd] in *.
      assert (Hk : (1 <= k)%nat).
      { apply K2. rewrite Hr. intros E0. apply (f_equal (@length N)) in E0. rewrite skipn_length in E0. cbn in E0. lia. }
      assert (Hc : receive_data (st F l n p) b = st F l (n + k) p).
      { unfold receive_data, st. cbn [c_link c_buf c_pos]. rewrite Eb, Hr. rewrite firstn_add'. reflexivity. }
      rewrite Hc, upd_upd.
      rewrite Hr, skipn_length in K1.
      destruct (IH (n + k)%nat p s1 ltac:(lia) Hp) as (s' & E & A & B & C & D).
      { rewrite Er, Hr. symmetry. apply skipn_add'. }
      { exact Hs'. }
      { lia. }
      rewrite E. exists s'. repeat split; try assumption; congruence.
  Qed.
End one_answer_frame.

(* ---------- facts read off the generated link table ---------- *)
Lemma parse_info_state l : parse_kind l = Some KInfo -> l_state l = 2.
Proof.
  unfold parse_kind, GenHdlcState.hdlc_parse_methods. cbn [find fst].
  destruct (N.eqb_spec 3 (l_state l)); [discriminate|].
  destruct (N.eqb_spec 2 (l_state l)) as [E|]; [intros _; symmetry; exact E|].
  destruct (N.eqb_spec 4 (l_state l)); discriminate.
Qed.
Lemma info_received_idle l a b l2 : parse_kind l = Some KInfo -> link_on_frame l KInfo a b = (Ok tt, l2) ->
  l_state l2 = 1.
Proof.
  intros Hp H. apply parse_info_state in Hp. unfold link_on_frame, process_frame in H. rewrite Hp in H.
  cbn in H. unfold handle_sequence_numbers in H. cbn [negb] in H.
  destruct (negb (a =? _) || negb (b =? _)); [discriminate|]. injection H as <-. reflexivity.
Qed.
(* sending the receive-ready frame from IDLE: the link awaits the next frame, counters untouched *)
Lemma rr_send_link l : l_state l = 1 ->
  link_send l KRr 0 (server_rsn l)
  = (Ok tt, {| l_state := 2; client_ssn := client_ssn l; client_rsn := client_rsn l;
               server_ssn := server_ssn l; server_rsn := server_rsn l |}).
Proof. intros H. unfold link_send, process_frame. rewrite H. reflexivity. Qed.

Lemma frame_to_bytes_nonempty k f b : frame_to_bytes k f = Ok b -> exists x r, b = x :: r.
Proof.
  unfold frame_to_bytes. destruct (frame_content k f) as [c|]; [|discriminate]. cbn [bind].
  intros H. injection H as <-. eexists _, _. reflexivity.
Qed.

(* ---------- the frames the client sends always encode ---------- *)
Lemma addr_bytes_short a : (length (addr_to_bytes a) <= 4)%nat.
Proof.
  destruct a as [[l p] server]. unfold addr_to_bytes. destruct server; cbn [negb]; [|cbn; lia].
  destruct p as [p|].
  - destruct ((127 <? l) || (127 <? p)); cbn; lia.
  - unfold split_address. destruct (127 <? l).
    + destruct (nzb _); destruct (nzb _); cbn; lia.
    + destruct (nzb _); cbn; lia.
Qed.

Lemma fmt_bytes_ok n seg : n <= 2047 -> exists b, fmt_to_bytes (n, seg) = Ok b /\ length b = 2%nat.
Proof.
  intros Hn. unfold fmt_to_bytes, to_bytes_be.
  set (total := if seg then N.lor (N.lor 40960 n) 2048 else N.lor 40960 n).
  assert (Ht : total < 256 ^ N.of_nat 2).
  { change (256 ^ N.of_nat 2) with (2 ^ 16).
    assert (Hl : N.log2 n < 16).
    { destruct (N.eq_dec n 0) as [->|Hz]; [cbn; lia|]. apply N.log2_lt_pow2; lia. }
    assert (H1 : N.lor 40960 n < 2 ^ 16).
    { apply N.log2_lt_pow2; [destruct (N.eq_dec (N.lor 40960 n) 0) as [E|]; [apply N.lor_eq_0_l in E; discriminate|lia]|].
      rewrite N.log2_lor. change (N.log2 40960) with 15. lia. }
    unfold total. destruct seg; [|exact H1].
    apply N.log2_lt_pow2; [destruct (N.eq_dec (N.lor (N.lor 40960 n) 2048) 0) as [E|]; [apply N.lor_eq_0_l, N.lor_eq_0_l in E; discriminate|lia]|].
    rewrite !N.log2_lor. change (N.log2 40960) with 15. change (N.log2 2048) with 11. lia. }
  apply N.ltb_lt in Ht. fold total. rewrite Ht. eexists. split; [reflexivity|apply be_bytes_length].
Qed.

Lemma short_encodes k dest src pl seg fin ssn r : has_hcs k = false -> exists b,
  frame_to_bytes k {| f_dest := dest; f_src := src; f_payload := pl; f_segmented := seg; f_final := fin;
                      f_ssn := ssn; f_rsn := r |} = Ok b /\ (1 <= length b <= 15)%nat.
Proof.
  intros Hk. pose proof (addr_bytes_short dest) as Hd. pose proof (addr_bytes_short src) as Hs.
  assert (Hfix : fixed_length k = 5) by (destruct k; try discriminate; reflexivity).
  unfold frame_to_bytes, frame_content, header_content, frame_length, information, hcs_of. rewrite Hk, Hfix.
  cbn [f_dest f_src f_payload f_segmented].
  unfold fmt_make, len. cbn [length].
  destruct (Z.ltb_spec 2047 (Z.of_N (5 + N.of_nat (length (addr_to_bytes dest)) + N.of_nat (length (addr_to_bytes src)) + N.of_nat 0))); [lia|].
  destruct (Z.ltb_spec (Z.of_N (5 + N.of_nat (length (addr_to_bytes dest)) + N.of_nat (length (addr_to_bytes src)) + N.of_nat 0)) 0); [lia|].
  cbn [bind]. rewrite N2Z.id.
  destruct (fmt_bytes_ok (5 + N.of_nat (length (addr_to_bytes dest)) + N.of_nat (length (addr_to_bytes src)) + N.of_nat 0) seg ltac:(lia)) as (fb & E & L).
  rewrite E. cbn [bind]. eexists. split; [reflexivity|].
  rewrite !app_length. unfold crc, calculate_for, assemble. cbn [length]. rewrite L. lia.
Qed.
Lemma rr_encodes dest src seg fin ssn r : exists b,
  frame_to_bytes KRr {| f_dest := dest; f_src := src; f_payload := None; f_segmented := seg; f_final := fin;
                        f_ssn := ssn; f_rsn := r |} = Ok b /\ (length b <= 15)%nat.
Proof. destruct (short_encodes KRr dest src None seg fin ssn r eq_refl) as (b & E & L). exists b. split; [exact E|lia]. Qed.

Lemma info_encodes dest src pl seg fin ssn r : (length pl <= 2032)%nat -> exists b,
  frame_to_bytes KInfo {| f_dest := dest; f_src := src; f_payload := Some pl; f_segmented := seg; f_final := fin;
                          f_ssn := ssn; f_rsn := r |} = Ok b.
Proof.
  intros Hpl. pose proof (addr_bytes_short dest) as Hd. pose proof (addr_bytes_short src) as Hs.
  unfold frame_to_bytes, frame_content, header_content, frame_length, information, hcs_of.
  cbn [fixed_length has_hcs f_dest f_src f_payload f_segmented].
  unfold fmt_make, len.
  destruct (Z.ltb_spec 2047 (Z.of_N (7 + N.of_nat (length (addr_to_bytes dest)) + N.of_nat (length (addr_to_bytes src)) + N.of_nat (length pl)))); [lia|].
  destruct (Z.ltb_spec (Z.of_N (7 + N.of_nat (length (addr_to_bytes dest)) + N.of_nat (length (addr_to_bytes src)) + N.of_nat (length pl))) 0); [lia|].
  cbn [bind]. rewrite N2Z.id.
  destruct (fmt_bytes_ok (7 + N.of_nat (length (addr_to_bytes dest)) + N.of_nat (length (addr_to_bytes src)) + N.of_nat (length pl)) seg ltac:(lia)) as (fb & E & L).
  rewrite E. cbn [bind]. eexists. reflexivity.
Qed.

(* sending a request from IDLE with the link's own numbers *)
Definition after_request (l : link) : link :=
  {| l_state := 2; client_ssn := wrap8 (client_ssn l); client_rsn := wrap8 (client_rsn l + 1);
     server_ssn := wrap8 (server_ssn l + 1); server_rsn := wrap8 (server_rsn l) |}.
Lemma request_send_link l : l_state l = 1 ->
  link_send l KInfo (server_ssn l) (server_rsn l) = (Ok tt, after_request l).
Proof.
  intros H. unfold link_send, process_frame. rewrite H. cbn. unfold handle_sequence_numbers. cbn [negb server_ssn server_rsn].
  rewrite !N.eqb_refl. reflexivity.
Qed.

(* ---------- the whole answer ---------- *)
Section answer.
  Variable t0 : transport.
  Definition rr_of (r : N) : frame :=
    {| f_dest := t_server t0; f_src := t_client t0; f_payload := None; f_segmented := false;
       f_final := true; f_ssn := 0; f_rsn := r |}.
  (* a receive-ready frame (at most 15 bytes) fits one write *)
  Hypothesis Hmax : (15 <= t_max t0)%nat.
  Lemma Hrr : forall r, exists b, frame_to_bytes KRr (rr_of r) = Ok b /\ (length b <= t_max t0)%nat.
  Proof. intros r. destruct (rr_encodes (t_server t0) (t_client t0) false true 0 r) as (b & E & L). exists b. split; [exact E|lia]. Qed.

  Definition rr_bytes (r : N) : bytes := match frame_to_bytes KRr (rr_of r) with Ok b => b | Err _ => [] end.

  (* an answer frame as the meter sends it: a whole information frame, final (window size one) *)
  Definition answer_item (it : item) : Prop := it_pk it = KInfo /\ it_shared it = false /\ f_final (it_f it) = true.

  (* the receive-ready frames expected on the wire: one per segmented frame, carrying the link's
     receive number after that frame *)
  Fixpoint rr_list (l : link) (items : list item) : list bytes :=
    match items with
    | [] => []
    | it :: r =>
        let l1 := snd (link_on_frame l (it_pk it) (f_ssn (it_f it)) (f_rsn (it_f it))) in
        if f_segmented (it_f it) then rr_bytes (server_rsn l1) :: rr_list (between l1 (it_f it)) r
        else rr_list l1 r
    end.

  Definition tr (l : link) (s : serial) : transport := upd t0 {| c_link := l; c_buf := []; c_pos := 1 |} [] s.

  Lemma send_rr_step l2 s nextF rest : l_state l2 = 1 -> readable s = [] -> pending s = nextF :: rest ->
    send_rr (tr l2 s) = (Ok tt, tr {| l_state := 2; client_ssn := client_ssn l2; client_rsn := client_rsn l2;
                                      server_ssn := server_ssn l2; server_rsn := server_rsn l2 |}
                                   {| pending := rest; readable := nextF; sched := sched s;
                                      written := written s ++ [rr_bytes (server_rsn l2)] |}).
  Proof.
    intros Hst Hrd Hpd. unfold send_rr, tr. cbn [t_conn t_out t_ser t_server t_client upd c_link].
    unfold conn_send. cbn [f_ssn f_rsn c_link c_buf c_pos]. rewrite (rr_send_link l2 Hst).
    fold (rr_of (server_rsn l2)). unfold rr_bytes.
    destruct (Hrr (server_rsn l2)) as (b & Hb & Hlen). rewrite Hb.
    destruct (frame_to_bytes_nonempty _ _ _ Hb) as (x & r & ->).
    cbn [app length]. cbn [drain_out]. cbn [t_out upd t_conn c_link l_state t_max t_ser].
    cbn [N.eqb Pos.eqb negb].
    rewrite firstn_all2 by exact Hlen. rewrite skipn_all2 by exact Hlen.
    unfold ser_write. rewrite Hpd, Hrd. reflexivity.
  Qed.

  Lemma windows_deliver later l_end : forall items l s,
    chain l items l_end -> Forall answer_item items -> is_segmentation (map key items) ->
    readable s = match items with it :: _ => it_F it | [] => [] end ->
    pending s = map it_F (tl items) ++ later -> pos_sched s ->
    exists n s', delivers (tr l s) (map key items) n (tr l_end s')
      /\ readable s' = [] /\ pending s' = later /\ written s' = written s ++ rr_list l items /\ pos_sched s'.
  Proof.
    induction items as [|it r IH]; intros l s Hch Hans Hseg Hrd Hpd Hs; [contradiction|].
    inversion Hch as [|? ? l1 ? ? Hacc Hpk Hlink Hrest]; subst.
    inversion Hans as [|? ? (Hk & Hsh & Hfin) Hans']; subst.
    rewrite Hk in Hacc, Hpk, Hlink.
    pose proof (chain_head_len _ _ _ _ Hch) as Hlen3.
    pose proof (info_received_idle _ _ _ _ Hpk Hlink) as Hidle.
    (* the frame is delivered *)
    destruct (tne_delivers KInfo (it_F it) (it_f it) l l1 Hacc Hpk Hlink t0 [] (ev_fuel (tr l s)) 0%nat 1%nat s
                ltac:(lia) ltac:(lia)) as (s1 & E1 & R1 & P1 & W1 & S1).
    { rewrite Hrd. reflexivity. }
    { exact Hs. }
    { unfold ev_fuel, tr. cbn [t_conn t_ser upd c_buf length]. rewrite Hrd. lia. }
    assert (Hst : st (it_F it) l 0 1 = {| c_link := l; c_buf := []; c_pos := 1 |}) by reflexivity.
    rewrite Hst in E1. fold (tr l s) in E1. fold (tr l1 s1) in E1.
    cbn [map]. unfold key at 1. rewrite Hk.
    cbn [rr_list]. rewrite Hk, Hlink. cbn [snd].
    destruct r as [|it2 r'].
    - (* the last frame: unsegmented *)
      cbn [map is_segmentation key] in Hseg. unfold key in Hseg. destruct Hseg as [Hs0 _].
      inversion Hrest; subst. unfold between. rewrite Hs0, andb_false_r.
      exists 0%nat, s1. split.
      + replace 0%nat with (if f_segmented (it_f it) && f_final (it_f it) then 1%nat else 0%nat) by (rewrite Hs0; reflexivity).
        eapply del_cons; [exact E1| |apply del_nil]. rewrite Hs0. reflexivity.
      + cbn [rr_list]. cbn [tl map app] in Hpd. rewrite app_nil_r. repeat split; try assumption; congruence.
    - (* a segment: acknowledged, the next frame becomes readable *)
      assert (Hs1 : f_segmented (it_f it) = true).
      { cbn [map is_segmentation] in Hseg. unfold key at 1 in Hseg. destruct Hseg as [H _]. exact H. }
      assert (Hseg' : is_segmentation (map key (it2 :: r'))).
      { cbn [map is_segmentation] in Hseg. unfold key at 1 in Hseg. destruct Hseg as [_ H]. exact H. }
      cbn [tl map] in Hpd. cbn [app] in Hpd.
      pose proof (send_rr_step l1 s1 (it_F it2) (map it_F r' ++ later) Hidle R1 ltac:(congruence)) as Hrrs.
      assert (Hbet : between l1 (it_f it) = {| l_state := 2; client_ssn := client_ssn l1; client_rsn := client_rsn l1;
                                                server_ssn := server_ssn l1; server_rsn := server_rsn l1 |}).
      { unfold between. rewrite Hidle, Hs1. cbn [N.eqb Pos.eqb andb]. rewrite (rr_send_link l1 Hidle). reflexivity. }
      rewrite <- Hbet in Hrrs.
      set (s2 := {| pending := map it_F r' ++ later; readable := it_F it2; sched := sched s1;
                    written := written s1 ++ [rr_bytes (server_rsn l1)] |}) in *.
      destruct (IH (between l1 (it_f it)) s2 Hrest Hans' Hseg') as (n & s' & D & R' & P' & W' & S').
      { reflexivity. }
      { reflexivity. }
      { exact S1. }
      exists (S n), s'. split.
      + replace (S n) with (if f_segmented (it_f it) && f_final (it_f it) then S n else n) by (rewrite Hs1, Hfin; reflexivity).
        eapply del_cons; [exact E1| |exact D]. rewrite Hs1, Hfin. exact Hrrs.
      + rewrite Hs1. repeat split; try assumption.
        rewrite W'. cbn [written s2]. rewrite W1. rewrite <- app_assoc. reflexivity.
  Qed.
End answer.

(* ---------- send(), end to end ---------- *)
Theorem send_end_to_end t telegram items later answer l_end :
  t_out t = [] -> c_buf (t_conn t) = [] -> c_pos (t_conn t) = 1%nat -> l_state (c_link (t_conn t)) = 1 ->
  readable (t_ser t) = [] -> pending (t_ser t) = map it_F items ++ later -> pos_sched (t_ser t) ->
  (0 < length (LLC_COMMAND ++ telegram) <= t_max t)%nat -> (15 <= t_max t <= 2032)%nat ->
  chain (after_request (c_link (t_conn t))) items l_end -> Forall answer_item items -> is_segmentation (map key items) ->
  concat (map (fun it => payload_of (it_f it)) items) = LLC_RESPONSE ++ answer ->
  let l := c_link (t_conn t) in
  exists fb s',
    frame_to_bytes KInfo {| f_dest := t_server t; f_src := t_client t; f_payload := Some (LLC_COMMAND ++ telegram);
                            f_segmented := false; f_final := true; f_ssn := server_ssn l; f_rsn := server_rsn l |} = Ok fb
    /\ t_send t telegram = (Ok answer, upd t {| c_link := l_end; c_buf := []; c_pos := 1 |} [] s')
    /\ written s' = written (t_ser t) ++ fb :: rr_list t (after_request l) items
    /\ readable s' = [] /\ pending s' = later /\ pos_sched s'.
Proof.
  intros Hout Hbuf Hpos Hidle Hrd Hpd Hs Hlen Hmax Hch Hans Hseg Hcat l.
  destruct items as [|it r]; [contradiction|].
  destruct (info_encodes (t_server t) (t_client t) (LLC_COMMAND ++ telegram) false true (server_ssn l) (server_rsn l) ltac:(lia)) as (fb & Hfb).
  set (c1 := {| c_link := after_request l; c_buf := []; c_pos := 1 |}).
  assert (Hsend : conn_send (t_conn t) KInfo {| f_dest := t_server t; f_src := t_client t; f_payload := Some (LLC_COMMAND ++ telegram);
                     f_segmented := false; f_final := true; f_ssn := server_ssn l; f_rsn := server_rsn l |} = (Ok fb, c1)).
  { unfold conn_send. cbn [f_ssn f_rsn]. fold l. rewrite (request_send_link l Hidle). rewrite Hfb, Hbuf, Hpos. reflexivity. }
  pose proof (single_request_frame t (length (t_out t ++ LLC_COMMAND ++ telegram)) telegram fb c1 Hout Hidle Hlen Hsend) as Hreq.
  set (s0 := ser_write (t_ser t) fb) in *.
  assert (Hs0 : readable s0 = it_F it /\ pending s0 = map it_F r ++ later /\ written s0 = written (t_ser t) ++ [fb] /\ pos_sched s0).
  { unfold s0, ser_write. rewrite Hpd. cbn [map app]. cbn [readable pending written sched pos_sched]. rewrite Hrd.
    repeat split. exact Hs. }
  destruct Hs0 as (R0 & P0 & W0 & S0).
  destruct (windows_deliver t ltac:(lia) later l_end (it :: r) (after_request l) s0 Hch Hans Hseg R0 P0 S0) as (n & s' & D & R' & P' & W' & S').
  exists fb, s'. split; [exact Hfb|]. split.
  - apply (send_strips_llc t telegram (upd t c1 [] s0) (map key (it :: r)) n).
    + rewrite Hout in *. exact Hreq.
    + exact Hseg.
    + exact D.
    + cbn [t_ser upd]. rewrite P0, app_length, !map_length. cbn [length]. lia.
    + rewrite map_map. exact Hcat.
  - repeat split; try assumption. rewrite W', W0, <- app_assoc. reflexivity.
Qed.

(* ---------- connect() and disconnect() ---------- *)
Definition set_state (l : link) (st : N) : link :=
  {| l_state := st; client_ssn := client_ssn l; client_rsn := client_rsn l; server_ssn := server_ssn l; server_rsn := server_rsn l |}.
Definition unnumbered_frame (t : transport) : frame :=
  {| f_dest := t_server t; f_src := t_client t; f_payload := None; f_segmented := false; f_final := true; f_ssn := 0; f_rsn := 0 |}.

(* SNRM from NOT_CONNECTED (0 -> 3 -> 1 on UA), DISC from IDLE (1 -> 4 -> 0 on UA): read off the generated table *)
Lemma unnumbered_exchange t k s_from s_wait s_to F f later :
  (k = KSnrm /\ s_from = 0 /\ s_wait = 3 /\ s_to = 1) \/ (k = KDisc /\ s_from = 1 /\ s_wait = 4 /\ s_to = 0) ->
  t_out t = [] -> c_buf (t_conn t) = [] -> c_pos (t_conn t) = 1%nat -> l_state (c_link (t_conn t)) = s_from ->
  readable (t_ser t) = [] -> pending (t_ser t) = F :: later -> pos_sched (t_ser t) -> (15 <= t_max t)%nat ->
  frame_from_bytes KUa F = Ok f ->
  exists fb s', frame_to_bytes k (unnumbered_frame t) = Ok fb
    /\ t_unnumbered t k = (EFrame KUa f, upd t {| c_link := set_state (c_link (t_conn t)) s_to; c_buf := []; c_pos := 1 |} [] s')
    /\ written s' = written (t_ser t) ++ [fb] /\ readable s' = [] /\ pending s' = later.
Proof.
  intros Hcase Hout Hbuf Hpos Hst Hrd Hpd Hs Hmax Hacc.
  set (l := c_link (t_conn t)) in *.
  assert (Hk : has_hcs k = false) by (destruct Hcase as [(-> & _)|(-> & _)]; reflexivity).
  destruct (short_encodes k (t_server t) (t_client t) None false true 0 0 Hk) as (fb & Hfb & Hlen).
  fold (unnumbered_frame t) in Hfb.
  assert (Hsend : link_send l k 0 0 = (Ok tt, set_state l s_wait)).
  { unfold link_send, process_frame. rewrite Hst.
    destruct Hcase as [(-> & -> & -> & ->)|(-> & -> & -> & ->)]; reflexivity. }
  assert (Hpk : parse_kind (set_state l s_wait) = Some KUa).
  { destruct Hcase as [(_ & _ & -> & _)|(_ & _ & -> & _)]; reflexivity. }
  assert (Hlink : link_on_frame (set_state l s_wait) KUa (f_ssn f) (f_rsn f) = (Ok tt, set_state l s_to)).
  { destruct Hcase as [(_ & _ & -> & ->)|(_ & _ & -> & ->)]; reflexivity. }
  assert (Hwait : s_wait <> 1) by (destruct Hcase as [(_ & _ & -> & _)|(_ & _ & -> & _)]; discriminate).
  destruct (frame_to_bytes_nonempty _ _ _ Hfb) as (x & r & Efb). subst fb.
  exists (x :: r). unfold t_unnumbered. fold (unnumbered_frame t). unfold conn_send. cbn [f_ssn f_rsn unnumbered_frame].
  fold l. rewrite Hsend. fold (unnumbered_frame t). rewrite Hfb, Hout, Hbuf, Hpos. cbn [app].
  set (c1 := {| c_link := set_state l s_wait; c_buf := []; c_pos := 1 |}).
  assert (Hdrain : drain_out (S (length (t_out (upd t c1 (x :: r) (t_ser t))))) (upd t c1 (x :: r) (t_ser t))
                   = (Ok tt, upd t c1 [] (ser_write (t_ser t) (x :: r)))).
  { cbn [drain_out t_out upd t_conn t_max t_ser c_link c1 set_state l_state].
    apply N.eqb_neq in Hwait. rewrite Hwait. cbn [negb].
    rewrite firstn_all2 by lia. rewrite skipn_all2 by lia. reflexivity. }
  rewrite Hdrain.
  set (s0 := ser_write (t_ser t) (x :: r)).
  assert (Hs0 : readable s0 = F /\ pending s0 = later /\ written s0 = written (t_ser t) ++ [x :: r] /\ pos_sched s0).
  { unfold s0, ser_write. rewrite Hpd. cbn [readable pending written sched pos_sched]. rewrite Hrd. repeat split. exact Hs. }
  destruct Hs0 as (R0 & P0 & W0 & S0).
  assert (Hlen3 : (3 <= length F)%nat).
  { destruct (accepted_second _ _ _ Hacc) as (b & rest & EF & _ & Hr). rewrite EF. destruct rest; [contradiction|cbn; lia]. }
  destruct (tne_delivers KUa F f (set_state l s_wait) (set_state l s_to) Hacc Hpk Hlink t [] (ev_fuel (upd t c1 [] s0)) 0%nat 1%nat s0
              ltac:(lia) ltac:(lia)) as (s' & E & R' & P' & W' & S').
  { rewrite R0. reflexivity. }
  { exact S0. }
  { unfold ev_fuel. cbn [t_conn t_ser upd c_buf c1 length]. rewrite R0. lia. }
  exists s'. split; [reflexivity|]. split; [exact E|]. split; [rewrite W'; exact W0|]. split; [exact R'|]. rewrite P'; exact P0.
Qed.

Theorem connect_end_to_end t F f later :
  t_out t = [] -> c_buf (t_conn t) = [] -> c_pos (t_conn t) = 1%nat -> l_state (c_link (t_conn t)) = 0 ->
  readable (t_ser t) = [] -> pending (t_ser t) = F :: later -> pos_sched (t_ser t) -> (15 <= t_max t)%nat ->
  frame_from_bytes KUa F = Ok f ->
  exists fb s', frame_to_bytes KSnrm (unnumbered_frame t) = Ok fb
    /\ t_connect t = (EFrame KUa f, upd t {| c_link := set_state (c_link (t_conn t)) 1; c_buf := []; c_pos := 1 |} [] s')
    /\ written s' = written (t_ser t) ++ [fb] /\ readable s' = [] /\ pending s' = later.
Proof.
  intros Hout Hbuf Hpos Hst Hrd Hpd Hs Hmax Hacc. unfold t_connect. rewrite Hst. cbn [N.eqb negb].
  apply (unnumbered_exchange t KSnrm 0 3 1 F f later); try assumption. left. repeat split.
Qed.
Theorem disconnect_end_to_end t F f later :
  t_out t = [] -> c_buf (t_conn t) = [] -> c_pos (t_conn t) = 1%nat -> l_state (c_link (t_conn t)) = 1 ->
  readable (t_ser t) = [] -> pending (t_ser t) = F :: later -> pos_sched (t_ser t) -> (15 <= t_max t)%nat ->
  frame_from_bytes KUa F = Ok f ->
  exists fb s', frame_to_bytes KDisc (unnumbered_frame t) = Ok fb
    /\ t_disconnect t = (EFrame KUa f, upd t {| c_link := set_state (c_link (t_conn t)) 0; c_buf := []; c_pos := 1 |} [] s')
    /\ written s' = written (t_ser t) ++ [fb] /\ readable s' = [] /\ pending s' = later.
Proof.
  intros Hout Hbuf Hpos Hst Hrd Hpd Hs Hmax Hacc. unfold t_disconnect.
  apply (unnumbered_exchange t KDisc 1 4 0 F f later); try assumption. right. repeat split.
Qed.

(* the receive-ready frame's number is the received frame's send number plus one (mod 8), whenever
   the link's two views of the meter's numbering agree - which every exchange preserves *)
Lemma rr_number l ssn rsn l1 : client_ssn l <= 7 -> server_rsn l = client_ssn l ->
  link_on_frame l KInfo ssn rsn = (Ok tt, l1) ->
  server_rsn l1 = (ssn + 1) mod 8 /\ server_rsn l1 = client_ssn l1 /\ client_ssn l1 <= 7.
Proof.
  intros Hb Heq H. unfold link_on_frame in H. destruct (process_frame l KInfo) as [l0|] eqn:P; [|discriminate].
  assert (Hl0 : client_ssn l0 = client_ssn l /\ server_rsn l0 = server_rsn l).
  { unfold process_frame in P. destruct (assoc2 _ _ _); [|discriminate]. injection P as <-. split; reflexivity. }
  destruct Hl0 as [A B]. unfold handle_sequence_numbers in H. cbn [negb] in H.
  destruct (N.eqb_spec ssn (client_ssn l0)) as [Es|]; [|cbn in H; discriminate].
  destruct (N.eqb_spec rsn (client_rsn l0)) as [Er|]; [|cbn in H; discriminate]. cbn [negb orb] in H.
  injection H as <-. cbn [server_rsn client_ssn]. rewrite B, A, Heq. rewrite Es, A. unfold wrap8.
  destruct (N.ltb_spec 7 (client_ssn l + 1)).
  - assert (client_ssn l = 7) by lia. rewrite H0. repeat split; try reflexivity; lia.
  - repeat split; try lia. rewrite N.mod_small; lia.
Qed.
