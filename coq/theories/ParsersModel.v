(* Model of dlms_cosem/parsers.py (ProfileGenericBufferParser.parse_entries/parse_bytes,
   AssociationObjectListParser), as of fix commit 0ddd61b.  datetime + timedelta(minutes) is
   modelled with the proleptic Gregorian day count (CPython's ordinal arithmetic).  No proofs here. *)
From Dlms Require Import Base FieldsModel TimeModel AxdrModel.
From Dlms.Gen Require GenEnums.

(* ---------- calendar arithmetic: days since 0000-03-01 (Hinnant's civil algorithms) ---------- *)
Definition days_from_civil (y m d : N) : N :=
  let y' := if m <=? 2 then y - 1 else y in
  let era := y' / 400 in
  let yoe := y' - era * 400 in
  let mp := if 2 <? m then m - 3 else m + 9 in
  let doy := (153 * mp + 2) / 5 + d - 1 in
  let doe := yoe * 365 + yoe / 4 - yoe / 100 + doy in
  era * 146097 + doe.
Definition civil_from_days (z : N) : N * N * N :=
  let era := z / 146097 in
  let doe := z - era * 146097 in
  let yoe := (doe - doe / 1460 + doe / 36524 - doe / 146096) / 365 in
  let y := yoe + era * 400 in
  let doy := doe - (365 * yoe + yoe / 4 - yoe / 100) in
  let mp := (5 * doy + 2) / 153 in
  let d := doy - (153 * mp + 2) / 5 + 1 in
  let m := if mp <? 10 then mp + 3 else mp - 9 in
  (if m <=? 2 then y + 1 else y, m, d).
(* datetime + timedelta(minutes=k); OverflowError outside year 1..9999 *)
Definition add_minutes (x : dtime) (k : Z) : res dtime :=
  let '(y, m, d, h, mi, s, us, off) := x in
  let total := (Z.of_N (days_from_civil y m d) * 1440 + Z.of_N h * 60 + Z.of_N mi + k)%Z in
  if (total <? 0)%Z then Err ERefused else
  let days := Z.to_N (total / 1440) in
  let rem := Z.to_N (total mod 1440) in
  let '(y', m', d') := civil_from_days days in
  if in_range 1 9999 y' then Ok (y', m', d', rem / 60, rem mod 60, s, us, off) else Err ERefused.

(* ---------- ProfileGenericBufferParser.parse_entries ---------- *)
Inductive cellv := CDateTime (x : dtime) | CRaw (v : pv).
(* a parsed cell: the bare None of the source, or ColumnValue(attribute = capture object #col, value) *)
Inductive cell := CellNone | Cell (col : nat) (v : cellv).

(* one row; last = last_entry_timestamp *)
Fixpoint parse_row (clock : list bool) (period : Z) (col : nat) (row : list pv) (last : option dtime)
  : res (list cell * option dtime) :=
  match row, clock with
  | [], _ => Ok ([], last)
  | v :: rest, is_clock :: clock' =>
      do step <-
        (match v with
         | PNone =>
             if is_clock then
               match last with
               | Some ts => do ts' <- add_minutes ts period; Ok (Cell col (CDateTime ts'), Some ts')
               | None => Ok (CellNone, last)
               end
             else Ok (Cell col (CRaw PNone), last)
         | _ =>
             if is_clock then
               match v with
               | PBytes b => do r <- datetime_from_bytes b; Ok (Cell col (CDateTime (fst r)), Some (fst r))
               | _ => Err ERefused
               end
             else Ok (Cell col (CRaw v), last)
         end);
      do more <- parse_row clock' period (S col) rest (snd step);
      Ok (fst step :: fst more, snd more)
  | _ :: _, [] => Err ERefused       (* cannot happen after the width check *)
  end.
Fixpoint parse_rows (clock : list bool) (period : Z) (rows : list pv) (last : option dtime) : res (list (list cell)) :=
  match rows with
  | [] => Ok []
  | PList row :: rest =>
      if negb (Nat.eqb (length row) (length clock)) then Err ERefused else
      do r <- parse_row clock period 0 row last;
      do more <- parse_rows clock period rest (snd r);
      Ok (fst r :: more)
  | _ :: _ => Err ERefused           (* len() of a non-list entry *)
  end.
Definition parse_entries (clock : list bool) (period : Z) (entries : pv) : res (list (list cell)) :=
  match entries with
  | PList rows => parse_rows clock period rows None
  | _ => Err ERefused
  end.
Definition profile_parse_bytes (clock : list bool) (period : Z) (b : bytes) : res (list (list cell)) :=
  do e <- parse_as_dlms_data b; parse_entries clock period e.

(* ---------- AssociationObjectListParser ---------- *)
(* parse_access_right: the rights whose bit is set, in ascending order *)
Definition parse_access_right (mode : N) : list N :=
  filter (fun k => negb (N.land mode (N.shiftl 1 k) =? 0)) GenEnums.enum_AccessRight.

(* (attribute/method id, rights, selectors) *)
Definition access_item := (pv * list N * pv)%type.
Definition as_int (v : pv) : res N := match v with PInt z => if (z <? 0)%Z then Err ERefused else Ok (Z.to_N z) | PBool b => Ok (if b then 1 else 0) | _ => Err ERefused end.
Definition list_items (v : pv) : res (list pv) := match v with PList l => Ok l | PBytes _ => Err ERefused | _ => Err ERefused end.
Definition nth_item (l : list pv) (i : nat) : res pv := match nth_error l i with Some x => Ok x | None => Err ERefused end.

Definition parse_attribute_rights (v : pv) : res (list access_item) :=
  do l <- list_items v;
  mapM (fun right => do r <- list_items right; do a <- nth_item r 0; do m <- nth_item r 1; do sel <- nth_item r 2;
                     do mode <- as_int m;
                     (* default_if_none: a null selector list becomes [] *)
                     Ok (a, parse_access_right mode, match sel with PNone => PList [] | _ => sel end)) l.
Definition parse_method_rights (v : pv) : res (list access_item) :=
  do l <- list_items v;
  mapM (fun right => do r <- list_items right; do a <- nth_item r 0; do m <- nth_item r 1;
                     do mode <- as_int m; Ok (a, parse_access_right mode, PNone)) l.

(* (interface, version, logical name, attribute rights, method rights); dict semantics (a later entry
   for the same id replaces the earlier one) is applied by the harness-side canonicalisation *)
Definition object_item := (N * pv * list N * list access_item * list access_item)%type.
Definition parse_object (obj : pv) : res object_item :=
  do o <- list_items obj;
  do c <- nth_item o 0; do cls <- as_int c;
  if negb (existsb (N.eqb cls) GenEnums.enum_CosemInterface) then Err ERefused else
  do version <- nth_item o 1;
  do ln <- nth_item o 2;
  do name <- (match ln with PBytes b => if Nat.eqb (length b) 6 then Ok b else Err ERefused | _ => Err ERefused end);
  do ar <- nth_item o 3; do arl <- list_items ar;
  do a0 <- nth_item arl 0; do attrs <- parse_attribute_rights a0;
  do a1 <- nth_item arl 1; do meths <- parse_method_rights a1;
  Ok (cls, version, name, attrs, meths).
Definition parse_object_list (v : pv) : res (list object_item) :=
  do l <- list_items v; mapM parse_object l.
