(* C11: the link follows the normal-response-mode client procedure with mod-8 numbering. *)
From Dlms Require Import Base FrameModel HdlcConnModel HdlcLinkSpec.
From Coq Require Import ZifyBool ZifyN.
Ltac Zify.zify_post_hook ::= Z.to_euclidean_division_equations.

Lemma state_cases s : s < 6 -> s = 0 \/ s = 1 \/ s = 2 \/ s = 3 \/ s = 4 \/ s = 5.
Proof. lia. Qed.

(* every accepted step is an edge of the reference automaton with its post-state, and an
   information frame is accepted only with the link's current numbers *)
Theorem accepted_within_nrm l d k ssn rsn l' : l_state l < 6 ->
  link_step l d k ssn rsn = (Ok tt, l') ->
  nrm_may (l_state l) d k = Some (l_state l') /\
  (k = KInfo -> (ssn, rsn) = expected_numbers l d).
Proof.
  intros Hs. destruct l as [s a b c e]. cbn [l_state] in *.
  destruct (state_cases s Hs) as [->|[->|[->|[->|[->| ->]]]]]; destruct d, k;
    unfold link_step, link_send, link_deliver, link_on_frame, parse_kind, process_frame, handle_sequence_numbers;
    cbn -[wrap8]; try discriminate;
    try (intros E; injection E as <-; split; [reflexivity|discriminate]).
  - (* IDLE send I *)
    destruct (N.eqb_spec ssn c); destruct (N.eqb_spec rsn e); cbn [negb orb]; try discriminate.
    intros E; injection E as <-. split; [reflexivity|]. intros _. cbn. congruence.
  - (* AWAITING_RESPONSE recv I *)
    destruct (N.eqb_spec ssn a); destruct (N.eqb_spec rsn b); cbn [negb orb]; try discriminate.
    intros E; injection E as <-. split; [reflexivity|]. intros _. cbn. congruence.
Qed.

(* every edge the procedure requires is accepted (an I frame when it carries the current numbers) *)
Theorem must_edges_accepted l d k ssn rsn s' : l_state l < 6 ->
  nrm_must (l_state l) d k = Some s' ->
  (k = KInfo -> (ssn, rsn) = expected_numbers l d) ->
  exists l', link_step l d k ssn rsn = (Ok tt, l') /\ l_state l' = s'.
Proof.
  intros Hs. destruct l as [s a b c e]. cbn [l_state] in *.
  destruct (state_cases s Hs) as [->|[->|[->|[->|[->| ->]]]]]; destruct d, k; cbn [nrm_must nrm_may];
    try discriminate; intros E Hseq; injection E as <-;
    unfold link_step, link_send, link_deliver, link_on_frame, parse_kind, process_frame, handle_sequence_numbers;
    cbn -[wrap8]; try (eexists; split; reflexivity).
  - specialize (Hseq eq_refl). cbn in Hseq. injection Hseq as -> ->. rewrite !N.eqb_refl. cbn [negb orb].
    eexists; split; reflexivity.
  - specialize (Hseq eq_refl). cbn in Hseq. injection Hseq as -> ->. rewrite !N.eqb_refl. cbn [negb orb].
    eexists; split; reflexivity.
Qed.

(* reachable link states stay inside the six declared states *)
Lemma step_state_bound l d k ssn rsn : l_state l < 6 -> l_state (snd (link_step l d k ssn rsn)) < 6.
Proof.
  intros Hs. destruct l as [s a b c e]. cbn [l_state] in *.
  destruct (state_cases s Hs) as [->|[->|[->|[->|[->| ->]]]]]; destruct d, k;
    unfold link_step, link_send, link_deliver, link_on_frame, parse_kind, process_frame, handle_sequence_numbers;
    cbn -[wrap8]; try lia;
    repeat match goal with |- context [if ?c then _ else _] => destruct c end; cbn; lia.
Qed.

(* ---------- histories: the counters count the information frames, modulo 8 ---------- *)
Definition op := (dir * fkind * N * N)%type.
Definition accepted_info (r : res unit) (k : fkind) : bool :=
  match r, k with Ok _, KInfo => true | _, _ => false end.
(* ghost counts of accepted information frames, per direction *)
Fixpoint run (l : link) (n_sent n_recv : N) (ops : list op) : link * N * N :=
  match ops with
  | [] => (l, n_sent, n_recv)
  | (d, k, ssn, rsn) :: rest =>
      let '(r, l') := link_step l d k ssn rsn in
      let inc := accepted_info r k in
      match d with
      | DSend => run l' (if inc then n_sent + 1 else n_sent) n_recv rest
      | DRecv => run l' n_sent (if inc then n_recv + 1 else n_recv) rest
      end
  end.
Definition counters_inv (l : link) (n_sent n_recv : N) : Prop :=
  server_ssn l = n_sent mod 8 /\ client_rsn l = n_sent mod 8 /\
  server_rsn l = n_recv mod 8 /\ client_ssn l = n_recv mod 8 /\ l_state l < 6.

Lemma wrap8_succ n : wrap8 (n mod 8 + 1) = (n + 1) mod 8.
Proof. unfold wrap8. destruct (N.ltb_spec 7 (n mod 8 + 1)); lia. Qed.
Lemma wrap8_id n : wrap8 (n mod 8) = n mod 8.
Proof. unfold wrap8. destruct (N.ltb_spec 7 (n mod 8)); lia. Qed.

Lemma step_preserves l d k ssn rsn ns nr : counters_inv l ns nr ->
  let '(r, l') := link_step l d k ssn rsn in
  let inc := accepted_info r k in
  match d with
  | DSend => counters_inv l' (if inc then ns + 1 else ns) nr
  | DRecv => counters_inv l' ns (if inc then nr + 1 else nr)
  end.
Proof.
  intros (I1 & I2 & I3 & I4 & Hs).
  pose proof (step_state_bound l d k ssn rsn Hs) as Hb.
  destruct l as [s a b c e]. cbn [l_state server_ssn server_rsn client_ssn client_rsn] in *. subst a b c e.
  destruct (state_cases s Hs) as [->|[->|[->|[->|[->| ->]]]]]; destruct d, k;
    unfold link_step, link_send, link_deliver, link_on_frame, parse_kind, process_frame, handle_sequence_numbers in *;
    cbn -[wrap8 N.modulo] in *;
    try (destruct (N.eqb_spec ssn (ns mod 8)); destruct (N.eqb_spec rsn (nr mod 8)));
    try (destruct (N.eqb_spec ssn (nr mod 8)); destruct (N.eqb_spec rsn (ns mod 8)));
    cbn -[wrap8 N.modulo] in *; unfold counters_inv; cbn -[wrap8 N.modulo];
    rewrite ?wrap8_succ, ?wrap8_id; repeat split; try reflexivity; try lia.
Qed.

Theorem counters_count_frames ops : forall l ns nr, counters_inv l ns nr ->
  let '(l', ns', nr') := run l ns nr ops in counters_inv l' ns' nr'.
Proof.
  induction ops as [|[[[d k] ssn] rsn] rest IH]; intros l ns nr Hinv; [exact Hinv|].
  cbn [run]. pose proof (step_preserves l d k ssn rsn ns nr Hinv) as Hp.
  destruct (link_step l d k ssn rsn) as [r l']. cbv zeta in Hp.
  destruct d; apply IH; exact Hp.
Qed.

Corollary counters_from_start ops :
  let '(l, ns, nr) := run link_init 0 0 ops in
  server_ssn l = ns mod 8 /\ client_rsn l = ns mod 8 /\ server_rsn l = nr mod 8 /\ client_ssn l = nr mod 8.
Proof.
  pose proof (counters_count_frames ops link_init 0 0) as H.
  destruct (run link_init 0 0 ops) as [[l ns] nr].
  assert (I : counters_inv link_init 0 0) by (unfold counters_inv; cbn; repeat split; lia).
  destruct (H I) as (A & B & C & D & _). repeat split; assumption.
Qed.
