(* C17: what the wrapper decoders accept is the standard layout (decode soundness) *)
From Dlms Require Import Base WrapperModel WrapperSpec WrapperProofs.
From Coq Require Import Lia ZifyN ZifyNat ZifyBool.
Ltac Zify.zify_post_hook ::= Z.to_euclidean_division_equations.

Lemma be2_of_pair a b : a < 256 -> b < 256 -> be_val [a; b] = a * 256 + b /\ be_bytes 2 (a * 256 + b) = [a; b].
Proof.
  intros Ha Hb. split; [reflexivity|]. rewrite be_bytes2.
  f_equal; [|f_equal]; lia.
Qed.

(* every 8 bytes are the standard header of the four fields they decode to, and those fields fit 16 bits *)
Theorem whdr_from_bytes_sound b src dst ln ver :
  bytes_ok b -> whdr_from_bytes b = Ok (src, dst, ln, ver) ->
  b = std_header ver src dst ln /\ src < 65536 /\ dst < 65536 /\ ln < 65536 /\ ver < 65536.
Proof.
  intros Hb H. unfold bytes_ok, byte_ok in Hb. unfold whdr_from_bytes in H.
  destruct b as [|a0 [|a1 [|a2 [|a3 [|a4 [|a5 [|a6 [|a7 [|a8 r]]]]]]]]]; try discriminate.
  cbn [length Nat.eqb negb slice skipn firstn Nat.sub] in H.
  repeat match goal with Hf : Forall _ (_ :: _) |- _ => inversion Hf; clear Hf; subst end.
  injection H as <- <- <- <-.
  unfold std_header.
  destruct (be2_of_pair a0 a1) as [E1 F1]; [assumption..|].
  destruct (be2_of_pair a2 a3) as [E2 F2]; [assumption..|].
  destruct (be2_of_pair a4 a5) as [E3 F3]; [assumption..|].
  destruct (be2_of_pair a6 a7) as [E4 F4]; [assumption..|].
  rewrite E1, E2, E3, E4, F1, F2, F3, F4. cbn [app].
  repeat split; try reflexivity; lia.
Qed.

(* a datagram the decoder accepts is the standard header of the fields returned followed by exactly the payload
   returned, and the length field equals the payload length *)
Theorem wpdu_from_bytes_sound b payload src dst ln ver :
  bytes_ok b -> wpdu_from_bytes b = Ok (payload, (src, dst, ln, ver)) ->
  b = std_header ver src dst ln ++ payload /\ ln = len payload /\ src < 65536 /\ dst < 65536 /\ ln < 65536 /\ ver < 65536.
Proof.
  intros Hb H. unfold wpdu_from_bytes in H.
  destruct (whdr_from_bytes (slice 0 8 b)) as [[[[s d] l] v]|e] eqn:E; [|discriminate].
  cbn [bind] in H.
  destruct (l =? len (skipn 8 b)) eqn:El; cbn [negb] in H; [|discriminate].
  injection H as <- <- <- <- <-.
  apply N.eqb_eq in El.
  assert (Hs : bytes_ok (slice 0 8 b)).
  { rewrite slice0. unfold bytes_ok in *. rewrite <- (firstn_skipn 8 b) in Hb. apply Forall_app in Hb. exact (proj1 Hb). }
  destruct (whdr_from_bytes_sound _ _ _ _ _ Hs E) as (Eb & H1 & H2 & H3 & H4).
  repeat split; try assumption.
  rewrite <- Eb, slice0. symmetry. apply firstn_skipn.
Qed.

(* ---- the receive loop only ever returns what the stream holds (soundness, any stream, any schedule) ---- *)
Lemma firstn_firstn_skipn {A} a b (l : list A) : firstn a l ++ firstn b (skipn a l) = firstn (a + b) l.
Proof.
  revert l. induction a as [|a IH]; intros l; [reflexivity|].
  destruct l as [|x l]; [cbn; rewrite firstn_nil; reflexivity|].
  cbn [Nat.add firstn skipn app]. rewrite IH. reflexivity.
Qed.

Lemma skipn_skipn_add {A} a b (l : list A) : skipn b (skipn a l) = skipn (a + b) l.
Proof.
  revert l. induction a as [|a IH]; intros l; [reflexivity|].
  destruct l as [|x l]; [cbn; rewrite skipn_nil; reflexivity|].
  cbn [Nat.add skipn]. apply IH.
Qed.

Lemma recv_exactly_sound fuel : forall n acc stream sched r stream' sched',
  (length acc <= n)%nat ->
  recv_exactly fuel n acc (stream, sched) = (Ok r, (stream', sched')) ->
  exists k, r = acc ++ firstn k stream /\ stream' = skipn k stream /\ length r = n.
Proof.
  induction fuel as [|f IH]; intros n acc stream sched r stream' sched' Hacc H; cbn [recv_exactly] in H.
  - destruct (Nat.leb_spec n (length acc)) as [Hle|Hgt]; [|discriminate].
    injection H as <- <- <-. exists 0%nat. cbn. rewrite app_nil_r. repeat split; lia.
  - destruct (Nat.leb_spec n (length acc)) as [Hle|Hgt].
    + injection H as <- <- <-. exists 0%nat. cbn. rewrite app_nil_r. repeat split; lia.
    + unfold sock_recv in H.
      set (k0 := match sched with [] => (n - length acc)%nat | c :: _ => Nat.min (n - length acc) c end) in H.
      assert (Hk0 : (k0 <= n - length acc)%nat) by (subst k0; destruct sched; lia).
      destruct (firstn k0 stream) as [|c cs] eqn:Ec; [discriminate|].
      rewrite <- Ec in H.
      apply IH in H.
      * destruct H as (k1 & -> & -> & Hlen). exists (k0 + k1)%nat.
        rewrite <- app_assoc, firstn_firstn_skipn in Hlen |- *. rewrite skipn_skipn_add. repeat split. exact Hlen.
      * rewrite app_length. pose proof (firstn_le_length k0 stream). lia.
Qed.

(* BlockingTcpTransport.recv: whatever it returns is a whole APDU exactly as the stream announces it - the stream begins
   with a standard header whose length field is the length of the payload returned, followed by exactly that payload,
   followed by exactly what is left unread.  No hypothesis on the stream (other than being bytes) or on the schedule. *)
Theorem tcp_recv_sound stream sched p rest sched' :
  bytes_ok stream -> tcp_recv (stream, sched) = (Ok p, (rest, sched')) ->
  exists ver src dst, stream = std_header ver src dst (len p) ++ p ++ rest /\
                      len p < 65536 /\ src < 65536 /\ dst < 65536 /\ ver < 65536.
Proof.
  intros Hb H. unfold tcp_recv in H.
  destruct (recv_exactly 9 8 [] (stream, sched)) as [[hb|e] [s1 sch1]] eqn:E1; [|discriminate].
  apply recv_exactly_sound in E1; [|cbn; lia].
  destruct E1 as (k & Ehb & Es1 & Hlen). cbn [app] in Ehb.
  destruct (whdr_from_bytes hb) as [[[[src dst] ln] ver]|e] eqn:Eh; [|discriminate].
  assert (Hhb : bytes_ok hb).
  { subst hb. unfold bytes_ok in *. rewrite <- (firstn_skipn k stream) in Hb. apply Forall_app in Hb. exact (proj1 Hb). }
  destruct (whdr_from_bytes_sound _ _ _ _ _ Hhb Eh) as (Ehdr & Hs & Hd & Hl & Hv).
  apply recv_exactly_sound in H; [|cbn; lia].
  destruct H as (k2 & Ep & Erest & Hlp). cbn [app] in Ep.
  assert (Eln : ln = len p). { unfold len. rewrite Hlp. symmetry. apply N2Nat.id. }
  exists ver, src, dst. repeat split; try assumption; [|rewrite <- Eln; exact Hl].
  rewrite <- Eln, <- Ehdr, Ehb, Ep, Erest, Es1.
  rewrite firstn_skipn. symmetry. apply firstn_skipn.
Qed.

