(* Reference layout of the DLMS date-time (Blue Book 4.1.6.1) and the domain of valid values.  No proofs here. *)
From Dlms Require Import Base FieldsModel TimeModel.

(* ---------- reference layout (Blue Book 4.1.6.1) ---------- *)
Definition std_deviation (off : option Z) : bytes :=
  match off with
  | None => [128; 0]                                   (* 0x8000 = not specified *)
  | Some o => be_bytes 2 (Z.to_N ((- o) mod 65536))    (* minus the UTC offset, two's complement *)
  end.
Definition std_datetime (x : dtime) (st : cstat) : bytes :=
  let '(y, m, d, h, mi, s, us, off) := x in
  [y / 256; y mod 256; m; d; 255; h; mi; s; us / 10000] ++ std_deviation off ++ [cstat_to_byte st].

Definition off_ok (off : option Z) : bool :=
  match off with None => true | Some o => ((-1440 <? o) && (o <? 1440))%Z end.
Definition dt_valid (x : dtime) : bool :=
  let '(y, m, d, h, mi, s, us, off) := x in date_valid y m d && time_valid h mi s us && off_ok off.
Definition trunc10ms (x : dtime) : dtime :=
  let '(y, m, d, h, mi, s, us, off) := x in (y, m, d, h, mi, s, us / 10000 * 10000, off).

