(* C20: every bit-packed field maps values to the standard bit positions and back.
   Finite domains are enumerated completely inside the kernel (sweeps), the 24/32-bit ones
   are handled structurally. *)
From Dlms Require Import Base Sweep FieldsModel FieldsSpec.

Ltac boolx := repeat match goal with
  | H : _ && _ = true |- _ => apply andb_prop in H; destruct H
  | H : (_ =? _) = true |- _ => apply N.eqb_eq in H
  | H : Bool.eqb _ _ = true |- _ => apply Bool.eqb_prop in H
  | H : list_eqb _ _ = true |- _ => apply list_eqb_eq in H
  | H : (_ <=? _) = true |- _ => apply N.leb_le in H
  | H : (_ <? _) = true |- _ => apply N.ltb_lt in H
  | H : negb _ = true |- _ => apply negb_true_iff in H
  | H : (_ <=? _) = false |- _ => apply N.leb_gt in H
  end.

Fixpoint bools_eqb (a b : list bool) : bool :=
  match a, b with
  | [], [] => true
  | x :: a', y :: b' => Bool.eqb x y && bools_eqb a' b'
  | _, _ => false
  end.
Lemma bools_eqb_eq a b : bools_eqb a b = true -> a = b.
Proof.
  revert b; induction a as [|x a IH]; intros [|y b] H; simpl in H; try discriminate; [reflexivity|].
  apply andb_prop in H as [H1 H2]. apply Bool.eqb_prop in H1. f_equal; auto.
Qed.

(* ---------- a single bit through a mask ---------- *)
Lemma land_pow2 v p : N.land v (2 ^ p) = if N.testbit v p then 2 ^ p else 0.
Proof.
  apply N.bits_inj. intros n. rewrite N.land_spec, N.pow2_bits_eqb.
  destruct (N.eqb_spec p n) as [->|Hne].
  - destruct (N.testbit v n) eqn:E; [rewrite N.pow2_bits_true; reflexivity | rewrite N.bits_0; reflexivity].
  - rewrite andb_false_r. destruct (N.testbit v p).
    + rewrite N.pow2_bits_false by exact Hne. reflexivity.
    + rewrite N.bits_0. reflexivity.
Qed.
Lemma nz_land_bit v p : nz (N.land v (N.shiftl 1 p)) = N.testbit v p.
Proof.
  rewrite N.shiftl_1_l, land_pow2. unfold nz. destruct (N.testbit v p); [|reflexivity].
  destruct (N.eqb_spec (2 ^ p) 0) as [E|_]; [|reflexivity].
  exfalso. revert E. apply N.pow_nonzero. discriminate.
Qed.

(* ================= Conformance ================= *)
Definition chk_conf (flags : list bool) : bool :=
  match conf_to_bytes flags with
  | Ok b => list_eqb b (std_conformance flags) && bools_eqb (conf_from_bytes b) flags
  | Err _ => false
  end.
Definition chk_conf_n (n : N) : bool := chk_conf (bools_of 17 n).
Lemma chk_conf_n_eq n : chk_conf_n n = chk_conf (bools_of 17 n). Proof. reflexivity. Qed.
Lemma chk_conf_ok : forall_bits 17 chk_conf_n 0 = true. Proof. vm_compute. reflexivity. Qed.

(* all 2^17 flag sets: each service on its Green-Book bit, and decoding returns the flags *)
Theorem conformance_encode_roundtrip flags : length flags = 17%nat ->
  conf_to_bytes flags = Ok (std_conformance flags) /\
  conf_from_bytes (std_conformance flags) = flags.
Proof.
  intros Hl. pose proof (sweep_bools 17 chk_conf chk_conf_n chk_conf_n_eq chk_conf_ok flags Hl) as H.
  unfold chk_conf in H. destruct (conf_to_bytes flags) as [b|e]; [|discriminate].
  apply andb_prop in H as [H1 H2]. apply list_eqb_eq in H1. apply bools_eqb_eq in H2.
  subst b. split; [reflexivity | exact H2].
Qed.

Lemma std_conformance_injective f g : length f = 17%nat -> length g = 17%nat ->
  std_conformance f = std_conformance g -> f = g.
Proof.
  intros Hf Hg E. destruct (conformance_encode_roundtrip f Hf) as [_ <-].
  destruct (conformance_encode_roundtrip g Hg) as [_ <-]. rewrite E. reflexivity.
Qed.

(* all 2^24 words (and any unused-bits byte): every flag is read from its Green-Book bit *)
Theorem conformance_decode_reads_greenbook_bits u a b c :
  conf_from_bytes [u; a; b; c] = std_conformance_decode (be_val [a; b; c]).
Proof.
  unfold conf_from_bytes, std_conformance_decode. cbn [tl].
  generalize (be_val [a; b; c]) as v. intros v.
  cbv -[N.land N.shiftl N.testbit nz].
  repeat rewrite nz_land_bit. reflexivity.
Qed.

(* ================= SecurityControlField ================= *)
Definition chk_sc (v : N) : bool :=
  match sc_from_byte v with
  | Ok (s, a, e, k, c) =>
      (v mod 16 <=? 2) && (s =? v mod 16) && Bool.eqb a (N.testbit v 4) && Bool.eqb e (N.testbit v 5)
      && Bool.eqb k (N.testbit v 6) && Bool.eqb c (N.testbit v 7) && (sc_to_byte (s, a, e, k, c) =? v)
  | Err _ => negb (v mod 16 <=? 2)
  end.
Lemma chk_sc_ok : forall_bits 8 chk_sc 0 = true. Proof. vm_compute. reflexivity. Qed.

Theorem sc_decode_all_256 v : v < 256 ->
  match sc_from_byte v with
  | Ok (s, a, e, k, c) =>
      v mod 16 <= 2 /\ s = v mod 16 /\ a = N.testbit v 4 /\ e = N.testbit v 5 /\ k = N.testbit v 6
      /\ c = N.testbit v 7 /\ sc_to_byte (s, a, e, k, c) = v
  | Err _ => 2 < v mod 16
  end.
Proof.
  intros Hv. pose proof (sweep8 _ chk_sc_ok v Hv) as H. unfold chk_sc in H.
  destruct (sc_from_byte v) as [[[[[s a] e] k] c]|]; boolx; repeat split; assumption.
Qed.

Theorem sc_encode_roundtrip s a e k c : s <= 2 ->
  sc_make s a e k c = Ok (s, a, e, k, c) /\
  sc_to_bytes (s, a, e, k, c) =
    Ok [s + (if a then 16 else 0) + (if e then 32 else 0) + (if k then 64 else 0) + (if c then 128 else 0)] /\
  (forall b, sc_to_bytes (s, a, e, k, c) = Ok b -> sc_from_bytes b = Ok (s, a, e, k, c)).
Proof.
  intros Hs. assert (s = 0 \/ s = 1 \/ s = 2) as [->|[->| ->]] by lia;
    destruct a, e, k, c; (split; [reflexivity|split; [reflexivity|]]);
    intros b Hb; vm_compute in Hb; injection Hb as <-; reflexivity.
Qed.

Theorem sc_refuses_suite_gt2 s a e k c : 2 < s -> sc_make s a e k c = Err ERefused.
Proof.
  intros Hs. unfold sc_make, validate_suite.
  destruct (N.eqb_spec s 0); [lia|]. destruct (N.eqb_spec s 1); [lia|]. destruct (N.eqb_spec s 2); [lia|].
  reflexivity.
Qed.

(* ================= InvokeIdAndPriority ================= *)
Definition chk_iid (v : N) : bool :=
  match iid_from_bytes [v] with
  | Ok (i, c, h) => (i =? v mod 16) && Bool.eqb c (N.testbit v 6) && Bool.eqb h (N.testbit v 7)
  | Err _ => false
  end.
Lemma chk_iid_ok : forall_bits 8 chk_iid 0 = true. Proof. vm_compute. reflexivity. Qed.
Theorem iid_decode_all_256 v : v < 256 ->
  iid_from_bytes [v] = Ok (v mod 16, N.testbit v 6, N.testbit v 7).
Proof.
  intros Hv. pose proof (sweep8 _ chk_iid_ok v Hv) as H. unfold chk_iid in H.
  destruct (iid_from_bytes [v]) as [[[i c] h]|]; [|discriminate]. boolx. subst. reflexivity.
Qed.

Definition iid_byte (i : N) (c h : bool) : N := i + (if c then 64 else 0) + (if h then 128 else 0).
Definition chk_iid_enc (i : N) : bool :=
  forall_bool (fun c => forall_bool (fun h =>
    match iid_to_bytes (i, c, h) with
    | Ok b => list_eqb b [iid_byte i c h] &&
              match iid_from_bytes b with Ok (i', c', h') => (i' =? i) && Bool.eqb c' c && Bool.eqb h' h | Err _ => false end
    | Err _ => false end)).
Lemma chk_iid_enc_ok : forall_below 16 chk_iid_enc = true. Proof. vm_compute. reflexivity. Qed.
Theorem iid_encode_roundtrip i c h : i < 16 ->
  iid_to_bytes (i, c, h) = Ok [iid_byte i c h] /\ iid_from_bytes [iid_byte i c h] = Ok (i, c, h).
Proof.
  intros Hi. pose proof (forall_below_spec 16 _ chk_iid_enc_ok i Hi) as H. unfold chk_iid_enc in H.
  pose proof (forall_bool_spec _ (forall_bool_spec _ H c) h) as H'. cbv beta in H'.
  destruct (iid_to_bytes (i, c, h)) as [b|]; [|discriminate].
  apply andb_prop in H' as [H1 H2]. apply list_eqb_eq in H1. subst b.
  destruct (iid_from_bytes [iid_byte i c h]) as [[[i' c'] h']|]; [|discriminate].
  boolx. subst. split; reflexivity.
Qed.

(* ================= LongInvokeIdAndPriority ================= *)
Definition liid_status (p c s b : bool) : N :=
  (if p then 128 else 0) + (if c then 64 else 0) + (if b then 32 else 0) + (if s then 16 else 0).
Theorem liid_encode_roundtrip i p c s b : i < 2 ^ 24 ->
  liid_to_bytes (i, p, c, s, b) = Ok (liid_status p c s b :: be_bytes 3 i) /\
  liid_from_bytes (liid_status p c s b :: be_bytes 3 i) = Ok (i, p, c, s, b).
Proof.
  intros Hi. unfold liid_to_bytes, liid_from_bytes.
  assert (Ht : to_bytes_be 3 i = Ok (be_bytes 3 i)).
  { unfold to_bytes_be. replace (i <? 256 ^ N.of_nat 3) with true; [reflexivity|].
    symmetry. apply N.ltb_lt. exact Hi. }
  rewrite Ht. cbn [length]. rewrite be_bytes_length. cbn [Nat.eqb negb tl nth].
  rewrite be_val_be_bytes by exact Hi.
  destruct p, c, s, b; (split; reflexivity).
Qed.

Definition chk_liid_status (s : N) : bool :=
  Bool.eqb (nz (N.land s 128)) (N.testbit s 7) && Bool.eqb (nz (N.land s 64)) (N.testbit s 6)
  && Bool.eqb (nz (N.land s 16)) (N.testbit s 4) && Bool.eqb (nz (N.land s 32)) (N.testbit s 5).
Lemma chk_liid_status_ok : forall_bits 8 chk_liid_status 0 = true. Proof. vm_compute. reflexivity. Qed.
(* all 2^32 words: id from the low 24 bits, the four flags from bits 31, 30, 28, 29 *)
Theorem liid_decode_all s x y z : s < 256 ->
  liid_from_bytes [s; x; y; z] =
    Ok (be_val [x; y; z], N.testbit s 7, N.testbit s 6, N.testbit s 4, N.testbit s 5).
Proof.
  intros Hs. pose proof (sweep8 _ chk_liid_status_ok s Hs) as H. unfold chk_liid_status in H.
  boolx. unfold liid_from_bytes. cbn [length Nat.eqb negb nth tl]. congruence.
Qed.

(* ================= ClockStatus ================= *)
Definition chk_cstat (v : N) : bool :=
  let '(a, b, c, d, e) := cstat_from_byte v in
  Bool.eqb a (N.testbit v 0) && Bool.eqb b (N.testbit v 1) && Bool.eqb c (N.testbit v 2)
  && Bool.eqb d (N.testbit v 3) && Bool.eqb e (N.testbit v 7)
  && (cstat_to_byte (a, b, c, d, e) =? N.land v 143).
Lemma chk_cstat_ok : forall_bits 8 chk_cstat 0 = true. Proof. vm_compute. reflexivity. Qed.
Theorem cstat_decode_all_256 v : v < 256 ->
  cstat_from_byte v = (N.testbit v 0, N.testbit v 1, N.testbit v 2, N.testbit v 3, N.testbit v 7)
  /\ cstat_to_byte (cstat_from_byte v) = N.land v 143.
Proof.
  intros Hv. pose proof (sweep8 _ chk_cstat_ok v Hv) as H. unfold chk_cstat in H.
  destruct (cstat_from_byte v) as [[[[a b] c] d] e]. boolx. subst. split; [reflexivity|assumption].
Qed.
Theorem cstat_encode_roundtrip a b c d e :
  cstat_to_byte (a, b, c, d, e) =
    (if a then 1 else 0) + (if b then 2 else 0) + (if c then 4 else 0) + (if d then 8 else 0) + (if e then 128 else 0)
  /\ cstat_to_bytes (a, b, c, d, e) = Ok [cstat_to_byte (a, b, c, d, e)]
  /\ cstat_from_bytes [cstat_to_byte (a, b, c, d, e)] = Ok (a, b, c, d, e).
Proof. destruct a, b, c, d, e; repeat split; reflexivity. Qed.

(* ================= HDLC control fields ================= *)
Definition chk_ictrl_dec (v : N) : bool :=
  match ictrl_from_bytes [v] with
  | Ok (ssn, rsn, f) => negb (N.testbit v 0) && (ssn =? (v / 2) mod 8) && (rsn =? v / 32)
                        && Bool.eqb f (N.testbit v 4) && (ictrl_to_byte (ssn, rsn, f) =? v)
  | Err _ => N.testbit v 0
  end.
Lemma chk_ictrl_dec_ok : forall_bits 8 chk_ictrl_dec 0 = true. Proof. vm_compute. reflexivity. Qed.
Theorem ictrl_decode_all_256 v : v < 256 ->
  match ictrl_from_bytes [v] with
  | Ok (ssn, rsn, f) => N.testbit v 0 = false /\ ssn = (v / 2) mod 8 /\ rsn = v / 32
                        /\ f = N.testbit v 4 /\ ictrl_to_byte (ssn, rsn, f) = v
  | Err _ => N.testbit v 0 = true
  end.
Proof.
  intros Hv. pose proof (sweep8 _ chk_ictrl_dec_ok v Hv) as H. unfold chk_ictrl_dec in H.
  destruct (ictrl_from_bytes [v]) as [[[ssn rsn] f]|]; boolx; repeat split; assumption.
Qed.

Definition chk_ictrl_enc (ssn : N) : bool :=
  forall_below 8 (fun rsn => forall_bool (fun f =>
    match ictrl_make (Z.of_N ssn) (Z.of_N rsn) f with
    | Ok x => (ictrl_to_byte x =? std_ctrl_I ssn rsn f) &&
              match ictrl_from_bytes [std_ctrl_I ssn rsn f] with
              | Ok (s', r', f') => (s' =? ssn) && (r' =? rsn) && Bool.eqb f' f | Err _ => false end
    | Err _ => false end)).
Lemma chk_ictrl_enc_ok : forall_below 8 chk_ictrl_enc = true. Proof. vm_compute. reflexivity. Qed.
Theorem ictrl_encode_roundtrip ssn rsn f : ssn < 8 -> rsn < 8 ->
  exists x, ictrl_make (Z.of_N ssn) (Z.of_N rsn) f = Ok x /\ ictrl_to_byte x = std_ctrl_I ssn rsn f
  /\ ictrl_from_bytes [std_ctrl_I ssn rsn f] = Ok (ssn, rsn, f).
Proof.
  intros Hs Hr. pose proof (forall_below_spec 8 _ chk_ictrl_enc_ok ssn Hs) as H. unfold chk_ictrl_enc in H.
  pose proof (forall_bool_spec _ (forall_below_spec 8 _ H rsn Hr) f) as H'. cbv beta in H'.
  destruct (ictrl_make (Z.of_N ssn) (Z.of_N rsn) f) as [x|]; [|discriminate]. exists x.
  apply andb_prop in H' as [H1 H2]. apply N.eqb_eq in H1.
  destruct (ictrl_from_bytes [std_ctrl_I ssn rsn f]) as [[[s' r'] f']|]; [|discriminate].
  boolx. subst. repeat split; auto.
Qed.
Theorem seq_number_gt7_refused ssn rsn f : (7 < ssn \/ 7 < rsn \/ ssn < 0 \/ rsn < 0)%Z ->
  ictrl_make ssn rsn f = Err ERefused /\ (7 < rsn \/ rsn < 0 -> rr_make rsn = Err ERefused)%Z.
Proof.
  intros H. unfold ictrl_make, rr_make, validate_seq. split.
  - destruct ((0 <=? ssn)%Z && (ssn <=? 7)%Z && ((0 <=? rsn)%Z && (rsn <=? 7)%Z)) eqn:E; [|reflexivity].
    apply andb_prop in E as [E1 E2]. apply andb_prop in E1 as [A B]. apply andb_prop in E2 as [C D].
    apply Z.leb_le in A, B, C, D. lia.
  - intros H'. destruct ((0 <=? rsn)%Z && (rsn <=? 7)%Z) eqn:E; [|reflexivity].
    apply andb_prop in E as [C D]. apply Z.leb_le in C, D. lia.
Qed.

Definition chk_rr_dec (v : N) : bool :=
  match rr_from_bytes [v] with
  | Ok rsn => N.testbit v 0 && (rsn =? v / 32)
  | Err _ => negb (N.testbit v 0)
  end.
Lemma chk_rr_dec_ok : forall_bits 8 chk_rr_dec 0 = true. Proof. vm_compute. reflexivity. Qed.
Theorem rr_decode_all_256 v : v < 256 ->
  match rr_from_bytes [v] with
  | Ok rsn => N.testbit v 0 = true /\ rsn = v / 32
  | Err _ => N.testbit v 0 = false
  end.
Proof.
  intros Hv. pose proof (sweep8 _ chk_rr_dec_ok v Hv) as H. unfold chk_rr_dec in H.
  destruct (rr_from_bytes [v]); boolx; repeat split; assumption.
Qed.
Definition chk_rr_enc (rsn : N) : bool :=
  match rr_make (Z.of_N rsn) with
  | Ok x => (x =? rsn) && (rr_to_byte x =? std_ctrl_RR rsn true) &&
            match rr_from_bytes [rr_to_byte x] with Ok r' => r' =? rsn | Err _ => false end
  | Err _ => false end.
Lemma chk_rr_enc_ok : forall_below 8 chk_rr_enc = true. Proof. vm_compute. reflexivity. Qed.
Theorem rr_encode_roundtrip rsn : rsn < 8 ->
  rr_make (Z.of_N rsn) = Ok rsn /\ rr_to_byte rsn = std_ctrl_RR rsn true
  /\ rr_from_bytes [std_ctrl_RR rsn true] = Ok rsn.
Proof.
  intros Hr. pose proof (forall_below_spec 8 _ chk_rr_enc_ok rsn Hr) as H. unfold chk_rr_enc in H.
  destruct (rr_make (Z.of_N rsn)) as [x|]; [|discriminate]. boolx. subst x.
  match goal with E : rr_to_byte rsn = _ |- _ => rewrite <- E end.
  destruct (rr_from_bytes [rr_to_byte rsn]); [|discriminate]. boolx. subst. repeat split.
Qed.

Theorem unnumbered_ctrl_bytes :
  snrm_ctrl = std_ctrl_SNRM true /\ ua_ctrl = std_ctrl_UA true /\ disc_ctrl = std_ctrl_DISC true
  /\ (forall f, uictrl_to_byte f = std_ctrl_UI f)
  /\ (forall f, uictrl_from_bytes [std_ctrl_UI f] = Ok f).
Proof. repeat split; intros []; reflexivity. Qed.

(* the six kinds never share a control byte *)
Definition chk_disjoint (ssn : N) : bool :=
  forall_below 8 (fun rsn => forall_below 8 (fun rsn' => forall_bool (fun f => forall_bool (fun g =>
    let i := std_ctrl_I ssn rsn f in let r := std_ctrl_RR rsn' g in
    let others := [std_ctrl_SNRM g; std_ctrl_UA g; std_ctrl_DISC g; std_ctrl_UI g] in
    negb (i =? r) && forallb (fun o => negb (i =? o) && negb (r =? o)) others
    && negb (std_ctrl_SNRM g =? std_ctrl_UA f) && negb (std_ctrl_SNRM g =? std_ctrl_DISC f)
    && negb (std_ctrl_SNRM g =? std_ctrl_UI f) && negb (std_ctrl_UA g =? std_ctrl_DISC f)
    && negb (std_ctrl_UA g =? std_ctrl_UI f) && negb (std_ctrl_DISC g =? std_ctrl_UI f))))).
Lemma chk_disjoint_ok : forall_below 8 chk_disjoint = true. Proof. vm_compute. reflexivity. Qed.
Theorem ctrl_kinds_disjoint ssn rsn rsn' f g : ssn < 8 -> rsn < 8 -> rsn' < 8 ->
  std_ctrl_I ssn rsn f <> std_ctrl_RR rsn' g /\
  (forall o, In o [std_ctrl_SNRM g; std_ctrl_UA g; std_ctrl_DISC g; std_ctrl_UI g] ->
     std_ctrl_I ssn rsn f <> o /\ std_ctrl_RR rsn' g <> o).
Proof.
  intros Hs Hr Hr'. pose proof (forall_below_spec 8 _ chk_disjoint_ok ssn Hs) as H. unfold chk_disjoint in H.
  pose proof (forall_bool_spec _ (forall_bool_spec _ (forall_below_spec 8 _ (forall_below_spec 8 _ H rsn Hr) rsn' Hr') f) g) as H'.
  cbv beta zeta in H'. do 6 (apply andb_prop in H' as [H' _]).
  apply andb_prop in H' as [H1 H2]. split.
  - apply negb_true_iff, N.eqb_neq in H1. exact H1.
  - intros o Ho. rewrite forallb_forall in H2. specialize (H2 o Ho).
    apply andb_prop in H2 as [A B]. apply negb_true_iff, N.eqb_neq in A, B. split; assumption.
Qed.

(* ================= frame format field ================= *)
Definition chk_fmt_dec (w : N) : bool :=
  match fmt_from_bytes [w / 256; w mod 256] with
  | Ok (l, s) => (w / 4096 =? 10) && (l =? w mod 2048) && Bool.eqb s (N.testbit w 11)
  | Err _ => negb (w / 4096 =? 10)
  end.
Lemma chk_fmt_dec_ok : forall_bits 16 chk_fmt_dec 0 = true. Proof. vm_compute. reflexivity. Qed.
Theorem format_decode_all_65536 w : w < 65536 ->
  match fmt_from_bytes [w / 256; w mod 256] with
  | Ok (l, s) => w / 4096 = 10 /\ l = w mod 2048 /\ s = N.testbit w 11
  | Err _ => w / 4096 <> 10
  end.
Proof.
  intros Hw. pose proof (sweep16 _ chk_fmt_dec_ok w Hw) as H. unfold chk_fmt_dec in H.
  destruct (fmt_from_bytes _) as [[l s]|]; boolx; repeat split; try assumption.
  apply N.eqb_neq. assumption.
Qed.

Definition chk_fmt_enc (n : N) : bool :=
  let l := n mod 2048 in let s := N.testbit n 11 in
  match fmt_make (Z.of_N l) s with
  | Ok x => match fmt_to_bytes x with
            | Ok b => list_eqb b (std_format l s) &&
                      match fmt_from_bytes b with Ok (l', s') => (l' =? l) && Bool.eqb s' s | Err _ => false end
            | Err _ => false end
  | Err _ => false end.
Lemma chk_fmt_enc_ok : forall_bits 12 chk_fmt_enc 0 = true. Proof. vm_compute. reflexivity. Qed.
Theorem format_encode_roundtrip l s : l <= 2047 ->
  exists x, fmt_make (Z.of_N l) s = Ok x /\ fmt_to_bytes x = Ok (std_format l s)
  /\ fmt_from_bytes (std_format l s) = Ok (l, s).
Proof.
  intros Hl. remember (l + (if s then 2048 else 0)) as n eqn:En.
  assert (Hn : n < 2 ^ N.of_nat 12) by (subst n; destruct s; cbn; lia).
  pose proof (sweep_k 12 _ chk_fmt_enc_ok n Hn) as H. unfold chk_fmt_enc in H.
  assert (E1 : n mod 2048 = l).
  { rewrite En. destruct s; [|rewrite N.add_0_r; apply N.mod_small; lia].
    replace (l + 2048) with (l + 1 * 2048) by lia. rewrite N.mod_add by lia. apply N.mod_small; lia. }
  assert (E2 : N.testbit n 11 = s).
  { rewrite En. rewrite N.testbit_eqb. change (2 ^ 11) with 2048. destruct s.
    - replace (l + 2048) with (l + 1 * 2048) by lia. rewrite N.div_add by lia.
      rewrite N.div_small by lia. reflexivity.
    - rewrite N.add_0_r, N.div_small by lia. reflexivity. }
  rewrite E1, E2 in H.
  destruct (fmt_make (Z.of_N l) s) as [x|]; [|discriminate]. exists x.
  destruct (fmt_to_bytes x) as [b|]; [|discriminate].
  apply andb_prop in H as [H1 H2]. apply list_eqb_eq in H1. subst b.
  destruct (fmt_from_bytes (std_format l s)) as [[l' s']|]; [|discriminate]. boolx. subst.
  repeat split.
Qed.
Theorem format_refuses_gt2047 l s : (2047 < l \/ l < 0)%Z -> fmt_make l s = Err ERefused.
Proof.
  intros H. unfold fmt_make. destruct (Z.ltb_spec 2047 l); [reflexivity|].
  destruct (Z.ltb_spec l 0); [reflexivity|]. lia.
Qed.

(* ================= OBIS ================= *)
Theorem obis_bytes_roundtrip o : length o = 6%nat -> bytes_ok o ->
  obis_to_bytes o = Ok o /\ obis_from_bytes o = Ok o.
Proof.
  intros Hl Hok. unfold obis_to_bytes, obis_from_bytes. rewrite Hl.
  apply bytes_okb_spec in Hok. unfold bytes_okb in Hok. rewrite Hok. split; reflexivity.
Qed.
Theorem obis_component_gt255_refused o : ~ bytes_ok o -> obis_to_bytes o = Err ERefused.
Proof.
  intros H. unfold obis_to_bytes. destruct (forallb (fun x => x <? 256) o) eqn:E; [|reflexivity].
  exfalso. apply H. apply bytes_okb_spec. exact E.
Qed.

Definition chk_dec (n : N) : bool :=
  let d := dec_str n in
  forallb is_digit d && negb (Nat.eqb (length d) 0) &&
  match parse_dec d with Ok m => m =? n | Err _ => false end.
Lemma chk_dec_ok : forall_bits 8 chk_dec 0 = true. Proof. vm_compute. reflexivity. Qed.

Lemma split_no_sep sep d cur : forallb (fun c => negb (c =? sep)) d = true ->
  split_on sep d cur = [rev cur ++ d].
Proof.
  revert cur; induction d as [|c d IH]; intros cur H; cbn [split_on].
  - rewrite app_nil_r. reflexivity.
  - cbn [forallb] in H. apply andb_prop in H as [H1 H2]. apply negb_true_iff in H1. rewrite H1.
    rewrite IH by exact H2. cbn [rev]. rewrite <- app_assoc. reflexivity.
Qed.
Lemma split_app sep d rest cur : forallb (fun c => negb (c =? sep)) d = true ->
  split_on sep (d ++ sep :: rest) cur = (rev cur ++ d) :: split_on sep rest [].
Proof.
  revert cur; induction d as [|c d IH]; intros cur H; cbn [split_on app].
  - rewrite N.eqb_refl, app_nil_r. reflexivity.
  - cbn [forallb] in H. apply andb_prop in H as [H1 H2]. apply negb_true_iff in H1. rewrite H1.
    rewrite IH by exact H2. cbn [rev]. rewrite <- app_assoc. reflexivity.
Qed.
Lemma digits_no_dot d : forallb is_digit d = true -> forallb (fun c => negb (c =? 46)) d = true.
Proof.
  rewrite !forallb_forall. intros H c Hc. specialize (H c Hc). unfold is_digit in H.
  apply andb_prop in H as [A B]. apply N.leb_le in A. apply negb_true_iff, N.eqb_neq. lia.
Qed.
Lemma dec_facts n : n < 256 ->
  forallb (fun c => negb (c =? 46)) (dec_str n) = true /\ parse_dec (dec_str n) = Ok n.
Proof.
  intros Hn. pose proof (sweep8 _ chk_dec_ok n Hn) as H. unfold chk_dec in H.
  apply andb_prop in H as [H H3]. apply andb_prop in H as [H1 H2].
  split; [apply digits_no_dot; exact H1|].
  destruct (parse_dec (dec_str n)); [|discriminate]. apply N.eqb_eq in H3. subst. reflexivity.
Qed.

Theorem obis_dotted_roundtrip a b c d e f :
  a < 256 -> b < 256 -> c < 256 -> d < 256 -> e < 256 -> f < 256 ->
  obis_from_dotted (obis_dotted [a; b; c; d; e; f]) = Ok [a; b; c; d; e; f].
Proof.
  intros Ha Hb Hc Hd He Hf.
  destruct (dec_facts a Ha) as [Na Pa]. destruct (dec_facts b Hb) as [Nb Pb].
  destruct (dec_facts c Hc) as [Nc Pc]. destruct (dec_facts d Hd) as [Nd Pd].
  destruct (dec_facts e He) as [Ne Pe]. destruct (dec_facts f Hf) as [Nf Pf].
  unfold obis_from_dotted, obis_dotted. cbn [map join_with].
  rewrite (split_app 46 _ _ [] Na), (split_app 46 _ _ [] Nb), (split_app 46 _ _ [] Nc),
          (split_app 46 _ _ [] Nd), (split_app 46 _ _ [] Ne), (split_no_sep 46 _ [] Nf).
  cbn [rev app length Nat.eqb negb mapM]. rewrite Pa, Pb, Pc, Pd, Pe, Pf. reflexivity.
Qed.

(* the long form on the whole constructor domain (any natural number as id): an id that does not fit 24 bits is refused,
   so whatever is encoded decodes back to the value that was encoded - no two distinct values share a pattern *)
Theorem liid_out_of_range_refused i p c s b : 2 ^ 24 <= i -> liid_to_bytes (i, p, c, s, b) = Err ERefused.
Proof.
  intros Hi. unfold liid_to_bytes.
  assert (Ht : to_bytes_be 3 i = Err ERefused).
  { unfold to_bytes_be. replace (i <? 256 ^ N.of_nat 3) with false; [reflexivity|].
    symmetry. apply N.ltb_ge. exact Hi. }
  rewrite Ht. destruct p, c, s, b; reflexivity.
Qed.

Theorem liid_encode_total_inverse x bs : liid_to_bytes x = Ok bs -> liid_from_bytes bs = Ok x.
Proof.
  destruct x as [[[[i p] c] s] b]. intros H.
  destruct (N.lt_ge_cases i (2 ^ 24)) as [Hi|Hi].
  - destruct (liid_encode_roundtrip i p c s b Hi) as [E1 E2]. rewrite E1 in H. injection H as <-. exact E2.
  - rewrite (liid_out_of_range_refused i p c s b Hi) in H. discriminate.
Qed.
