(* Reference automaton of the HDLC normal-response-mode client procedure.  No proofs here. *)
From Dlms Require Import Base FrameModel HdlcConnModel.

(* ---------- reference automaton (DESIGN.md appendix B) ---------- *)
Inductive dir := DSend | DRecv.
(* edges a conforming client may take, with the prescribed post-state *)
Definition nrm_may (s : N) (d : dir) (k : fkind) : option N :=
  match s, d, k with
  | 0, DSend, KSnrm => Some 3          (* NOT_CONNECTED  --send SNRM-->  AWAITING_CONNECTION *)
  | 3, DRecv, KUa => Some 1            (* AWAITING_CONNECTION  --recv UA-->  IDLE *)
  | 1, DSend, KInfo => Some 2          (* IDLE  --send I-->  AWAITING_RESPONSE *)
  | 1, DSend, KRr => Some 2
  | 1, DSend, KDisc => Some 4          (* IDLE  --send DISC-->  AWAITING_DISCONNECT *)
  | 2, DRecv, KInfo => Some 1          (* AWAITING_RESPONSE  --recv I-->  IDLE *)
  | 2, DRecv, KRr => Some 1            (* permitted, not required *)
  | 4, DRecv, KUa => Some 0            (* AWAITING_DISCONNECT  --recv UA-->  NOT_CONNECTED *)
  | _, _, _ => None
  end.
(* edges that must be accepted *)
Definition nrm_must (s : N) (d : dir) (k : fkind) : option N :=
  match s, d, k with
  | 2, DRecv, KRr => None
  | _, _, _ => nrm_may s d k
  end.

Definition link_step (l : link) (d : dir) (k : fkind) (ssn rsn : N) : res unit * link :=
  match d with DSend => link_send l k ssn rsn | DRecv => link_deliver l k ssn rsn end.
(* the counters an I frame has to carry in direction d *)
Definition expected_numbers (l : link) (d : dir) : N * N :=
  match d with DSend => (server_ssn l, server_rsn l) | DRecv => (client_ssn l, client_rsn l) end.

