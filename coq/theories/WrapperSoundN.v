(* C17: soundness of k successive recv() calls, for arbitrary streams and schedules *)
From Dlms Require Import Base WrapperModel WrapperSpec WrapperProofs WrapperStream WrapperSound.

(* if k calls all return payloads, the stream consists of k standard messages carrying exactly those payloads, in that
   order, followed by exactly what is left unread *)
Theorem tcp_recv_n_sound : forall k stream sched ps rest sched',
  bytes_ok stream -> tcp_recv_n k (stream, sched) = (map Ok ps, (rest, sched')) -> length ps = k ->
  exists ms, Forall wmsg_ok ms /\ map wmsg_payload ms = ps /\ stream = wstream ms ++ rest.
Proof.
  induction k as [|k IH]; intros stream sched ps rest sched' Hb H Hlen.
  - destruct ps; [|discriminate]. cbn in H. injection H as <- <-. exists []. repeat split. constructor.
  - destruct ps as [|p ps]; [discriminate|]. injection Hlen as Hlen.
    cbn [tcp_recv_n map] in H.
    destruct (tcp_recv (stream, sched)) as [r [st1 sc1]] eqn:E1.
    destruct (tcp_recv_n k (st1, sc1)) as [rs [st2 sc2]] eqn:E2.
    injection H as -> -> <- <-.
    destruct (tcp_recv_sound _ _ _ _ _ Hb E1) as (ver & src & dst & Es & Hl & Hs & Hd & Hv).
    assert (Hb1 : bytes_ok st1).
    { unfold bytes_ok in *. rewrite Es in Hb. apply Forall_app in Hb. destruct Hb as [_ Hb].
      apply Forall_app in Hb. exact (proj2 Hb). }
    destruct (IH st1 sc1 ps st2 sc2 Hb1 E2 Hlen) as (ms & Hms & Emap & Est).
    exists ((ver, src, dst, p) :: ms). repeat split.
    + constructor; [|exact Hms]. cbn. repeat split; assumption.
    + cbn [map wmsg_payload snd]. rewrite Emap. reflexivity.
    + cbn [wstream wmsg_bytes]. rewrite Es, Est, <- !app_assoc. reflexivity.
Qed.

(* a request that was wrapped successfully was wrapped in the standard header, and the ports / length fit 16 bits *)
Lemma tcp_wrap_ok_inv client server q w : tcp_wrap client server q = Ok w ->
  w = std_request client server q /\ client < 65536 /\ server < 65536 /\ len q < 65536.
Proof.
  intros H.
  assert (Hr : client < 65536 /\ server < 65536 /\ len q < 65536).
  { destruct (N.lt_ge_cases client 65536) as [Hc|Hc]; [|exfalso].
    2:{ destruct (header_overflow_refused client server (len q) 1) as [e E]; [left; exact Hc|].
        unfold tcp_wrap, wpdu_to_bytes in H. rewrite E in H. discriminate. }
    destruct (N.lt_ge_cases server 65536) as [Hs|Hs]; [|exfalso].
    2:{ destruct (header_overflow_refused client server (len q) 1) as [e E]; [right; left; exact Hs|].
        unfold tcp_wrap, wpdu_to_bytes in H. rewrite E in H. discriminate. }
    destruct (N.lt_ge_cases (len q) 65536) as [Hq|Hq]; [|exfalso].
    2:{ destruct (header_overflow_refused client server (len q) 1) as [e E]; [right; right; left; exact Hq|].
        unfold tcp_wrap, wpdu_to_bytes in H. rewrite E in H. discriminate. }
    repeat split; assumption. }
  destruct Hr as (Hc & Hs & Hq). split; [|repeat split; assumption].
  rewrite (wrap_is_header_plus_payload client server q Hc Hs Hq) in H. injection H as <-. reflexivity.
Qed.

(* whole sessions, no hypothesis on what the meter sent: if every send() of a session returned a payload, then exactly the
   standard wrapped requests were written, in order, and the stream consists of standard messages carrying exactly the
   payloads returned, in that order, followed by exactly what is left unread *)
Theorem tcp_session_sound : forall client server reqs stream sched written ps rest sched' written',
  bytes_ok stream ->
  tcp_session client server reqs ((stream, sched), written) = (map Ok ps, ((rest, sched'), written')) ->
  length ps = length reqs ->
  written' = written ++ map (std_request client server) reqs /\
  exists ms, Forall wmsg_ok ms /\ map wmsg_payload ms = ps /\ stream = wstream ms ++ rest.
Proof.
  intros client server reqs. induction reqs as [|q reqs IH];
    intros stream sched written ps rest sched' written' Hb H Hlen.
  - destruct ps; [|discriminate]. cbn in H. injection H as <- <- <-. split; [cbn; rewrite app_nil_r; reflexivity|].
    exists []. repeat split. constructor.
  - destruct ps as [|p ps]; [discriminate|]. injection Hlen as Hlen.
    cbn [tcp_session tcp_send map] in H.
    destruct (tcp_wrap client server q) as [w|e] eqn:Ew.
    + destruct (tcp_wrap_ok_inv _ _ _ _ Ew) as (-> & _).
      destruct (tcp_recv (stream, sched)) as [r [st1 sc1]] eqn:E1.
      match type of H with context [tcp_session ?a ?b ?c ?d] =>
        destruct (tcp_session a b c d) as [rs [[st2 sc2] w2]] eqn:E2 end.
      injection H as -> -> <- <- <-.
      destruct (tcp_recv_sound _ _ _ _ _ Hb E1) as (ver & src & dst & Es & Hl & Hs & Hd & Hv).
      assert (Hb1 : bytes_ok st1).
      { unfold bytes_ok in *. rewrite Es in Hb. apply Forall_app in Hb. destruct Hb as [_ Hb].
        apply Forall_app in Hb. exact (proj2 Hb). }
      destruct (IH st1 sc1 _ ps st2 sc2 w2 Hb1 E2 Hlen) as (Ew2 & ms & Hms & Emap & Est).
      split; [rewrite Ew2, <- app_assoc; reflexivity|].
      exists ((ver, src, dst, p) :: ms). repeat split.
      * constructor; [|exact Hms]. cbn. repeat split; assumption.
      * cbn [map wmsg_payload snd]. rewrite Emap. reflexivity.
      * cbn [wstream wmsg_bytes]. rewrite Es, Est, <- !app_assoc. reflexivity.
    + destruct (tcp_session client server reqs (stream, sched, written)) as [rs st'] eqn:E2. discriminate.
Qed.
