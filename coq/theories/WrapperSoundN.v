(* C17: soundness of k successive recv() calls, for arbitrary streams and schedules *)
From Dlms Require Import Base WrapperModel WrapperSpec WrapperProofs WrapperStream WrapperSound.

(* if k calls all return payloads, the stream consists of k standard messages carrying exactly those payloads, in that
   order, followed by exactly what is left unread *)
Theorem tcp_recv_n_sound : forall k stream sched ps rest sched',
  bytes_ok stream -> tcp_recv_n k (stream, sched) = (map Ok ps, (rest, sched')) -> length ps = k ->
  exists ms, Forall wmsg_ok ms /\ map wmsg_payload ms = ps /\ stream = wstream ms ++ rest.
Proof.
  induction k as [|k IH]; intros stream sched ps rest sched' Hb H Hlen.
  - destruct ps; [|discriminate]. cbn in H. injection H as <- <-. exists []. repeat split. constructor.
  - destruct ps as [|p ps]; [discriminate|]. injection Hlen as Hlen.
    cbn [tcp_recv_n map] in H.
    destruct (tcp_recv (stream, sched)) as [r [st1 sc1]] eqn:E1.
    destruct (tcp_recv_n k (st1, sc1)) as [rs [st2 sc2]] eqn:E2.
    injection H as -> -> <- <-.
    destruct (tcp_recv_sound _ _ _ _ _ Hb E1) as (ver & src & dst & Es & Hl & Hs & Hd & Hv).
    assert (Hb1 : bytes_ok st1).
    { unfold bytes_ok in *. rewrite Es in Hb. apply Forall_app in Hb. destruct Hb as [_ Hb].
      apply Forall_app in Hb. exact (proj2 Hb). }
    destruct (IH st1 sc1 ps st2 sc2 Hb1 E2 Hlen) as (ms & Hms & Emap & Est).
    exists ((ver, src, dst, p) :: ms). repeat split.
    + constructor; [|exact Hms]. cbn. repeat split; assumption.
    + cbn [map wmsg_payload snd]. rewrite Emap. reflexivity.
    + cbn [wstream wmsg_bytes]. rewrite Es, Est, <- !app_assoc. reflexivity.
Qed.
