(* crc.py computes CRC-16/X-25 for every byte string.
   Route: the finite per-byte update is exhausted by kernel sweeps (each over a complete
   2^16 or 2^8 domain), then lifted to all message lengths by induction with the invariant
   "library register = bit-reversal of the reference register". *)
From Dlms Require Import Base Sweep CrcModel CrcSpec.

Local Opaque N.shiftr N.shiftl N.land N.lxor N.pow.

(* the library register that corresponds to reference register [reg] *)
Definition R16 (reg : N) : N := 256 * reverse_byte (reg mod 256) + reverse_byte (reg / 256).

(* ---------- sweeps (complete enumerations) ---------- *)
Definition chk_rev8 (x : N) : bool := reverse_byte x <? 256.
Lemma chk_rev8_ok : forall_bits 8 chk_rev8 0 = true. Proof. vm_compute. reflexivity. Qed.
Lemma reverse_byte_lt x : x < 256 -> reverse_byte x < 256.
Proof. intros H. apply N.ltb_lt. exact (sweep8 _ chk_rev8_ok x H). Qed.

(* masks and shifts of the per-byte update, all 2^16 registers *)
Definition chk_split (y : N) : bool :=
  (N.land (N.shiftr y 8) 0xFF =? y / 256) && (N.land (N.shiftl y 8) 0xFF00 =? (y mod 256) * 256).
Lemma chk_split_ok : forall_bits 16 chk_split 0 = true. Proof. vm_compute. reflexivity. Qed.

(* reversal is linear over xor, all 2^8 x 2^8 byte pairs *)
Definition chk_revxor (a b : N) : bool :=
  (reverse_byte (N.lxor a b) =? N.lxor (reverse_byte a) (reverse_byte b)) && (N.lxor a b <? 256).
Lemma chk_revxor_ok : forall_bits 16 (pair_pred chk_revxor) 0 = true. Proof. vm_compute. reflexivity. Qed.

(* eight reference bit-steps against one table step, all 2^16 registers *)
Definition chk_step (h m : N) : bool :=
  let r := iter 8 lsbstep (h * 256 + m) in
  (R16 r =? N.lxor (reverse_byte h * 256) (tab (reverse_byte m))) && (r <? 65536).
Lemma chk_step_ok : forall_bits 16 (pair_pred chk_step) 0 = true. Proof. vm_compute. reflexivity. Qed.

(* output assembly (both byte orders), all 2^16 final registers *)
Definition chk_out (r : N) : bool :=
  let v := N.lxor r 0xFFFF in
  list_eqb (assemble (R16 r) false) [v mod 256; v / 256] &&
  list_eqb (assemble (R16 r) true) [v / 256; v mod 256].
Lemma chk_out_ok : forall_bits 16 chk_out 0 = true. Proof. vm_compute. reflexivity. Qed.

(* residue after appending the check value, all 2^16 registers *)
Definition chk_residue (r : N) : bool :=
  let v := N.lxor r 0xFFFF in
  x25_byte (x25_byte r (v mod 256)) (v / 256) =? x25_residue.
Lemma chk_residue_ok : forall_bits 16 chk_residue 0 = true. Proof. vm_compute. reflexivity. Qed.

Lemma start_is_reversed_init : start = R16 0xFFFF.
Proof. vm_compute. reflexivity. Qed.

(* ---------- the one algebraic fact: xor with a byte touches the low byte only ---------- *)
Local Transparent N.shiftr N.shiftl N.land N.lxor N.pow.

Lemma land_high_low h x : x < 256 -> N.land (h * 256) x = 0.
Proof.
  intros Hx. apply N.bits_inj. intros n. rewrite N.land_spec, N.bits_0.
  destruct (N.ltb_spec n 8) as [Hn|Hn].
  - replace (h * 256) with (N.shiftl h 8) by (rewrite N.shiftl_mul_pow2; reflexivity).
    rewrite N.shiftl_spec_low by exact Hn. reflexivity.
  - destruct (N.eq_dec x 0) as [->|Hx0]; [rewrite N.bits_0; apply andb_false_r|].
    rewrite (N.bits_above_log2 x n); [apply andb_false_r|].
    apply N.lt_le_trans with 8; [|exact Hn].
    apply N.log2_lt_pow2; [lia|]. exact Hx.
Qed.

Lemma lxor_low h l b : l < 256 -> N.lxor l b < 256 ->
  N.lxor (h * 256 + l) b = h * 256 + N.lxor l b.
Proof.
  intros Hl Hx.
  rewrite (N.add_nocarry_lxor (h * 256) l) by (apply land_high_low; exact Hl).
  rewrite N.lxor_assoc.
  rewrite <- (N.add_nocarry_lxor (h * 256) (N.lxor l b)) by (apply land_high_low; exact Hx).
  reflexivity.
Qed.

Local Opaque N.shiftr N.shiftl N.land N.lxor N.pow.

(* ---------- per-byte step ---------- *)
Lemma bytestep_unfold y c : y < 65536 ->
  bytestep y c = N.lxor ((y mod 256) * 256) (tab (N.lxor (y / 256) c)).
Proof.
  intros Hy. pose proof (sweep16 _ chk_split_ok y Hy) as H. unfold chk_split in H.
  apply andb_prop in H as [H1 H2]. apply N.eqb_eq in H1, H2.
  unfold bytestep. rewrite H1, H2. reflexivity.
Qed.

Lemma R16_parts reg : reg < 65536 ->
  R16 reg < 65536 /\ R16 reg mod 256 = reverse_byte (reg / 256)
  /\ R16 reg / 256 = reverse_byte (reg mod 256).
Proof.
  intros Hr. unfold R16.
  assert (Hlo : reg mod 256 < 256) by (apply N.mod_lt; lia).
  assert (Hhi : reg / 256 < 256) by (apply N.div_lt_upper_bound; lia).
  pose proof (reverse_byte_lt _ Hlo) as A. pose proof (reverse_byte_lt _ Hhi) as B.
  set (a := reverse_byte (reg mod 256)) in *. set (b := reverse_byte (reg / 256)) in *.
  split; [lia|]. split.
  - rewrite N.add_comm, N.mul_comm, N.mod_add by lia. apply N.mod_small. exact B.
  - rewrite N.mul_comm, N.div_add_l by lia. rewrite (N.div_small b 256) by exact B. lia.
Qed.

Lemma step_corresponds reg b : reg < 65536 -> b < 256 ->
  bytestep (R16 reg) (reverse_byte b) = R16 (x25_byte reg b) /\ x25_byte reg b < 65536.
Proof.
  intros Hr Hb.
  assert (Hlo : reg mod 256 < 256) by (apply N.mod_lt; lia).
  assert (Hhi : reg / 256 < 256) by (apply N.div_lt_upper_bound; lia).
  destruct (R16_parts reg Hr) as (Hlt & Hmod & Hdiv).
  rewrite bytestep_unfold by exact Hlt. rewrite Hmod, Hdiv.
  pose proof (sweep_pair _ chk_revxor_ok (reg mod 256) b Hlo Hb) as Hx. unfold chk_revxor in Hx.
  apply andb_prop in Hx as [Hx1 Hx2]. apply N.eqb_eq in Hx1. apply N.ltb_lt in Hx2.
  rewrite <- Hx1.
  unfold x25_byte.
  assert (Hreg : reg = reg / 256 * 256 + reg mod 256)
    by (pose proof (N.div_mod reg 256 ltac:(lia)); lia).
  rewrite Hreg at 3 4. rewrite lxor_low by assumption.
  pose proof (sweep_pair _ chk_step_ok (reg / 256) (N.lxor (reg mod 256) b) Hhi Hx2) as Hs.
  unfold chk_step in Hs. apply andb_prop in Hs as [Hs1 Hs2].
  apply N.eqb_eq in Hs1. apply N.ltb_lt in Hs2.
  split; [symmetry; exact Hs1 | exact Hs2].
Qed.

(* ---------- all lengths ---------- *)
Lemma calculate_corresponds msg : bytes_ok msg -> forall reg, reg < 65536 ->
  calculate_from (R16 reg) (reverse_byte_message msg) = R16 (fold_left x25_byte msg reg)
  /\ fold_left x25_byte msg reg < 65536.
Proof.
  induction 1 as [|b msg Hb _ IH]; intros reg Hr; cbn [reverse_byte_message map fold_left calculate_from].
  - split; [reflexivity | exact Hr].
  - destruct (step_corresponds reg b Hr Hb) as [Hs Hlt].
    unfold calculate_from in IH. cbn [fold_left]. rewrite Hs. apply IH. exact Hlt.
Qed.

Theorem calculate_for_is_x25 msg : bytes_ok msg ->
  calculate_for msg false = x25_fcs msg /\
  calculate_for msg true = [x25 msg / 256; x25 msg mod 256].
Proof.
  intros Hm. unfold calculate_for, calculate. rewrite start_is_reversed_init.
  destruct (calculate_corresponds msg Hm 0xFFFF ltac:(lia)) as [Hc Hlt]. rewrite Hc.
  fold (x25_reg msg) in *.
  pose proof (sweep16 _ chk_out_ok (x25_reg msg) Hlt) as Ho. unfold chk_out in Ho.
  apply andb_prop in Ho as [Ho1 Ho2]. apply list_eqb_eq in Ho1, Ho2.
  unfold x25_fcs, x25. split; assumption.
Qed.

Lemma x25_reg_app a b : x25_reg (a ++ b) = fold_left x25_byte b (x25_reg a).
Proof. unfold x25_reg. apply fold_left_app. Qed.

Theorem appended_fcs_gives_residue msg : bytes_ok msg ->
  x25_reg (msg ++ calculate_for msg false) = x25_residue.
Proof.
  intros Hm. destruct (calculate_for_is_x25 msg Hm) as [-> _].
  rewrite x25_reg_app. unfold x25_fcs, x25. cbn [fold_left].
  destruct (calculate_corresponds msg Hm 0xFFFF ltac:(lia)) as [_ Hlt]. fold (x25_reg msg) in Hlt.
  pose proof (sweep16 _ chk_residue_ok (x25_reg msg) Hlt) as Hr. unfold chk_residue in Hr.
  apply N.eqb_eq in Hr. exact Hr.
Qed.

