(* Independent reference: CRC-16/X-25 as the CRC catalogue and ISO 13239 / RFC 1662
   define it (reflected polynomial 0x8408 = reverse of 0x1021, init 0xFFFF, xorout 0xFFFF),
   written as the usual bit-wise reference routine.  Nothing here mentions the library. *)
From Dlms Require Import Base.

Definition lsbstep (s : N) : N :=
  if N.testbit s 0 then N.lxor (N.shiftr s 1) 0x8408 else N.shiftr s 1.
Fixpoint iter {A} (n : nat) (f : A -> A) (x : A) : A :=
  match n with O => x | S k => iter k f (f x) end.
Definition x25_byte (reg b : N) : N := iter 8 lsbstep (N.lxor reg b).
Definition x25_reg (msg : bytes) : N := fold_left x25_byte msg 0xFFFF.
Definition x25 (msg : bytes) : N := N.lxor (x25_reg msg) 0xFFFF.
(* frame check sequence as transmitted: low byte first *)
Definition x25_fcs (msg : bytes) : bytes := [x25 msg mod 256; x25 msg / 256].
Definition x25_residue : N := 0xF0B8.

(* the same code, bit-serial over the wire-order bit stream (LSB of each byte first) *)
Definition serial_step (s : N) (b : bool) : N :=
  let s' := N.shiftr s 1 in if xorb (N.testbit s 0) b then N.lxor s' 0x8408 else s'.
Fixpoint byte_bits (n : nat) (byte : N) : list bool :=
  match n with O => [] | S k => N.testbit byte 0 :: byte_bits k (N.shiftr byte 1) end.
Definition wire_bits (msg : bytes) : list bool := flat_map (byte_bits 8) msg.
Definition x25_serial (msg : bytes) : N :=
  N.lxor (fold_left serial_step (wire_bits msg) 0xFFFF) 0xFFFF.

(* public check values *)
Definition ascii_123456789 : bytes := [49;50;51;52;53;54;55;56;57].
Example x25_check : x25 ascii_123456789 = 0x906E. Proof. vm_compute. reflexivity. Qed.
Example x25_serial_check : x25_serial ascii_123456789 = 0x906E. Proof. vm_compute. reflexivity. Qed.
Example x25_empty : x25 [] = 0. Proof. vm_compute. reflexivity. Qed.
