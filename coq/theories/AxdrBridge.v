(* The expected Python value of a value tree, in the decoder model's value type.  No proofs here. *)
From Dlms Require Import Base AxdrModel AxdrSpec.

Fixpoint of_spec (y : pyv) : pv :=
  match y with
  | YNone => PNone | YBool b => PBool b | YInt z => PInt z | YBytes l => PBytes l
  | YList l => PList (map of_spec l)
  | YDateTime x st => PDateTime x st | YDate d => PDate d | YTime t => PTime t
  end.

