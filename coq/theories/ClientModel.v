(* Model of dlms_cosem/clients/dlms_client.py: DlmsClient.get / set / action / send / next_event over
   the association model and a scripted io_interface that returns one response APDU per request.
   APDUs are abstract here (kind + the fields the client looks at); their byte encodings are C01/C02.
   No proofs here. *)
From Dlms Require Import Base AssocModel AssocSpec.

Definition EDataResult : N := 8.     (* DataResultError *)
Definition EAction : N := 9.         (* ActionError *)

(* a response APDU as the client sees it after decoding *)
Record resp := { r_kind : N;            (* event numbering of GenDlmsState *)
                 r_data : bytes;        (* data / block data *)
                 r_block : N;           (* block number *)
                 r_iid : N;             (* invoke-id-and-priority byte *)
                 r_code : N }.          (* error / result / status code *)

(* what the client sent: (kind, block number, invoke id) - only GET-next carries the last two *)
Definition sent := (N * N * N)%type.
Record cl := { cl_state : N; cl_pre : bool; cl_io : list resp; cl_buf : list resp; cl_sent : list sent }.

Definition ev_of (k : N) : ev := mk k true false 0.

(* DlmsClient.send: connection.send, hand the bytes to the io_interface, buffer the response *)
Definition cl_send (c : cl) (k blk iid : N) : res unit * cl :=
  match assoc_send (cl_pre c) (cl_state c) (ev_of k) with
  | (Err e, s) => (Err e, {| cl_state := s; cl_pre := cl_pre c; cl_io := cl_io c; cl_buf := cl_buf c; cl_sent := cl_sent c |})
  | (Ok _, s) =>
      match cl_io c with
      | [] => (Err ERefused, {| cl_state := s; cl_pre := cl_pre c; cl_io := []; cl_buf := cl_buf c; cl_sent := cl_sent c ++ [(k, blk, iid)] |})
      | r :: rest => (Ok tt, {| cl_state := s; cl_pre := cl_pre c; cl_io := rest; cl_buf := cl_buf c ++ [r];
                                cl_sent := cl_sent c ++ [(k, blk, iid)] |})
      end
  end.
(* DlmsClient.next_event: decode what is buffered, run it through the state machine; an empty buffer
   cannot be decoded; a refused APDU stays in the buffer *)
Definition cl_next (c : cl) : res resp * cl :=
  match cl_buf c with
  | [] => (Err ERefused, c)
  | r :: rest =>
      match assoc_recv (cl_pre c) (cl_state c) (mk (r_kind r) (r_code r =? 0) false 0) with
      | (Err e, s) => (Err e, {| cl_state := s; cl_pre := cl_pre c; cl_io := cl_io c; cl_buf := cl_buf c; cl_sent := cl_sent c |})
      | (Ok _, s) => (Ok r, {| cl_state := s; cl_pre := cl_pre c; cl_io := cl_io c; cl_buf := rest; cl_sent := cl_sent c |})
      end
  end.

(* DlmsClient.get: the block collection loop *)
Fixpoint get_loop (fuel : nat) (c : cl) (data : bytes) : res bytes * cl :=
  match fuel with
  | O => (Err EFuel, c)
  | S f =>
      match cl_next c with
      | (Err e, c1) => (Err e, c1)
      | (Ok r, c1) =>
          let k := r_kind r in
          if k =? 8 then (Ok (data ++ r_data r), c1)                         (* GetResponseNormal *)
          else if k =? 10 then                                               (* GetResponseWithBlock *)
            match cl_send c1 5 (r_block r) (r_iid r) with
            | (Err e, c2) => (Err e, c2)
            | (Ok _, c2) => get_loop f c2 (data ++ r_data r)
            end
          else if k =? 11 then (Ok (data ++ r_data r), c1)                   (* GetResponseLastBlock *)
          else if (k =? 12) || (k =? 9) then (Err EDataResult, c1)           (* ...WithError *)
          else get_loop f c1 data                                            (* any other accepted APDU: keep waiting *)
      end
  end.
Definition cl_get (c : cl) : res bytes * cl :=
  match cl_send c 4 0 0 with
  | (Err e, c1) => (Err e, c1)
  | (Ok _, c1) => get_loop (S (S (length (cl_io c1)))) c1 []
  end.
(* DlmsClient.set: returns the meter's response as it is *)
Definition cl_set (c : cl) : res resp * cl :=
  match cl_send c 6 0 0 with
  | (Err e, c1) => (Err e, c1)
  | (Ok _, c1) => cl_next c1
  end.
(* DlmsClient.action *)
Definition cl_action (c : cl) : res (option bytes) * cl :=
  match cl_send c 7 0 0 with
  | (Err e, c1) => (Err e, c1)
  | (Ok _, c1) =>
      match cl_next c1 with
      | (Err e, c2) => (Err e, c2)
      | (Ok r, c2) =>
          if r_kind r =? 16 then (Err EAction, c2)
          else if r_kind r =? 15 then (if r_code r =? 0 then (Ok (Some (r_data r)), c2) else (Err EAction, c2))
          else if r_code r =? 0 then (Ok None, c2) else (Err EAction, c2)   (* any other response object with a status *)
      end
  end.
