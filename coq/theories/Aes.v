(* Executable AES-128/256 (FIPS-197): cipher and inverse cipher, used to *run* the GCM and key-wrap
   models; the theorems about GCM and key wrap are stated for an arbitrary block function. *)
From Dlms Require Import Base.

Definition sbox_rows : list (list N) :=
  [[99;124;119;123;242;107;111;197;48;1;103;43;254;215;171;118];
   [202;130;201;125;250;89;71;240;173;212;162;175;156;164;114;192];
   [183;253;147;38;54;63;247;204;52;165;229;241;113;216;49;21];
   [4;199;35;195;24;150;5;154;7;18;128;226;235;39;178;117];
   [9;131;44;26;27;110;90;160;82;59;214;179;41;227;47;132];
   [83;209;0;237;32;252;177;91;106;203;190;57;74;76;88;207];
   [208;239;170;251;67;77;51;133;69;249;2;127;80;60;159;168];
   [81;163;64;143;146;157;56;245;188;182;218;33;16;255;243;210];
   [205;12;19;236;95;151;68;23;196;167;126;61;100;93;25;115];
   [96;129;79;220;34;42;144;136;70;238;184;20;222;94;11;219];
   [224;50;58;10;73;6;36;92;194;211;172;98;145;149;228;121];
   [231;200;55;109;141;213;78;169;108;86;244;234;101;122;174;8];
   [186;120;37;46;28;166;180;198;232;221;116;31;75;189;139;138];
   [112;62;181;102;72;3;246;14;97;53;87;185;134;193;29;158];
   [225;248;152;17;105;217;142;148;155;30;135;233;206;85;40;223];
   [140;161;137;13;191;230;66;104;65;153;45;15;176;84;187;22]].
Definition inv_sbox_rows : list (list N) :=
  [[82;9;106;213;48;54;165;56;191;64;163;158;129;243;215;251];
   [124;227;57;130;155;47;255;135;52;142;67;68;196;222;233;203];
   [84;123;148;50;166;194;35;61;238;76;149;11;66;250;195;78];
   [8;46;161;102;40;217;36;178;118;91;162;73;109;139;209;37];
   [114;248;246;100;134;104;152;22;212;164;92;204;93;101;182;146];
   [108;112;72;80;253;237;185;218;94;21;70;87;167;141;157;132];
   [144;216;171;0;140;188;211;10;247;228;88;5;184;179;69;6];
   [208;44;30;143;202;63;15;2;193;175;189;3;1;19;138;107];
   [58;145;17;65;79;103;220;234;151;242;207;206;240;180;230;115];
   [150;172;116;34;231;173;53;133;226;249;55;232;28;117;223;110];
   [71;241;26;113;29;41;197;137;111;183;98;14;170;24;190;27];
   [252;86;62;75;198;210;121;32;154;219;192;254;120;205;90;244];
   [31;221;168;51;136;7;199;49;177;18;16;89;39;128;236;95];
   [96;81;127;169;25;181;74;13;45;229;122;159;147;201;156;239];
   [160;224;59;77;174;42;245;176;200;235;187;60;131;83;153;97];
   [23;43;4;126;186;119;214;38;225;105;20;99;85;33;12;125]].
Definition table_lookup (t : list (list N)) (b : N) : N :=
  nth (N.to_nat (N.land b 15)) (nth (N.to_nat (N.shiftr b 4)) t []) 0.
Definition sbox := table_lookup sbox_rows.
Definition inv_sbox := table_lookup inv_sbox_rows.
Definition xtime (a : N) : N := let s := N.land (N.shiftl a 1) 255 in if N.testbit a 7 then N.lxor s 27 else s.
Fixpoint gf_mul (fuel : nat) (a b : N) : N :=
  match fuel with
  | O => 0
  | S f => N.lxor (if N.testbit b 0 then a else 0) (gf_mul f (xtime a) (N.shiftr b 1))
  end.
Definition gmul8 (a b : N) : N := gf_mul 8 a b.
Definition nthb (l : list N) (i : nat) := nth i l 0.
Definition shift_rows (s : list N) : list N := map (nthb s) [0;5;10;15;4;9;14;3;8;13;2;7;12;1;6;11]%nat.
Definition inv_shift_rows (s : list N) : list N := map (nthb s) [0;13;10;7;4;1;14;11;8;5;2;15;12;9;6;3]%nat.
Definition mix_col (c : list N) : list N :=
  match c with
  | [a0;a1;a2;a3] =>
    [N.lxor (N.lxor (gmul8 a0 2) (gmul8 a1 3)) (N.lxor a2 a3);
     N.lxor (N.lxor a0 (gmul8 a1 2)) (N.lxor (gmul8 a2 3) a3);
     N.lxor (N.lxor a0 a1) (N.lxor (gmul8 a2 2) (gmul8 a3 3));
     N.lxor (N.lxor (gmul8 a0 3) a1) (N.lxor a2 (gmul8 a3 2))]
  | _ => c end.
Definition inv_mix_col (c : list N) : list N :=
  match c with
  | [a0;a1;a2;a3] =>
    [N.lxor (N.lxor (gmul8 a0 14) (gmul8 a1 11)) (N.lxor (gmul8 a2 13) (gmul8 a3 9));
     N.lxor (N.lxor (gmul8 a0 9) (gmul8 a1 14)) (N.lxor (gmul8 a2 11) (gmul8 a3 13));
     N.lxor (N.lxor (gmul8 a0 13) (gmul8 a1 9)) (N.lxor (gmul8 a2 14) (gmul8 a3 11));
     N.lxor (N.lxor (gmul8 a0 11) (gmul8 a1 13)) (N.lxor (gmul8 a2 9) (gmul8 a3 14))]
  | _ => c end.
Fixpoint chunks {A} (k : nat) (fuel : nat) (l : list A) : list (list A) :=
  match fuel with O => [] | S f => match l with [] => [] | _ => firstn k l :: chunks k f (skipn k l) end end.
Definition mix_columns (s : list N) : list N := flat_map mix_col (chunks 4 4 s).
Definition inv_mix_columns (s : list N) : list N := flat_map inv_mix_col (chunks 4 4 s).
Definition rot_word (w : list N) := match w with a :: r => r ++ [a] | [] => [] end.
(* key expansion; words kept latest-first *)
Fixpoint expand (n nk i : nat) (rcon : N) (ws : list (list N)) : list (list N) :=
  match n with O => ws | S n' =>
    let prev := hd [] ws in
    let back := nth (nk - 1) ws [] in
    let r := Nat.modulo i nk in
    let '(tmp, rcon') :=
      if Nat.eqb r 0 then (xor_bytes (map sbox (rot_word prev)) [rcon;0;0;0], xtime rcon)
      else if andb (Nat.ltb 6 nk) (Nat.eqb r 4) then (map sbox prev, rcon)
      else (prev, rcon) in
    expand n' nk (S i) rcon' (xor_bytes back tmp :: ws)
  end.
Definition round_keys (key : list N) : list (list N) :=
  let nk := Nat.div (length key) 4 in
  let nr := (nk + 6)%nat in
  let ws := rev (expand (4 * (nr + 1) - nk) nk nk 1 (rev (chunks 4 nk key))) in
  map (@concat N) (chunks 4 (nr + 1) ws).
Definition aes_round (s rk : list N) := xor_bytes (mix_columns (shift_rows (map sbox s))) rk.
Definition aes_final (s rk : list N) := xor_bytes (shift_rows (map sbox s)) rk.
Fixpoint aes_rounds (s : list N) (rks : list (list N)) : list N :=
  match rks with
  | [] => s
  | [rk] => aes_final s rk
  | rk :: rest => aes_rounds (aes_round s rk) rest
  end.
Definition aes_rk (rks : list (list N)) (blk : list N) : list N :=
  match rks with rk0 :: rest => aes_rounds (xor_bytes blk rk0) rest | [] => blk end.
Definition aes_encrypt (key blk : bytes) : bytes := aes_rk (round_keys key) blk.
(* equivalent inverse cipher (FIPS-197 5.3): round keys in reverse *)
Definition inv_round (s rk : list N) := inv_mix_columns (xor_bytes (map inv_sbox (inv_shift_rows s)) rk).
Fixpoint inv_rounds (s : list N) (rks : list (list N)) : list N :=
  match rks with
  | [] => s
  | [rk] => xor_bytes (map inv_sbox (inv_shift_rows s)) rk
  | rk :: rest => inv_rounds (inv_round s rk) rest
  end.
Definition aes_decrypt (key blk : bytes) : bytes :=
  match rev (round_keys key) with rkl :: rest => inv_rounds (xor_bytes blk rkl) rest | [] => blk end.

(* FIPS-197 appendix C.1 and C.3 *)
Example fips197_c1 :
  be_val (aes_encrypt (be_bytes 16 0x000102030405060708090a0b0c0d0e0f) (be_bytes 16 0x00112233445566778899aabbccddeeff))
  = 0x69c4e0d86a7b0430d8cdb78070b4c55a. Proof. vm_compute. reflexivity. Qed.
Example fips197_c3 :
  be_val (aes_encrypt (be_bytes 32 0x000102030405060708090a0b0c0d0e0f101112131415161718191a1b1c1d1e1f) (be_bytes 16 0x00112233445566778899aabbccddeeff))
  = 0x8ea2b7ca516745bfeafc49904b496089. Proof. vm_compute. reflexivity. Qed.
Example fips197_c1_inv :
  be_val (aes_decrypt (be_bytes 16 0x000102030405060708090a0b0c0d0e0f) (be_bytes 16 0x69c4e0d86a7b0430d8cdb78070b4c55a))
  = 0x00112233445566778899aabbccddeeff. Proof. vm_compute. reflexivity. Qed.
Example fips197_c3_inv :
  be_val (aes_decrypt (be_bytes 32 0x000102030405060708090a0b0c0d0e0f101112131415161718191a1b1c1d1e1f) (be_bytes 16 0x8ea2b7ca516745bfeafc49904b496089))
  = 0x00112233445566778899aabbccddeeff. Proof. vm_compute. reflexivity. Qed.
