(* Model of dlms_cosem/clients/hdlc_transport.py (SerialHdlcTransport.connect / disconnect / send /
   next_event / drain_out_buffer / generate_information_frame / _read_frame) over the connection
   model and a scripted serial port.  Loops are fuelled; running out of fuel models a transport that
   waits forever (the meter never answers).  No proofs here. *)
From Dlms Require Import Base AddrModel FrameModel HdlcConnModel.

Definition LLC_COMMAND : bytes := [230; 230; 0].
Definition LLC_RESPONSE : bytes := [230; 231; 0].

(* scripted serial port: [pending] holds what the meter makes readable after each successive client
   write; [readable] is what can be read now; [sched] bounds how much each read_until call returns
   (an exhausted schedule: as much as asked for); [written] logs the client's writes *)
Record serial := { pending : list bytes; readable : bytes; sched : list nat; written : list bytes }.
Definition ser_write (s : serial) (b : bytes) : serial :=
  match pending s with
  | [] => {| pending := []; readable := readable s; sched := sched s; written := written s ++ [b] |}
  | p :: rest => {| pending := rest; readable := readable s ++ p; sched := sched s; written := written s ++ [b] |}
  end.
(* pyserial read_until(b"\x7e"): up to and including the first flag byte, or whatever arrived before the timeout *)
Fixpoint upto_flag (l : bytes) : nat :=
  match l with [] => 0 | x :: r => if x =? 126 then 1 else S (upto_flag r) end.
Definition ser_read_until (s : serial) : bytes * serial :=
  let want := upto_flag (readable s) in
  let k := match sched s with [] => want | c :: _ => Nat.min want c end in
  (firstn k (readable s),
   {| pending := pending s; readable := skipn k (readable s); sched := tl (sched s); written := written s |}).

Record transport := { t_conn : conn; t_out : bytes; t_ser : serial; t_client : addr; t_server : addr; t_max : nat }.
Definition upd (t : transport) (c : conn) (o : bytes) (s : serial) : transport :=
  {| t_conn := c; t_out := o; t_ser := s; t_client := t_client t; t_server := t_server t; t_max := t_max t |}.

(* _read_frame *)
Definition read_frame (s : serial) : bytes * serial :=
  let '(b, s1) := ser_read_until s in
  match b with
  | [126] => let '(b2, s2) := ser_read_until s1 in (b ++ b2, s2)
  | _ => (b, s1)
  end.

(* SerialHdlcTransport.next_event: poll, read more when NEED_DATA *)
Fixpoint t_next_event (fuel : nat) (t : transport) : event * transport :=
  match fuel with
  | O => (ERaise EFuel, t)
  | S f =>
      let '(e, c1) := next_event (t_conn t) in
      match e with
      | ENeedData =>
          let '(b, s1) := read_frame (t_ser t) in
          t_next_event f (upd t (receive_data c1 b) (t_out t) s1)
      | _ => (e, upd t c1 (t_out t) (t_ser t))
      end
  end.

(* fuel for one next_event loop: every round either examines one more flag byte of the buffer or
   reads at least one byte, so twice the bytes in sight (plus slack for a meter that stays silent) *)
Definition ev_fuel (t : transport) : nat :=
  length (c_buf (t_conn t)) + 2 * length (readable (t_ser t)) + 300 + 2 * length (concat (pending (t_ser t))).

(* drain_out_buffer *)
Fixpoint drain_out (fuel : nat) (t : transport) : res unit * transport :=
  match fuel with
  | O => (Err EFuel, t)
  | S f =>
      match t_out t with
      | [] => (Ok tt, t)
      | _ =>
          let data := firstn (t_max t) (t_out t) in
          let rest := skipn (t_max t) (t_out t) in
          let segmented := negb (Nat.eqb (length rest) 0) in
          if negb (l_state (c_link (t_conn t)) =? 1) then
            (* not IDLE: the bytes (an already framed SNRM / DISC / RR) are written as they are *)
            (Ok tt, upd t (t_conn t) rest (ser_write (t_ser t) data))
          else
            let l := c_link (t_conn t) in
            let fr := {| f_dest := t_server t; f_src := t_client t; f_payload := Some data; f_segmented := segmented;
                         f_final := true; f_ssn := server_ssn l; f_rsn := server_rsn l |} in
            match conn_send (t_conn t) KInfo fr with
            | (Err e, c1) => (Err e, upd t c1 rest (t_ser t))
            | (Ok fb, c1) =>
                let t1 := upd t c1 rest (ser_write (t_ser t) fb) in
                if segmented then
                  let '(e, t2) := t_next_event (ev_fuel t1) t1 in
                  match e with
                  | EFrame KRr _ => drain_out f t2
                  | ERaise x => (Err x, t2)
                  | _ => (Ok tt, t2)
                  end
                else (Ok tt, t1)
            end
      end
  end.

(* connect / disconnect: send SNRM / DISC, wait for the UA *)
Definition t_unnumbered (t : transport) (k : fkind) : event * transport :=
  let fr := {| f_dest := t_server t; f_src := t_client t; f_payload := None; f_segmented := false; f_final := true;
               f_ssn := 0; f_rsn := 0 |} in
  match conn_send (t_conn t) k fr with
  | (Err e, c1) => (ERaise e, upd t c1 (t_out t) (t_ser t))
  | (Ok fb, c1) =>
      let t1 := upd t c1 (t_out t ++ fb) (t_ser t) in
      match drain_out (S (length (t_out t1))) t1 with
      | (Err e, t2) => (ERaise e, t2)
      | (Ok _, t2) => t_next_event (ev_fuel t2) t2
      end
  end.
Definition t_connect (t : transport) : event * transport :=
  if negb (l_state (c_link (t_conn t)) =? 0) then (ERaise ERefused, t) else t_unnumbered t KSnrm.
Definition t_disconnect (t : transport) : event * transport := t_unnumbered t KDisc.

(* the response collection loop of send() *)
Fixpoint collect (fuel : nat) (t : transport) (acc : bytes) : res bytes * transport :=
  match fuel with
  | O => (Err EFuel, t)
  | S f =>
      let '(e, t1) := t_next_event (ev_fuel t) t in
      match e with
      | EFrame _ fr =>
          let acc' := acc ++ match f_payload fr with Some p => p | None => [] end in
          let after_rr : res unit * transport :=
            if f_segmented fr && f_final fr then
              let rr := {| f_dest := t_server t1; f_src := t_client t1; f_payload := None; f_segmented := false;
                           f_final := true; f_ssn := 0; f_rsn := server_rsn (c_link (t_conn t1)) |} in
              match conn_send (t_conn t1) KRr rr with
              | (Err x, c1) => (Err x, upd t1 c1 (t_out t1) (t_ser t1))
              | (Ok fb, c1) => drain_out (S (length (t_out t1 ++ fb))) (upd t1 c1 (t_out t1 ++ fb) (t_ser t1))
              end
            else (Ok tt, t1) in
          match after_rr with
          | (Err x, t2) => (Err x, t2)
          | (Ok _, t2) =>
              if f_segmented fr && negb (f_final fr) then collect f t2 acc'
              else if negb (f_segmented fr) && f_final fr then (Ok acc', t2)
              else collect f t2 acc'
          end
      | ERaise x => (Err x, t1)
      | ENeedData => (Err EFuel, t1)
      end
  end.

(* SerialHdlcTransport.send *)
Definition t_send (t : transport) (telegram : bytes) : res bytes * transport :=
  let t0 := upd t (t_conn t) (t_out t ++ LLC_COMMAND ++ telegram) (t_ser t) in
  match drain_out (S (length (t_out t0))) t0 with
  | (Err e, t1) => (Err e, t1)
  | (Ok _, t1) =>
      match collect (S (length (pending (t_ser t1))) + 50) t1 [] with
      | (Err e, t2) => (Err e, t2)
      | (Ok buf, t2) =>
          if list_eqb (firstn 3 buf) LLC_RESPONSE then (Ok (skipn 3 buf), t2) else (Err ERefused, t2)
      end
  end.
