(* Error detection of the frame check sequence: the CRC register is linear over GF(2) in (register, message), so a
   corrupted message passes the check only if the error pattern alone has syndrome zero; every error pattern that is a
   single burst of at most 16 bits (in wire order), in particular every single-bit error, has a non-zero syndrome. *)
From Dlms Require Import Base Sweep CrcSpec.
From Coq Require Import ZifyBool ZifyN.

Lemma lxor_shuffle a b c d : N.lxor (N.lxor a b) (N.lxor c d) = N.lxor (N.lxor a c) (N.lxor b d).
Proof. apply N.bits_inj. intros n. rewrite !N.lxor_spec. destruct (N.testbit a n), (N.testbit b n), (N.testbit c n), (N.testbit d n); reflexivity. Qed.

Lemma lsbstep_linear a b : lsbstep (N.lxor a b) = N.lxor (lsbstep a) (lsbstep b).
Proof.
  unfold lsbstep. rewrite N.shiftr_lxor, N.lxor_spec.
  destruct (N.testbit a 0), (N.testbit b 0); cbn [xorb].
  all: apply N.bits_inj; intros n; rewrite ?N.lxor_spec;
    destruct (N.testbit (N.shiftr a 1) n), (N.testbit (N.shiftr b 1) n), (N.testbit 33800 n); reflexivity.
Qed.
Lemma iter_linear n a b : iter n lsbstep (N.lxor a b) = N.lxor (iter n lsbstep a) (iter n lsbstep b).
Proof. revert a b. induction n as [|n IH]; intros a b; cbn [iter]; [reflexivity|]. rewrite lsbstep_linear. apply IH. Qed.
Lemma x25_byte_linear r r' b b' : x25_byte (N.lxor r r') (N.lxor b b') = N.lxor (x25_byte r b) (x25_byte r' b').
Proof. unfold x25_byte. rewrite lxor_shuffle. apply iter_linear. Qed.

(* the register after a message with an error pattern xor-ed onto it *)
Theorem crc_linear m : forall e r r', length m = length e ->
  fold_left x25_byte (xor_bytes m e) (N.lxor r r') = N.lxor (fold_left x25_byte m r) (fold_left x25_byte e r').
Proof.
  induction m as [|x m IH]; intros [|y e] r r' H; try discriminate; cbn [xor_bytes fold_left]; [reflexivity|].
  rewrite x25_byte_linear. apply IH. cbn in H. lia.
Qed.
Definition syndrome (e : bytes) : N := fold_left x25_byte e 0.
Corollary corrupted_register m e : length m = length e ->
  x25_reg (xor_bytes m e) = N.lxor (x25_reg m) (syndrome e).
Proof. intros H. unfold x25_reg, syndrome. rewrite <- (N.lxor_0_r 65535) at 1. apply crc_linear. exact H. Qed.

(* zero bytes in front of the error leave the zero register zero; zero bytes behind it never bring it back to zero *)
Lemma lsbstep_zero_iff s : s < 65536 -> (lsbstep s = 0 <-> s = 0).
Proof.
  intros Hs. split; [|intros ->; reflexivity]. unfold lsbstep. intros H.
  destruct (N.testbit s 0) eqn:B.
  - exfalso. apply N.lxor_eq in H. assert (N.shiftr s 1 < 32768).
    { rewrite N.shiftr_div_pow2. change (2 ^ 1) with 2. apply N.div_lt_upper_bound; lia. }
    change 0x8408 with 33800 in H. lia.
  - rewrite N.shiftr_div_pow2 in H. change (2 ^ 1) with 2 in H.
    assert (s mod 2 = 0). { rewrite <- N.bit0_mod. rewrite B. reflexivity. }
    pose proof (N.div_mod s 2 ltac:(lia)). lia.
Qed.
Lemma lsbstep_lt s : s < 65536 -> lsbstep s < 65536.
Proof.
  intros Hs. unfold lsbstep.
  assert (H : N.shiftr s 1 < 32768). { rewrite N.shiftr_div_pow2. change (2 ^ 1) with 2. apply N.div_lt_upper_bound; lia. }
  destruct (N.testbit s 0); [|lia].
  change 65536 with (2 ^ 16). apply N.log2_lt_pow2.
  - destruct (N.eq_dec (N.lxor (N.shiftr s 1) 33800) 0) as [E|E]; [|lia]. apply N.lxor_eq in E. lia.
  - destruct (N.eq_dec (N.lxor (N.shiftr s 1) 33800) 0) as [E|E]; [rewrite E; cbn; lia|].
    eapply N.le_lt_trans; [apply N.log2_lxor|]. apply N.max_lub_lt.
    + destruct (N.eq_dec (N.shiftr s 1) 0) as [->|Z]; [cbn; lia|]. apply N.log2_lt_pow2; [lia|]. change (2 ^ 16) with 65536. lia.
    + cbn. lia.
Qed.
Lemma iter_nonzero n s : s < 65536 -> s <> 0 -> iter n lsbstep s <> 0 /\ iter n lsbstep s < 65536.
Proof.
  revert s. induction n as [|n IH]; intros s Hs Hz; cbn [iter]; [split; assumption|].
  apply IH; [apply lsbstep_lt; exact Hs|]. intros E. apply (proj1 (lsbstep_zero_iff s Hs)) in E. contradiction.
Qed.
Lemma zeros_keep_zero k : fold_left x25_byte (repeat 0 k) 0 = 0.
Proof. induction k as [|k IH]; [reflexivity|]. cbn [repeat fold_left]. exact IH. Qed.
Lemma zeros_keep_nonzero k : forall s, s < 65536 -> s <> 0 ->
  fold_left x25_byte (repeat 0 k) s <> 0.
Proof.
  induction k as [|k IH]; intros s Hs Hz; cbn [repeat fold_left]; [exact Hz|].
  unfold x25_byte at 2. rewrite N.lxor_0_r. destruct (iter_nonzero 8 s Hs Hz) as [A B]. apply IH; assumption.
Qed.

(* every non-zero error burst of at most 16 bits, at any of the 8 bit offsets inside its first byte:
   the three bytes it can touch, in wire order (least significant bit of each byte first) *)
Definition burst_bytes (p s : N) : bytes := let w := p * 2 ^ s in [w mod 256; (w / 256) mod 256; w / 65536].
Definition chk_burst_at (p s : N) : bool := negb (syndrome (burst_bytes p s) =? 0).
Definition chk_burst (p : N) : bool := (p =? 0) || forall_below 8 (chk_burst_at p).
Lemma chk_burst_ok : forall_bits 16 chk_burst 0 = true. Proof. vm_compute. reflexivity. Qed.
Lemma chk_burst_nonzero p : chk_burst p = true -> p <> 0 -> forall_below 8 (chk_burst_at p) = true.
Proof. unfold chk_burst. intros H Hz. apply orb_prop in H. destruct H as [H|H]; [apply N.eqb_eq in H; contradiction|exact H]. Qed.
Lemma chk_burst_at_spec p s : chk_burst_at p s = true -> syndrome (burst_bytes p s) <> 0.
Proof. unfold chk_burst_at. generalize (syndrome (burst_bytes p s)) as X. intros X A. apply negb_true_iff in A. apply N.eqb_neq in A. exact A. Qed.

Lemma lxor_lt16 a b : a < 65536 -> b < 65536 -> N.lxor a b < 65536.
Proof.
  intros Ha Hb. destruct (N.eq_dec (N.lxor a b) 0) as [E|E]; [rewrite E; lia|].
  change 65536 with (2 ^ 16). apply N.log2_lt_pow2; [lia|]. eapply N.le_lt_trans; [apply N.log2_lxor|].
  apply N.max_lub_lt.
  - destruct (N.eq_dec a 0) as [->|Z]; [cbn; lia|]. apply N.log2_lt_pow2; [lia|exact Ha].
  - destruct (N.eq_dec b 0) as [->|Z]; [cbn; lia|]. apply N.log2_lt_pow2; [lia|exact Hb].
Qed.
Lemma iter_lt n s : s < 65536 -> iter n lsbstep s < 65536.
Proof. revert s. induction n as [|n IH]; intros s Hs; cbn [iter]; [exact Hs|]. apply IH. apply lsbstep_lt. exact Hs. Qed.
Lemma fold_lt e : bytes_ok e -> forall r, r < 65536 -> fold_left x25_byte e r < 65536.
Proof.
  induction 1 as [|b e Hb _ IH]; intros r Hr; cbn [fold_left]; [exact Hr|]. apply IH. unfold x25_byte. apply iter_lt.
  apply lxor_lt16; [exact Hr|]. unfold byte_ok in Hb. lia.
Qed.
Lemma burst_bytes_ok p s : p < 65536 -> s < 8 -> bytes_ok (burst_bytes p s).
Proof.
  intros Hp Hs. unfold burst_bytes. assert (H : p * 2 ^ s < 8388608).
  { assert (2 ^ s <= 2 ^ 7) by (apply N.pow_le_mono_r; lia). change (2 ^ 7) with 128 in *. nia. }
  repeat constructor; unfold byte_ok.
  - apply N.mod_lt. lia.
  - apply N.mod_lt. lia.
  - apply N.div_lt_upper_bound; lia.
Qed.
Lemma burst_syndrome p s : p < 65536 -> p <> 0 -> s < 8 ->
  syndrome (burst_bytes p s) <> 0 /\ syndrome (burst_bytes p s) < 65536.
Proof.
  intros Hp Hz Hs. split.
  - apply chk_burst_at_spec. apply (forall_below_spec 8 _ (chk_burst_nonzero p (sweep16 _ chk_burst_ok p Hp) Hz) s Hs).
  - unfold syndrome. apply fold_lt; [apply burst_bytes_ok; assumption|lia].
Qed.

(* an error pattern that is one burst of at most 16 bits anywhere in a message of any length *)
Definition burst_error (before after : nat) (p s : N) : bytes := repeat 0 before ++ burst_bytes p s ++ repeat 0 after.
Theorem burst_detected before after p s : p < 65536 -> p <> 0 -> s < 8 ->
  syndrome (burst_error before after p s) <> 0.
Proof.
  intros Hp Hz Hs. destruct (burst_syndrome p s Hp Hz Hs) as [A B].
  assert (E : syndrome (burst_error before after p s) = fold_left x25_byte (repeat 0 after) (syndrome (burst_bytes p s))).
  { unfold burst_error. generalize (burst_bytes p s) as w. intros w. unfold syndrome. rewrite !fold_left_app, zeros_keep_zero. reflexivity. }
  rewrite E. exact (zeros_keep_nonzero after _ B A).
Qed.
Lemma burst_error_length before after p s : length (burst_error before after p s) = (before + 3 + after)%nat.
Proof. unfold burst_error, burst_bytes. rewrite !app_length, !repeat_length. cbn [length]. lia. Qed.
Theorem corrupted_crc_differs m before after p s : p < 65536 -> p <> 0 -> s < 8 ->
  length m = (before + 3 + after)%nat ->
  x25_reg (xor_bytes m (burst_error before after p s)) <> x25_reg m.
Proof.
  intros Hp Hz Hs Hl. rewrite corrupted_register by (rewrite burst_error_length; exact Hl).
  intros E. apply (burst_detected before after p s Hp Hz Hs).
  apply N.lxor_eq. rewrite N.lxor_0_r. 
  assert (H : N.lxor (x25_reg m) (N.lxor (x25_reg m) (syndrome (burst_error before after p s))) = N.lxor (x25_reg m) (x25_reg m)) by (rewrite E; reflexivity).
  rewrite <- N.lxor_assoc, N.lxor_nilpotent, N.lxor_0_l in H. exact H.
Qed.

(* the same burst when it reaches the end of the protected span: only its first m bytes exist, the rest of the pattern is zero *)
Definition burst_error_end (before m : nat) (p s : N) : bytes := repeat 0 before ++ firstn m (burst_bytes p s).
Lemma burst_bytes_tail m p s : (m <= 3)%nat -> p * 2 ^ s < 256 ^ N.of_nat m ->
  burst_bytes p s = firstn m (burst_bytes p s) ++ repeat 0 (3 - m).
Proof.
  intros Hm H. unfold burst_bytes. destruct m as [|[|[|[|m]]]]; try lia; cbn [firstn Nat.sub repeat app].
  - change (256 ^ N.of_nat 0) with 1 in H. assert (E : p * 2 ^ s = 0) by lia. rewrite E. reflexivity.
  - change (256 ^ N.of_nat 1) with 256 in H. rewrite (N.div_small (p * 2 ^ s) 256) by exact H.
    rewrite (N.div_small (p * 2 ^ s) 65536) by lia. reflexivity.
  - change (256 ^ N.of_nat 2) with 65536 in H. rewrite (N.div_small (p * 2 ^ s) 65536) by exact H. reflexivity.
  - reflexivity.
Qed.
Theorem burst_at_end_detected before m p s : p < 65536 -> p <> 0 -> s < 8 -> (m <= 3)%nat -> p * 2 ^ s < 256 ^ N.of_nat m ->
  syndrome (burst_error_end before m p s) <> 0.
Proof.
  intros Hp Hz Hs Hm Hw E. destruct (burst_syndrome p s Hp Hz Hs) as [A _]. apply A.
  rewrite (burst_bytes_tail m p s Hm Hw). revert E. unfold burst_error_end.
  generalize (firstn m (burst_bytes p s)) as w. intros w E. unfold syndrome in *. rewrite fold_left_app in *.
  rewrite zeros_keep_zero in E. rewrite E. apply zeros_keep_zero.
Qed.
Theorem corrupted_at_end_differs msg before m p s : p < 65536 -> p <> 0 -> s < 8 -> (m <= 3)%nat -> p * 2 ^ s < 256 ^ N.of_nat m ->
  length msg = (before + m)%nat ->
  x25_reg (xor_bytes msg (burst_error_end before m p s)) <> x25_reg msg.
Proof.
  intros Hp Hz Hs Hm Hw Hl.
  assert (Le : length (burst_error_end before m p s) = (before + m)%nat).
  { unfold burst_error_end, burst_bytes. rewrite app_length, repeat_length, firstn_length. cbn [length]. lia. }
  rewrite corrupted_register by (rewrite Le; exact Hl).
  intros E. apply (burst_at_end_detected before m p s Hp Hz Hs Hm Hw).
  assert (H : N.lxor (x25_reg msg) (N.lxor (x25_reg msg) (syndrome (burst_error_end before m p s))) = N.lxor (x25_reg msg) (x25_reg msg)) by (rewrite E; reflexivity).
  rewrite <- N.lxor_assoc, N.lxor_nilpotent, N.lxor_0_l in H. exact H.
Qed.
