(* C18 (partial): the request is one correctly numbered information frame carrying LLC || APDU when it
   fits the maximum information size; the response collection loop returns exactly the concatenation
   of the segments' payloads without the LLC response header, acknowledging every segmented frame with
   a receive-ready frame, for every segmentation. *)
From Dlms Require Import Base AddrModel FrameModel HdlcConnModel TransportModel.

(* ---------- request framing ---------- *)
Theorem single_request_frame t f telegram fb c1 :
  t_out t = [] -> l_state (c_link (t_conn t)) = 1 ->
  (0 < length (LLC_COMMAND ++ telegram) <= t_max t)%nat ->
  let l := c_link (t_conn t) in
  let fr := {| f_dest := t_server t; f_src := t_client t; f_payload := Some (LLC_COMMAND ++ telegram);
               f_segmented := false; f_final := true; f_ssn := server_ssn l; f_rsn := server_rsn l |} in
  conn_send (t_conn t) KInfo fr = (Ok fb, c1) ->
  drain_out (S f) (upd t (t_conn t) (LLC_COMMAND ++ telegram) (t_ser t))
  = (Ok tt, upd t c1 [] (ser_write (t_ser t) fb)).
Proof.
  intros Hout Hst Hlen l fr Hsend. cbn [drain_out upd t_out t_conn t_max t_ser t_server t_client].
  change (LLC_COMMAND ++ telegram) with (230 :: ([230; 0] ++ telegram)) at 1. cbv iota.
  rewrite Hst. cbn [N.eqb Pos.eqb negb].
  rewrite firstn_all2 by lia. rewrite skipn_all2 by lia. cbn [length Nat.eqb negb].
  subst l fr. rewrite Hsend. reflexivity.
Qed.

(* ---------- response collection, for every segmentation ---------- *)
(* the successive events of the transport are the frames of [frs]; after a segmented+final frame a
   receive-ready frame is sent (and only then) *)
Definition send_rr (t1 : transport) : res unit * transport :=
  let rr := {| f_dest := t_server t1; f_src := t_client t1; f_payload := None; f_segmented := false;
               f_final := true; f_ssn := 0; f_rsn := server_rsn (c_link (t_conn t1)) |} in
  match conn_send (t_conn t1) KRr rr with
  | (Err x, c1) => (Err x, upd t1 c1 (t_out t1) (t_ser t1))
  | (Ok fb, c1) => drain_out (S (length (t_out t1 ++ fb))) (upd t1 c1 (t_out t1 ++ fb) (t_ser t1))
  end.

Inductive delivers : transport -> list (fkind * frame) -> nat -> transport -> Prop :=
| del_nil t : delivers t [] 0 t
| del_cons t k fr t1 t2 frs n t' :
    t_next_event (ev_fuel t) t = (EFrame k fr, t1) ->
    (if f_segmented fr && f_final fr then send_rr t1 = (Ok tt, t2) else t2 = t1) ->
    delivers t2 frs n t' ->
    delivers t ((k, fr) :: frs) (if f_segmented fr && f_final fr then S n else n) t'.

Definition payload_of (fr : frame) : bytes := match f_payload fr with Some p => p | None => [] end.
(* a segmentation: every frame but the last announces more (segmented), the last is unsegmented and final *)
Fixpoint is_segmentation (frs : list (fkind * frame)) : Prop :=
  match frs with
  | [] => False
  | [(_, fr)] => f_segmented fr = false /\ f_final fr = true
  | (_, fr) :: rest => f_segmented fr = true /\ is_segmentation rest
  end.

Theorem collect_returns_concatenation frs : forall t n t' acc fuel,
  is_segmentation frs -> delivers t frs n t' -> (length frs <= fuel)%nat ->
  collect fuel t acc = (Ok (acc ++ concat (map (fun x => payload_of (snd x)) frs)), t').
Proof.
  induction frs as [|[k fr] rest IH]; intros t n t' acc fuel Hseg Hdel Hf; [contradiction|].
  destruct fuel as [|fu]; [cbn in Hf; lia|].
  inversion Hdel as [|? ? ? t1 t2 ? n' ? Hnext Hrr Hrest]; subst.
  cbn [collect]. rewrite Hnext. fold (send_rr t1).
  destruct rest as [|[k2 fr2] rest'].
  - (* last frame: unsegmented and final *)
    destruct Hseg as [Hs Hfin]. rewrite Hs, Hfin in *. cbn [andb negb] in *. subst t2.
    inversion Hrest; subst. cbn [map concat snd]. rewrite app_nil_r. unfold payload_of. reflexivity.
  - destruct Hseg as [Hs Hseg']. rewrite Hs in *. cbn [andb negb] in *.
    destruct (f_final fr) eqn:Hfin.
    + rewrite Hrr. cbn [negb]. cbn [map concat snd]. rewrite app_assoc. unfold payload_of at 1.
      apply (IH t2 _ t' _ fu Hseg' Hrest). cbn [length] in *. lia.
    + subst t2. cbn [negb]. cbn [map concat snd]. rewrite app_assoc. unfold payload_of at 1.
      apply (IH t1 _ t' _ fu Hseg' Hrest). cbn [length] in *. lia.
Qed.

(* the number of receive-ready frames equals the number of segmented+final frames *)
Theorem rr_count frs : forall t n t', delivers t frs n t' ->
  n = length (filter (fun x => f_segmented (snd x) && f_final (snd x)) frs).
Proof.
  induction frs as [|[k fr] rest IH]; intros t n t' H; inversion H; subst; [reflexivity|].
  cbn [filter snd]. match goal with Hd : delivers _ rest _ _ |- _ => specialize (IH _ _ _ Hd) end.
  destruct (f_segmented fr && f_final fr); cbn [length]; congruence.
Qed.

(* send(): the answer is returned without the LLC response header; anything else is refused *)
Theorem send_strips_llc t telegram t1 frs n t2 answer :
  drain_out (S (length (t_out t ++ LLC_COMMAND ++ telegram))) (upd t (t_conn t) (t_out t ++ LLC_COMMAND ++ telegram) (t_ser t)) = (Ok tt, t1) ->
  is_segmentation frs -> delivers t1 frs n t2 -> (length frs <= S (length (pending (t_ser t1))) + 50)%nat ->
  concat (map (fun x => payload_of (snd x)) frs) = LLC_RESPONSE ++ answer ->
  t_send t telegram = (Ok answer, t2).
Proof.
  intros Hd Hseg Hdel Hf Hcat. unfold t_send. cbn [t_out upd] in *. rewrite Hd.
  rewrite (collect_returns_concatenation frs t1 n t2 [] _ Hseg Hdel Hf). cbn [app]. rewrite Hcat.
  reflexivity.
Qed.
