(* Foundations shared by every model: result type, byte lists, big-endian
   integers, Python-style slicing, and the universal value type [V] through
   which the harness talks to the model (extracted or evaluated in the kernel). *)
From Coq Require Export NArith ZArith List Bool Arith Lia.
Export ListNotations.
Open Scope N_scope.

(* ---------- results ---------- *)
(* Error classes (coarse, see harness/lib.py, ERR codes:
   1 refused (ValueError/IndexError/KeyError/parse error ... any ordinary exception)
   2 out of fuel = the implementation does not terminate
   3 protocol error (LocalProtocolError / LocalDlmsProtocolError)
   4 pre-established association error
   5 decryption error (tag mismatch)
   6 need data (HDLC)                                                      *)
Inductive res (A : Type) := Ok (a : A) | Err (e : N).
Arguments Ok {A}. Arguments Err {A}.
Definition ERefused := 1. Definition EFuel := 2. Definition EProto := 3.
Definition EPreEst := 4. Definition EDecrypt := 5.

Definition bind {A B} (x : res A) (f : A -> res B) : res B :=
  match x with Ok a => f a | Err e => Err e end.
Notation "'do' x <- a ; b" := (bind a (fun x => b))
  (at level 200, x pattern, a at level 100, b at level 200).
Definition is_ok {A} (x : res A) : bool := match x with Ok _ => true | Err _ => false end.

(* ---------- bytes ---------- *)
Definition bytes := list N.
Definition byte_ok (b : N) : Prop := b < 256.
Definition bytes_ok (l : bytes) : Prop := Forall byte_ok l.
Definition bytes_okb (l : bytes) : bool := forallb (fun b => b <? 256) l.

Lemma bytes_okb_spec l : bytes_okb l = true <-> bytes_ok l.
Proof.
  unfold bytes_okb, bytes_ok. rewrite forallb_forall, Forall_forall.
  split; intros H x Hx; specialize (H x Hx); [apply N.ltb_lt in H | apply N.ltb_lt]; exact H.
Qed.

Definition len (l : bytes) : N := N.of_nat (length l).

(* Python  l[a:b]  for 0 <= a, b (clamped) *)
Definition slice {A} (a b : nat) (l : list A) : list A := firstn (b - a) (skipn a l).
(* Python  l[-k:]  and  l[:-k]  for k > 0 *)
Definition lastn {A} (k : nat) (l : list A) : list A := skipn (length l - k) l.
Definition droplast {A} (k : nat) (l : list A) : list A := firstn (length l - k) l.

(* int.to_bytes(k, 'big') for 0 <= n; OverflowError when it does not fit *)
Fixpoint be_bytes (k : nat) (n : N) : bytes :=
  match k with
  | O => []
  | S k' => be_bytes k' (n / 256) ++ [n mod 256]
  end.
Definition to_bytes_be (k : nat) (n : N) : res bytes :=
  if n <? 256 ^ N.of_nat k then Ok (be_bytes k n) else Err ERefused.
(* int.from_bytes(l, 'big') *)
Definition be_val (l : bytes) : N := fold_left (fun acc b => acc * 256 + b) l 0.
(* signed variants *)
Definition be_val_signed (l : bytes) : Z :=
  let v := be_val l in
  let w := 256 ^ len l in
  if (2 * v <? w) then Z.of_N v else (Z.of_N v - Z.of_N w)%Z.
Definition to_bytes_be_signed (k : nat) (z : Z) : res bytes :=
  let w := (256 ^ Z.of_nat k)%Z in
  if ((- (w / 2) <=? z) && (z <? w / 2))%Z
  then Ok (be_bytes k (Z.to_N (z mod w)))
  else Err ERefused.

Fixpoint xor_bytes (a b : bytes) : bytes :=
  match a, b with x :: a', y :: b' => N.lxor x y :: xor_bytes a' b' | _, _ => [] end.

Fixpoint list_eqb (a b : bytes) : bool :=
  match a, b with
  | [], [] => true
  | x :: a', y :: b' => (x =? y) && list_eqb a' b'
  | _, _ => false
  end.

Lemma list_eqb_eq a b : list_eqb a b = true <-> a = b.
Proof.
  revert b; induction a as [|x a IH]; intros [|y b]; simpl; split; intros H;
    try reflexivity; try discriminate.
  - apply andb_prop in H as [H1 H2]. apply N.eqb_eq in H1. apply IH in H2. congruence.
  - inversion H; subst. rewrite N.eqb_refl. simpl. apply IH. reflexivity.
Qed.

Lemma list_eqb_refl a : list_eqb a a = true.
Proof. apply list_eqb_eq. reflexivity. Qed.

(* ---------- the universal value type ---------- *)
Inductive V :=
| VNone
| VBool (b : bool)
| VInt (z : Z)
| VBytes (l : bytes)
| VList (l : list V)
| VErr (e : N).

Definition VN (n : N) : V := VInt (Z.of_N n).
Definition v_res {A} (f : A -> V) (r : res A) : V :=
  match r with Ok a => f a | Err e => VErr e end.
Definition v_opt {A} (f : A -> V) (o : option A) : V :=
  match o with Some a => f a | None => VNone end.
Definition v_nat (n : nat) : V := VInt (Z.of_nat n).

(* argument access: anything unexpected is a harness error, reported as VErr 99 *)
Definition bad_args : V := VErr 99.
Definition as_n (v : V) : N := match v with VInt z => Z.to_N z | VBool true => 1 | _ => 0 end.
Definition as_z (v : V) : Z := match v with VInt z => z | _ => 0%Z end.
Definition as_b (v : V) : bool := match v with VBool b => b | _ => false end.
Definition as_bytes (v : V) : bytes := match v with VBytes l => l | _ => [] end.
Definition as_list (v : V) : list V := match v with VList l => l | _ => [] end.
Definition arg (i : nat) (v : V) : V := nth i (as_list v) VNone.
Definition is_none (v : V) : bool := match v with VNone => true | _ => false end.

(* ---------- length lemmas ---------- *)
Lemma be_bytes_length k n : length (be_bytes k n) = k.
Proof. revert n; induction k as [|k IH]; intros n; simpl; [reflexivity|].
  rewrite app_length, IH. simpl. lia. Qed.

Lemma be_bytes_ok k n : bytes_ok (be_bytes k n).
Proof.
  revert n; induction k as [|k IH]; intros n; simpl; [constructor|].
  apply Forall_app; split; [apply IH|]. constructor; [|constructor].
  unfold byte_ok. apply N.mod_lt. lia.
Qed.

Lemma be_val_app a b : be_val (a ++ [b]) = be_val a * 256 + b.
Proof. unfold be_val. rewrite fold_left_app. reflexivity. Qed.

Lemma be_val_be_bytes k n : n < 256 ^ N.of_nat k -> be_val (be_bytes k n) = n.
Proof.
  revert n; induction k as [|k IH]; intros n Hn.
  - simpl in *. unfold be_val; simpl. lia.
  - cbn [be_bytes]. rewrite be_val_app. rewrite IH.
    + pose proof (N.div_mod n 256). lia.
    + rewrite Nat2N.inj_succ, N.pow_succ_r' in Hn.
      apply N.div_lt_upper_bound; lia.
Qed.

Lemma firstn_app_exact {A} (a b : list A) n : length a = n -> firstn n (a ++ b) = a.
Proof. intros <-. rewrite firstn_app, Nat.sub_diag, firstn_all. simpl. apply app_nil_r. Qed.
Lemma skipn_app_exact {A} (a b : list A) n : length a = n -> skipn n (a ++ b) = b.
Proof. intros <-. rewrite skipn_app, Nat.sub_diag, skipn_all. reflexivity. Qed.

Fixpoint v_eqb (a b : V) : bool :=
  match a, b with
  | VNone, VNone => true
  | VBool x, VBool y => Bool.eqb x y
  | VInt x, VInt y => Z.eqb x y
  | VBytes x, VBytes y => list_eqb x y
  | VErr x, VErr y => N.eqb x y
  | VList x, VList y =>
      (fix go (x y : list V) : bool :=
         match x, y with
         | [], [] => true
         | a' :: x', b' :: y' => v_eqb a' b' && go x' y'
         | _, _ => false
         end) x y
  | _, _ => false
  end.

Lemma skipn_skipn' {A} (a b : nat) (l : list A) : skipn a (skipn b l) = skipn (b + a) l.
Proof.
  revert l; induction b as [|b IH]; intros l; [reflexivity|].
  destruct l as [|x l]; [rewrite !skipn_nil; reflexivity|]. cbn [skipn Nat.add]. apply IH.
Qed.
