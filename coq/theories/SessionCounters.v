(* C11/C18: over a whole session the link's counters count the information frames sent and received,
   modulo 8 - whatever the number of exchanges and the segmentation of each answer *)
From Dlms Require Import Base AddrModel FrameModel HdlcConnModel HdlcStreamProofs TransportModel TransportE2E TransportMeter.
From Coq Require Import ZifyBool ZifyN.
Ltac Zify.zify_post_hook ::= Z.to_euclidean_division_equations.

Definition small (l : link) : Prop := client_ssn l < 8 /\ client_rsn l < 8 /\ server_ssn l < 8 /\ server_rsn l < 8.

Lemma wrap8_lt x : wrap8 x < 8.
Proof. unfold wrap8. destruct (N.ltb_spec 7 x); lia. Qed.
Lemma wrap8_add1 x : x < 8 -> wrap8 (x + 1) = (x + 1) mod 8.
Proof. intros H. unfold wrap8. destruct (N.ltb_spec 7 (x + 1)); lia. Qed.
Lemma wrap8_id x : x < 8 -> wrap8 x = x.
Proof. intros H. unfold wrap8. destruct (N.ltb_spec 7 x); lia. Qed.

(* receiving the segments ps: client_ssn / server_rsn advance by their number *)
Lemma link_after_counts : forall ps l, small l ->
  small (link_after l ps) /\
  client_ssn (link_after l ps) = (client_ssn l + N.of_nat (length ps)) mod 8 /\
  server_rsn (link_after l ps) = (server_rsn l + N.of_nat (length ps)) mod 8 /\
  client_rsn (link_after l ps) = client_rsn l /\ server_ssn (link_after l ps) = server_ssn l.
Proof.
  induction ps as [|p r IH]; intros l (A & B & C & D).
  - cbn [link_after length]. repeat split; try assumption; try (rewrite N.add_0_r, N.mod_small; lia).
  - destruct r as [|p2 r'].
    + cbn [link_after length recv_info client_ssn client_rsn server_ssn server_rsn]. unfold small. cbn [recv_info client_ssn client_rsn server_ssn server_rsn].
      rewrite !wrap8_add1, !wrap8_id by assumption. repeat split; try assumption; try lia.
    + change (link_after l (p :: p2 :: r')) with (link_after (sent_rr (recv_info l)) (p2 :: r')).
      assert (Hs : small (sent_rr (recv_info l))).
      { unfold small, sent_rr, recv_info. cbn [client_ssn client_rsn server_ssn server_rsn]. repeat split; apply wrap8_lt. }
      destruct (IH (sent_rr (recv_info l)) Hs) as (S' & E1 & E2 & E3 & E4).
      split; [exact S'|]. rewrite E1, E2, E3, E4. unfold sent_rr, recv_info. cbn [client_ssn client_rsn server_ssn server_rsn].
      rewrite !wrap8_add1, !wrap8_id by assumption.
      change (length (p :: p2 :: r')) with (S (length (p2 :: r'))). rewrite Nat2N.inj_succ.
      repeat split; lia.
Qed.

Definition segments (es : list exchange) : nat := fold_right (fun e n => (length (snd (fst e)) + n)%nat) 0%nat es.

(* over a session: requests sent = exchanges, frames received = segments *)
Theorem session_counters : forall es l, small l ->
  small (session_link l es) /\
  server_ssn (session_link l es) = (server_ssn l + N.of_nat (length es)) mod 8 /\
  client_rsn (session_link l es) = (client_rsn l + N.of_nat (length es)) mod 8 /\
  client_ssn (session_link l es) = (client_ssn l + N.of_nat (segments es)) mod 8 /\
  server_rsn (session_link l es) = (server_rsn l + N.of_nat (segments es)) mod 8.
Proof.
  induction es as [|[[x ps] a] r IH]; intros l (A & B & C & D).
  - cbn [session_link length segments fold_right]. repeat split; try assumption; rewrite N.add_0_r, N.mod_small; lia.
  - cbn [session_link].
    assert (Hs : small (after_request l)).
    { unfold small, after_request. cbn [client_ssn client_rsn server_ssn server_rsn]. repeat split; apply wrap8_lt. }
    destruct (link_after_counts ps (after_request l) Hs) as (S1 & E1 & E2 & E3 & E4).
    destruct (IH (link_after (after_request l) ps) S1) as (S2 & F1 & F2 & F3 & F4).
    split; [exact S2|]. rewrite F1, F2, F3, F4, E1, E2, E3, E4.
    unfold after_request. cbn [client_ssn client_rsn server_ssn server_rsn].
    rewrite !wrap8_add1, !wrap8_id by assumption.
    cbn [length segments fold_right fst snd]. fold (segments r).
    rewrite Nat2N.inj_succ, Nat2N.inj_add. repeat split; lia.
Qed.
