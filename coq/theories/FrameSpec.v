(* Reference layout of HDLC frames (format type 3).  No proofs here. *)
From Dlms Require Import Base CrcSpec FieldsSpec AddrModel AddrSpec FrameModel.

(* ---------- reference layout ---------- *)
Definition std_control (k : fkind) (f : frame) : N :=
  match k with
  | KSnrm => std_ctrl_SNRM true | KUa => std_ctrl_UA true | KDisc => std_ctrl_DISC true
  | KRr => std_ctrl_RR (f_rsn f) true
  | KInfo => std_ctrl_I (f_ssn f) (f_rsn f) (f_final f)
  | KUi => std_ctrl_UI (f_final f)
  end.
Definition std_info (k : fkind) (f : frame) : bytes :=
  match k with KUa | KInfo | KUi => match f_payload f with Some p => p | None => [] end | _ => [] end.
(* everything between the flags: format(2) dest src control(1) [HCS(2)] info FCS(2) *)
Definition std_length (k : fkind) (f : frame) : N :=
  2 + len (std_addr (f_dest f)) + len (std_addr (f_src f)) + 1
  + (match k with KUa | KInfo | KUi => 2 | _ => 0 end) + len (std_info k f) + 2.
Definition std_frame_header (k : fkind) (f : frame) : bytes :=
  std_format (std_length k f) (f_segmented f) ++ std_addr (f_dest f) ++ std_addr (f_src f) ++ [std_control k f].
Definition std_frame (k : fkind) (f : frame) : bytes :=
  let h := std_frame_header k f in
  let hcs := match k with KUa | KInfo | KUi => x25_fcs h | _ => [] end in
  let content := h ++ hcs ++ std_info k f in
  [126] ++ content ++ x25_fcs content ++ [126].

Definition frame_ok (k : fkind) (f : frame) : Prop :=
  addr_ok (f_dest f) /\ addr_ok (f_src f) /\ f_ssn f < 8 /\ f_rsn f < 8 /\
  bytes_ok (std_info k f) /\ std_length k f <= 2047.

