(* C09: parsing the standard bytes of a frame returns the frame (addresses, numbers, poll/final and segmentation bits,
   payload), for every frame in the domain and every parser the library has. *)
From Dlms Require Import Base Sweep CrcModel CrcSpec CrcProofs FieldsModel FieldsSpec FieldsProofs
  AddrModel AddrSpec AddrProofs FrameModel FrameSpec FrameProofs.
From Coq Require Import ZifyBool ZifyN.

Lemma slice_mid {A} (pre mid post : list A) a b : a = length pre -> b = (length pre + length mid)%nat ->
  slice a b (pre ++ mid ++ post) = mid.
Proof.
  intros -> ->. unfold slice. rewrite skipn_app_exact by reflexivity.
  replace (length pre + length mid - length pre)%nat with (length mid) by lia. apply firstn_app_exact. reflexivity.
Qed.
Lemma last_app_single {A} (l : list A) x d : last (l ++ [x]) d = x.
Proof. induction l as [|y l IH]; [reflexivity|]. cbn [app]. destruct (l ++ [x]) eqn:E; [destruct l; discriminate|]. cbn [last]. exact IH. Qed.

(* what the parsers return: the attributes a frame of that kind carries *)
Definition is_disc (k : fkind) : bool := match k with KDisc => true | _ => false end.
Definition norm (k : fkind) (f : frame) : frame :=
  {| f_dest := f_dest f; f_src := f_src f;
     f_payload := match k with KUa | KInfo | KUi => Some (std_info k f) | _ => None end;
     f_segmented := f_segmented f;
     f_final := match k with KInfo | KUi => f_final f | _ => true end;
     f_ssn := match k with KInfo => f_ssn f | _ => 0 end;
     f_rsn := match k with KInfo | KRr => f_rsn f | _ => 0 end |}.

Section roundtrip.
  Variables (k : fkind) (f : frame).
  Hypothesis Hok : frame_ok k f.
  Hypothesis Hdir_d : a_server (f_dest f) = is_disc k.
  Hypothesis Hdir_s : a_server (f_src f) = negb (is_disc k).

  Let Da := std_addr (f_dest f).
  Let Sa := std_addr (f_src f).
  Let L := std_length k f.
  Let c := std_control k f.
  Let H := std_frame_header k f.
  Let hcs := match k with KUa | KInfo | KUi => x25_fcs H | _ => [] end.
  Let info := std_info k f.
  Let content := H ++ hcs ++ info.
  Let fcs := x25_fcs content.
  Let b := std_frame k f.

  Let f0 := 0xA0 + (if f_segmented f then 8 else 0) + L / 256.
  Let f1 := L mod 256.

  Lemma H_shape : H = [f0; f1] ++ Da ++ Sa ++ [c]. Proof. reflexivity. Qed.
  Lemma b_shape : b = [126] ++ ([f0; f1] ++ Da ++ Sa ++ [c]) ++ hcs ++ info ++ fcs ++ [126].
  Proof. unfold b, std_frame. fold H. fold hcs. fold info. fold content. fold fcs. unfold content. rewrite H_shape.
    cbn [app]. rewrite <- !app_assoc. reflexivity. Qed.

  Lemma len_hcs : length hcs = match k with KUa | KInfo | KUi => 2%nat | _ => 0%nat end.
  Proof. unfold hcs. destruct k; reflexivity. Qed.
  Lemma L_value : L = N.of_nat (2 + length Da + length Sa + 1 + length hcs + length info + 2).
  Proof. unfold L, std_length. fold Da Sa info. rewrite len_hcs. unfold len. destruct k; lia. Qed.
  Lemma len_b : len b = L + 2.
  Proof. rewrite b_shape, L_value. unfold len. repeat (rewrite app_length || cbn [length]).
    change (length fcs) with 2%nat. lia. Qed.

  Lemma prelude_ok : parse_prelude b = Ok (L, f_segmented f).
  Proof.
    pose proof Hok as (_ & _ & _ & _ & _ & HL).
    destruct (format_encode_roundtrip L (f_segmented f) HL) as (x & _ & _ & Hf).
    unfold parse_prelude. assert (E : enclosed_by_flags b = Ok true).
    { assert (Hl : last b 0 = 126) by (rewrite b_shape, !app_assoc; apply last_app_single).
      unfold enclosed_by_flags, last_byte. rewrite Hl. rewrite b_shape. reflexivity. }
    rewrite E. cbn [bind negb].
    assert (Sl : slice 1 3 b = [f0; f1]).
    { rewrite b_shape. rewrite <- !app_assoc. apply (slice_mid [126] [f0; f1]); reflexivity. }
    rewrite Sl. change (std_format L (f_segmented f)) with [f0; f1] in Hf.
    unfold fmt_from_bytes in Hf. cbn [length Nat.eqb negb] in Hf |- *.
    destruct (negb (N.land (nth 0 [f0; f1] 0) 240 =? 160)); [discriminate|].
    unfold nz in Hf. rewrite Hf. cbn [bind fst]. rewrite len_b. rewrite N.eqb_refl. reflexivity.
  Qed.

  Lemma D_is : addr_to_bytes (f_dest f) = Da. Proof. apply addr_encode_is_standard. apply Hok. Qed.
  Lemma S_is : addr_to_bytes (f_src f) = Sa. Proof. apply addr_encode_is_standard. apply Hok. Qed.

  Lemma addresses_ok : destination_from_bytes b (is_disc k) = Ok (f_dest f) /\ source_from_bytes b (negb (is_disc k)) = Ok (f_src f).
  Proof.
    pose proof Hok as (Hd & Hs & _).
    pose proof (addr_objects_roundtrip (f_dest f) (f_src f) f0 f1 ([c] ++ hcs ++ info ++ fcs ++ [126]) Hd Hs) as R.
    cbv zeta in R. rewrite D_is, S_is, Hdir_d, Hdir_s in R.
    replace b with ([126; f0; f1] ++ Da ++ Sa ++ [c] ++ hcs ++ info ++ fcs ++ [126]); [exact R|].
    rewrite b_shape. cbn [app]. rewrite <- !app_assoc. reflexivity.
  Qed.

  Let cpos := (1 + 2 + length Da + length Sa)%nat.
  Lemma cpos_is : (1 + 2 + addr_length (f_dest f) + addr_length (f_src f))%nat = cpos.
  Proof. unfold addr_length. rewrite D_is, S_is. reflexivity. Qed.
  Lemma control_slice : slice cpos (cpos + 1) b = [c].
  Proof.
    rewrite b_shape. replace ([126] ++ ([f0; f1] ++ Da ++ Sa ++ [c]) ++ hcs ++ info ++ fcs ++ [126])
      with (([126; f0; f1] ++ Da ++ Sa) ++ [c] ++ (hcs ++ info ++ fcs ++ [126])) by (cbn [app]; rewrite <- !app_assoc; reflexivity).
    apply slice_mid; unfold cpos; repeat (rewrite app_length || cbn [length]); lia.
  Qed.
  Lemma header_slice : slice 1 (S cpos) b = H.
  Proof.
    rewrite b_shape. rewrite <- H_shape. apply (slice_mid [126] H); [reflexivity|].
    rewrite H_shape. unfold cpos. repeat (rewrite app_length || cbn [length]). lia.
  Qed.
  Lemma len_b_nat : length b = (S cpos + length hcs + length info + 3)%nat.
  Proof. rewrite b_shape. unfold cpos. repeat (rewrite app_length || cbn [length]). change (length fcs) with 2%nat. lia. Qed.
  Lemma len_H : length H = cpos.
  Proof. rewrite H_shape. unfold cpos. repeat (rewrite app_length || cbn [length]). lia. Qed.
  Lemma hcs_slice : has_hcs k = true -> slice (S cpos) (S cpos + 2) b = hcs.
  Proof.
    intros Hh. assert (L2 : length hcs = 2%nat) by (rewrite len_hcs; destruct k; try discriminate Hh; reflexivity).
    rewrite b_shape, <- H_shape.
    replace ([126] ++ H ++ hcs ++ info ++ fcs ++ [126]) with (([126] ++ H) ++ hcs ++ (info ++ fcs ++ [126])) by (rewrite <- !app_assoc; reflexivity).
    apply slice_mid; rewrite app_length, len_H; cbn [length]; lia.
  Qed.
  Lemma info_slice_is : info_slice (S cpos + length hcs) b = info.
  Proof.
    unfold info_slice. rewrite len_b_nat. rewrite b_shape, <- H_shape.
    replace ([126] ++ H ++ hcs ++ info ++ fcs ++ [126]) with (([126] ++ H ++ hcs) ++ info ++ (fcs ++ [126])) by (rewrite <- !app_assoc; reflexivity).
    apply slice_mid; repeat (rewrite app_length || cbn [length]); rewrite len_H; lia.
  Qed.
  Lemma content_slice : slice 1 (length b - 3) b = content.
  Proof.
    rewrite len_b_nat. rewrite b_shape, <- H_shape.
    replace ([126] ++ H ++ hcs ++ info ++ fcs ++ [126]) with ([126] ++ content ++ (fcs ++ [126])) by (unfold content; rewrite <- !app_assoc; reflexivity).
    apply slice_mid; [reflexivity|]. unfold content. rewrite !app_length, H_shape. unfold cpos. repeat (rewrite app_length || cbn [length]). lia.
  Qed.
  Lemma fcs_slice_is : fcs_slice b = fcs.
  Proof.
    unfold fcs_slice. rewrite len_b_nat. rewrite b_shape, <- H_shape.
    replace ([126] ++ H ++ hcs ++ info ++ fcs ++ [126]) with (([126] ++ content) ++ fcs ++ [126]) by (unfold content; rewrite <- !app_assoc; reflexivity).
    apply slice_mid; unfold content; rewrite !app_length, H_shape; unfold cpos; repeat (rewrite app_length || cbn [length]); change (length fcs) with 2%nat; lia.
  Qed.

  (* the parsed frame is again in the domain and re-encodes to the same header and content *)
  Lemma norm_ok : frame_ok k (norm k f).
  Proof.
    pose proof Hok as (A & B & C & Dd & Ee & F). unfold frame_ok.
    assert (I : std_info k (norm k f) = std_info k f) by (destruct k; reflexivity).
    assert (Ll : std_length k (norm k f) = std_length k f) by (unfold std_length; rewrite I; reflexivity).
    rewrite I, Ll. cbn [norm f_dest f_src f_ssn f_rsn]. repeat split; try assumption; destruct k; try assumption; lia.
  Qed.
  Lemma norm_header : std_frame_header k (norm k f) = H.
  Proof.
    unfold H, std_frame_header.
    assert (I : std_info k (norm k f) = std_info k f) by (destruct k; reflexivity).
    assert (Ll : std_length k (norm k f) = std_length k f) by (unfold std_length; rewrite I; reflexivity).
    rewrite Ll. cbn [norm f_dest f_src f_segmented]. do 3 f_equal. destruct k; reflexivity.
  Qed.
  Lemma header_of g : frame_ok k g -> header_content k g = Ok (std_frame_header k g).
  Proof.
    intros (Hd & Hs & Hssn & Hrsn & Hp & Hl). unfold header_content. rewrite (frame_length_is_std k g Hd Hs).
    destruct (format_encode_roundtrip (std_length k g) (f_segmented g) Hl) as (x & Hm & Hb & _).
    rewrite Hm. cbn [bind]. rewrite Hb. cbn [bind].
    rewrite (addr_encode_is_standard _ Hd), (addr_encode_is_standard _ Hs), (control_is_std k g Hssn Hrsn). reflexivity.
  Qed.
  Lemma H_ok : bytes_ok H. Proof. apply std_frame_header_ok. exact Hok. Qed.
  Lemma content_ok : bytes_ok content.
  Proof.
    pose proof Hok as (_ & _ & _ & _ & Hp & _).
    unfold content. apply bytes_ok_app; [apply H_ok|]. apply bytes_ok_app; [|exact Hp].
    assert (G : forall x, bytes_ok x -> bytes_ok (match k with KUa | KInfo | KUi => x25_fcs x | _ => [] end)).
    { intros x Hx. destruct k; first [apply x25_fcs_ok; exact Hx | constructor]. }
    apply G. apply H_ok.
  Qed.
  Lemma hcs_is : hcs_of k H = hcs.
  Proof. pose proof H_ok as Hh. unfold hcs_of, hcs. destruct k; cbn [has_hcs]; try reflexivity; apply crc_is_fcs; exact Hh. Qed.
  Lemma checks_ok : check_received b (if has_hcs k then Some (S cpos) else None) = Ok tt.
  Proof.
    unfold check_received. rewrite content_slice, fcs_slice_is.
    assert (F : check_eq fcs (crc content) = Ok tt).
    { unfold check_eq. rewrite (crc_is_fcs content content_ok). fold fcs. rewrite list_eqb_refl. reflexivity. }
    destruct (has_hcs k) eqn:Hh; [|cbn [bind]; exact F].
    rewrite (hcs_slice Hh), header_slice. unfold check_eq at 1.
    assert (E : crc H = hcs) by (rewrite <- hcs_is; unfold hcs_of; rewrite Hh; reflexivity).
    rewrite E, list_eqb_refl. cbn [bind]. exact F.
  Qed.
  Lemma reencode_ok : forall g, g = norm k f ->
    (do h <- header_content k g; do _ <- (if has_hcs k then check_eq (slice (S cpos) (S cpos + 2) b) (hcs_of k h) else Ok tt);
     do cc <- frame_content k g; do _ <- check_eq (fcs_slice b) (crc cc); Ok g) = Ok (norm k f).
  Proof.
    intros g ->. rewrite (header_of _ norm_ok), norm_header. cbn [bind].
    assert (C1 : (if has_hcs k then check_eq (slice (S cpos) (S cpos + 2) b) (hcs_of k H) else Ok tt) = Ok tt).
    { destruct (has_hcs k) eqn:Hh; [|reflexivity]. rewrite (hcs_slice Hh), hcs_is. unfold check_eq. rewrite list_eqb_refl. reflexivity. }
    rewrite C1. cbn [bind]. unfold frame_content. rewrite (header_of _ norm_ok), norm_header. cbn [bind].
    rewrite hcs_is, information_is_std.
    assert (I : std_info k (norm k f) = info) by (destruct k; reflexivity). rewrite I. fold content.
    rewrite fcs_slice_is. unfold check_eq. rewrite (crc_is_fcs content content_ok). fold fcs. rewrite list_eqb_refl. reflexivity.
  Qed.

  Theorem parse_of_build : k <> KSnrm -> frame_from_bytes k b = Ok (norm k f).
  Proof.
    intros Hk. pose proof Hok as (Hd & Hs & Hssn & Hrsn & Hp & HL). destruct addresses_ok as [Ad As].
    unfold frame_from_bytes. rewrite prelude_ok. cbn [bind snd].
    replace (match k with KDisc => true | _ => false end) with (is_disc k) by reflexivity.
    rewrite Ad, As. cbn [bind]. rewrite cpos_is.
    pose proof checks_ok as Ck. pose proof (reencode_ok) as Re. pose proof info_slice_is as Is. pose proof len_hcs as Lh. pose proof control_slice as Cs.
    destruct unnumbered_ctrl_bytes as (_ & _ & _ & _ & Eui).
    destruct k eqn:K; try contradiction; cbn [has_hcs] in Ck, Re.
    - (* UA *) rewrite Ck. cbn [bind].
      apply Re. unfold norm. rewrite Lh in Is. rewrite Is. reflexivity.
    - (* RR *) rewrite Cs. unfold c. cbn [std_control]. destruct (rr_encode_roundtrip (f_rsn f) Hrsn) as (_ & _ & Er). rewrite Er. cbn [bind].
      rewrite Ck. cbn [bind].
      specialize (Re {| f_dest := f_dest f; f_src := f_src f; f_payload := None; f_segmented := f_segmented f; f_final := true; f_ssn := 0; f_rsn := f_rsn f |} eq_refl).
      cbn [bind] in Re. unfold frame_content in *. destruct (header_content KRr _) as [h|]; [|discriminate]. cbn [bind] in *. exact Re.
    - (* I *) rewrite Cs. unfold c. cbn [std_control].
      destruct (ictrl_encode_roundtrip (f_ssn f) (f_rsn f) (f_final f) Hssn Hrsn) as (x & _ & _ & Ei). rewrite Ei. cbn [bind].
      rewrite Ck. cbn [bind].
      apply Re. unfold norm. rewrite Lh in Is. rewrite Is. reflexivity.
    - (* DISC *) rewrite Ck. cbn [bind].
      specialize (Re {| f_dest := f_dest f; f_src := f_src f; f_payload := None; f_segmented := f_segmented f; f_final := true; f_ssn := 0; f_rsn := 0 |} eq_refl).
      cbn [bind] in Re. unfold frame_content in *. destruct (header_content KDisc _) as [h|]; [|discriminate]. cbn [bind] in *. exact Re.
    - (* UI *) rewrite Cs. unfold c. cbn [std_control]. rewrite Eui. cbn [bind].
      rewrite Ck. cbn [bind].
      apply Re. unfold norm. rewrite Lh in Is. rewrite Is. reflexivity.
  Qed.
End roundtrip.
