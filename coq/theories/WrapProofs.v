(* RFC 3394: unwrapping a wrapped key returns the key, for any pair of block functions with D (E x) = x on 16-byte blocks. *)
From Dlms Require Import Base Aes Gcm.
From Coq Require Import ZifyBool ZifyN.

Lemma xor_bytes_involutive a b : length a = length b -> xor_bytes (xor_bytes a b) b = a.
Proof.
  revert b. induction a as [|x a IH]; intros [|y b] H; try discriminate; [reflexivity|]. cbn [xor_bytes].
  f_equal; [|apply IH; cbn in H; lia]. rewrite N.lxor_assoc, N.lxor_nilpotent, N.lxor_0_r. reflexivity.
Qed.
Lemma xor_bytes_len a b : length a = length b -> length (xor_bytes a b) = length a.
Proof. revert b. induction a as [|x a IH]; intros [|y b] H; try discriminate; [reflexivity|]. cbn. f_equal. apply IH. cbn in H. lia. Qed.

Section WRAP.
  Variable E D : bytes -> bytes.
  Hypothesis E_len : forall x, length x = 16%nat -> length (E x) = 16%nat.
  Hypothesis DE : forall x, length x = 16%nat -> D (E x) = x.

  Definition blocks8 (rs : list bytes) : Prop := Forall (fun r => length r = 8%nat) rs.

  (* one pass over the blocks, with the accumulators made explicit *)
  Lemma wrap_inner_spec rs : forall a done t, length a = 8%nat -> blocks8 rs ->
    exists a' out, wrap_inner E a rs done t = (a', done ++ out, t + N.of_nat (length rs)) /\ length a' = 8%nat /\ blocks8 out /\
      length out = length rs /\
      forall X acc, 1 <= t -> unwrap_inner D a' (rev out ++ X) acc (t + N.of_nat (length rs) - 1) = unwrap_inner D a X (rs ++ acc) (t - 1).
  Proof.
    induction rs as [|r rs IH]; intros a done t Ha Hrs.
    - exists a, []. cbn [wrap_inner length]. rewrite app_nil_r, N.add_0_r. repeat split; try assumption; try constructor.
    - inversion Hrs as [|? ? Hr Hrs']; subst. cbn [wrap_inner].
      set (b := E (a ++ r)). assert (Hb : length b = 16%nat) by (apply E_len; rewrite app_length; lia).
      set (a1 := xor_bytes (firstn 8 b) (be_bytes 8 t)).
      assert (Ha1 : length a1 = 8%nat) by (unfold a1; rewrite xor_bytes_len; rewrite firstn_length, ?be_bytes_length; lia).
      destruct (IH a1 (done ++ [skipn 8 b]) (t + 1) Ha1 Hrs') as (a' & out & W & La & Bo & Lo & U).
      exists a', (skipn 8 b :: out). rewrite W. split.
      { f_equal; [f_equal; rewrite <- app_assoc; reflexivity|]. cbn [length]. lia. }
      split; [exact La|]. split. { constructor; [rewrite skipn_length; lia|exact Bo]. }
      split; [cbn [length]; lia|].
      intros X acc Ht. cbn [rev length]. rewrite <- app_assoc. cbn [app].
      replace (t + N.of_nat (S (length rs)) - 1) with (t + 1 + N.of_nat (length rs) - 1) by lia.
      etransitivity; [apply U; lia|]. cbn [unwrap_inner].
      replace (t + 1 - 1) with t by lia.
      unfold a1. rewrite xor_bytes_involutive by (rewrite firstn_length, be_bytes_length; lia).
      rewrite firstn_skipn. unfold b. rewrite DE by (rewrite app_length; lia).
      rewrite firstn_app_exact, skipn_app_exact by exact Ha. reflexivity.
  Qed.

  Lemma unwrap_inner_nil a acc t : unwrap_inner D a [] acc t = (a, acc, t). Proof. reflexivity. Qed.

  Lemma unwrap_inner_t rs : forall a done t,
    snd (unwrap_inner D a rs done t) = t - N.of_nat (length rs) /\
    length (snd (fst (unwrap_inner D a rs done t))) = (length done + length rs)%nat.
  Proof.
    induction rs as [|r rs IH]; intros a done t; cbn [unwrap_inner length snd fst]; [split; lia|].
    destruct (IH (firstn 8 (D (xor_bytes a (be_bytes 8 t) ++ r))) (skipn 8 (D (xor_bytes a (be_bytes 8 t) ++ r)) :: done) (t - 1)) as [A B].
    rewrite A, B. cbn [length]. split; lia.
  Qed.

  (* one more unwrap pass at the end instead of at the beginning *)
  Lemma unwrap_outer_snoc j : forall a rs t,
    unwrap_outer D (S j) a rs t =
    let '(a1, rs1) := unwrap_outer D j a rs t in
    let '(a2, rs2, _) := unwrap_inner D a1 (rev rs1) [] (t - N.of_nat j * N.of_nat (length rs)) in (a2, rs2).
  Proof.
    induction j as [|j IH]; intros a rs t.
    - cbn [unwrap_outer]. rewrite N.mul_0_l, N.sub_0_r. destruct (unwrap_inner D a (rev rs) [] t) as [[a' rs'] t']. reflexivity.
    - change (unwrap_outer D (S (S j)) a rs t) with
        (let '(a', rs', t') := unwrap_inner D a (rev rs) [] t in unwrap_outer D (S j) a' rs' t').
      change (unwrap_outer D (S j) a rs t) with
        (let '(a', rs', t') := unwrap_inner D a (rev rs) [] t in unwrap_outer D j a' rs' t').
      destruct (unwrap_inner_t (rev rs) a [] t) as [Ht Hl].
      destruct (unwrap_inner D a (rev rs) [] t) as [[a' rs'] t']. cbn [snd fst] in Ht, Hl. rewrite rev_length in Ht, Hl. cbn [length] in Hl.
      rewrite IH. destruct (unwrap_outer D j a' rs' t') as [a1 rs1].
      replace (t' - N.of_nat j * N.of_nat (length rs')) with (t - N.of_nat (S j) * N.of_nat (length rs)) by (rewrite Hl; lia).
      reflexivity.
  Qed.

  (* j passes *)
  Lemma wrap_outer_spec j : forall a rs t, length a = 8%nat -> blocks8 rs -> 1 <= t ->
    exists a' rs', wrap_outer E j a rs t = (a', rs') /\ length a' = 8%nat /\ blocks8 rs' /\ length rs' = length rs /\
      unwrap_outer D j a' rs' (t + N.of_nat j * N.of_nat (length rs) - 1) = (a, rs).
  Proof.
    induction j as [|j IH]; intros a rs t Ha Hrs Ht.
    - exists a, rs. cbn [wrap_outer unwrap_outer]. repeat split; assumption.
    - change (wrap_outer E (S j) a rs t) with (let '(a', rs', t') := wrap_inner E a rs [] t in wrap_outer E j a' rs' t').
      destruct (wrap_inner_spec rs a [] t Ha Hrs) as (a1 & out & W & La & Bo & Lo & U).
      rewrite W. cbn [app].
      destruct (IH a1 out (t + N.of_nat (length rs)) La Bo ltac:(lia)) as (a' & rs' & W2 & La' & Bo' & Lo' & U2).
      exists a', rs'. rewrite W2. split; [reflexivity|]. split; [exact La'|]. split; [exact Bo'|]. split; [lia|].
      rewrite unwrap_outer_snoc.
      replace (t + N.of_nat (S j) * N.of_nat (length rs) - 1) with (t + N.of_nat (length rs) + N.of_nat j * N.of_nat (length out) - 1) by (rewrite Lo; lia).
      rewrite U2.
      replace (t + N.of_nat (length rs) + N.of_nat j * N.of_nat (length out) - 1 - N.of_nat j * N.of_nat (length rs'))
        with (t + N.of_nat (length rs) - 1) by (rewrite Lo', Lo; lia).
      specialize (U [] [] Ht). rewrite !app_nil_r in U. rewrite U. cbn [unwrap_inner]. reflexivity.
  Qed.

  (* the blocks of a byte string *)
  Lemma chunks_concat (bl : list bytes) : blocks8 bl -> forall fuel, (length bl <= fuel)%nat -> chunks 8 fuel (concat bl) = bl.
  Proof.
    induction 1 as [|r bl Hr _ IH]; intros fuel Hf; [destruct fuel; reflexivity|].
    destruct fuel as [|fuel]; [cbn in Hf; lia|]. cbn [concat chunks].
    destruct r as [|x r]; [discriminate|]. cbn [app].
    change (x :: r ++ concat bl) with ((x :: r) ++ concat bl).
    rewrite firstn_app_exact, skipn_app_exact by exact Hr. f_equal. apply IH. cbn in Hf. lia.
  Qed.
  Lemma concat_chunks fuel : forall l : bytes, (length l < fuel)%nat -> concat (chunks 8 fuel l) = l.
  Proof.
    induction fuel as [|fuel IH]; intros l H; [lia|]. destruct l as [|x l]; [reflexivity|].
    cbn [chunks concat]. rewrite IH.
    - apply firstn_skipn.
    - rewrite skipn_length. cbn [length] in *. lia.
  Qed.
  Lemma chunks_blocks8 fuel : forall l : bytes, (length l < fuel)%nat -> Nat.modulo (length l) 8 = 0%nat -> blocks8 (chunks 8 fuel l).
  Proof.
    induction fuel as [|fuel IH]; intros l H M; [lia|]. destruct l as [|x l]; [constructor|].
    assert (L8 : (8 <= length (x :: l))%nat).
    { destruct (Nat.le_gt_cases 8 (length (x :: l))) as [G|G]; [exact G|]. rewrite Nat.mod_small in M by exact G. discriminate. }
    cbn [chunks]. constructor.
    - rewrite firstn_length. lia.
    - apply IH.
      + rewrite skipn_length. cbn [length] in *. lia.
      + rewrite skipn_length. replace (length (x :: l)) with (8 + (length (x :: l) - 8))%nat in M by lia.
        rewrite Nat.add_mod in M by lia. rewrite Nat.mod_same in M by lia. cbn [Nat.add] in M. rewrite Nat.mod_mod in M by lia. exact M.
  Qed.
  Lemma chunks_length fuel : forall l : bytes, (length l < fuel)%nat -> Nat.modulo (length l) 8 = 0%nat ->
    (8 * length (chunks 8 fuel l) = length l)%nat.
  Proof.
    intros l H M. pose proof (concat_chunks fuel l H) as C. pose proof (chunks_blocks8 fuel l H M) as B.
    rewrite <- C at 2. clear C H M. induction B as [|r bl Hr _ IH]; [reflexivity|]. cbn [length concat]. rewrite app_length. lia.
  Qed.

  (* RFC 3394 section 2.2.2 after 2.2.1: the wrapped key unwraps to the key *)
  Theorem unwrap_wrap key_data : Nat.modulo (length key_data) 8 = 0%nat -> (16 <= length key_data)%nat ->
    key_unwrap D (key_wrap E key_data) = Some key_data.
  Proof.
    intros M L. unfold key_wrap.
    set (rs := chunks 8 (S (length key_data)) key_data).
    assert (Brs : blocks8 rs) by (apply chunks_blocks8; [lia|exact M]).
    assert (Lrs : (8 * length rs = length key_data)%nat) by (apply chunks_length; [lia|exact M]).
    assert (Hiv : length wrap_iv = 8%nat) by reflexivity.
    destruct (wrap_outer_spec 6 wrap_iv rs 1 Hiv Brs (N.le_refl 1)) as (a' & rs' & W & La & Bo & Lo & U).
    rewrite W. unfold key_unwrap.
    assert (C : chunks 8 (S (length (a' ++ concat rs'))) (a' ++ concat rs') = a' :: rs').
    { change (a' ++ concat rs') with (concat (a' :: rs')). apply chunks_concat.
      - constructor; assumption.
      - assert (forall bl : list bytes, blocks8 bl -> (length bl <= length (concat bl))%nat) as G.
        { induction 1 as [|r bl Hr _ IH]; [cbn; lia|]. cbn [concat length]. rewrite app_length. lia. }
        pose proof (G (a' :: rs') ltac:(constructor; assumption)). lia. }
    rewrite C. cbv beta iota zeta. unfold bytes in *.
    assert (Q : 6 * N.of_nat (length rs') = 1 + N.of_nat 6 * N.of_nat (length rs) - 1). { rewrite Lo. change (N.of_nat 6) with 6. unfold bytes. lia. } rewrite Q.
    rewrite U. rewrite list_eqb_refl. f_equal. apply concat_chunks. lia.
  Qed.
End WRAP.
