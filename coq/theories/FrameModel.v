(* Model of dlms_cosem/hdlc/frames.py: the six frame classes, frame_length, header_content,
   frame_content, to_bytes and the five from_bytes (parse, re-encode, compare check sequences),
   on top of the CRC, field and address models.  No proofs here. *)
From Dlms Require Import Base CrcModel FieldsModel AddrModel.

Definition EParse : N := 7.      (* HdlcParsingError (incl. MissingHdlcFlags) - the factory catches only this *)

Inductive fkind := KSnrm | KUa | KRr | KInfo | KDisc | KUi.

(* the attributes of BaseHdlcFrame plus the sequence numbers of I / RR frames.
   final: None stands for "not a bool but truthy" (RR.from_bytes stores a bound method there) *)
Record frame := {
  f_dest : addr; f_src : addr; f_payload : option bytes; f_segmented : bool; f_final : bool;
  f_ssn : N; f_rsn : N }.

Definition fixed_length (k : fkind) : N :=
  match k with KSnrm | KRr | KDisc => 5 | KUa | KInfo | KUi => 7 end.
Definition has_hcs (k : fkind) : bool :=
  match k with KSnrm | KRr | KDisc => false | KUa | KInfo | KUi => true end.
(* .information: only UA / I / UI carry the payload, and only if it is truthy *)
Definition information (k : fkind) (f : frame) : bytes :=
  if has_hcs k then match f_payload f with Some p => p | None => [] end else [].
Definition frame_length (k : fkind) (f : frame) : N :=
  fixed_length k + len (addr_to_bytes (f_dest f)) + len (addr_to_bytes (f_src f)) + len (information k f).
(* get_control_field().to_bytes() *)
Definition control_byte (k : fkind) (f : frame) : N :=
  match k with
  | KSnrm => snrm_ctrl | KUa => ua_ctrl | KDisc => disc_ctrl
  | KRr => rr_to_byte (f_rsn f)
  | KInfo => ictrl_to_byte (f_ssn f, f_rsn f, f_final f)
  | KUi => uictrl_to_byte (f_final f)
  end.
Definition header_content (k : fkind) (f : frame) : res bytes :=
  do x <- fmt_make (Z.of_N (frame_length k f)) (f_segmented f);
  do fb <- fmt_to_bytes x;
  Ok (fb ++ addr_to_bytes (f_dest f) ++ addr_to_bytes (f_src f) ++ [control_byte k f]).
Definition crc (b : bytes) : bytes := calculate_for b false.
Definition hcs_of (k : fkind) (hdr : bytes) : bytes := if has_hcs k then crc hdr else [].
Definition frame_content (k : fkind) (f : frame) : res bytes :=
  do h <- header_content k f; Ok (h ++ hcs_of k h ++ information k f).
Definition frame_to_bytes (k : fkind) (f : frame) : res bytes :=
  do c <- frame_content k f; Ok ([126] ++ c ++ crc c ++ [126]).

(* constructor validation: sequence numbers 0..7 (attrs validators on I and RR frames) *)
Definition frame_make (k : fkind) (dest src : addr) (payload : option bytes) (segmented final : bool)
  (ssn rsn : Z) : res frame :=
  let ok := match k with
            | KInfo => validate_seq ssn && validate_seq rsn
            | KRr => validate_seq rsn
            | _ => true end in
  if ok then Ok {| f_dest := dest; f_src := src; f_payload := payload; f_segmented := segmented;
                   f_final := final; f_ssn := Z.to_N ssn; f_rsn := Z.to_N rsn |}
  else Err ERefused.

(* ---------- parsing ---------- *)
Definition last_byte (b : bytes) : N := last b 0.
(* frame_is_enclosed_by_hdlc_flags: frame_bytes[0] raises IndexError on empty input *)
Definition enclosed_by_flags (b : bytes) : res bool :=
  match b with
  | [] => Err ERefused
  | first :: _ => Ok ((first =? last_byte b) && (first =? 126))
  end.
Definition parse_err {A} : res A := Err EParse.
(* the shared prefix of every from_bytes: flags, format field, length *)
Definition parse_prelude (b : bytes) : res fmt :=
  do fl <- enclosed_by_flags b;
  if negb fl then parse_err else
  let fb := slice 1 3 b in
  (* DlmsHdlcFrameFormatField.from_bytes raises HdlcParsingError for a wrong length or format;
     the length validator (ValueError) cannot fire on an 11-bit value *)
  if negb (Nat.eqb (length fb) 2) then parse_err else
  if negb (N.land (nth 0 fb 0) 240 =? 160) then parse_err else
  do x <- fmt_make (Z.of_N (N.land (be_val fb) 2047)) (negb (N.land (nth 0 fb 0) 8 =? 0));
  if negb (fst x + 2 =? len b) then parse_err else Ok x.

(* b[-3:-1] and b[p:-3] *)
Definition fcs_slice (b : bytes) : bytes := slice (length b - 3) (length b - 1) b.
Definition info_slice (p : nat) (b : bytes) : bytes := slice p (length b - 3) b.

Definition check_eq (a b : bytes) : res unit := if list_eqb a b then Ok tt else parse_err.
(* frame_has_correct_check_sequences: HCS (when the kind has one) and FCS over the received bytes *)
Definition check_received (b : bytes) (hpos : option nat) : res unit :=
  do _ <- match hpos with
          | Some p => check_eq (slice p (p + 2) b) (crc (slice 1 p b))
          | None => Ok tt
          end;
  check_eq (fcs_slice b) (crc (slice 1 (length b - 3) b)).

Definition frame_from_bytes (k : fkind) (b : bytes) : res frame :=
  do x <- parse_prelude b;
  let dest_server := match k with KDisc => true | _ => false end in
  do dest <- destination_from_bytes b dest_server;
  do src <- source_from_bytes b (negb dest_server);
  let cpos := (1 + 2 + addr_length dest + addr_length src)%nat in
  let hpos := S cpos in
  match k with
  | KSnrm => Err ERefused                       (* no parser in the library *)
  | KUa =>
      let f := {| f_dest := dest; f_src := src; f_payload := Some (info_slice (hpos + 2) b);
                  f_segmented := snd x; f_final := true; f_ssn := 0; f_rsn := 0 |} in
      do _ <- check_received b (Some hpos);
      do h <- header_content KUa f;
      do _ <- check_eq (slice hpos (hpos + 2) b) (hcs_of KUa h);
      do c <- frame_content KUa f;
      do _ <- check_eq (fcs_slice b) (crc c); Ok f
  | KRr =>
      do rsn <- rr_from_bytes (slice cpos (cpos + 1) b);
      let f := {| f_dest := dest; f_src := src; f_payload := None; f_segmented := snd x;
                  f_final := true; f_ssn := 0; f_rsn := rsn |} in
      do _ <- check_received b None;
      do c <- frame_content KRr f;
      do _ <- check_eq (fcs_slice b) (crc c); Ok f
  | KInfo =>
      do ic <- ictrl_from_bytes (slice cpos (cpos + 1) b);
      let '(ssn, rsn, final) := ic in
      let f := {| f_dest := dest; f_src := src; f_payload := Some (info_slice (hpos + 2) b);
                  f_segmented := snd x; f_final := final; f_ssn := ssn; f_rsn := rsn |} in
      do _ <- check_received b (Some hpos);
      do h <- header_content KInfo f;
      do _ <- check_eq (slice hpos (hpos + 2) b) (hcs_of KInfo h);
      do c <- frame_content KInfo f;
      do _ <- check_eq (fcs_slice b) (crc c); Ok f
  | KDisc =>
      let f := {| f_dest := dest; f_src := src; f_payload := None; f_segmented := snd x;
                  f_final := true; f_ssn := 0; f_rsn := 0 |} in
      do _ <- check_received b None;
      do c <- frame_content KDisc f;
      do _ <- check_eq (fcs_slice b) (crc c); Ok f
  | KUi =>
      do final <- uictrl_from_bytes (slice cpos (cpos + 1) b);
      let f := {| f_dest := dest; f_src := src; f_payload := Some (info_slice (hpos + 2) b);
                  f_segmented := snd x; f_final := final; f_ssn := 0; f_rsn := 0 |} in
      do _ <- check_received b (Some hpos);
      do h <- header_content KUi f;
      do _ <- check_eq (slice hpos (hpos + 2) b) (hcs_of KUi h);
      do c <- frame_content KUi f;
      do _ <- check_eq (fcs_slice b) (crc c); Ok f
  end.
