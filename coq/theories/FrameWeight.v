(* C09, corruption, continued: every error of one, two or three bits between the flags of a valid frame is refused. *)
From Dlms Require Import Base Sweep CrcSpec CrcModel CrcProofs CrcDetect FrameModel FrameProofs FrameDetect.
From Dlms Require Import CrcWeight.
From Coq Require Import ZifyBool ZifyN.

(* any error pattern over the bytes between the flags whose syndrome is not zero *)
Theorem nonzero_syndrome_refused k b e : length b = (length e + 2)%nat -> (4 <= length b)%nat ->
  bytes_ok b -> bytes_ok (xor_bytes b (0 :: e ++ [0])) -> fcs_valid b -> syndrome e <> 0 ->
  exists err, frame_from_bytes k (xor_bytes b (0 :: e ++ [0])) = Err err.
Proof.
  intros Hl L4 Hb Hb' Hv Hs.
  destruct (frame_from_bytes k (xor_bytes b (0 :: e ++ [0]))) as [f|err] eqn:F; [|exists err; reflexivity].
  exfalso. destruct (frame_acceptance_sound _ _ _ F) as (_ & _ & _ & Hv').
  assert (Le : length (0 :: e ++ [0]) = length b) by (cbn [length]; rewrite app_length; cbn [length]; lia).
  assert (Lx : length (xor_bytes b (0 :: e ++ [0])) = length b) by (apply xor_bytes_length; symmetry; exact Le).
  pose proof (valid_gives_residue b L4 Hb Hv) as R.
  pose proof (valid_gives_residue _ ltac:(rewrite Lx; exact L4) Hb' Hv') as R'.
  unfold inner in R'. rewrite Lx in R'. rewrite xor_bytes_slice in R' by (symmetry; exact Le). fold (inner b) in R'.
  assert (Es : slice 1 (length b - 1) (0 :: e ++ [0]) = e).
  { unfold slice. cbn [skipn]. replace (length b - 1 - 1)%nat with (length e) by lia. apply firstn_app_exact. reflexivity. }
  rewrite Es in R'. rewrite corrupted_register in R' by (unfold inner, slice; rewrite firstn_length, skipn_length; lia).
  apply Hs. apply N.lxor_eq. rewrite N.lxor_0_r.
  assert (H : N.lxor (x25_reg (inner b)) (N.lxor (x25_reg (inner b)) (syndrome e)) = N.lxor (x25_reg (inner b)) (x25_reg (inner b))) by congruence.
  rewrite <- N.lxor_assoc, N.lxor_nilpotent, N.lxor_0_l in H. exact H.
Qed.

(* two flipped bits anywhere between the flags (bit q1 of byte 1 + i1 and bit q2 of byte 1 + i2) *)
Theorem two_bit_error_refused k b i1 q1 i2 q2 :
  let L := (length b - 2)%nat in
  (4 <= length b)%nat -> (length b <= 4097)%nat -> (i1 < L)%nat -> (i2 < L)%nat -> q1 < 8 -> q2 < 8 -> (i1, q1) <> (i2, q2) ->
  let e := xor_bytes (sbit L i1 q1) (sbit L i2 q2) in
  bytes_ok b -> bytes_ok (xor_bytes b (0 :: e ++ [0])) -> fcs_valid b ->
  exists err, frame_from_bytes k (xor_bytes b (0 :: e ++ [0])) = Err err.
Proof.
  intros L L4 Lmax H1 H2 Q1 Q2 Hne e Hb Hb' Hv. apply nonzero_syndrome_refused; try assumption.
  - unfold e. rewrite xb_len, sbit_length by (rewrite ?sbit_length; lia). unfold L. lia.
  - unfold e. apply two_bits_detected; try assumption. unfold L. lia.
Qed.
(* three flipped bits anywhere between the flags *)
Theorem three_bit_error_refused k b i1 q1 i2 q2 i3 q3 :
  let L := (length b - 2)%nat in
  (4 <= length b)%nat -> (i1 < L)%nat -> (i2 < L)%nat -> (i3 < L)%nat -> q1 < 8 -> q2 < 8 -> q3 < 8 ->
  let e := xor_bytes (xor_bytes (sbit L i1 q1) (sbit L i2 q2)) (sbit L i3 q3) in
  bytes_ok b -> bytes_ok (xor_bytes b (0 :: e ++ [0])) -> fcs_valid b ->
  exists err, frame_from_bytes k (xor_bytes b (0 :: e ++ [0])) = Err err.
Proof.
  intros L L4 H1 H2 H3 Q1 Q2 Q3 e Hb Hb' Hv. apply nonzero_syndrome_refused; try assumption.
  - unfold e. rewrite !xb_len, sbit_length by (rewrite ?xb_len, ?sbit_length; rewrite ?sbit_length; lia). unfold L. lia.
  - unfold e. apply three_bits_detected; assumption.
Qed.
