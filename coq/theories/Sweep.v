(* Complete enumeration of finite domains inside the kernel.
   [forall_bits k p 0 = true] is established by [vm_compute]; the lemmas below lift it
   to a universally quantified statement.  Rules (see DESIGN.md): the predicate is a
   *named* definition, and [forall_bits] is opaque outside [vm_compute]. *)
From Dlms Require Import Base.

Fixpoint forall_bits (k : nat) (p : N -> bool) (acc : N) : bool :=
  match k with
  | O => p acc
  | S k' => forall_bits k' p (N.double acc) && forall_bits k' p (N.succ_double acc)
  end.

Lemma forall_bits_spec k p acc : forall_bits k p acc = true ->
  forall n, n < 2 ^ N.of_nat k -> p (acc * 2 ^ N.of_nat k + n) = true.
Proof.
  revert acc; induction k as [|k IH]; intros acc H n Hn.
  - cbn in *. assert (n = 0) by lia. subst. rewrite N.mul_1_r, N.add_0_r. exact H.
  - cbn [forall_bits] in H. apply andb_prop in H as [H0 H1].
    rewrite Nat2N.inj_succ, N.pow_succ_r' in *.
    destruct (N.ltb_spec n (2 ^ N.of_nat k)) as [Hlt|Hge].
    + specialize (IH _ H0 n Hlt). rewrite N.double_spec in IH.
      replace (acc * (2 * 2 ^ N.of_nat k) + n) with (2 * acc * 2 ^ N.of_nat k + n) by lia.
      exact IH.
    + specialize (IH _ H1 (n - 2 ^ N.of_nat k)). rewrite N.succ_double_spec in IH.
      replace (acc * (2 * 2 ^ N.of_nat k) + n)
        with ((2 * acc + 1) * 2 ^ N.of_nat k + (n - 2 ^ N.of_nat k)) by lia.
      apply IH. lia.
Qed.

Lemma sweep8 p : forall_bits 8 p 0 = true -> forall n, n < 256 -> p n = true.
Proof. intros H n Hn. apply (forall_bits_spec 8 p 0 H n). exact Hn. Qed.

Lemma sweep16 p : forall_bits 16 p 0 = true -> forall n, n < 65536 -> p n = true.
Proof. intros H n Hn. apply (forall_bits_spec 16 p 0 H n). exact Hn. Qed.

Lemma sweep17 p : forall_bits 17 p 0 = true -> forall n, n < 131072 -> p n = true.
Proof. intros H n Hn. apply (forall_bits_spec 17 p 0 H n). exact Hn. Qed.

Lemma sweep_k k p : forall_bits k p 0 = true -> forall n, n < 2 ^ N.of_nat k -> p n = true.
Proof. intros H n Hn. apply (forall_bits_spec k p 0 H n). exact Hn. Qed.

(* two byte-sized variables packed into one 16-bit sweep *)
Definition pair_pred (p : N -> N -> bool) (n : N) : bool := p (n / 256) (n mod 256).

Lemma sweep_pair p : forall_bits 16 (pair_pred p) 0 = true ->
  forall h l, h < 256 -> l < 256 -> p h l = true.
Proof.
  intros H h l Hh Hl.
  pose proof (sweep16 _ H (h * 256 + l) ltac:(lia)) as Hs.
  unfold pair_pred in Hs.
  replace ((h * 256 + l) / 256) with h in Hs
    by (symmetry; rewrite N.div_add_l by lia; rewrite N.div_small by lia; lia).
  replace ((h * 256 + l) mod 256) with l in Hs
    by (symmetry; rewrite N.add_comm, N.mod_add by lia; apply N.mod_small; lia).
  exact Hs.
Qed.

Global Opaque forall_bits.
