(* Complete enumeration of finite domains inside the kernel.
   [forall_bits k p 0 = true] is established by [vm_compute]; the lemmas below lift it
   to a universally quantified statement.  Rules (see DESIGN.md): the predicate is a
   *named* definition, and [forall_bits] is opaque outside [vm_compute]. *)
From Dlms Require Import Base.

Fixpoint forall_bits (k : nat) (p : N -> bool) (acc : N) : bool :=
  match k with
  | O => p acc
  | S k' => forall_bits k' p (N.double acc) && forall_bits k' p (N.succ_double acc)
  end.

Lemma forall_bits_spec k p acc : forall_bits k p acc = true ->
  forall n, n < 2 ^ N.of_nat k -> p (acc * 2 ^ N.of_nat k + n) = true.
Proof.
  revert acc; induction k as [|k IH]; intros acc H n Hn.
  - cbn in *. assert (n = 0) by lia. subst. rewrite N.mul_1_r, N.add_0_r. exact H.
  - cbn [forall_bits] in H. apply andb_prop in H as [H0 H1].
    rewrite Nat2N.inj_succ, N.pow_succ_r' in *.
    destruct (N.ltb_spec n (2 ^ N.of_nat k)) as [Hlt|Hge].
    + specialize (IH _ H0 n Hlt). rewrite N.double_spec in IH.
      replace (acc * (2 * 2 ^ N.of_nat k) + n) with (2 * acc * 2 ^ N.of_nat k + n) by lia.
      exact IH.
    + specialize (IH _ H1 (n - 2 ^ N.of_nat k)). rewrite N.succ_double_spec in IH.
      replace (acc * (2 * 2 ^ N.of_nat k) + n)
        with ((2 * acc + 1) * 2 ^ N.of_nat k + (n - 2 ^ N.of_nat k)) by lia.
      apply IH. lia.
Qed.

Lemma sweep8 p : forall_bits 8 p 0 = true -> forall n, n < 256 -> p n = true.
Proof. intros H n Hn. apply (forall_bits_spec 8 p 0 H n). exact Hn. Qed.

Lemma sweep16 p : forall_bits 16 p 0 = true -> forall n, n < 65536 -> p n = true.
Proof. intros H n Hn. apply (forall_bits_spec 16 p 0 H n). exact Hn. Qed.

Lemma sweep17 p : forall_bits 17 p 0 = true -> forall n, n < 131072 -> p n = true.
Proof. intros H n Hn. apply (forall_bits_spec 17 p 0 H n). exact Hn. Qed.

Lemma sweep_k k p : forall_bits k p 0 = true -> forall n, n < 2 ^ N.of_nat k -> p n = true.
Proof. intros H n Hn. apply (forall_bits_spec k p 0 H n). exact Hn. Qed.

(* two byte-sized variables packed into one 16-bit sweep *)
Definition pair_pred (p : N -> N -> bool) (n : N) : bool := p (n / 256) (n mod 256).

Lemma sweep_pair p : forall_bits 16 (pair_pred p) 0 = true ->
  forall h l, h < 256 -> l < 256 -> p h l = true.
Proof.
  intros H h l Hh Hl.
  pose proof (sweep16 _ H (h * 256 + l) ltac:(lia)) as Hs.
  unfold pair_pred in Hs.
  replace ((h * 256 + l) / 256) with h in Hs
    by (symmetry; rewrite N.div_add_l by lia; rewrite N.div_small by lia; lia).
  replace ((h * 256 + l) mod 256) with l in Hs
    by (symmetry; rewrite N.add_comm, N.mod_add by lia; apply N.mod_small; lia).
  exact Hs.
Qed.

(* small ranges, nestable: all n < k *)
Definition forall_below (k : nat) (p : N -> bool) : bool :=
  forallb p (map N.of_nat (seq 0 k)).
Lemma forall_below_spec k p : forall_below k p = true ->
  forall n, n < N.of_nat k -> p n = true.
Proof.
  unfold forall_below. rewrite forallb_forall. intros H n Hn. apply H.
  apply in_map_iff. exists (N.to_nat n). split; [apply N2Nat.id|].
  apply in_seq. lia.
Qed.

Definition forall_bool (p : bool -> bool) : bool := p true && p false.
Lemma forall_bool_spec p : forall_bool p = true -> forall b, p b = true.
Proof. unfold forall_bool. intros H b. apply andb_prop in H as [H1 H2]. destruct b; assumption. Qed.

(* lists of booleans as numbers, least significant first *)
Fixpoint bools_of (k : nat) (n : N) : list bool :=
  match k with O => [] | S k' => N.odd n :: bools_of k' (N.div2 n) end.
Fixpoint val_of (l : list bool) : N :=
  match l with
  | [] => 0
  | b :: r => if b then N.succ_double (val_of r) else N.double (val_of r)
  end.
Lemma bools_of_val l : bools_of (length l) (val_of l) = l.
Proof.
  induction l as [|b l IH]; [reflexivity|]. cbn [length bools_of val_of].
  destruct b.
  - rewrite N.div2_succ_double, IH. f_equal. destruct (val_of l); reflexivity.
  - rewrite N.div2_double, IH. f_equal. destruct (val_of l); reflexivity.
Qed.
Lemma val_of_lt l : val_of l < 2 ^ N.of_nat (length l).
Proof.
  induction l as [|b l IH]; [cbn; lia|]. cbn [length val_of].
  rewrite Nat2N.inj_succ, N.pow_succ_r'. destruct b.
  - rewrite N.succ_double_spec. lia.
  - rewrite N.double_spec. lia.
Qed.
Lemma sweep_bools k p q : (forall n, q n = p (bools_of k n)) ->
  forall_bits k q 0 = true -> forall l, length l = k -> p l = true.
Proof.
  intros Hq H l Hl. pose proof (sweep_k k _ H (val_of l)) as Hs.
  rewrite Hq in Hs. subst k. rewrite bools_of_val in Hs. apply Hs. apply val_of_lt.
Qed.

Global Opaque forall_bits.
