(* AES-GCM as NIST SP 800-38D defines it for 96-bit IVs (GCTR, GHASH over GF(2^128), J0, tag) and the
   AES key wrap of RFC 3394, over an arbitrary 128-bit block function.  This is the reference the
   library's use of OpenSSL is compared with; nothing here mentions the library. *)
From Dlms Require Import Base Aes.

Section GCM.
  Variable E : bytes -> bytes.          (* the block cipher under a fixed key *)

  Definition R128 : N := N.shiftl 225 120.
  Fixpoint gmul_loop (n : nat) (x z v : N) : N :=
    match n with
    | O => z
    | S k =>
        let z' := if N.testbit x (N.of_nat k) then N.lxor z v else z in
        let v' := if N.testbit v 0 then N.lxor (N.shiftr v 1) R128 else N.shiftr v 1 in
        gmul_loop k x z' v'
    end.
  Definition gmul (x y : N) : N := gmul_loop 128 x 0 y.
  Definition pad16 (l : bytes) : bytes := l ++ repeat 0 (Nat.modulo (16 - Nat.modulo (length l) 16) 16).
  Definition ghash (h : N) (data : bytes) : N :=
    fold_left (fun y blk => gmul (N.lxor y (be_val blk)) h) (chunks 16 (S (length data)) data) 0.
  Definition inc32 (cb : bytes) : bytes :=
    firstn 12 cb ++ be_bytes 4 (N.modulo (be_val (skipn 12 cb) + 1) (2 ^ 32)).
  Fixpoint gctr (fuel : nat) (cb : bytes) (data : bytes) : bytes :=
    match fuel with
    | O => []
    | S f =>
        match data with
        | [] => []
        | _ => xor_bytes (firstn 16 data) (E cb) ++ gctr f (inc32 cb) (skipn 16 data)
        end
    end.
  Definition j0 (iv : bytes) : bytes := iv ++ [0; 0; 0; 1].
  Definition gcm_tag (iv aad ct : bytes) : bytes :=
    let h := be_val (E (repeat 0 16%nat)) in
    let s := ghash h (pad16 aad ++ pad16 ct ++ be_bytes 8 (8 * len aad) ++ be_bytes 8 (8 * len ct)) in
    xor_bytes (be_bytes 16 s) (E (j0 iv)).
  Definition gcm_crypt (iv data : bytes) : bytes := gctr (S (length data)) (inc32 (j0 iv)) data.
  Definition gcm_encrypt (iv aad pt : bytes) : bytes * bytes :=
    let ct := gcm_crypt iv pt in (ct, gcm_tag iv aad ct).
End GCM.

(* ---------- RFC 3394 key wrap ---------- *)
Section WRAP.
  Variable E D : bytes -> bytes.
  Definition wrap_iv : bytes := repeat 0xA6 8.
  (* one step: B = E(A | R[i]); A = MSB64(B) xor t; R[i] = LSB64(B) *)
  Fixpoint wrap_inner (a : bytes) (rs done : list bytes) (t : N) : bytes * list bytes * N :=
    match rs with
    | [] => (a, done, t)
    | r :: rest =>
        let b := E (a ++ r) in
        wrap_inner (xor_bytes (firstn 8 b) (be_bytes 8 t)) rest (done ++ [skipn 8 b]) (t + 1)
    end.
  Fixpoint wrap_outer (j : nat) (a : bytes) (rs : list bytes) (t : N) : bytes * list bytes :=
    match j with
    | O => (a, rs)
    | S j' => let '(a', rs', t') := wrap_inner a rs [] t in wrap_outer j' a' rs' t'
    end.
  Definition key_wrap (key_data : bytes) : bytes :=
    let rs := chunks 8 (S (length key_data)) key_data in
    let '(a, rs') := wrap_outer 6 wrap_iv rs 1 in a ++ concat rs'.
  (* unwrap: the steps in reverse *)
  Fixpoint unwrap_inner (a : bytes) (rs_rev done : list bytes) (t : N) : bytes * list bytes * N :=
    match rs_rev with
    | [] => (a, done, t)
    | r :: rest =>
        let b := D (xor_bytes a (be_bytes 8 t) ++ r) in
        unwrap_inner (firstn 8 b) rest (skipn 8 b :: done) (t - 1)
    end.
  Fixpoint unwrap_outer (j : nat) (a : bytes) (rs : list bytes) (t : N) : bytes * list bytes :=
    match j with
    | O => (a, rs)
    | S j' => let '(a', rs', t') := unwrap_inner a (rev rs) [] t in unwrap_outer j' a' rs' t'
    end.
  Definition key_unwrap (wrapped : bytes) : option bytes :=
    let blocks := chunks 8 (S (length wrapped)) wrapped in
    match blocks with
    | a :: rs =>
        let n := N.of_nat (length rs) in
        let '(a', rs') := unwrap_outer 6 a rs (6 * n) in
        if list_eqb a' wrap_iv then Some (concat rs') else None
    | [] => None
    end.
End WRAP.

(* ---------- public test vectors ---------- *)
(* DLMS Green Book example (the vector of tests/test_security.py): suite 0, SC = 0x30 *)
Example greenbook_vector :
  let key := be_bytes 16 0x000102030405060708090A0B0C0D0E0F in
  let ak := be_bytes 16 0xD0D1D2D3D4D5D6D7D8D9DADBDCDDDEDF in
  let iv := be_bytes 12 0x4D4D4D0000BC614E01234567 in
  let pt := be_bytes 13 0xC0010000080000010000FF0200 in
  let '(c, t) := gcm_encrypt (aes_encrypt key) iv (48 :: ak) pt in
  be_val (c ++ firstn 12 t) = 0x411312FF935A47566827C467BC7D825C3BE4A77C3FCC056B6B.
Proof. vm_compute. reflexivity. Qed.
(* NIST GCM test case 2 (key 0, iv 0, one zero block) *)
Example nist_gcm_tc2 :
  let '(c, t) := gcm_encrypt (aes_encrypt (repeat 0 16%nat)) (repeat 0 12%nat) [] (repeat 0 16%nat) in
  be_val c = 0x0388dace60b6a392f328c2b971b2fe78 /\ be_val t = 0xab6e47d42cec13bdf53a67b21257bddf.
Proof. vm_compute. split; reflexivity. Qed.
(* RFC 3394 4.1: wrap 128 bits of key data with a 128-bit KEK; 4.6: 256 bits with a 256-bit KEK *)
Example rfc3394_4_1 :
  let kek := be_bytes 16 0x000102030405060708090A0B0C0D0E0F in
  let kd := be_bytes 16 0x00112233445566778899AABBCCDDEEFF in
  be_val (key_wrap (aes_encrypt kek) kd) = 0x1FA68B0A8112B447AEF34BD8FB5A7B829D3E862371D2CFE5 /\
  key_unwrap (aes_decrypt kek) (key_wrap (aes_encrypt kek) kd) = Some kd.
Proof. vm_compute. split; reflexivity. Qed.
Example rfc3394_4_6 :
  let kek := be_bytes 32 0x000102030405060708090A0B0C0D0E0F101112131415161718191A1B1C1D1E1F in
  let kd := be_bytes 32 0x00112233445566778899AABBCCDDEEFF000102030405060708090A0B0C0D0E0F in
  be_val (key_wrap (aes_encrypt kek) kd)
  = 0x28C9F404C4B810F4CBCCB35CFB87F8263F5786E2D80ED326CBC7F0E71A99F43BFB988B9B7A02DD21.
Proof. vm_compute. reflexivity. Qed.
