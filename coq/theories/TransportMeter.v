(* C18 composed with C09 and C11: the meter splits its answer into information frames in ANY way
   (any number of segments, any sizes the frame format allows), builds each one as the standard
   frame with the numbers the link procedure prescribes, and hands them over one per
   receive-ready; send() returns exactly the answer.  No hypothesis about acceptance is left:
   that the frames are accepted is the C09 theorem (parsing the standard bytes returns the
   frame), that the link admits them is computed from the generated table. *)
From Dlms Require Import Base CrcModel FieldsModel AddrModel AddrSpec FrameModel FrameSpec FrameProofs FrameRoundtrip
  HdlcConnModel HdlcChunkProofs HdlcStreamProofs TransportModel TransportProofs TransportE2E.

Definition meter_frame (cl sv : addr) (ssn rsn : N) (p : bytes) (more : bool) : frame :=
  {| f_dest := cl; f_src := sv; f_payload := Some p; f_segmented := more; f_final := true; f_ssn := ssn; f_rsn := rsn |}.

Definition has_more (r : list bytes) : bool := match r with [] => false | _ => true end.

(* the frames of an answer split into the segments ps: send numbers count up modulo 8 from ssn *)
Fixpoint meter_items (cl sv : addr) (ssn rsn : N) (ps : list bytes) : list item :=
  match ps with
  | [] => []
  | p :: r =>
      let f := meter_frame cl sv ssn rsn p (has_more r) in
      {| it_pk := KInfo; it_F := std_frame KInfo f; it_f := f; it_shared := false |}
      :: meter_items cl sv ((ssn + 1) mod 8) rsn r
  end.

(* a segment the frame format can carry between these stations *)
Definition segment_ok (cl sv : addr) (p : bytes) : Prop :=
  bytes_ok p /\ std_length KInfo (meter_frame cl sv 0 0 p false) <= 2047.

Lemma wrap8_small x : x < 8 -> wrap8 x = x.
Proof. intros H. unfold wrap8. destruct (N.ltb_spec 7 x); [lia|reflexivity]. Qed.
Lemma wrap8_succ x : x < 8 -> wrap8 (x + 1) = (x + 1) mod 8.
Proof.
  intros H. unfold wrap8. destruct (N.ltb_spec 7 (x + 1)).
  - assert (x = 7) by lia. subst x. reflexivity.
  - rewrite N.mod_small; lia.
Qed.

Lemma info_link_step l : l_state l = 2 ->
  link_on_frame l KInfo (client_ssn l) (client_rsn l)
  = (Ok tt, {| l_state := 1; client_ssn := wrap8 (client_ssn l + 1); client_rsn := wrap8 (client_rsn l);
               server_ssn := wrap8 (server_ssn l); server_rsn := wrap8 (server_rsn l + 1) |}).
Proof.
  intros H. unfold link_on_frame, process_frame. rewrite H. cbn. unfold handle_sequence_numbers. cbn [negb client_ssn client_rsn].
  rewrite !N.eqb_refl. reflexivity.
Qed.

Lemma parse_kind_awaiting l : l_state l = 2 -> parse_kind l = Some KInfo.
Proof. intros H. unfold parse_kind. rewrite H. reflexivity. Qed.

(* the link after an answer of the segments ps has been received (and all but the last acknowledged) *)
Definition recv_info (l : link) : link :=
  {| l_state := 1; client_ssn := wrap8 (client_ssn l + 1); client_rsn := wrap8 (client_rsn l);
     server_ssn := wrap8 (server_ssn l); server_rsn := wrap8 (server_rsn l + 1) |}.
Definition sent_rr (l : link) : link :=
  {| l_state := 2; client_ssn := client_ssn l; client_rsn := client_rsn l; server_ssn := server_ssn l; server_rsn := server_rsn l |}.
Fixpoint link_after (l : link) (ps : list bytes) : link :=
  match ps with
  | [] => l
  | _ :: r => match r with [] => recv_info l | _ => link_after (sent_rr (recv_info l)) r end
  end.

Section meter.
  Variables (cl sv : addr).
  Hypothesis Hcl : addr_ok cl.
  Hypothesis Hsv : addr_ok sv.
  Hypothesis Hdir_c : a_server cl = false.
  Hypothesis Hdir_s : a_server sv = true.

  Lemma meter_frame_accepted ssn rsn p more : ssn < 8 -> rsn < 8 -> segment_ok cl sv p ->
    frame_from_bytes KInfo (std_frame KInfo (meter_frame cl sv ssn rsn p more)) = Ok (meter_frame cl sv ssn rsn p more).
  Proof.
    intros Hs Hr (Hb & Hl).
    assert (Hok : frame_ok KInfo (meter_frame cl sv ssn rsn p more)).
    { unfold frame_ok. cbn [f_dest f_src f_ssn f_rsn meter_frame]. repeat split; try assumption. }
    apply (parse_of_build KInfo (meter_frame cl sv ssn rsn p more) Hok Hdir_c Hdir_s). discriminate.
  Qed.

  Lemma meter_chain : forall ps l, l_state l = 2 -> client_ssn l < 8 -> client_rsn l < 8 ->
    Forall (segment_ok cl sv) ps ->
    chain l (meter_items cl sv (client_ssn l) (client_rsn l) ps) (link_after l ps)
    /\ l_state (link_after l ps) = (match ps with [] => 2 | _ => 1 end).
  Proof.
    induction ps as [|p r IH]; intros l Hst Hs Hr Hall.
    - split; [constructor|exact Hst].
    - inversion Hall as [|? ? Hp Hrest]; subst.
      set (l1 := recv_info l).
      set (f := meter_frame cl sv (client_ssn l) (client_rsn l) p (has_more r)).
      assert (Hacc : frame_from_bytes KInfo (std_frame KInfo f) = Ok f) by (apply meter_frame_accepted; assumption).
      assert (Hlink : link_on_frame l KInfo (f_ssn f) (f_rsn f) = (Ok tt, l1)) by (apply info_link_step; exact Hst).
      destruct r as [|p2 r'].
      + split; [|reflexivity]. cbn [meter_items has_more link_after]. fold l1. fold f.
        eapply chain_cons; [exact Hacc|apply parse_kind_awaiting; exact Hst|exact Hlink|].
        unfold between. cbn [f_segmented f meter_frame has_more]. rewrite andb_false_r. constructor.
      + assert (Hb : between l1 f = sent_rr l1).
        { unfold between. unfold l1 at 1. cbn [f_segmented f meter_frame has_more l_state recv_info]. cbn [N.eqb Pos.eqb andb].
          rewrite (rr_send_link l1 eq_refl). reflexivity. }
        assert (E1 : client_ssn (between l1 f) = (client_ssn l + 1) mod 8).
        { rewrite Hb. unfold l1, sent_rr, recv_info. cbn [client_ssn]. apply wrap8_succ. exact Hs. }
        assert (E2 : client_rsn (between l1 f) = client_rsn l).
        { rewrite Hb. unfold l1, sent_rr, recv_info. cbn [client_rsn]. apply wrap8_small. exact Hr. }
        destruct (IH (between l1 f)) as (Hch & Hend).
        { rewrite Hb. reflexivity. }
        { rewrite E1. apply N.mod_lt. discriminate. }
        { rewrite E2. exact Hr. }
        { exact Hrest. }
        rewrite E1, E2 in Hch.
        change (link_after l (p :: p2 :: r')) with (link_after (sent_rr l1) (p2 :: r')). rewrite <- Hb.
        split; [|exact Hend].
        change (meter_items cl sv (client_ssn l) (client_rsn l) (p :: p2 :: r'))
          with ({| it_pk := KInfo; it_F := std_frame KInfo f; it_f := f; it_shared := false |}
                :: meter_items cl sv ((client_ssn l + 1) mod 8) (client_rsn l) (p2 :: r')).
        eapply chain_cons; [exact Hacc|apply parse_kind_awaiting; exact Hst|exact Hlink|].
        cbn [it_f]. exact Hch.
  Qed.

  Lemma meter_items_answer ssn rsn : forall ps, Forall answer_item (meter_items cl sv ssn rsn ps).
  Proof.
    intros ps; revert ssn. induction ps as [|p r IH]; intros ssn; [constructor|].
    cbn [meter_items]. constructor; [|apply IH]. repeat split.
  Qed.
  Lemma meter_items_segmentation rsn : forall ps ssn, ps <> [] -> is_segmentation (map key (meter_items cl sv ssn rsn ps)).
  Proof.
    induction ps as [|p r IH]; intros ssn Hne; [contradiction|].
    destruct r as [|p2 r'].
    - cbn. split; reflexivity.
    - change (meter_items cl sv ssn rsn (p :: p2 :: r'))
        with ({| it_pk := KInfo; it_F := std_frame KInfo (meter_frame cl sv ssn rsn p true); it_f := meter_frame cl sv ssn rsn p true; it_shared := false |}
              :: meter_items cl sv ((ssn + 1) mod 8) rsn (p2 :: r')).
      specialize (IH ((ssn + 1) mod 8) ltac:(discriminate)).
      cbn [map]. unfold key at 1. cbn [it_pk it_f].
      destruct (map key (meter_items cl sv ((ssn + 1) mod 8) rsn (p2 :: r'))) as [|x xs] eqn:E; [contradiction|].
      cbn [is_segmentation]. split; [reflexivity|exact IH].
  Qed.
  Lemma meter_items_payload rsn : forall ps ssn,
    concat (map (fun it => payload_of (it_f it)) (meter_items cl sv ssn rsn ps)) = concat ps.
  Proof. induction ps as [|p r IH]; intros ssn; [reflexivity|]. cbn [meter_items map concat]. rewrite IH. reflexivity. Qed.
End meter.

(* one receive-ready frame per segment but the last *)
Lemma rr_list_length t cl sv rsn : forall ps ssn l0, ps <> [] ->
  length (rr_list t l0 (meter_items cl sv ssn rsn ps)) = (length ps - 1)%nat.
Proof.
  induction ps as [|p r IH]; intros ssn l0 Hne; [contradiction|].
  destruct r as [|p2 r']; [reflexivity|].
  change (meter_items cl sv ssn rsn (p :: p2 :: r'))
    with ({| it_pk := KInfo; it_F := std_frame KInfo (meter_frame cl sv ssn rsn p true);
             it_f := meter_frame cl sv ssn rsn p true; it_shared := false |}
          :: meter_items cl sv ((ssn + 1) mod 8) rsn (p2 :: r')).
  cbn [rr_list it_f f_segmented meter_frame length]. rewrite IH by discriminate. cbn [length]. lia.
Qed.

(* send() against a standard meter, for EVERY segmentation of the answer *)
Theorem send_any_segmentation t telegram ps later answer :
  t_out t = [] -> c_buf (t_conn t) = [] -> c_pos (t_conn t) = 1%nat -> l_state (c_link (t_conn t)) = 1 ->
  readable (t_ser t) = [] -> pos_sched (t_ser t) ->
  (0 < length (LLC_COMMAND ++ telegram) <= t_max t)%nat -> (15 <= t_max t <= 2032)%nat ->
  addr_ok (t_client t) -> addr_ok (t_server t) -> a_server (t_client t) = false -> a_server (t_server t) = true ->
  ps <> [] -> Forall (segment_ok (t_client t) (t_server t)) ps -> concat ps = LLC_RESPONSE ++ answer ->
  let la := after_request (c_link (t_conn t)) in
  let items := meter_items (t_client t) (t_server t) (client_ssn la) (client_rsn la) ps in
  pending (t_ser t) = map it_F items ++ later ->
  exists fb s',
    t_send t telegram = (Ok answer, upd t {| c_link := link_after la ps; c_buf := []; c_pos := 1 |} [] s')
    /\ l_state (link_after la ps) = 1
    /\ written s' = written (t_ser t) ++ fb :: rr_list t la items
    /\ length (rr_list t la items) = (length ps - 1)%nat
    /\ readable s' = [] /\ pending s' = later /\ pos_sched s'.
Proof.
  intros Hout Hbuf Hpos Hidle Hrd Hs Hlen Hmax Hcl Hsv Hdc Hds Hne Hall Hcat la items Hpd.
  assert (Hla : l_state la = 2 /\ client_ssn la < 8 /\ client_rsn la < 8).
  { unfold la, after_request. cbn [l_state client_ssn client_rsn]. repeat split; unfold wrap8;
      match goal with |- (if ?c then _ else _) < 8 => destruct c eqn:E; [lia|apply N.ltb_ge in E; lia] end. }
  destruct Hla as (Hst & Hcs & Hcr).
  destruct (meter_chain (t_client t) (t_server t) Hcl Hsv Hdc Hds ps la Hst Hcs Hcr Hall) as (Hch & Hend).
  fold items in Hch.
  destruct (send_end_to_end t telegram items later answer (link_after la ps) Hout Hbuf Hpos Hidle Hrd Hpd Hs Hlen Hmax Hch
              (meter_items_answer _ _ _ _ ps) (meter_items_segmentation _ _ _ ps _ Hne)) as (fb & s' & _ & Esend & W & R & P & S).
  { unfold items. rewrite meter_items_payload. exact Hcat. }
  exists fb, s'. split; [exact Esend|]. split; [destruct ps; [contradiction|exact Hend]|].
  split; [exact W|]. split; [apply rr_list_length; exact Hne|]. repeat split; assumption.
Qed.

(* ---------- sessions: any number of exchanges on one transport, numbers wrapping as they go ---------- *)
Definition exchange := (bytes * list bytes * bytes)%type.      (* request APDU, segments of the answer, answer APDU *)
Definition ex_ok (t : transport) (e : exchange) : Prop :=
  let '(telegram, ps, answer) := e in
  (0 < length (LLC_COMMAND ++ telegram) <= t_max t)%nat /\ ps <> [] /\
  Forall (segment_ok (t_client t) (t_server t)) ps /\ concat ps = LLC_RESPONSE ++ answer.
(* what the meter makes readable, write after write, over the whole session *)
Fixpoint session_pending (t : transport) (l : link) (es : list exchange) : list bytes :=
  match es with
  | [] => []
  | (telegram, ps, answer) :: r =>
      let la := after_request l in
      map it_F (meter_items (t_client t) (t_server t) (client_ssn la) (client_rsn la) ps) ++ session_pending t (link_after la ps) r
  end.
Fixpoint session_link (l : link) (es : list exchange) : link :=
  match es with [] => l | (_, ps, _) :: r => session_link (link_after (after_request l) ps) r end.
(* the client's side: one send() per exchange *)
Fixpoint run_session (t : transport) (telegrams : list bytes) : list (res bytes) * transport :=
  match telegrams with
  | [] => ([], t)
  | x :: r => let '(a, t1) := t_send t x in let '(rest, t2) := run_session t1 r in (a :: rest, t2)
  end.

Lemma session_pending_upd t c o s : forall es l, session_pending (upd t c o s) l es = session_pending t l es.
Proof. induction es as [|[[x ps] a] r IH]; intros l; [reflexivity|]. cbn [session_pending upd t_client t_server]. rewrite IH. reflexivity. Qed.

Theorem session_any_segmentations : forall es t later,
  t_out t = [] -> c_buf (t_conn t) = [] -> c_pos (t_conn t) = 1%nat -> l_state (c_link (t_conn t)) = 1 ->
  readable (t_ser t) = [] -> pos_sched (t_ser t) -> (15 <= t_max t <= 2032)%nat ->
  addr_ok (t_client t) -> addr_ok (t_server t) -> a_server (t_client t) = false -> a_server (t_server t) = true ->
  Forall (ex_ok t) es ->
  pending (t_ser t) = session_pending t (c_link (t_conn t)) es ++ later ->
  exists s',
    run_session t (map (fun e => fst (fst e)) es)
    = (map (fun e => Ok (snd e)) es, upd t {| c_link := session_link (c_link (t_conn t)) es; c_buf := []; c_pos := 1 |} [] s')
    /\ l_state (session_link (c_link (t_conn t)) es) = 1 /\ readable s' = [] /\ pending s' = later.
Proof.
  induction es as [|[[telegram ps] answer] r IH]; intros t later Hout Hbuf Hpos Hidle Hrd Hs Hmax Hcl Hsv Hdc Hds Hall Hpd.
  - cbn [session_pending app] in Hpd. cbn [map run_session session_link]. exists (t_ser t).
    split; [|repeat split; assumption].
    f_equal. destruct t as [c o s cl sv mx]. cbn [t_conn t_out t_ser upd t_client t_server t_max] in *. subst o.
    destruct c as [l b p]. cbn [c_buf c_pos c_link] in *. subst b p. reflexivity.
  - inversion Hall as [|? ? Hex Hrest]; subst. unfold ex_ok in Hex. destruct Hex as (Hlen & Hne & Hseg & Hcat).
    cbn [session_pending] in Hpd. rewrite <- app_assoc in Hpd.
    destruct (send_any_segmentation t telegram ps _ answer Hout Hbuf Hpos Hidle Hrd Hs Hlen Hmax Hcl Hsv Hdc Hds Hne Hseg Hcat Hpd)
      as (fb & s1 & E1 & St1 & _ & _ & R1 & P1 & S1).
    cbn [map fst snd run_session]. rewrite E1.
    set (t1 := upd t {| c_link := link_after (after_request (c_link (t_conn t))) ps; c_buf := []; c_pos := 1 |} [] s1).
    destruct (IH t1 later) as (s' & E2 & St2 & R2 & P2); try reflexivity; try assumption.
    { unfold t1. rewrite session_pending_upd. cbn [t_ser t_conn upd c_link]. exact P1. }
    rewrite E2. exists s'. split; [reflexivity|]. repeat split; assumption.
Qed.
