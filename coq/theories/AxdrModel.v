(* Model of dlms_cosem/a_xdr.py (length codecs, AXdrDecoder over a Sequence configuration),
   dlms_data.py (from_bytes/to_python per class, the four value encoders, BaseDlmsData.to_bytes)
   and utils.parse_as_dlms_data, as of fix commits f14702e, bace32e, 079d089.
   The tag -> (decoder kind, LENGTH) table is generated (GenData).  No proofs here. *)
From Dlms Require Import Base FieldsModel TimeModel.
From Dlms.Gen Require GenData.

(* Python values the decoder returns *)
Inductive pv :=
| PNone
| PBool (b : bool)
| PInt (z : Z)
| PBytes (l : bytes)
| PList (l : list pv)
| PDateTime (x : dtime) (st : cstat)     (* DateTimeData.to_python() is the (datetime, status) pair *)
| PDate (d : date3)
| PTime (t : time4).

(* ---------- length prefixes ---------- *)
(* a_xdr.encode_variable_integer: the while-loop looking for the smallest number of bytes *)
Fixpoint enc_len_loop (fuel k : nat) (n : N) : res bytes :=
  if n <? 256 ^ N.of_nat k then
    do lb <- to_bytes_be 1 (128 + N.of_nat k); Ok (lb ++ be_bytes k n)
  else match fuel with
       | O => Err EFuel
       | S f => enc_len_loop f (S k) n
       end.
Definition encode_variable_integer (n : N) : res bytes :=
  if 127 <? n then enc_len_loop 16 1 n else Ok [n].

(* cursor = the not yet consumed suffix of the buffer; get_bytes raises when it would over-read *)
Definition take (n : nat) (b : bytes) : res (bytes * bytes) :=
  if Nat.leb n (length b) then Ok (firstn n b, skipn n b) else Err ERefused.
(* get_bytes(n) for a data-dependent n: compared as numbers first (a declared length may be astronomically
   larger than the buffer; it must not be turned into a unary number) *)
Definition take_n (n : N) (b : bytes) : res (bytes * bytes) :=
  if n <=? len b then take (N.to_nat n) b else Err ERefused.
(* AXdrDecoder.get_axdr_length *)
Definition get_len (b : bytes) : res (N * bytes) :=
  do (f, r) <- take 1 b;
  let first := be_val f in
  if N.land first 128 =? 0 then Ok (first, r) else
  (* the length bytes are read one by one; each read is bounds-checked *)
  do (lb, r') <- take (N.to_nat (N.land first 127)) r;
  Ok (be_val lb, r').

(* a_xdr.decode_variable_integer (used by the APDU decoders): slicing, no bounds check,
   bytes_input[0] raises IndexError on empty input *)
Definition decode_variable_integer (b : bytes) : res (N * bytes) :=
  match b with
  | [] => Err ERefused
  | first :: _ =>
      if negb (N.land first 128 =? 0) then
        let k := N.to_nat (N.land first 127) in
        Ok (be_val (slice 1 (k + 1) b), skipn (k + 1) b)
      else Ok (N.land first 127, skipn 1 b)
  end.

(* ---------- per-class from_bytes(...).to_python() ---------- *)
Definition kind_of (tag : N) : option (N * Z) :=
  option_map snd (find (fun e => fst e =? tag) GenData.data_map).

Definition from_bytes_kind (kind : N) (data : bytes) : res pv :=
  if kind =? 0 then Ok PNone
  else if kind =? 3 then Ok (PBool (negb (be_val data =? 0)))
  else if kind =? 4 then Ok (PInt (be_val_signed data))
  else if kind =? 5 then Ok (PInt (Z.of_N (be_val data)))
  else if kind =? 6 then Ok (PBytes data)
  else if kind =? 7 then
    (if negb (Nat.eqb (length data) 12) then Err ERefused else
     do r <- datetime_from_bytes data; Ok (PDateTime (fst r) (snd r)))
  else if kind =? 8 then
    (if negb (Nat.eqb (length data) 5) then Err ERefused else do d <- date_from_bytes data; Ok (PDate d))
  else if kind =? 9 then
    (if negb (Nat.eqb (length data) 4) then Err ERefused else do t <- time_from_bytes data; Ok (PTime t))
  else Err ERefused.     (* NotImplementedError *)

(* ---------- the recursive decoder ---------- *)
(* decode_sequence_of / decode_data / decode_array / decode_structure, and one iteration of
   decode_sequence's loop (they treat a tag identically) *)
Fixpoint decode_value (fuel : nat) (b : bytes) : res (pv * bytes) :=
  match fuel with
  | O => Err EFuel
  | S f =>
      do (t, r) <- take 1 b;
      match kind_of (be_val t) with
      | None => Err ERefused                                   (* KeyError *)
      | Some (kind, length_) =>
          if (kind =? 1) || (kind =? 2) then
            do (count, r') <- get_len r;
            do (items, r'') <- decode_items f count r';
            Ok (PList items, r'')
          else if negb (length_ =? -1)%Z then
            do (d, r') <- take (Z.to_nat length_) r;
            do v <- from_bytes_kind kind d; Ok (v, r')
          else
            do (n, r') <- get_len r;
            do (d, r'') <- take_n n r';
            do v <- from_bytes_kind kind d; Ok (v, r'')
      end
  end
with decode_items (fuel : nat) (count : N) (b : bytes) : res (list pv * bytes) :=
  match fuel with
  | O => Err EFuel
  | S f =>
      if count =? 0 then Ok ([], b) else
      do (v, r) <- decode_value f b;
      do (vs, r') <- decode_items f (count - 1) r;
      Ok (v :: vs, r')
  end.

(* AXdrDecoder.decode_sequence: while the buffer is not empty *)
Fixpoint decode_all (fuel : nat) (b : bytes) : res (list pv) :=
  match b with
  | [] => Ok []
  | _ => match fuel with
         | O => Err EFuel
         | S f => do (v, r) <- decode_value fuel b; do vs <- decode_all f r; Ok (v :: vs)
         end
  end.
Definition fuel_for (b : bytes) : nat := 2 * length b + 2.
(* utils.parse_as_dlms_data: a single element is unwrapped *)
Definition parse_as_dlms_data (b : bytes) : res pv :=
  do vs <- decode_all (fuel_for b) b;
  match vs with [v] => Ok v | _ => Ok (PList vs) end.

(* ---------- the encoders that exist ---------- *)
(* BaseDlmsData.to_bytes for the four classes with value_to_bytes *)
Definition with_tag (tag : N) (variable : bool) (vb : bytes) : res bytes :=
  if variable then do l <- encode_variable_integer (len vb); Ok (tag :: l ++ vb) else Ok (tag :: vb).
Definition enc_double_long_unsigned (v : N) : res bytes := do vb <- to_bytes_be 4 v; with_tag 6 false vb.
Definition enc_octet_string (v : bytes) : res bytes := with_tag 9 true v.
Definition enc_integer (v : Z) : res bytes := do vb <- to_bytes_be_signed 1 v; with_tag 15 false vb.
Definition enc_unsigned_long (v : N) : res bytes := do vb <- to_bytes_be 2 v; with_tag 18 false vb.

(* selective_access.CaptureObject.to_bytes / RangeDescriptor.to_bytes *)
Definition enc_capture_object (interface : N) (obis : bytes) (attribute : Z) (data_index : N) : res bytes :=
  do a <- enc_unsigned_long interface; do b <- enc_octet_string obis; do c <- enc_integer attribute;
  do d <- enc_unsigned_long data_index; Ok ([2; 4] ++ a ++ b ++ c ++ d).
Definition enc_range_descriptor (co : bytes) (from_dt to_dt : bytes) : res bytes :=
  do f <- enc_octet_string from_dt; do t <- enc_octet_string to_dt;
  Ok ([1; 2; 4] ++ co ++ f ++ t ++ [1; 0]).
