(* Reference client procedure of the DLMS association (DESIGN.md appendix A).  No proofs here. *)
From Dlms Require Import Base AssocModel.

Inductive dir := DSend | DRecv.
Definition mk (k : N) (a b : bool) (p : N) : ev := {| e_kind := k; a_flag := a; b_flag := b; proof := p |}.

(* ---------- the client procedure (DESIGN.md appendix A) ---------- *)
(* [may]: every edge a conforming client may take, with its post-state.  Kinds: 0 AARQ 1 AARE 2 RLRQ
   3 RLRE 4 GET 5 GET-next 6 SET 7 ACTION 8 GET-resp 9 GET-resp-error 10 block 11 last-block
   12 last-block-error 13 SET-resp 14 ACTION-resp 15 ACTION-resp-data 16 ACTION-resp-error
   17 data-notification 18 exception-response *)
Definition may (s : N) (d : dir) (e : ev) : option N :=
  let k := e_kind e in
  match d with
  | DSend =>
      if (s =? 0) && (k =? 0) then Some 1                                   (* AARQ only when unassociated *)
      else if (s =? 2) && (k =? 4) then Some 5
      else if (s =? 2) && (k =? 6) then Some 8
      else if (s =? 2) && (k =? 7) then Some 4
      else if (s =? 2) && (k =? 2) then Some 3                              (* release only when ready *)
      else if (s =? 7) && (k =? 5) then Some 6                              (* block must be acknowledged *)
      else if (s =? 9) && (k =? 7) then Some 10                             (* HLS reply *)
      else None
  | DRecv =>
      if (s =? 1) && (k =? 1) then
        Some (if a_flag e then 0 else if b_flag e then 9 else 2)            (* rejected / HLS / accepted *)
      else if (s =? 1) && (k =? 18) then Some 0
      else if (s =? 2) && (k =? 17) then Some 2                             (* unsolicited data-notification *)
      else if (s =? 5) && ((k =? 8) || (k =? 9) || (k =? 18) || (k =? 11) || (k =? 12)) then Some 2
      else if (s =? 5) && (k =? 10) then Some 7
      else if (s =? 6) && (k =? 10) then Some 7
      else if (s =? 6) && ((k =? 11) || (k =? 12) || (k =? 9) || (k =? 18)) then Some 2
      else if (s =? 8) && ((k =? 13) || (k =? 18)) then Some 2
      else if (s =? 4) && ((k =? 14) || (k =? 15) || (k =? 16) || (k =? 18)) then Some 2
      else if (s =? 3) && (k =? 3) then Some 0                              (* completed release *)
      else if (s =? 3) && (k =? 18) then Some 2
      else if (s =? 10) && (k =? 15) && a_flag e && (proof e =? 0) then Some 2   (* meter proved key knowledge *)
      else if (s =? 10) && (k =? 15) && a_flag e && (proof e =? 1) then Some 0
      else if (s =? 10) && ((k =? 14) || (k =? 16)) then Some 0
      else None
  end.
(* [must]: the edges the property names; all of [may] except the optional meter answers *)
Definition optional_answer (s : N) (e : ev) : bool :=
  let k := e_kind e in
  ((s =? 5) && ((k =? 18) || (k =? 11) || (k =? 12))) || ((s =? 6) && ((k =? 9) || (k =? 18)))
  || ((s =? 8) && (k =? 18)) || ((s =? 4) && (k =? 18)) || ((s =? 3) && (k =? 18)).
Definition must (s : N) (d : dir) (e : ev) : option N :=
  match d with DRecv => if optional_answer s e then None else may s d e | DSend => may s d e end.

Definition step (pre : bool) (s : N) (d : dir) (e : ev) : res unit * N :=
  match d with DSend => assoc_send pre s e | DRecv => assoc_recv pre s e end.
Definition is_acse (d : dir) (k : N) : bool :=
  match d with DSend => (k =? 0) || (k =? 2) | DRecv => (k =? 1) || (k =? 3) end.

(* the event alphabet of the property: the client sends the 6 request kinds, the meter's 15 kinds arrive *)
Definition in_alphabet (d : dir) (k : N) : bool :=
  match d with
  | DSend => (k =? 0) || (k =? 2) || (k =? 4) || (k =? 5) || (k =? 6) || (k =? 7)
  | DRecv => (k =? 1) || (k =? 3) || ((8 <=? k) && (k <=? 20))
  end.

