(* C17, any number of messages: a TCP byte stream carrying several wrapper messages back to back,
   read under any schedule of read sizes, is returned message by message - each recv() call
   returns exactly one whole APDU, in order, and leaves exactly the following messages unread. *)
From Dlms Require Import Base WrapperModel WrapperSpec WrapperProofs.

(* one wrapper message: version, source port, destination port, payload *)
Definition wmsg := (N * N * N * bytes)%type.
Definition wmsg_ok (m : wmsg) : Prop :=
  let '(ver, src, dst, p) := m in ver < 65536 /\ src < 65536 /\ dst < 65536 /\ len p < 65536.
Definition wmsg_bytes (m : wmsg) : bytes :=
  let '(ver, src, dst, p) := m in std_header ver src dst (len p) ++ p.
Definition wmsg_payload (m : wmsg) : bytes := snd m.
Fixpoint wstream (ms : list wmsg) : bytes :=
  match ms with [] => [] | m :: r => wmsg_bytes m ++ wstream r end.

Theorem tcp_recv_stream_any_schedule : forall ms tail sched,
  Forall wmsg_ok ms -> sched_ok sched ->
  exists sched', sched_ok sched' /\
    tcp_recv_n (length ms) (wstream ms ++ tail, sched) = (map (fun m => Ok (wmsg_payload m)) ms, (tail, sched')).
Proof.
  induction ms as [|m ms IH]; intros tail sched Hms Hok.
  - exists sched. split; [exact Hok | reflexivity].
  - inversion Hms as [|m' ms' Hm Hrest]; subst.
    destruct m as [[[ver src] dst] p]. destruct Hm as (Hv & Hs & Hd & Hl).
    cbn [length tcp_recv_n wstream wmsg_bytes].
    rewrite <- !app_assoc.
    destruct (tcp_recv_any_schedule src dst ver p (wstream ms ++ tail) sched Hs Hd Hv Hl Hok) as (s1 & Hs1 & E1).
    rewrite E1.
    destruct (IH tail s1 Hrest Hs1) as (s2 & Hs2 & E2).
    rewrite E2. exists s2. split; [exact Hs2 | reflexivity].
Qed.

(* every prefix of the calls: after j <= n calls exactly the first j payloads have been returned
   and exactly the remaining messages are still unread *)
Corollary tcp_recv_stream_prefix : forall ms1 ms2 tail sched,
  Forall wmsg_ok ms1 -> sched_ok sched ->
  exists sched', sched_ok sched' /\
    tcp_recv_n (length ms1) (wstream (ms1 ++ ms2) ++ tail, sched)
    = (map (fun m => Ok (wmsg_payload m)) ms1, (wstream ms2 ++ tail, sched')).
Proof.
  intros ms1 ms2 tail sched H1 Hok.
  assert (E : wstream (ms1 ++ ms2) = wstream ms1 ++ wstream ms2).
  { clear. induction ms1 as [|m r IH]; [reflexivity|]. cbn [app wstream]. rewrite IH, app_assoc. reflexivity. }
  rewrite E, <- app_assoc. apply tcp_recv_stream_any_schedule; assumption.
Qed.

(* calls compose: a + b calls are a calls followed by b calls on the socket they left *)
Lemma tcp_recv_n_add : forall a b s,
  tcp_recv_n (a + b) s =
  let '(rs1, s1) := tcp_recv_n a s in let '(rs2, s2) := tcp_recv_n b s1 in (rs1 ++ rs2, s2).
Proof.
  induction a as [|a IH]; intros b s.
  - cbn [Nat.add tcp_recv_n]. destruct (tcp_recv_n b s) as [rs2 s2]. reflexivity.
  - cbn [Nat.add tcp_recv_n]. destruct (tcp_recv s) as [r s0]. rewrite IH.
    destruct (tcp_recv_n a s0) as [rs1 s1]. destruct (tcp_recv_n b s1) as [rs2 s2]. reflexivity.
Qed.

(* an exhausted schedule stays exhausted *)
Lemma recv_exactly_nil_sched : forall f n acc st r st' sch',
  recv_exactly f n acc (st, []) = (r, (st', sch')) -> sch' = [].
Proof.
  induction f as [|f IH]; intros n acc st r st' sch' E; cbn [recv_exactly] in E.
  - destruct (Nat.leb n (length acc)); inversion E; reflexivity.
  - destruct (Nat.leb n (length acc)); [inversion E; reflexivity|].
    cbn [sock_recv tl] in E.
    destruct (firstn (n - length acc) st) as [|c cs]; [inversion E; reflexivity|].
    eapply IH; exact E.
Qed.

Lemma tcp_recv_nil_sched : forall st r st' sch', tcp_recv (st, []) = (r, (st', sch')) -> sch' = [].
Proof.
  intros st r st' sch' E. unfold tcp_recv in E.
  destruct (recv_exactly 9 8 [] (st, [])) as [[hb|e] [st1 sch1]] eqn:E1.
  - apply recv_exactly_nil_sched in E1. subst sch1.
    destruct (whdr_from_bytes hb) as [[[[a b] ln] d]|e]; [|inversion E; reflexivity].
    eapply recv_exactly_nil_sched; exact E.
  - apply recv_exactly_nil_sched in E1. inversion E; subst; reflexivity.
Qed.

Lemma tcp_recv_n_nil_sched : forall k st rs st' sch', tcp_recv_n k (st, []) = (rs, (st', sch')) -> sch' = [].
Proof.
  induction k as [|k IH]; intros st rs st' sch' E; cbn [tcp_recv_n] in E.
  - inversion E; reflexivity.
  - destruct (tcp_recv (st, [])) as [r [st1 sch1]] eqn:E1. apply tcp_recv_nil_sched in E1. subst sch1.
    destruct (tcp_recv_n k (st1, [])) as [rs1 [st2 sch2]] eqn:E2. apply IH in E2. inversion E; subst; reflexivity.
Qed.

(* a stream that ends inside a message: the complete messages are returned, the call that meets
   the end of the stream is an error - never a short APDU *)
Theorem tcp_recv_stream_eof : forall ms ver src dst ln partial,
  Forall wmsg_ok ms -> src < 65536 -> dst < 65536 -> ver < 65536 -> ln < 65536 ->
  (length partial < N.to_nat ln)%nat ->
  exists e s', tcp_recv_n (length ms + 1) (wstream ms ++ std_header ver src dst ln ++ partial, [])
               = (map (fun m => Ok (wmsg_payload m)) ms ++ [Err e], s') /\ e <> EFuel.
Proof.
  intros ms ver src dst ln partial Hms Hs Hd Hv Hl Hp.
  rewrite tcp_recv_n_add.
  destruct (tcp_recv_stream_any_schedule ms (std_header ver src dst ln ++ partial) [] Hms) as (s1 & Hs1 & E1);
    [constructor|].
  rewrite E1. pose proof (tcp_recv_n_nil_sched _ _ _ _ _ E1) as ->.
  destruct (tcp_recv_eof_refused src dst ver ln partial Hs Hd Hv Hl Hp) as (e & s' & E & Hne).
  cbn [tcp_recv_n]. rewrite E. exists e, s'. split; [reflexivity | exact Hne].
Qed.

(* ---- whole sessions: send() = wrap, sendall, recv ---- *)
Definition std_request (client server : N) (q : bytes) : bytes := std_header 1 client server (len q) ++ q.

(* for any list of requests and any answers (one per request, any ports/version the meter chooses, any payload up to
   65535 bytes) already on the stream or arriving under any read schedule: the session writes exactly the standard
   wrapped requests, in order, one sendall() each; every send() returns its answer's payload whole; what follows the
   answers stays unread *)
Theorem tcp_session_any_schedule : forall client server reqs answers tail sched written,
  client < 65536 -> server < 65536 -> Forall (fun q => len q < 65536) reqs -> Forall wmsg_ok answers ->
  length answers = length reqs -> sched_ok sched ->
  exists sched', sched_ok sched' /\
    tcp_session client server reqs ((wstream answers ++ tail, sched), written)
    = (map (fun m => Ok (wmsg_payload m)) answers,
       ((tail, sched'), written ++ map (std_request client server) reqs)).
Proof.
  intros client server reqs. induction reqs as [|q reqs IH]; intros answers tail sched written Hc Hs Hq Ha Hlen Hok.
  - destruct answers; [|discriminate]. exists sched. split; [exact Hok|]. cbn. rewrite app_nil_r. reflexivity.
  - destruct answers as [|a answers]; [discriminate|]. injection Hlen as Hlen.
    inversion Hq as [|q' r' Hq1 Hq2]; subst. inversion Ha as [|a' r'' Ha1 Ha2]; subst.
    destruct a as [[[ver src] dst] p]. destruct Ha1 as (Hv & Hsr & Hd & Hl).
    cbn [tcp_session tcp_send wstream wmsg_bytes map].
    rewrite (wrap_is_header_plus_payload client server q Hc Hs Hq1).
    rewrite <- !app_assoc.
    destruct (tcp_recv_any_schedule src dst ver p (wstream answers ++ tail) sched Hsr Hd Hv Hl Hok) as (s1 & Hs1 & E1).
    rewrite E1.
    destruct (IH answers tail s1 (written ++ [std_header 1 client server (len q) ++ q]) Hc Hs Hq2 Ha2 Hlen Hs1)
      as (s2 & Hs2 & E2).
    match goal with |- context [tcp_session client server reqs ?st] =>
      replace (tcp_session client server reqs st) with
        (map (fun m => Ok (wmsg_payload m)) answers,
         ((tail, s2), (written ++ [std_header 1 client server (len q) ++ q]) ++ map (std_request client server) reqs))
        by (symmetry; exact E2) end. exists s2. split; [exact Hs2|]. rewrite <- app_assoc. reflexivity.
Qed.

(* a request too long for the 16-bit length field is refused before anything is written or read *)
Theorem tcp_send_too_long_refused : forall client server q st,
  client < 65536 -> server < 65536 -> 65536 <= len q ->
  exists e, tcp_send client server q st = (Err e, st).
Proof.
  intros client server q [s w] Hc Hs Hq. unfold tcp_send, tcp_wrap, wpdu_to_bytes.
  destruct (header_overflow_refused client server (len q) 1) as [e E]; [right; right; left; exact Hq|].
  rewrite E. cbn [bind]. exists e. reflexivity.
Qed.

Example tcp_session_nonvacuous :
  tcp_session 16 1 [[192; 1]; [98; 0]] ((wstream [(1, 1, 16, [196; 1; 0]); (1, 1, 16, [99])] ++ [7], [3; 1; 9; 2; 2; 2]%nat), [])
  = ([Ok [196; 1; 0]; Ok [99]], (([7], []), [std_request 16 1 [192; 1]; std_request 16 1 [98; 0]])).
Proof. vm_compute. reflexivity. Qed.


Example wstream_nonvacuous :
  Forall wmsg_ok [(1, 1, 16, [104; 105]); (1, 16, 1, []); (1, 1, 16, [1; 2; 3])] /\
  tcp_recv_n 3 (wstream [(1, 1, 16, [104; 105]); (1, 16, 1, []); (1, 1, 16, [1; 2; 3])] ++ [9], [3; 1; 7; 2; 1; 30]%nat)
  = ([Ok [104; 105]; Ok []; Ok [1; 2; 3]], ([9], [])).
Proof. split; [repeat constructor; cbn; lia|]. vm_compute. reflexivity. Qed.
