(* More error detection for the frame check sequence: any two flipped bits (messages up to 4095 bytes) and any odd
   number of flipped bits change the CRC register; with the burst theorem of CrcDetect this covers every error of up to
   three bits. *)
From Dlms Require Import Base Sweep CrcSpec CrcDetect.
From Coq Require Import ZifyBool ZifyN Btauto.

(* ---------- the zero-input step is injective on 16-bit registers ---------- *)
Lemma lsbstep_injective a b : a < 65536 -> b < 65536 -> lsbstep a = lsbstep b -> a = b.
Proof.
  intros Ha Hb E. assert (H : lsbstep (N.lxor a b) = 0) by (rewrite lsbstep_linear, E; apply N.lxor_nilpotent).
  apply (proj1 (lsbstep_zero_iff _ (lxor_lt16 _ _ Ha Hb))) in H. apply N.lxor_eq. exact H.
Qed.
Lemma iter_injective n : forall a b, a < 65536 -> b < 65536 -> iter n lsbstep a = iter n lsbstep b -> a = b.
Proof.
  induction n as [|n IH]; intros a b Ha Hb E; cbn [iter] in E; [exact E|].
  apply lsbstep_injective; try assumption. apply IH; try (apply lsbstep_lt; assumption). exact E.
Qed.
Lemma iter_add {A} n m (f : A -> A) x : iter (n + m) f x = iter m f (iter n f x).
Proof. revert x. induction n as [|n IH]; intros x; cbn [Nat.add iter]; [reflexivity|apply IH]. Qed.

(* ---------- a single flipped bit: bit q of byte i in a message of L bytes ---------- *)
Definition sbit (L i : nat) (q : N) : bytes := repeat 0 i ++ [2 ^ q] ++ repeat 0 (L - i - 1).
Lemma sbit_length L i q : (i < L)%nat -> length (sbit L i q) = L.
Proof. intros H. unfold sbit. rewrite !app_length, !repeat_length. cbn [length]. lia. Qed.
Lemma fold_zeros k s : fold_left x25_byte (repeat 0 k) s = iter (8 * k) lsbstep s.
Proof.
  revert s. induction k as [|k IH]; intros s; [reflexivity|]. cbn [repeat fold_left]. rewrite IH.
  unfold x25_byte. rewrite N.lxor_0_r. replace (8 * S k)%nat with (8 + 8 * k)%nat by lia. rewrite iter_add. reflexivity.
Qed.
Definition chk_bit (q : N) : bool := iter 8 lsbstep (2 ^ q) =? iter (8 - N.to_nat q) lsbstep 1.
Lemma chk_bit_ok : forall_below 8 chk_bit = true. Proof. vm_compute. reflexivity. Qed.
(* the syndrome of a single bit is the register 1 stepped once for every bit position that follows it, itself included *)
Lemma sbit_syndrome L i q : (i < L)%nat -> q < 8 ->
  syndrome (sbit L i q) = iter (8 * (L - i) - N.to_nat q) lsbstep 1.
Proof.
  intros Hi Hq. unfold syndrome, sbit. rewrite !fold_left_app, zeros_keep_zero. cbn [fold_left].
  unfold x25_byte at 2. rewrite N.lxor_0_l. rewrite fold_zeros.
  pose proof (forall_below_spec 8 _ chk_bit_ok q Hq) as C. unfold chk_bit in C. apply N.eqb_eq in C. rewrite C.
  rewrite <- iter_add. f_equal. lia.
Qed.

(* ---------- two flipped bits ---------- *)
(* the register 1 does not come back to 1 within 32766 steps (the order of x modulo the generator is 32767) *)
Fixpoint no_return (fuel : nat) (s : N) : bool :=
  match fuel with O => true | S f => negb (s =? 1) && no_return f (lsbstep s) end.
Lemma no_return_ok : no_return (N.to_nat 32766) (lsbstep 1) = true. Proof. vm_compute. reflexivity. Qed.
Lemma no_return_spec fuel : forall s, no_return fuel s = true -> forall d, (d < fuel)%nat -> iter d lsbstep s <> 1.
Proof.
  induction fuel as [|f IH]; intros s H d Hd; [lia|]. cbn [no_return] in H. apply andb_prop in H as [H1 H2].
  destruct d as [|d]; cbn [iter].
  - apply negb_true_iff in H1. apply N.eqb_neq in H1. exact H1.
  - apply IH; [exact H2|lia].
Qed.
Lemma order_of_x d : (1 <= d)%nat -> (d <= N.to_nat 32766)%nat -> iter d lsbstep 1 <> 1.
Proof.
  intros H1 H2. destruct d as [|d]; [lia|]. cbn [iter]. apply (no_return_spec _ _ no_return_ok). lia.
Qed.
Lemma distinct_powers m1 m2 : (m2 < m1)%nat -> (m1 - m2 <= N.to_nat 32766)%nat -> iter m1 lsbstep 1 <> iter m2 lsbstep 1.
Proof.
  intros H Hd E. replace m1 with (m1 - m2 + m2)%nat in E by lia. rewrite iter_add in E.
  apply iter_injective in E; [|apply iter_lt; lia|lia]. apply (order_of_x (m1 - m2)); [lia|exact Hd|exact E].
Qed.
Lemma syndrome_xor e1 e2 : length e1 = length e2 -> syndrome (xor_bytes e1 e2) = N.lxor (syndrome e1) (syndrome e2).
Proof. intros H. unfold syndrome. rewrite <- (N.lxor_0_r 0) at 1. apply crc_linear. exact H. Qed.

Theorem two_bits_detected L i1 q1 i2 q2 : (L <= 4095)%nat -> (i1 < L)%nat -> (i2 < L)%nat -> q1 < 8 -> q2 < 8 ->
  (i1, q1) <> (i2, q2) -> syndrome (xor_bytes (sbit L i1 q1) (sbit L i2 q2)) <> 0.
Proof.
  intros HL H1 H2 Hq1 Hq2 Hne. rewrite syndrome_xor by (rewrite !sbit_length; lia).
  rewrite !sbit_syndrome by assumption. intros E. apply N.lxor_eq in E.
  set (m1 := (8 * (L - i1) - N.to_nat q1)%nat) in *. set (m2 := (8 * (L - i2) - N.to_nat q2)%nat) in *.
  assert (Hm : m1 <> m2).
  { unfold m1, m2. intros F. apply Hne. assert (i1 = i2) by lia. subst i2. f_equal. lia. }
  destruct (Nat.lt_ge_cases m2 m1) as [G|G].
  - apply (distinct_powers m1 m2 G); [unfold m1, m2; change (N.to_nat 32766) with (Pos.to_nat 32766); lia|exact E].
  - apply (distinct_powers m2 m1 ltac:(lia)); [unfold m1, m2; change (N.to_nat 32766) with (Pos.to_nat 32766); lia|symmetry; exact E].
Qed.

(* ---------- an odd number of flipped bits ---------- *)
(* the generator has the factor x + 1: the parity of the register bits is preserved by the zero-input step *)
Definition parity16 (s : N) : bool :=
  fold_left xorb (map (fun i => N.testbit s (N.of_nat i)) (seq 0 16)) false.
Definition chk_parity (s : N) : bool := Bool.eqb (parity16 (lsbstep s)) (parity16 s).
Lemma chk_parity_ok : forall_bits 16 chk_parity 0 = true. Proof. vm_compute. reflexivity. Qed.
Lemma parity_step s : s < 65536 -> parity16 (lsbstep s) = parity16 s.
Proof. intros H. apply Bool.eqb_prop. exact (sweep16 _ chk_parity_ok s H). Qed.
Lemma parity_iter n : forall s, s < 65536 -> parity16 (iter n lsbstep s) = parity16 s.
Proof. induction n as [|n IH]; intros s H; cbn [iter]; [reflexivity|]. rewrite IH by (apply lsbstep_lt; exact H). apply parity_step. exact H. Qed.
Lemma parity_xor a b : parity16 (N.lxor a b) = xorb (parity16 a) (parity16 b).
Proof. unfold parity16. cbn [seq map fold_left N.of_nat Pos.of_succ_nat Pos.succ]. rewrite !N.lxor_spec. btauto. Qed.

(* the parity of the whole error pattern: the xor of the parities of its bytes *)
Definition pattern_parity (e : bytes) : bool := fold_left (fun acc b => xorb acc (parity16 b)) e false.
Lemma syndrome_parity e : bytes_ok e -> forall r, r < 65536 ->
  parity16 (fold_left x25_byte e r) = fold_left (fun acc b => xorb acc (parity16 b)) e (parity16 r).
Proof.
  induction 1 as [|b e Hb He IH]; intros r Hr; cbn [fold_left]; [reflexivity|].
  unfold byte_ok in Hb. assert (Hx : N.lxor r b < 65536) by (apply lxor_lt16; lia).
  rewrite IH by (unfold x25_byte; apply iter_lt; exact Hx).
  unfold x25_byte. rewrite parity_iter by exact Hx. rewrite parity_xor. reflexivity.
Qed.
Theorem odd_weight_detected e : bytes_ok e -> pattern_parity e = true -> syndrome e <> 0.
Proof.
  intros He Hp E. pose proof (syndrome_parity e He 0 ltac:(lia)) as H. fold (syndrome e) in H. rewrite E in H.
  change (parity16 0) with false in H. unfold pattern_parity in Hp. rewrite Hp in H. discriminate.
Qed.
(* three single bits: odd weight *)
Lemma sbit_parity L i q : q < 8 -> pattern_parity (sbit L i q) = true.
Proof.
  intros Hq. unfold pattern_parity, sbit. rewrite !fold_left_app.
  assert (Z : forall k acc, fold_left (fun acc b => xorb acc (parity16 b)) (repeat 0 k) acc = acc).
  { induction k as [|k IH]; intros acc; [reflexivity|]. cbn [repeat fold_left]. change (parity16 0) with false. rewrite xorb_false_r. apply IH. }
  rewrite Z. cbn [fold_left]. rewrite Z.
  assert (C : forall_below 8 (fun q => parity16 (2 ^ q)) = true) by (vm_compute; reflexivity).
  rewrite (forall_below_spec 8 _ C q Hq). reflexivity.
Qed.

Lemma lxor_lt_pow2 n a b : a < 2 ^ n -> b < 2 ^ n -> N.lxor a b < 2 ^ n.
Proof.
  intros Ha Hb. destruct (N.eq_dec (N.lxor a b) 0) as [E|E]; [rewrite E; apply N.neq_0_lt_0; apply N.pow_nonzero; lia|].
  apply N.log2_lt_pow2; [lia|]. eapply N.le_lt_trans; [apply N.log2_lxor|].
  apply N.max_lub_lt.
  - destruct (N.eq_dec a 0) as [->|Z]; [|apply N.log2_lt_pow2; [lia|exact Ha]].
    cbn. destruct (N.eq_dec n 0) as [->|Zn]; [|lia]. cbn in Hb. assert (b = 0) by lia. subst. cbn in E. contradiction.
  - destruct (N.eq_dec b 0) as [->|Z]; [|apply N.log2_lt_pow2; [lia|exact Hb]].
    cbn. destruct (N.eq_dec n 0) as [->|Zn]; [|lia]. cbn in Ha. assert (a = 0) by lia. subst. cbn in E. contradiction.
Qed.
Lemma xor_bytes_ok a b : bytes_ok a -> bytes_ok b -> bytes_ok (xor_bytes a b).
Proof.
  intros Ha. revert b. induction Ha as [|x a Hx _ IH]; intros b Hb; [constructor|]. destruct Hb as [|y b Hy Hb]; [constructor|].
  cbn [xor_bytes]. constructor; [|apply IH; exact Hb]. unfold byte_ok in *. change 256 with (2 ^ 8) in *. apply lxor_lt_pow2; assumption.
Qed.
Lemma sbit_ok L i q : q < 8 -> bytes_ok (sbit L i q).
Proof.
  intros Hq. unfold sbit, bytes_ok. rewrite !Forall_app. repeat split.
  - apply Forall_forall. intros x Hx. apply repeat_spec in Hx. subst. unfold byte_ok. lia.
  - constructor; [|constructor]. unfold byte_ok. change 256 with (2 ^ 8). apply N.pow_lt_mono_r; lia.
  - apply Forall_forall. intros x Hx. apply repeat_spec in Hx. subst. unfold byte_ok. lia.
Qed.
Lemma pattern_parity_xor e1 : forall e2, length e1 = length e2 ->
  pattern_parity (xor_bytes e1 e2) = xorb (pattern_parity e1) (pattern_parity e2).
Proof.
  unfold pattern_parity. assert (G : forall e1 e2 a1 a2, length e1 = length e2 ->
    fold_left (fun acc b => xorb acc (parity16 b)) (xor_bytes e1 e2) (xorb a1 a2) =
    xorb (fold_left (fun acc b => xorb acc (parity16 b)) e1 a1) (fold_left (fun acc b => xorb acc (parity16 b)) e2 a2)).
  { clear. induction e1 as [|x e1 IH]; intros [|y e2] a1 a2 H; try discriminate; [reflexivity|]. cbn [xor_bytes fold_left].
    rewrite parity_xor. rewrite <- IH by (cbn in H; lia). f_equal. btauto. }
  intros e2 H. rewrite <- G by exact H. reflexivity.
Qed.

Lemma xb_len a : forall b, length a = length b -> length (xor_bytes a b) = length a.
Proof. induction a as [|x a IH]; intros [|y b] H; try discriminate; [reflexivity|]. cbn. f_equal. apply IH. cbn in H. lia. Qed.

(* any three flipped bits (positions need not even differ: the weight stays odd) *)
Theorem three_bits_detected L i1 q1 i2 q2 i3 q3 : (i1 < L)%nat -> (i2 < L)%nat -> (i3 < L)%nat -> q1 < 8 -> q2 < 8 -> q3 < 8 ->
  syndrome (xor_bytes (xor_bytes (sbit L i1 q1) (sbit L i2 q2)) (sbit L i3 q3)) <> 0.
Proof.
  intros H1 H2 H3 Q1 Q2 Q3. apply odd_weight_detected.
  - repeat apply xor_bytes_ok; apply sbit_ok; assumption.
  - assert (L12 : length (sbit L i1 q1) = length (sbit L i2 q2)) by (rewrite !sbit_length; lia).
    rewrite pattern_parity_xor by (rewrite xb_len, !sbit_length; lia).
    rewrite pattern_parity_xor by exact L12. rewrite !sbit_parity by assumption. reflexivity.
Qed.
