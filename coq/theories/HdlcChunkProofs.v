(* C10: however the bytes of a valid frame are chunked, polling after each chunk reports only
   NEED_DATA until the last byte has arrived and then delivers exactly that frame, once, leaving
   the receive buffer empty and the search position reset. *)
From Dlms Require Import Base FieldsModel AddrModel FrameModel FrameProofs HdlcConnModel.

(* poll until nothing is pending: stop at NEED_DATA that did not move the search position, or at
   the first delivered frame / exception *)
Fixpoint poll_all (fuel : nat) (c : conn) : list event * conn :=
  match fuel with
  | O => ([ERaise EFuel], c)
  | S f =>
      let pos0 := c_pos c in
      let '(e, c1) := next_event c in
      match e with
      | ENeedData =>
          if Nat.eqb (c_pos c1) pos0 then ([ENeedData], c1)
          else let '(es, c2) := poll_all f c1 in (ENeedData :: es, c2)
      | _ => ([e], c1)
      end
  end.
Definition feed_chunk (c : conn) (ch : bytes) : list event * conn :=
  poll_all (length (c_buf c) + length ch + 2) (receive_data c ch).
Fixpoint feed (c : conn) (chunks : list bytes) : list (list event) * conn :=
  match chunks with
  | [] => ([], c)
  | ch :: r => let '(es, c1) := feed_chunk c ch in let '(ess, c2) := feed c1 r in (es :: ess, c2)
  end.

Definition all_need_data (es : list event) : Prop := Forall (fun e => e = ENeedData) es.

(* ---------- facts about index_from ---------- *)
Lemma index_from_spec l : forall i start r, index_from i l start = Some r ->
  (i <= r)%nat /\ (start <= r)%nat /\ nth_error l (r - i) = Some 126 /\ (r - i < length l)%nat.
Proof.
  induction l as [|x l IH]; intros i start r H; [discriminate|]. cbn [index_from] in H.
  destruct (Nat.leb_spec start i) as [Hs|Hs]; cbn [andb] in H.
  - destruct (N.eqb_spec x 126) as [->|Hx].
    + injection H as <-. rewrite Nat.sub_diag. cbn. repeat split; lia.
    + apply IH in H as (A & B & C & D). replace (r - i)%nat with (S (r - S i)) by lia. cbn. repeat split; try lia. exact C.
  - apply IH in H as (A & B & C & D). replace (r - i)%nat with (S (r - S i)) by lia. cbn. repeat split; try lia. exact C.
Qed.
Lemma index_from_none l : forall i start, index_from i l start = None ->
  forall j, (start <= i + j)%nat -> (j < length l)%nat -> nth_error l j <> Some 126.
Proof.
  induction l as [|x l IH]; intros i start H j Hj Hl; [cbn in Hl; lia|]. cbn [index_from] in H.
  destruct j as [|j].
  - cbn. destruct (Nat.leb_spec start i); [|lia]. cbn [andb] in H.
    destruct (N.eqb_spec x 126); [discriminate|]. congruence.
  - cbn. destruct (Nat.leb start i && (x =? 126)); [discriminate|].
    apply (IH (S i) start H j); cbn in Hl; lia.
Qed.
Lemma index_from_some l : forall i start j, (start <= i + j)%nat -> nth_error l j = Some 126 ->
  exists r, index_from i l start = Some r /\ (r <= i + j)%nat.
Proof.
  induction l as [|x l IH]; intros i start j Hj Hn; [destruct j; discriminate|]. cbn [index_from].
  destruct (Nat.leb start i && (x =? 126)) eqn:E; [exists i; split; [reflexivity|lia]|].
  destruct j as [|j].
  - cbn in Hn. injection Hn as ->. destruct (Nat.leb_spec start i); [|lia]. cbn in E. discriminate.
  - cbn in Hn. destruct (IH (S i) start j ltac:(lia) Hn) as (r & Hr & Hle). exists r. split; [exact Hr|lia].
Qed.

(* ---------- a proper prefix of an accepted frame is never a frame ---------- *)
Record accepted (pk : fkind) (F : bytes) (f : frame) : Prop := {
  acc_parse : frame_from_bytes pk F = Ok f }.

Lemma prelude_of_accepted pk F f : frame_from_bytes pk F = Ok f -> exists x, parse_prelude F = Ok x.
Proof. unfold frame_from_bytes. destruct (parse_prelude F) as [x|]; [eauto|discriminate]. Qed.

Lemma firstn_slice_same {A} n a b (l : list A) : (b <= n)%nat -> slice a b (firstn n l) = slice a b l.
Proof.
  intros H. unfold slice. rewrite skipn_firstn_comm, firstn_firstn. f_equal. lia.
Qed.

Lemma strict_prefix_is_not_a_frame pk F f n : frame_from_bytes pk F = Ok f ->
  (2 <= n < length F)%nat -> last (firstn n F) 0 = 126 ->
  frame_from_bytes pk (firstn n F) = Err EParse.
Proof.
  intros Hacc Hn Hlast. destruct (prelude_of_accepted pk F f Hacc) as (x & Hp).
  assert (Hpre : parse_prelude (firstn n F) = Err EParse).
  { unfold parse_prelude in *. unfold enclosed_by_flags in *.
    destruct F as [|first rest]; [discriminate|]. cbn [bind] in Hp.
    destruct n as [|n]; [lia|]. cbn [firstn bind].
    destruct ((first =? last_byte (first :: rest)) && (first =? 126)) eqn:Fl; [|discriminate]. cbn [negb] in Hp.
    apply andb_prop in Fl as [_ F2]. apply N.eqb_eq in F2. subst first.
    unfold last_byte. change (126 :: firstn n rest) with (firstn (S n) (126 :: rest)). rewrite Hlast. cbn [N.eqb Pos.eqb andb negb].
    destruct (Nat.eq_dec n 1) as [->|Hn2].
    - (* two bytes: the format field is incomplete *)
      destruct rest as [|b rest']; [cbn in Hn; lia|]. reflexivity.
    - assert (H3 : (3 <= S n)%nat) by lia.
      rewrite (firstn_slice_same (S n) 1 3 (126 :: rest) H3).
      destruct (negb (Nat.eqb (length (slice 1 3 (126 :: rest))) 2)); [reflexivity|].
      destruct (negb (N.land (nth 0 (slice 1 3 (126 :: rest)) 0) 240 =? 160)); [reflexivity|].
      destruct (fmt_make _ _) as [y|]; [|discriminate]. cbn [bind] in *.
      destruct (negb (fst y + 2 =? len (126 :: rest))) eqn:L; [discriminate|].
      apply negb_false_iff, N.eqb_eq in L.
      replace (negb (fst y + 2 =? len (firstn (S n) (126 :: rest)))) with true; [reflexivity|].
      symmetry. apply negb_true_iff, N.eqb_neq. unfold len in *. rewrite firstn_length. lia. }
  unfold frame_from_bytes. rewrite Hpre. reflexivity.
Qed.

(* ---------- structure of an accepted frame ---------- *)
Lemma accepted_shape pk F f : frame_from_bytes pk F = Ok f ->
  exists rest, F = 126 :: rest /\ last F 0 = 126 /\ (2 <= length F)%nat.
Proof.
  intros H. destruct (frame_acceptance_sound pk F f H) as (H1 & H2 & H3 & _).
  destruct F as [|x rest]; [cbn in H3; unfold len in H3; cbn in H3; lia|]. cbn in H1. subst x.
  exists rest. repeat split; [exact H2|]. unfold len in H3. cbn [length] in *. lia.
Qed.

Lemma last_firstn_nth (l : bytes) i : nth_error l i = Some 126 -> last (firstn (S i) l) 0 = 126.
Proof.
  revert i; induction l as [|x l IH]; intros i H; [destruct i; discriminate|].
  destruct i as [|i]; cbn in H.
  - injection H as ->. reflexivity.
  - cbn [firstn]. specialize (IH i H). destruct l as [|y l']; [destruct i; discriminate|].
    cbn [firstn] in *. cbn [last]. exact IH.
Qed.

Section one_frame.
  Variables (pk : fkind) (F : bytes) (f : frame) (l l2 : link).
  Hypothesis Hacc : frame_from_bytes pk F = Ok f.
  Hypothesis Hpk : parse_kind l = Some pk.
  Hypothesis Hlink : link_on_frame l pk (f_ssn f) (f_rsn f) = (Ok tt, l2).

  Definition st (m p : nat) : conn := {| c_link := l; c_buf := firstn m F; c_pos := p |}.

  (* a candidate that ends before the frame does is refused by the parser: NEED_DATA *)
  Lemma step_candidate m p i : (m <= length F)%nat -> (1 <= p)%nat ->
    index_from 0 (firstn m F) p = Some i -> (S i < length F)%nat ->
    next_event (st m p) = (ENeedData, st m (S i)) /\ (p <= i < m)%nat.
  Proof.
    intros Hm Hp Hi Hlt. destruct (accepted_shape pk F f Hacc) as (rest & EF & _ & _).
    apply index_from_spec in Hi as Hs. destruct Hs as (_ & Hpi & Hnth & Hil).
    rewrite Nat.sub_0_r in Hnth, Hil. rewrite firstn_length in Hil.
    assert (Him : (i < m)%nat) by lia.
    assert (Hnth' : nth_error F i = Some 126).
    { rewrite <- Hnth. symmetry. rewrite <- (firstn_skipn m F) at 2. rewrite nth_error_app1; [reflexivity|].
      rewrite firstn_length. lia. }
    split; [|lia].
    unfold next_event, find_frame, st. cbn [c_buf c_pos c_link]. rewrite Hi.
    rewrite firstn_firstn. replace (Nat.min (S i) m) with (S i) by lia.
    assert (Hhd : firstn (S i) F = 126 :: firstn i rest) by (rewrite EF; reflexivity).
    rewrite Hhd. rewrite <- Hhd. cbn [c_link]. rewrite Hpk.
    rewrite (strict_prefix_is_not_a_frame pk F f (S i) Hacc); [reflexivity|lia|].
    apply last_firstn_nth. exact Hnth'.
  Qed.

  (* polling on a proper prefix of the frame: only NEED_DATA, nothing changes but the position *)
  Lemma poll_prefix fuel : forall m p, (m < length F)%nat -> (1 <= p)%nat -> (m - p < fuel)%nat ->
    exists es p', poll_all fuel (st m p) = (es, st m p') /\ all_need_data es /\ (p <= p')%nat /\ (p' <= Nat.max p m)%nat.
  Proof.
    induction fuel as [|fu IH]; intros m p Hm Hp Hf; [lia|].
    cbn [poll_all]. destruct (index_from 0 (firstn m F) p) as [i|] eqn:Hi.
    - destruct (step_candidate m p i ltac:(lia) Hp Hi) as [Hstep Hr].
      { apply index_from_spec in Hi as (_ & _ & _ & Hil). rewrite firstn_length in Hil. lia. }
      rewrite Hstep. cbn [c_pos st]. destruct (Nat.eqb_spec (S i) p); [lia|].
      destruct (IH m (S i) Hm ltac:(lia) ltac:(lia)) as (es & p' & E & A & B & C).
      rewrite E. exists (ENeedData :: es), p'. repeat split; try lia.
      constructor; [reflexivity|exact A].
    - unfold next_event, find_frame, st. cbn [c_buf c_pos]. rewrite Hi. cbn [c_pos]. rewrite Nat.eqb_refl.
      exists [ENeedData], p. repeat split; try lia. constructor; [reflexivity|constructor].
  Qed.

  (* the tail of next_event is the link procedure *)
  Lemma deliver_full p : (1 <= p)%nat -> index_from 0 F p = Some (length F - 1)%nat ->
    next_event (st (length F) p) = (EFrame pk f, {| c_link := l2; c_buf := []; c_pos := 1 |}).
  Proof.
    intros Hp Hi. destruct (accepted_shape pk F f Hacc) as (rest & EF & _ & Hlen).
    unfold next_event, find_frame, st. cbn [c_buf c_pos c_link]. rewrite firstn_all. rewrite Hi.
    replace (S (length F - 1)) with (length F) by lia. rewrite firstn_all.
    pose proof Hacc as Hacc'. pose proof Hlink as Hlink'.
    assert (Hm : match F with 126 :: _ => F | _ => 126 :: F end = F) by (rewrite EF; reflexivity).
    rewrite Hm. cbn [c_link c_buf c_pos]. rewrite Hpk, Hacc.
    rewrite skipn_all. unfold link_on_frame in Hlink.
    destruct (process_frame l pk) as [l1|]; [|discriminate].
    destruct pk; try (injection Hlink as <-; reflexivity).
    destruct (handle_sequence_numbers l1 (f_ssn f) (f_rsn f) true) as [l2'|]; [|discriminate].
    injection Hlink as <-. reflexivity.
  Qed.

  (* polling with the whole frame buffered: NEED_DATA for every inner flag, then the frame *)
  Lemma poll_full fuel : forall p, (1 <= p <= length F - 1)%nat -> (length F - p < fuel)%nat ->
    exists es, poll_all fuel (st (length F) p) = (es ++ [EFrame pk f], {| c_link := l2; c_buf := []; c_pos := 1 |})
               /\ all_need_data es.
  Proof.
    destruct (accepted_shape pk F f Hacc) as (rest & EF & Hlast & Hlen).
    induction fuel as [|fu IH]; intros p Hp Hf; [lia|].
    assert (Hn : nth_error F (length F - 1) = Some 126).
    { clear -Hlast Hlen. revert Hlast Hlen. generalize F as L. induction L as [|x L IHL]; intros H1 H2; [cbn in H2; lia|].
      destruct L as [|y L']; [cbn in H2; lia|]. cbn [length] in *.
      replace (S (S (length L')) - 1)%nat with (S (length L')) by lia. cbn [nth_error].
      destruct L' as [|z L''].
      - cbn in *. congruence.
      - specialize (IHL H1 ltac:(cbn; lia)). cbn [length] in IHL.
        replace (S (S (length L'')) - 1)%nat with (S (length L'')) in IHL by lia. exact IHL. }
    destruct (index_from_some F 0 p (length F - 1) ltac:(lia) Hn) as (i & Hi & Hle).
    cbn [poll_all].
    destruct (Nat.eq_dec i (length F - 1)) as [->|Hne].
    - rewrite (deliver_full p ltac:(lia) Hi). exists []. split; [reflexivity|constructor].
    - assert (Hi' : index_from 0 (firstn (length F) F) p = Some i) by (rewrite firstn_all; exact Hi).
      destruct (step_candidate (length F) p i ltac:(lia) ltac:(lia) Hi' ltac:(lia)) as [Hstep Hr].
      rewrite Hstep. cbn [c_pos st]. destruct (Nat.eqb_spec (S i) p); [lia|].
      destruct (IH (S i) ltac:(lia) ltac:(lia)) as (es & E & A). rewrite E.
      exists (ENeedData :: es). split; [reflexivity|]. constructor; [reflexivity|exact A].
  Qed.

  (* ---------- every partition into non-empty chunks ---------- *)
  Lemma feed_chunks chunks : forall m p, Forall (fun ch => ch <> []) chunks -> chunks <> [] ->
    firstn m F ++ concat chunks = F -> (m <= length F)%nat -> (1 <= p)%nat -> (p <= Nat.max 1 m)%nat ->
    exists ess es_last, feed (st m p) chunks = (ess ++ [es_last ++ [EFrame pk f]], {| c_link := l2; c_buf := []; c_pos := 1 |})
      /\ Forall all_need_data ess /\ all_need_data es_last /\ length ess = (length chunks - 1)%nat.
  Proof.
    destruct (accepted_shape pk F f Hacc) as (rest & EF & _ & Hlen).
    induction chunks as [|ch r IH]; intros m p Hne Hnn Hcat Hm Hp Hpm; [contradiction|].
    inversion Hne as [|? ? Hch Hr]; subst.
    cbn [feed]. unfold feed_chunk, receive_data, st. cbn [c_link c_buf c_pos].
    assert (Hbuf : firstn m F ++ ch = firstn (m + length ch) F).
    { cbn [concat] in Hcat.
      transitivity (firstn (m + length ch) ((firstn m F ++ ch) ++ concat r)).
      - symmetry. apply firstn_app_exact. rewrite app_length, firstn_length. lia.
      - rewrite <- app_assoc. rewrite Hcat. reflexivity. }
    assert (Hlenm : (m + length ch <= length F)%nat).
    { cbn [concat] in Hcat. apply (f_equal (@length N)) in Hcat. rewrite !app_length, firstn_length in Hcat. lia. }
    assert (Hchl : (1 <= length ch)%nat) by (destruct ch; [contradiction|cbn; lia]).
    rewrite Hbuf. rewrite firstn_length. replace (Nat.min m (length F)) with m by lia.
    destruct r as [|ch2 r'].
    - (* last chunk: the frame is complete *)
      assert (Hfull : (m + length ch)%nat = length F).
      { cbn [concat] in Hcat. rewrite app_nil_r in Hcat. apply (f_equal (@length N)) in Hcat.
        rewrite app_length, firstn_length in Hcat. lia. }
      rewrite Hfull. fold (st (length F) p).
      destruct (poll_full (m + length ch + 2) p ltac:(lia) ltac:(lia)) as (es & E & A).
      rewrite Hfull in E. rewrite E. cbn [feed]. exists [], es. repeat split; [constructor|exact A].
    - (* more chunks follow: a proper prefix *)
      assert (Hstrict : (m + length ch < length F)%nat).
      { cbn [concat] in Hcat. apply (f_equal (@length N)) in Hcat. rewrite !app_length, firstn_length in Hcat.
        inversion Hr as [|? ? Hc2 _]; subst. destruct ch2; [contradiction|]. cbn [length] in Hcat. lia. }
      fold (st (m + length ch) p).
      destruct (poll_prefix (m + length ch + 2) (m + length ch) p Hstrict Hp ltac:(lia)) as (es & p' & E & A & B & C).
      rewrite E.
      destruct (IH (m + length ch)%nat p' Hr ltac:(discriminate)) as (ess & esl & E2 & A2 & A3 & L); try lia.
      { cbn [concat] in Hcat. rewrite <- Hbuf, <- app_assoc. exact Hcat. }
      rewrite E2. exists (es :: ess), esl. repeat split; try assumption.
      + constructor; assumption.
      + cbn [length] in *. lia.
  Qed.

  (* the statement of the property for one frame: any partition of its bytes into non-empty
     pieces, polled until nothing is pending after each piece *)
  Theorem chunking_single chunks : Forall (fun ch => ch <> []) chunks -> concat chunks = F ->
    exists ess es_last,
      feed {| c_link := l; c_buf := []; c_pos := 1 |} chunks
        = (ess ++ [es_last ++ [EFrame pk f]], {| c_link := l2; c_buf := []; c_pos := 1 |})
      /\ Forall all_need_data ess /\ all_need_data es_last /\ length ess = (length chunks - 1)%nat.
  Proof.
    intros Hne Hcat. destruct (accepted_shape pk F f Hacc) as (rest & EF & _ & Hlen).
    assert (Hnn : chunks <> []) by (intros ->; cbn in Hcat; subst F; cbn in Hlen; lia).
    apply (feed_chunks chunks 0 1 Hne Hnn); cbn [firstn app]; try lia. exact Hcat.
  Qed.
End one_frame.
