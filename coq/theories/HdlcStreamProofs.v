(* C10, streams of several frames: the bytes of any number of valid frames (each may share its
   opening flag with the closing flag of the previous one), handed over in pieces of any sizes and
   polled until nothing is pending after each piece (sending the receive-ready frame between
   segments, as the transport does), are delivered exactly once, in order, each as soon as - and
   never before - its last byte has arrived; the buffer is empty afterwards. *)
From Dlms Require Import Base FieldsModel AddrModel FrameModel FrameProofs HdlcConnModel HdlcScript HdlcChunkProofs.

(* ---------- polling that continues after a delivered frame (what HdlcScript.drain does) ---------- *)
Definition rr0 (c : conn) : frame := rr_frame c (0, None, false) (0, None, false).
Definition between_conn (c : conn) (fr : frame) : conn :=
  if (l_state (c_link c) =? 1) && f_segmented fr then snd (conn_send c KRr (rr0 c)) else c.
Fixpoint pollm (fuel : nat) (c : conn) : list event * conn :=
  match fuel with
  | O => ([ERaise EFuel], c)
  | S f =>
      let pos0 := c_pos c in
      let '(e, c1) := next_event c in
      match e with
      | ENeedData =>
          if Nat.eqb (c_pos c1) pos0 then ([ENeedData], c1)
          else let '(es, c2) := pollm f c1 in (ENeedData :: es, c2)
      | ERaise _ => ([e], c1)
      | EFrame _ fr => let '(es, c2) := pollm f (between_conn c1 fr) in (e :: es, c2)
      end
  end.
Definition feed_chunkm (c : conn) (ch : bytes) : list event * conn :=
  let c1 := receive_data c ch in pollm (length (c_buf c1) + 4) c1.
Fixpoint feedm (c : conn) (chunks : list bytes) : list (list event) * conn :=
  match chunks with
  | [] => ([], c)
  | ch :: r => let '(es, c1) := feed_chunkm c ch in let '(ess, c2) := feedm c1 r in (es :: ess, c2)
  end.

(* the link part of the receive-ready step *)
Definition between (l : link) (fr : frame) : link :=
  if (l_state l =? 1) && f_segmented fr then snd (link_send l KRr 0 (server_rsn l)) else l.
Lemma between_conn_eq c fr :
  between_conn c fr = {| c_link := between (c_link c) fr; c_buf := c_buf c; c_pos := c_pos c |}.
Proof.
  unfold between_conn, between. destruct ((l_state (c_link c) =? 1) && f_segmented fr).
  - unfold conn_send, rr0, rr_frame. cbn [f_ssn f_rsn].
    destruct (link_send (c_link c) KRr 0 (server_rsn (c_link c))) as [r l']. destruct r; reflexivity.
  - destruct c; reflexivity.
Qed.

(* drain is pollm, printed *)
Lemma conn_send_rr_snd c cl sv : snd (conn_send c KRr (rr_frame c cl sv)) = snd (conn_send c KRr (rr0 c)).
Proof.
  unfold conn_send, rr0, rr_frame. cbn [f_ssn f_rsn].
  destruct (link_send (c_link c) KRr 0 (server_rsn (c_link c))) as [r l']. destruct r; reflexivity.
Qed.
Lemma drain_pollm fuel : forall c cl sv acc es c', pollm fuel c = (es, c') ->
  drain fuel c cl sv acc = (acc ++ map v_event es, c').
Proof.
  induction fuel as [|fu IH]; intros c cl sv acc es c' H; cbn [pollm drain] in *.
  - injection H as <- <-. reflexivity.
  - destruct (next_event c) as [e c1]. destruct e as [|k fr|x].
    + destruct (Nat.eqb (c_pos c1) (c_pos c)).
      * injection H as <- <-. reflexivity.
      * destruct (pollm fu c1) as [es1 c2] eqn:P. injection H as <- <-.
        rewrite (IH c1 cl sv (acc ++ [VNone]) es1 c2 P). rewrite <- app_assoc. reflexivity.
    + destruct (pollm fu (between_conn c1 fr)) as [es1 c2] eqn:P. injection H as <- <-.
      unfold between_conn in P.
      destruct ((l_state (c_link c1) =? 1) && f_segmented fr).
      * pose proof (conn_send_rr_snd c1 cl sv) as Hs.
        destruct (conn_send c1 KRr (rr_frame c1 cl sv)) as [r0 cc]. cbn [snd] in Hs. subst cc.
        rewrite (IH _ cl sv (acc ++ [v_event (EFrame k fr)]) es1 c2 P). rewrite <- app_assoc. reflexivity.
      * rewrite (IH _ cl sv (acc ++ [v_event (EFrame k fr)]) es1 c2 P). rewrite <- app_assoc. reflexivity.
    + injection H as <- <-. reflexivity.
Qed.

(* the frames among a list of events; None when anything was raised *)
Fixpoint keys (es : list event) : option (list (fkind * frame)) :=
  match es with
  | [] => Some []
  | ENeedData :: r => keys r
  | EFrame k f :: r => match keys r with Some l => Some ((k, f) :: l) | None => None end
  | ERaise _ :: _ => None
  end.
Lemma keys_need_data es : all_need_data es -> keys es = Some [].
Proof. induction 1 as [|e es He _ IH]; [reflexivity|]. subst e. exact IH. Qed.
Lemma keys_app a b x y : keys a = Some x -> keys b = Some y -> keys (a ++ b) = Some (x ++ y).
Proof.
  revert x; induction a as [|e a IH]; intros x Ha Hb; cbn [app keys] in *.
  - injection Ha as <-. exact Hb.
  - destruct e as [|k f|z]; [apply IH; assumption| |discriminate].
    destruct (keys a) as [l|]; [|discriminate]. injection Ha as <-. rewrite (IH l eq_refl Hb). reflexivity.
Qed.

(* ---------- more about accepted frames: at least three bytes, the second one is not a flag ---------- *)
Lemma accepted_second pk F f : frame_from_bytes pk F = Ok f ->
  exists b rest, F = 126 :: b :: rest /\ b <> 126 /\ rest <> [].
Proof.
  intros H. destruct (prelude_of_accepted pk F f H) as (x & Hp).
  destruct (accepted_shape pk F f H) as (r & EF & _ & _). subst F.
  unfold parse_prelude in Hp. destruct (enclosed_by_flags (126 :: r)) as [fl|]; [|discriminate]. cbn [bind] in Hp.
  destruct (negb fl); [discriminate|].
  destruct (negb (Nat.eqb (length (slice 1 3 (126 :: r))) 2)) eqn:L; [discriminate|].
  destruct (negb (N.land (nth 0 (slice 1 3 (126 :: r)) 0) 240 =? 160)) eqn:M; [discriminate|].
  apply negb_false_iff, Nat.eqb_eq in L. apply negb_false_iff, N.eqb_eq in M.
  destruct r as [|b [|b2 rest]]; try (cbn in L; discriminate).
  exists b, (b2 :: rest). repeat split; [|discriminate].
  intros ->. cbn in M. discriminate.
Qed.

(* ---------- index_from and appended bytes ---------- *)
Lemma index_from_app l : forall i start r x, index_from i l start = Some r -> index_from i (l ++ x) start = Some r.
Proof.
  induction l as [|a l IH]; intros i start r x H; [discriminate|]. cbn [app index_from] in *.
  destruct (Nat.leb start i && (a =? 126)); [exact H|]. apply IH. exact H.
Qed.

Lemma nth_error_skipn' {A} d : forall (l : list A) i, nth_error (skipn d l) i = nth_error l (d + i).
Proof. induction d as [|d IH]; intros l i; [reflexivity|]. destruct l as [|x l]; [destruct i; reflexivity|]. cbn. apply IH. Qed.

Section one_frame_in_a_stream.
  Variables (pk : fkind) (F : bytes) (f : frame) (l l2 : link) (d : nat).
  Hypothesis Hacc : frame_from_bytes pk F = Ok f.
  Hypothesis Hpk : parse_kind l = Some pk.
  Hypothesis Hlink : link_on_frame l pk (f_ssn f) (f_rsn f) = (Ok tt, l2).
  Hypothesis Hd : (d <= 1)%nat.

  (* the first m bytes of the frame, without the opening flag when it is shared (d = 1) *)
  Definition Bf (m : nat) : bytes := skipn d (firstn m F).
  Definition stg (m p : nat) (more : bytes) : conn := {| c_link := l; c_buf := Bf m ++ more; c_pos := p |}.

  Lemma Bf_length m : (m <= length F)%nat -> length (Bf m) = (m - d)%nat.
  Proof. intros H. unfold Bf. rewrite skipn_length, firstn_length. lia. Qed.

  Lemma Bf_nth m i : (i + d < m)%nat -> (m <= length F)%nat -> nth_error (Bf m) i = nth_error F (i + d).
  Proof.
    intros Hi Hm. unfold Bf. rewrite nth_error_skipn'. replace (d + i)%nat with (i + d)%nat by lia.
    rewrite <- (firstn_skipn m F) at 2. rewrite nth_error_app1; [reflexivity|]. rewrite firstn_length. lia.
  Qed.

  (* the candidate _find_frame builds from the first S i buffered bytes is the frame prefix *)
  Lemma candidate m i more : (i + d < m)%nat -> (m <= length F)%nat ->
    (match firstn (S i) (Bf m ++ more) with 126 :: _ => firstn (S i) (Bf m ++ more) | _ => 126 :: firstn (S i) (Bf m ++ more) end)
    = firstn (S i + d) F.
  Proof.
    intros Hi Hm. destruct (accepted_second pk F f Hacc) as (b & rest & EF & Hb & _).
    assert (Hl : (S i <= length (Bf m))%nat) by (rewrite Bf_length; lia).
    assert (Hf : firstn (S i) (Bf m ++ more) = skipn d (firstn (S i + d) F)).
    { rewrite firstn_app. replace (S i - length (Bf m))%nat with 0%nat by lia. rewrite firstn_O, app_nil_r.
      unfold Bf. rewrite firstn_skipn_comm, firstn_firstn. replace (Nat.min (d + S i) m) with (S i + d)%nat by lia. reflexivity. }
    rewrite Hf. clear Hf.
    destruct d as [|[|d']]; [| |lia].
    - rewrite Nat.add_0_r. cbn [skipn]. rewrite EF. reflexivity.
    - rewrite EF. replace (S i + 1)%nat with (S (S i)) by lia. cbn [firstn skipn].
      destruct b as [|pb]; [reflexivity|]. destruct (N.eq_dec (N.pos pb) 126) as [E|E]; [contradiction|].
      destruct pb as [pb|pb|]; try reflexivity.
      destruct pb as [pb|pb|]; try reflexivity. destruct pb as [pb|pb|]; try reflexivity.
      destruct pb as [pb|pb|]; try reflexivity. destruct pb as [pb|pb|]; try reflexivity.
      destruct pb as [pb|pb|]; try reflexivity. destruct pb as [pb|pb|]; try reflexivity. contradiction.
  Qed.

  Lemma step_candidate_g m p i more : (m <= length F)%nat -> (1 <= p)%nat ->
    index_from 0 (Bf m ++ more) p = Some i -> (i + d < m)%nat -> (S i + d < length F)%nat ->
    next_event (stg m p more) = (ENeedData, stg m (S i) more) /\ (p <= i)%nat.
  Proof.
    intros Hm Hp Hi Him Hlt.
    apply index_from_spec in Hi as Hs. destruct Hs as (_ & Hpi & Hnth & _). rewrite Nat.sub_0_r in Hnth.
    assert (Hnth' : nth_error F (i + d) = Some 126).
    { rewrite <- (Bf_nth m i Him Hm). rewrite <- Hnth. symmetry. apply nth_error_app1. rewrite Bf_length; lia. }
    split; [|lia].
    unfold next_event, find_frame, stg. cbn [c_buf c_pos c_link]. rewrite Hi.
    rewrite (candidate m i more Him Hm). cbn [c_link]. rewrite Hpk.
    rewrite (strict_prefix_is_not_a_frame pk F f (S i + d) Hacc); [reflexivity|lia|].
    replace (S i + d)%nat with (S (i + d)) by lia. apply last_firstn_nth. exact Hnth'.
  Qed.

  Lemma deliver_full_g p more : (1 <= p)%nat ->
    index_from 0 (Bf (length F) ++ more) p = Some (length F - 1 - d)%nat ->
    next_event (stg (length F) p more) = (EFrame pk f, {| c_link := l2; c_buf := more; c_pos := 1 |}).
  Proof.
    intros Hp Hi. destruct (accepted_second pk F f Hacc) as (b & rest & EF & _ & Hr).
    assert (Hlen : (3 <= length F)%nat) by (rewrite EF; destruct rest; [contradiction|cbn; lia]).
    unfold next_event, find_frame, stg. cbn [c_buf c_pos c_link]. rewrite Hi.
    rewrite (candidate (length F) (length F - 1 - d) more ltac:(lia) ltac:(lia)).
    replace (S (length F - 1 - d) + d)%nat with (length F) by lia. rewrite firstn_all.
    cbn [c_link c_buf c_pos]. rewrite Hpk, Hacc.
    assert (Hsk : skipn (S (length F - 1 - d)) (Bf (length F) ++ more) = more).
    { rewrite skipn_app. rewrite Bf_length by lia. replace (S (length F - 1 - d) - (length F - d))%nat with 0%nat by lia.
      rewrite skipn_all2 by (rewrite Bf_length; lia). reflexivity. }
    rewrite Hsk. pose proof Hlink as Hlink'. unfold link_on_frame in Hlink'.
    destruct (process_frame l pk) as [l1|]; [|discriminate].
    destruct pk; try (injection Hlink' as <-; reflexivity).
    destruct (handle_sequence_numbers l1 (f_ssn f) (f_rsn f) true) as [l2'|]; [|discriminate].
    injection Hlink' as <-. reflexivity.
  Qed.

  (* polling on a proper prefix of the frame: only NEED_DATA, nothing changes but the position *)
  Lemma pollm_prefix fuel : forall m p, (d <= m)%nat -> (m < length F)%nat -> (1 <= p)%nat -> (m - d + 1 - p < fuel)%nat ->
    exists es p', pollm fuel (stg m p []) = (es, stg m p' []) /\ all_need_data es /\ (p <= p')%nat /\ (p' <= Nat.max p (m - d))%nat.
  Proof.
    induction fuel as [|fu IH]; intros m p Hdm Hm Hp Hf; [lia|].
    cbn [pollm]. destruct (index_from 0 (Bf m ++ []) p) as [i|] eqn:Hi.
    - assert (Him : (i + d < m)%nat).
      { apply index_from_spec in Hi as (_ & _ & _ & Hil). rewrite app_nil_r, Bf_length in Hil; lia. }
      destruct (step_candidate_g m p i [] ltac:(lia) Hp Hi Him ltac:(lia)) as [Hstep Hr].
      rewrite Hstep. cbn [c_pos stg]. destruct (Nat.eqb_spec (S i) p); [lia|].
      destruct (IH m (S i) Hdm Hm ltac:(lia) ltac:(lia)) as (es & p' & E & A & B & C).
      rewrite E. exists (ENeedData :: es), p'. repeat split; try lia.
      constructor; [reflexivity|exact A].
    - unfold next_event, find_frame, stg. cbn [c_buf c_pos]. rewrite Hi. cbn [c_pos]. rewrite Nat.eqb_refl.
      exists [ENeedData], p. repeat split; try lia. constructor; [reflexivity|constructor].
  Qed.

  Lemma last_flag_index : nth_error F (length F - 1) = Some 126.
  Proof.
    destruct (accepted_shape pk F f Hacc) as (rest & EF & Hlast & Hlen).
    clear -Hlast Hlen. revert Hlast Hlen. generalize F as L. induction L as [|x L IHL]; intros H1 H2; [cbn in H2; lia|].
    destruct L as [|y L']; [cbn in H2; lia|]. cbn [length] in *.
    replace (S (S (length L')) - 1)%nat with (S (length L')) by lia. cbn [nth_error].
    destruct L' as [|z L''].
    - cbn in *. congruence.
    - specialize (IHL H1 ltac:(cbn; lia)). cbn [length] in IHL.
      replace (S (S (length L'')) - 1)%nat with (S (length L'')) in IHL by lia. exact IHL.
  Qed.

  (* polling with the whole frame (and whatever follows it) buffered: NEED_DATA for every inner
     flag, then the frame; polling goes on with the rest *)
  Lemma pollm_full more fuel : forall p, (1 <= p)%nat -> (p + d <= length F - 1)%nat -> (length F - d - p < fuel)%nat ->
    exists es k, (k <= length F - d - p)%nat /\ all_need_data es /\
      pollm fuel (stg (length F) p more) =
        (let '(es2, c2) := pollm (fuel - S k) (between_conn {| c_link := l2; c_buf := more; c_pos := 1 |} f) in
         (es ++ EFrame pk f :: es2, c2)).
  Proof.
    destruct (accepted_second pk F f Hacc) as (b & rest & EF & _ & Hr).
    assert (Hlen : (3 <= length F)%nat) by (rewrite EF; destruct rest; [contradiction|cbn; lia]).
    induction fuel as [|fu IH]; intros p Hp Hpd Hf; [lia|].
    assert (Hn : nth_error (Bf (length F) ++ more) (length F - 1 - d) = Some 126).
    { rewrite nth_error_app1 by (rewrite Bf_length; lia). rewrite Bf_nth by lia.
      replace (length F - 1 - d + d)%nat with (length F - 1)%nat by lia. apply last_flag_index. }
    destruct (index_from_some (Bf (length F) ++ more) 0 p (length F - 1 - d) ltac:(lia) Hn) as (i & Hi & Hle).
    cbn [pollm].
    destruct (Nat.eq_dec i (length F - 1 - d)) as [->|Hne].
    - rewrite (deliver_full_g p more Hp Hi). exists [], 0%nat. split; [lia|]. split; [constructor|].
      replace (S fu - 1)%nat with fu by lia. reflexivity.
    - destruct (step_candidate_g (length F) p i more ltac:(lia) Hp Hi ltac:(lia) ltac:(lia)) as [Hstep Hr'].
      rewrite Hstep. cbn [c_pos stg]. destruct (Nat.eqb_spec (S i) p); [lia|].
      destruct (IH (S i) ltac:(lia) ltac:(lia) ltac:(lia)) as (es & k & Hk & A & E). rewrite E.
      exists (ENeedData :: es), (S k). split; [lia|]. split; [constructor; [reflexivity|exact A]|].
      replace (S fu - S (S k))%nat with (fu - S k)%nat by lia.
      destruct (pollm (fu - S k) _) as [es2 c2]. reflexivity.
  Qed.
End one_frame_in_a_stream.

(* ---------- a stream of frames ---------- *)
Record item := { it_pk : fkind; it_F : bytes; it_f : frame; it_shared : bool }.
Definition dof (it : item) : nat := if it_shared it then 1%nat else 0%nat.
Definition wire (it : item) : bytes := skipn (dof it) (it_F it).
Definition key (it : item) : fkind * frame := (it_pk it, it_f it).
Definition stream (items : list item) : bytes := concat (map wire items).

(* each frame is one the state's parser accepts and the link procedure admits at that point *)
Inductive chain : link -> list item -> link -> Prop :=
| chain_nil l : chain l [] l
| chain_cons l it l1 rest l' :
    frame_from_bytes (it_pk it) (it_F it) = Ok (it_f it) ->
    parse_kind l = Some (it_pk it) ->
    link_on_frame l (it_pk it) (f_ssn (it_f it)) (f_rsn (it_f it)) = (Ok tt, l1) ->
    chain (between l1 (it_f it)) rest l' -> chain l (it :: rest) l'.

(* the frames whose last byte is among the first n bytes of the stream, and what is left *)
Fixpoint deliverable (n : nat) (items : list item) : list item :=
  match items with
  | [] => []
  | it :: r => if Nat.leb (length (wire it)) n then it :: deliverable (n - length (wire it)) r else []
  end.
Fixpoint rest_after (n : nat) (items : list item) : nat * list item :=
  match items with
  | [] => (0%nat, [])
  | it :: r => if Nat.leb (length (wire it)) n then rest_after (n - length (wire it)) r else (n, items)
  end.

Lemma wire_length it : (dof it <= 1)%nat /\ length (wire it) = (length (it_F it) - dof it)%nat.
Proof. unfold wire, dof. rewrite skipn_length. destruct (it_shared it); lia. Qed.

(* position invariant: the search position has not passed the closing flag of the first
   outstanding frame; with nothing outstanding it is 1 *)
Definition inv_pos (todo : list item) (p : nat) : Prop :=
  (1 <= p)%nat /\ match todo with [] => p = 1%nat | it :: _ => (p + dof it <= length (it_F it) - 1)%nat end.

Lemma chain_head_len l it r l' : chain l (it :: r) l' -> (3 <= length (it_F it))%nat.
Proof.
  intros H. inversion H as [|? ? ? ? ? Hacc _ _ _]; subst.
  destruct (accepted_second _ _ _ Hacc) as (b & rest & EF & _ & Hr). rewrite EF. destruct rest; [contradiction|cbn; lia].
Qed.
Lemma inv_pos_one l todo l' : chain l todo l' -> inv_pos todo 1.
Proof.
  intros H. split; [lia|]. destruct todo as [|it r]; [reflexivity|].
  pose proof (chain_head_len _ _ _ _ H). destruct (wire_length it) as [Hd _]. lia.
Qed.

(* polling a buffer that holds the first n bytes of the outstanding stream *)
Lemma pollm_stream l' : forall todo l n p fuel, chain l todo l' -> (n <= length (stream todo))%nat -> inv_pos todo p ->
  (n + 2 - p < fuel)%nat ->
  exists es l'' p', pollm fuel {| c_link := l; c_buf := firstn n (stream todo); c_pos := p |}
      = (es, {| c_link := l''; c_buf := firstn (fst (rest_after n todo)) (stream (snd (rest_after n todo))); c_pos := p' |})
    /\ keys es = Some (map key (deliverable n todo))
    /\ chain l'' (snd (rest_after n todo)) l' /\ inv_pos (snd (rest_after n todo)) p'.
Proof.
  induction todo as [|it r IH]; intros l n p fuel Hch Hn Hinv Hfuel.
  - cbn in Hn. assert (n = 0%nat) by lia. subst n. destruct Hinv as [_ Hp]. subst p.
    destruct fuel as [|fu]; [lia|]. cbn [pollm stream map concat firstn rest_after fst snd deliverable].
    unfold next_event, find_frame. cbn [c_buf c_pos index_from]. cbn [c_pos]. rewrite Nat.eqb_refl.
    exists [ENeedData], l, 1%nat. repeat split; try assumption. lia.
  - inversion Hch as [|? ? l1 ? ? Hacc Hpk Hlink Hrest]; subst.
    destruct (wire_length it) as [Hd Hwl]. destruct Hinv as [Hp1 Hpd].
    pose proof (chain_head_len _ _ _ _ Hch) as Hlen3.
    cbn [rest_after deliverable]. change (stream (it :: r)) with (wire it ++ stream r) in *.
    destruct (Nat.leb_spec (length (wire it)) n) as [Hle|Hgt].
    + (* the whole frame is buffered *)
      assert (Hbuf : firstn n (wire it ++ stream r) = Bf (it_F it) (dof it) (length (it_F it)) ++ firstn (n - length (wire it)) (stream r)).
      { rewrite firstn_app. rewrite firstn_all2 by lia. unfold Bf. rewrite firstn_all. reflexivity. }
      rewrite Hbuf. fold (stg (it_F it) l (dof it) (length (it_F it)) p (firstn (n - length (wire it)) (stream r))).
      destruct (pollm_full (it_pk it) (it_F it) (it_f it) l l1 (dof it) Hacc Hpk Hlink Hd
                  (firstn (n - length (wire it)) (stream r)) fuel p Hp1 Hpd) as (es1 & k & Hk & A1 & E1).
      { rewrite app_length in Hn. lia. }
      rewrite E1. rewrite between_conn_eq. cbn [c_link c_buf c_pos].
      destruct (IH (between l1 (it_f it)) (n - length (wire it))%nat 1%nat (fuel - S k)%nat Hrest) as (es2 & l'' & p' & E2 & K2 & C2 & I2).
      { rewrite app_length in Hn. lia. }
      { apply (inv_pos_one _ _ _ Hrest). }
      { rewrite app_length in Hn. lia. }
      rewrite E2. exists (es1 ++ EFrame (it_pk it) (it_f it) :: es2), l'', p'. repeat split; try assumption.
      * cbn [map]. change (key it :: map key (deliverable (n - length (wire it)) r)) with ([] ++ key it :: map key (deliverable (n - length (wire it)) r)).
        apply keys_app; [apply keys_need_data; exact A1|]. cbn [keys]. rewrite K2. reflexivity.
      * apply I2.
      * apply I2.
    + (* a proper prefix of the frame *)
      cbn [fst snd]. change (stream (it :: r)) with (wire it ++ stream r).
      assert (Hbuf : firstn n (wire it ++ stream r) = Bf (it_F it) (dof it) (n + dof it) ++ []).
      { rewrite firstn_app. replace (n - length (wire it))%nat with 0%nat by lia. rewrite firstn_O, !app_nil_r.
        unfold Bf, wire. rewrite firstn_skipn_comm. replace (dof it + n)%nat with (n + dof it)%nat by lia. reflexivity. }
      rewrite Hbuf. fold (stg (it_F it) l (dof it) (n + dof it) p []).
      destruct (pollm_prefix (it_pk it) (it_F it) (it_f it) l (dof it) Hacc Hpk Hd fuel (n + dof it)%nat p) as (es & p' & E & A & B & C); try lia.
      rewrite E. exists es, l, p'. repeat split; try assumption; try lia.
      apply keys_need_data. exact A.
Qed.

(* list facts about the split of the stream *)
Lemma rest_after_skipn : forall todo n, (n <= length (stream todo))%nat ->
  skipn n (stream todo) = skipn (fst (rest_after n todo)) (stream (snd (rest_after n todo))).
Proof.
  induction todo as [|it r IH]; intros n Hn.
  - cbn in *. destruct n; reflexivity.
  - cbn [rest_after]. change (stream (it :: r)) with (wire it ++ stream r) in *.
    destruct (Nat.leb_spec (length (wire it)) n) as [Hle|Hgt]; [|reflexivity].
    rewrite skipn_app. rewrite skipn_all2 by lia. cbn [app]. apply IH. rewrite app_length in Hn. lia.
Qed.
Lemma rest_after_lt : forall todo n, (n <= length (stream todo))%nat ->
  match snd (rest_after n todo) with
  | [] => fst (rest_after n todo) = 0%nat
  | it :: _ => (fst (rest_after n todo) < length (wire it))%nat
  end.
Proof.
  induction todo as [|it r IH]; intros n Hn; [reflexivity|].
  cbn [rest_after]. change (stream (it :: r)) with (wire it ++ stream r) in *.
  destruct (Nat.leb_spec (length (wire it)) n) as [Hle|Hgt]; [|exact Hgt].
  apply IH. rewrite app_length in Hn. lia.
Qed.
Lemma deliverable_add : forall todo n x,
  deliverable (n + x) todo = deliverable n todo ++ deliverable (fst (rest_after n todo) + x) (snd (rest_after n todo)).
Proof.
  induction todo as [|it r IH]; intros n x; [reflexivity|].
  cbn [rest_after deliverable].
  destruct (Nat.leb_spec (length (wire it)) n) as [Hle|Hgt].
  - destruct (Nat.leb_spec (length (wire it)) (n + x)) as [_|Hc]; [|lia].
    cbn [app]. f_equal. replace (n + x - length (wire it))%nat with ((n - length (wire it)) + x)%nat by lia. apply IH.
  - cbn [fst snd app]. reflexivity.
Qed.
Lemma deliverable_all : forall todo, deliverable (length (stream todo)) todo = todo.
Proof.
  induction todo as [|it r IH]; [reflexivity|].
  cbn [deliverable]. change (stream (it :: r)) with (wire it ++ stream r). rewrite app_length.
  destruct (Nat.leb_spec (length (wire it)) (length (wire it) + length (stream r))) as [_|Hc]; [|lia].
  f_equal. replace (length (wire it) + length (stream r) - length (wire it))%nat with (length (stream r)) by lia. exact IH.
Qed.
Lemma deliverable_small todo n :
  match todo with [] => True | it :: _ => (n < length (wire it))%nat end -> deliverable n todo = [].
Proof.
  destruct todo as [|it r]; [reflexivity|]. intros H. cbn [deliverable].
  destruct (Nat.leb_spec (length (wire it)) n); [lia|reflexivity].
Qed.

Lemma firstn_extend {A} (l : list A) n ch rest : ch ++ rest = skipn n l -> firstn n l ++ ch = firstn (n + length ch) l.
Proof.
  intros H. rewrite <- (firstn_skipn n l) at 2. rewrite <- H. rewrite firstn_app.
  rewrite (firstn_all2 (firstn n l)) by (rewrite firstn_length; lia). f_equal.
  destruct (le_lt_dec n (length l)) as [Hn|Hn].
  - rewrite firstn_length. replace (n + length ch - Nat.min n (length l))%nat with (length ch) by lia.
    rewrite firstn_app, Nat.sub_diag, firstn_O, app_nil_r, firstn_all. reflexivity.
  - rewrite skipn_all2 in H by lia. destruct ch; [|discriminate]. cbn in H. subst rest. destruct (_ - _)%nat; reflexivity.
Qed.
Lemma skipn_add' {A} n : forall m (l : list A), skipn (n + m) l = skipn m (skipn n l).
Proof. induction n as [|n IH]; intros m l; [reflexivity|]. destruct l as [|x l]; [cbn; destruct m; reflexivity|]. cbn. apply IH. Qed.
Lemma skipn_extend {A} (l : list A) n ch rest : ch ++ rest = skipn n l -> rest = skipn (n + length ch) l.
Proof.
  intros H. rewrite skipn_add', <- H. rewrite skipn_app, Nat.sub_diag, skipn_all. reflexivity.
Qed.

(* ---------- every partition of the stream into non-empty chunks ---------- *)
Lemma feedm_stream l' : forall chunks todo l n p, chain l todo l' -> inv_pos todo p ->
  match todo with [] => n = 0%nat | it :: _ => (n < length (wire it))%nat end ->
  Forall (fun ch => ch <> []) chunks -> concat chunks = skipn n (stream todo) ->
  exists outs, feedm {| c_link := l; c_buf := firstn n (stream todo); c_pos := p |} chunks
      = (outs, {| c_link := l'; c_buf := []; c_pos := 1 |})
    /\ length outs = length chunks
    /\ forall j, (j <= length chunks)%nat ->
         keys (concat (firstn j outs)) = Some (map key (deliverable (n + length (concat (firstn j chunks))) todo)).
Proof.
  induction chunks as [|ch r IH]; intros todo l n p Hch Hinv Hn Hne Hcat.
  - cbn [concat] in Hcat. destruct todo as [|it rest].
    + subst n. inversion Hch; subst. destruct Hinv as [_ ->]. cbn [feedm stream map concat firstn].
      exists []. repeat split. intros j Hj. destruct j; reflexivity.
    + exfalso. change (stream (it :: rest)) with (wire it ++ stream rest) in Hcat.
      apply (f_equal (@length N)) in Hcat. rewrite skipn_length, app_length in Hcat. cbn [length] in Hcat. lia.
  - inversion Hne as [|? ? Hc Hr]; subst. cbn [concat] in Hcat.
    assert (Hch1 : (1 <= length ch)%nat) by (destruct ch; [contradiction|cbn; lia]).
    assert (Hnl : (n + length ch <= length (stream todo))%nat).
    { apply (f_equal (@length N)) in Hcat. rewrite app_length, skipn_length in Hcat. lia. }
    pose proof (firstn_extend _ _ _ _ Hcat) as Hbuf.
    cbn [feedm]. unfold feed_chunkm, receive_data. cbn [c_link c_buf c_pos]. rewrite Hbuf.
    destruct Hinv as [Hp1 Hpd].
    destruct (pollm_stream l' todo l (n + length ch)%nat p (length (firstn (n + length ch) (stream todo)) + 4)%nat Hch Hnl (conj Hp1 Hpd))
      as (es & l'' & p' & E & K & C & I).
    { rewrite firstn_length. lia. }
    rewrite E.
    pose proof (rest_after_lt todo (n + length ch)%nat Hnl) as Hlt.
    pose proof (rest_after_skipn todo (n + length ch)%nat Hnl) as Hsk.
    destruct (IH (snd (rest_after (n + length ch) todo)) l'' (fst (rest_after (n + length ch) todo)) p' C I) as (outs & E2 & L2 & K2).
    { destruct (snd (rest_after (n + length ch) todo)); exact Hlt. }
    { exact Hr. }
    { rewrite <- Hsk. apply (skipn_extend _ _ _ _ Hcat). }
    rewrite E2. exists (es :: outs). split; [reflexivity|]. split; [cbn [length]; lia|].
    intros j Hj. destruct j as [|j].
    + cbn [firstn concat length]. rewrite Nat.add_0_r. rewrite deliverable_small; [reflexivity|].
      destruct todo; [trivial|exact Hn].
    + cbn [firstn concat]. rewrite app_length. rewrite Nat.add_assoc. rewrite deliverable_add.
      rewrite map_app. apply keys_app; [exact K|]. apply K2. cbn [length] in Hj. lia.
Qed.

Theorem chunking_stream l items l' chunks : chain l items l' ->
  Forall (fun ch => ch <> []) chunks -> concat chunks = stream items ->
  exists outs, feedm {| c_link := l; c_buf := []; c_pos := 1 |} chunks = (outs, {| c_link := l'; c_buf := []; c_pos := 1 |})
    /\ length outs = length chunks
    /\ keys (concat outs) = Some (map key items)
    /\ forall j, (j <= length chunks)%nat ->
         keys (concat (firstn j outs)) = Some (map key (deliverable (length (concat (firstn j chunks))) items)).
Proof.
  intros Hch Hne Hcat.
  destruct (feedm_stream l' chunks items l 0%nat 1%nat Hch (inv_pos_one _ _ _ Hch)) as (outs & E & L & K).
  { destruct items as [|it r]; [reflexivity|]. pose proof (chain_head_len _ _ _ _ Hch). destruct (wire_length it). lia. }
  { exact Hne. }
  { exact Hcat. }
  cbn [firstn] in E. exists outs. split; [exact E|]. split; [exact L|]. split.
  - specialize (K (length chunks) (le_n _)). rewrite <- L in K at 1. rewrite !firstn_all in K.
    rewrite Hcat in K. cbn [Nat.add] in K. rewrite deliverable_all in K. exact K.
  - intros j Hj. apply (K j Hj).
Qed.
