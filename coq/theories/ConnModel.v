(* Model of dlms_cosem/connection.py: DlmsConnection.send / protect / encrypt, next_event / unprotect / decrypt /
   update_meter_info / update_meter_invocation_counter / update_negotiated_parameters, get_hls_reply,
   hls_response_valid and XDlmsApduFactory over all APDU kinds, composed from the association model (state.py and
   the control flow), the security model, and the xDLMS / ACSE / A-XDR codecs - over a block cipher E.
   As of the "fix:" commits 47ff9e5 (next_event is atomic) and bb875f9 (the HLS reply consumes its counter).
   No proofs here. *)
From Dlms Require Import Base FieldsModel AxdrModel XdlmsModel AcseModel AssocModel SecurityModel.
From Dlms.Gen Require GenApdu GenAcse.

(* what a connection is configured with, and what changes while it lives *)
Record cfg := { k_title : bytes; k_ek : option bytes; k_ak : option bytes; k_suite : N; k_pre : bool; k_challenge : bytes }.
Record cst := { c_state : N; c_cic : N; c_mic : N; c_mtitle : option bytes; c_auth : option N; c_mchallenge : option bytes;
                c_conf : list bool; c_maxpdu : N }.

Definition set_state (c : cst) (s : N) : cst :=
  {| c_state := s; c_cic := c_cic c; c_mic := c_mic c; c_mtitle := c_mtitle c; c_auth := c_auth c; c_mchallenge := c_mchallenge c;
     c_conf := c_conf c; c_maxpdu := c_maxpdu c |}.
Definition set_cic (c : cst) (n : N) : cst :=
  {| c_state := c_state c; c_cic := n; c_mic := c_mic c; c_mtitle := c_mtitle c; c_auth := c_auth c; c_mchallenge := c_mchallenge c;
     c_conf := c_conf c; c_maxpdu := c_maxpdu c |}.
Definition set_mic (c : cst) (n : N) : cst :=
  {| c_state := c_state c; c_cic := c_cic c; c_mic := n; c_mtitle := c_mtitle c; c_auth := c_auth c; c_mchallenge := c_mchallenge c;
     c_conf := c_conf c; c_maxpdu := c_maxpdu c |}.
Definition set_meter_info (c : cst) (t : option bytes) (a : option N) (ch : option bytes) : cst :=
  {| c_state := c_state c; c_cic := c_cic c; c_mic := c_mic c; c_mtitle := t; c_auth := a; c_mchallenge := ch;
     c_conf := c_conf c; c_maxpdu := c_maxpdu c |}.
Definition set_negotiated (c : cst) (conf : list bool) (m : N) : cst :=
  {| c_state := c_state c; c_cic := c_cic c; c_mic := c_mic c; c_mtitle := c_mtitle c; c_auth := c_auth c; c_mchallenge := c_mchallenge c;
     c_conf := conf; c_maxpdu := m |}.

(* bool(x) for Optional[bytes] *)
Definition truthy_key (o : option bytes) : option bytes := truthy o.
Definition use_protection (k : cfg) : bool := is_some (k_ek k) || is_some (k_ak k).
Definition security_control (k : cfg) : sc :=
  (k_suite k, is_some (truthy_key (k_ak k)), is_some (truthy_key (k_ek k)), false, false).

(* what can be sent / what the factory can return *)
Inductive msg := MX (a : apdu) | MAarq (q : aarq) | MAare (e : aare) | MRlrq (r : release) | MRlre (r : release).

(* the event kind the state machine sees: type(event) looked up in the transition table *)
Definition apdu_kind (a : apdu) : N :=
  match a with
  | GetRequestNormal _ _ _ => 4 | GetRequestNext _ _ => 5 | GetResponseNormal _ _ => 8 | GetResponseNormalWithError _ _ => 9
  | GetResponseWithBlock _ _ _ => 10 | GetResponseLastBlock _ _ _ => 11 | GetResponseLastBlockWithError _ _ _ => 12
  | SetRequestNormal _ _ _ => 6 | SetResponseNormal _ _ => 13 | ActionRequestNormal _ _ _ => 7 | ActionResponseNormal _ _ => 14
  | ActionResponseNormalWithData _ _ _ => 15 | ActionResponseNormalWithError _ _ _ => 16 | DataNotification _ _ _ => 17
  | ExceptionResponse _ _ _ => 18 | ConfirmedServiceError _ _ => 19 | InitiateRequest _ _ _ _ _ _ => 25 | InitiateResponse _ _ _ _ => 20
  | GlobalCipherInitiateRequest _ _ _ => 27 | GlobalCipherInitiateResponse _ _ _ => 28 | GeneralGlobalCipher _ _ _ _ => 26
  | NoneValue => 99
  end.
Definition msg_kind (m : msg) : N :=
  match m with MX a => apdu_kind a | MAarq _ => 0 | MAare _ => 1 | MRlrq _ => 2 | MRlre _ => 3 end.

Definition msg_to_bytes (m : msg) : res bytes :=
  match m with
  | MX a => apdu_to_bytes a | MAarq q => aarq_to_bytes q | MAare e => aare_to_bytes e
  | MRlrq r => rlrq_to_bytes r | MRlre r => rlre_to_bytes r
  end.
(* XDlmsApduFactory.apdu_from_bytes *)
Definition msg_from_bytes (src : bytes) : res msg :=
  match src with
  | [] => Err ERefused
  | tag :: _ =>
      match assoc_n tag GenApdu.apdu_map with
      | None => Err ERefused
      | Some k =>
          if k =? 9 then do q <- aarq_from_bytes src; Ok (MAarq q)
          else if k =? 10 then do e <- aare_from_bytes src; Ok (MAare e)
          else if k =? 11 then do r <- rlrq_from_bytes src; Ok (MRlrq r)
          else if k =? 12 then do r <- rlre_from_bytes src; Ok (MRlre r)
          else do a <- xdlms_from_bytes src; Ok (MX a)
      end
  end.

Section CONN.
  Variable E : bytes -> bytes -> bytes.

  (* DlmsConnection.encrypt: ((ciphered text, counter used), connection afterwards) *)
  Definition dlms_encrypt (k : cfg) (c : cst) (pt : bytes) : res (bytes * N) * cst :=
    match truthy_key (k_ek k), truthy_key (k_ak k) with
    | Some ek, Some ak =>
        match sec_encrypt E (security_control k) (k_title k) (c_cic c) ek ak pt with
        | Ok ct => (Ok (ct, c_cic c), set_cic c (c_cic c + 1))
        | Err e => (Err e, c)
        end
    | _, _ => (Err ERefused, c)                          (* ProtectionError *)
    end.
  (* DlmsConnection.decrypt with the stored meter title and counter *)
  Definition dlms_decrypt (k : cfg) (c : cst) (text : bytes) : res bytes :=
    match truthy_key (k_ek k), truthy_key (k_ak k), truthy (c_mtitle c) with
    | Some ek, Some ak, Some mt => sec_decrypt E (security_control k) mt (c_mic c) ek ak text
    | _, _, _ => Err ERefused
    end.

  (* ---------- send ---------- *)
  Definition protect (k : cfg) (c : cst) (m : msg) : res msg * cst :=
    match m with
    | MAarq q =>
        match apdu_to_bytes (q_user q) with
        | Err e => (Err e, c)
        | Ok pt =>
            match dlms_encrypt k c pt with
            | (Err e, c') => (Err e, c')
            | (Ok (ct, ic), c') =>
                (Ok (MAarq {| q_user := GlobalCipherInitiateRequest (security_control k) ic ct; q_title := q_title q; q_cert := q_cert q;
                              q_auth := q_auth q; q_ciphered := q_ciphered q; q_value := q_value q;
                              q_calling_ae_inv := q_calling_ae_inv q; q_called_ap_title := q_called_ap_title q;
                              q_called_ae_qual := q_called_ae_qual q; q_called_ap_inv := q_called_ap_inv q;
                              q_called_ae_inv := q_called_ae_inv q; q_calling_ap_inv := q_calling_ap_inv q; q_impl := q_impl q |}), c')
            end
        end
    | MRlrq r =>
        match r_user r with
        | None => (Ok m, c)
        | Some u =>
            match apdu_to_bytes u with
            | Err e => (Err e, c)
            | Ok pt =>
                match dlms_encrypt k c pt with
                | (Err e, c') => (Err e, c')
                | (Ok (ct, ic), c') =>
                    (Ok (MRlrq {| r_reason := r_reason r; r_user := Some (GlobalCipherInitiateRequest (security_control k) ic ct) |}), c')
                end
            end
        end
    | MX a =>
        match apdu_to_bytes a with
        | Err e => (Err e, c)
        | Ok pt =>
            match dlms_encrypt k c pt with
            | (Err e, c') => (Err e, c')
            | (Ok (ct, ic), c') => (Ok (MX (GeneralGlobalCipher (k_title k) (security_control k) ic ct)), c')
            end
        end
    | _ => (Err ERefused, c)                              (* RuntimeError: an AARE / RLRE cannot be protected *)
    end.

  (* DlmsConnection.send: (bytes or the error raised, connection afterwards) *)
  Definition dlms_send (k : cfg) (c : cst) (m : msg) : res bytes * cst :=
    let kind := msg_kind m in
    if k_pre k && ((kind =? E_RLRQ) || (kind =? E_AARQ)) then (Err EPreEst, c) else
    match process_event (c_state c) kind with
    | Err e => (Err e, c)
    | Ok s' =>
        let c1 := set_state c s' in
        if use_protection k then
          match protect k c1 m with
          | (Err e, c2) => (Err e, c2)
          | (Ok m', c2) => (msg_to_bytes m', c2)
          end
        else (msg_to_bytes m, c1)
    end.

  (* ---------- HLS ---------- *)
  Definition dlms_hls_reply (k : cfg) (c : cst) : res bytes * cst :=
    match truthy (c_mchallenge c) with
    | None => (Err EProto, c)
    | Some ch =>
        match truthy_key (k_ek k), truthy_key (k_ak k) with
        | Some ek, Some ak =>
            match c_auth c with
            | Some 5 =>
                let x : sc := (k_suite k, true, false, false, false) in
                match (do g <- sec_gmac E x (k_title k) (c_cic c) ek ak ch;
                       do sb <- sc_to_bytes x; do ib <- to_bytes_be 4 (c_cic c); Ok (sb ++ ib ++ g)) with
                | Ok reply => (Ok reply, set_cic c (c_cic c + 1))
                | Err e => (Err e, c)
                end
            | _ => (Err ERefused, c)                      (* NotImplementedError *)
            end
        | _, _ => (Err ERefused, c)
        end
    end.
  (* hls_response_valid(utils.parse_as_dlms_data(apdu.data)): 0 valid, 1 not valid, 2 raises, 3 raises CipheringError *)
  Definition hls_proof (k : cfg) (c : cst) (data : bytes) : N :=
    match parse_as_dlms_data data with
    | Ok (PBytes resp) =>
        match resp with
        | [] => 2
        | first :: _ =>
            match sc_from_byte first with
            | Err _ => 2
            | Ok x =>
                match truthy_key (k_ek k), truthy_key (k_ak k), truthy (c_mtitle c), truthy (Some (k_challenge k)) with
                | Some ek, Some ak, Some mt, Some ch =>
                    match sec_gmac E x mt (be_val (slice 1 5 resp)) ek ak ch with
                    | Ok g => if list_eqb (lastn 12 resp) g then 0 else 1
                    | Err e => if e =? ECipher then 3 else 2
                    end
                | _, _, _, _ => 2
                end
            end
        end
    | _ => 2
    end.

  (* ---------- receive ---------- *)
  Definition check_counter (c : cst) (ic : N) : res cst :=
    if ic <=? c_mic c then Err EProto else Ok (set_mic c ic).

  Definition unprotect (k : cfg) (c : cst) (m : msg) : res (msg * cst) :=
    match m with
    | MAare e =>
        match e_user e with
        | Some (GlobalCipherInitiateResponse _ ic text) =>
            do c1 <- check_counter c ic;
            do pt <- dlms_decrypt k c1 text;
            do u <- initiate_response_from_bytes pt;
            Ok (MAare {| e_result := e_result e; e_diag := e_diag e; e_ciphered := e_ciphered e; e_auth := e_auth e; e_title := e_title e;
                         e_cert := e_cert e; e_value := e_value e; e_user := Some u; e_impl := e_impl e; e_ap_inv := e_ap_inv e;
                         e_ae_inv := e_ae_inv e |}, c1)
        | _ => Ok (m, c)
        end
    | MRlre r =>
        match r_user r with
        | Some (GlobalCipherInitiateResponse _ ic text) =>
            do c1 <- check_counter c ic;
            do pt <- dlms_decrypt k c1 text;
            do u <- initiate_response_from_bytes pt;
            Ok (MRlre {| r_reason := r_reason r; r_user := Some u |}, c1)
        | _ => Ok (m, c)
        end
    | MX (GeneralGlobalCipher _ _ ic text) =>
        do c1 <- check_counter c ic;
        do pt <- dlms_decrypt k c1 text;
        do m' <- msg_from_bytes pt;
        Ok (m', c1)
    | _ => Err ERefused                                   (* RuntimeError: not a protected APDU *)
    end.

  (* the attributes the control flow branches on *)
  Definition msg_event (k : cfg) (c : cst) (m : msg) : ev :=
    match m with
    | MAare e => Build_ev 1 ((e_result e =? 1) || (e_result e =? 2)) (match e_auth e with Some 5 => true | _ => false end) 0
    | MX (ActionResponseNormalWithData st data _) => Build_ev 15 (st =? 0) false (hls_proof k c data)
    | _ => Build_ev (msg_kind m) false false 0
    end.

  (* DlmsConnection._next_event on the received bytes *)
  Definition dlms_next_event_raw (k : cfg) (c : cst) (buffer : bytes) : res (msg * cst) :=
    do m <- msg_from_bytes buffer;
    let c1 := match m with MAare e => set_meter_info c (e_title e) (e_auth e) (e_value e) | _ => c end in
    do (m2, c2) <- (if use_protection k then unprotect k c1 m else Ok (m, c1));
    match assoc_recv (k_pre k) (c_state c2) (msg_event k c2 m2) with
    | (Err e, _) => Err e
    | (Ok tt, s') =>
        let c3 := set_state c2 s' in
        let c4 := match m2 with
                  | MAare e => match e_user e with
                               | Some (InitiateResponse conf max_pdu _ _) => set_negotiated c3 conf max_pdu
                               | _ => c3 end
                  | _ => c3 end in
        Ok (m2, c4)
    end.
  (* DlmsConnection.next_event: when anything raises the connection is put back (the buffer is dropped either way) *)
  Definition dlms_next_event (k : cfg) (c : cst) (buffer : bytes) : res msg * cst :=
    match dlms_next_event_raw k c buffer with
    | Ok (m, c') => (Ok m, c')
    | Err e => (Err e, c)
    end.
End CONN.
