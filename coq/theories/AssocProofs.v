(* C03: the association state machine admits exactly the legal request/response sequences. *)
From Dlms Require Import Base Sweep AssocModel AssocSpec.

(* ---------- complete enumeration: 13 states x 29 kinds x flags x 3 proofs x direction x config ---------- *)
Definition chk_one (pre : bool) (s : N) (d : dir) (e : ev) : bool :=
  negb (in_alphabet d (e_kind e)) ||
  let '(r, s') := step pre s d e in
  match r with
  | Ok _ =>
      (* accepted: an edge of the procedure, with the prescribed post-state; never an ACSE APDU when pre-established *)
      match may s d e with Some t => (t =? s') && negb (pre && is_acse d (e_kind e)) | None => false end
  | Err x =>
      (* refused: not a required edge (unless pre-established and ACSE), and with the named error *)
      (match must s d e with
       | Some _ => pre && is_acse d (e_kind e)
       | None => true end)
      && (if pre && is_acse d (e_kind e) then x =? EPreEst else true)
      && (s' <? 13)
  end && (s' <? 13).
Definition all_flags (f : bool -> bool -> N -> bool) : bool :=
  forall_bool (fun a => forall_bool (fun b => forall_below 3 (fun p => f a b p))).
Definition chk_state (s : N) : bool :=
  forall_below 29 (fun k => all_flags (fun a b p =>
    forall_bool (fun pre => chk_one pre s DSend (mk k a b p) && chk_one pre s DRecv (mk k a b p)))).
Lemma chk_all_ok : forall_below 13 chk_state = true. Proof. vm_compute. reflexivity. Qed.

Lemma chk_lift pre s d e : s < 13 -> e_kind e < 29 -> proof e < 3 -> chk_one pre s d e = true.
Proof.
  intros Hs Hk Hp. pose proof (forall_below_spec 13 _ chk_all_ok s Hs) as H. unfold chk_state in H.
  pose proof (forall_below_spec 29 _ H (e_kind e) Hk) as H1. unfold all_flags in H1.
  pose proof (forall_bool_spec _ H1 (a_flag e)) as H2. cbv beta in H2.
  pose proof (forall_bool_spec _ H2 (b_flag e)) as H3. cbv beta in H3.
  pose proof (forall_below_spec 3 _ H3 (proof e) Hp) as H4. cbv beta in H4.
  pose proof (forall_bool_spec _ H4 pre) as H5. cbv beta in H5.
  apply andb_prop in H5 as [A B].
  replace (mk (e_kind e) (a_flag e) (b_flag e) (proof e)) with e in A, B by (destruct e; reflexivity).
  destruct d; assumption.
Qed.

(* everything the connection accepts is a legal step of the client procedure and leads to the
   prescribed state; on a pre-established association no ACSE APDU is ever accepted *)
Theorem accepted_is_legal pre s d e s' : s < 13 -> e_kind e < 29 -> proof e < 3 -> in_alphabet d (e_kind e) = true ->
  step pre s d e = (Ok tt, s') ->
  may s d e = Some s' /\ (pre = true -> is_acse d (e_kind e) = false) /\ s' < 13.
Proof.
  intros Hs Hk Hp Hal E. pose proof (chk_lift pre s d e Hs Hk Hp) as H. unfold chk_one in H. rewrite Hal, E in H.
  cbn [negb orb] in H. apply andb_prop in H as [H Hb]. apply N.ltb_lt in Hb.
  destruct (may s d e) as [t|]; [|discriminate]. apply andb_prop in H as [H1 H2].
  apply N.eqb_eq in H1. subst t. split; [reflexivity|]. split; [|exact Hb].
  intros ->. cbn in H2. apply negb_true_iff in H2. exact H2.
Qed.

(* every step the procedure requires is accepted (on a normal association; on a pre-established one
   every required non-ACSE step) *)
Theorem required_is_accepted pre s d e t : s < 13 -> e_kind e < 29 -> proof e < 3 -> in_alphabet d (e_kind e) = true ->
  must s d e = Some t -> (pre = true -> is_acse d (e_kind e) = false) ->
  step pre s d e = (Ok tt, t).
Proof.
  intros Hs Hk Hp Hal Hm Hpre. pose proof (chk_lift pre s d e Hs Hk Hp) as H. unfold chk_one in H. rewrite Hal in H.
  cbn [negb orb] in H. destruct (step pre s d e) as [[[]|x] s'] eqn:E.
  - apply andb_prop in H as [H _]. assert (Hmay : may s d e = Some t).
    { unfold must in Hm. destruct d; [exact Hm|]. destruct (optional_answer s e); [discriminate|exact Hm]. }
    rewrite Hmay in H. apply andb_prop in H as [H _]. apply N.eqb_eq in H. subst. reflexivity.
  - apply andb_prop in H as [H _]. apply andb_prop in H as [H _]. apply andb_prop in H as [H _].
    rewrite Hm in H. apply andb_prop in H as [P A]. subst pre. rewrite (Hpre eq_refl) in A. discriminate.
Qed.

(* ACSE APDUs on a pre-established association are refused in both directions, in every state *)
Theorem preestablished_refuses_acse s d e : s < 13 -> e_kind e < 29 -> proof e < 3 ->
  is_acse d (e_kind e) = true -> step true s d e = (Err EPreEst, s).
Proof.
  intros Hs Hk Hp Ha. destruct d; cbn [step]; unfold assoc_send, assoc_recv, assoc_recv_raw; cbn [is_acse] in Ha.
  - replace ((e_kind e =? E_RLRQ) || (e_kind e =? E_AARQ)) with true; [reflexivity|].
    unfold E_RLRQ, E_AARQ. rewrite orb_comm. symmetry. exact Ha.
  - unfold E_AARE, E_RLRE. rewrite Ha. reflexivity.
Qed.

(* ---------- histories of any length ---------- *)
Definition op := (dir * ev)%type.
Fixpoint run (pre : bool) (s : N) (ops : list op) : N :=
  match ops with [] => s | (d, e) :: r => run pre (snd (step pre s d e)) r end.
Definition ops_ok (ops : list op) : Prop :=
  Forall (fun o => e_kind (snd o) < 29 /\ proof (snd o) < 3 /\ in_alphabet (fst o) (e_kind (snd o)) = true) ops.

Definition chk_bound (s : N) : bool :=
  forall_below 29 (fun k => all_flags (fun a b p => forall_bool (fun pre =>
    (snd (step pre s DSend (mk k a b p)) <? 13) && (snd (step pre s DRecv (mk k a b p)) <? 13)))).
Lemma chk_bound_ok : forall_below 13 chk_bound = true. Proof. vm_compute. reflexivity. Qed.
Lemma step_bound pre s d e : s < 13 -> e_kind e < 29 -> proof e < 3 -> snd (step pre s d e) < 13.
Proof.
  intros Hs Hk Hp. pose proof (forall_below_spec 13 _ chk_bound_ok s Hs) as H. unfold chk_bound in H.
  pose proof (forall_below_spec 29 _ H (e_kind e) Hk) as H1. unfold all_flags in H1.
  pose proof (forall_bool_spec _ H1 (a_flag e)) as H2. cbv beta in H2.
  pose proof (forall_bool_spec _ H2 (b_flag e)) as H3. cbv beta in H3.
  pose proof (forall_below_spec 3 _ H3 (proof e) Hp) as H4. cbv beta in H4.
  pose proof (forall_bool_spec _ H4 pre) as H5. cbv beta in H5.
  replace (mk (e_kind e) (a_flag e) (b_flag e) (proof e)) with e in H5 by (destruct e; reflexivity).
  apply andb_prop in H5 as [A B]. apply N.ltb_lt in A, B. destruct d; assumption.
Qed.
Theorem reachable_states_bounded pre ops : forall s, s < 13 -> ops_ok ops -> run pre s ops < 13.
Proof.
  induction ops as [|[d e] r IH]; intros s Hs Hok; [exact Hs|].
  inversion Hok as [|? ? (Hk & Hp & Hal) Hr]; subst. cbn [run]. apply IH; [|exact Hr].
  apply step_bound; assumption.
Qed.

(* a pre-established association (starting READY) never becomes unassociated and never enters the
   association / release / HLS phases, whatever is sent or received *)
Definition pre_states (s : N) : bool := (s =? 2) || (s =? 4) || (s =? 5) || (s =? 6) || (s =? 7) || (s =? 8).
Definition chk_pre (s : N) : bool :=
  negb (pre_states s) ||
  forall_below 29 (fun k => all_flags (fun a b p =>
    (negb (in_alphabet DSend k) || pre_states (snd (step true s DSend (mk k a b p))))
    && (negb (in_alphabet DRecv k) || pre_states (snd (step true s DRecv (mk k a b p)))))).
Lemma chk_pre_ok : forall_below 13 chk_pre = true. Proof. vm_compute. reflexivity. Qed.
Theorem preestablished_stays_associated ops : forall s, s < 13 -> pre_states s = true -> ops_ok ops ->
  pre_states (run true s ops) = true.
Proof.
  induction ops as [|[d e] r IH]; intros s Hs Hpre Hok; [exact Hpre|].
  inversion Hok as [|? ? (Hk & Hp & Hal) Hr]; subst. cbn [run fst snd] in *.
  apply IH; [apply step_bound; assumption| |exact Hr].
  pose proof (forall_below_spec 13 _ chk_pre_ok s Hs) as H. unfold chk_pre in H. rewrite Hpre in H. cbn [negb orb] in H.
  pose proof (forall_below_spec 29 _ H (e_kind e) Hk) as H1. unfold all_flags in H1.
  pose proof (forall_bool_spec _ H1 (a_flag e)) as H2. cbv beta in H2.
  pose proof (forall_bool_spec _ H2 (b_flag e)) as H3. cbv beta in H3.
  pose proof (forall_below_spec 3 _ H3 (proof e) Hp) as H4. cbv beta in H4.
  replace (mk (e_kind e) (a_flag e) (b_flag e) (proof e)) with e in H4 by (destruct e; reflexivity).
  apply andb_prop in H4 as [A B]. destruct d; [rewrite Hal in A; exact A | rewrite Hal in B; exact B].
Qed.
