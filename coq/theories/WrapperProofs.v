(* C17: wrapper header layout, wrap/unwrap round trip, length mismatch refused, and the TCP
   receive returns exactly the announced payload for every way of splitting the stream. *)
From Dlms Require Import Base WrapperModel WrapperSpec.

Lemma to_bytes_be_ok k n : n < 256 ^ N.of_nat k -> to_bytes_be k n = Ok (be_bytes k n).
Proof. intros H. unfold to_bytes_be. apply N.ltb_lt in H. rewrite H. reflexivity. Qed.

Theorem header_layout src dst ln ver : src < 65536 -> dst < 65536 -> ln < 65536 -> ver < 65536 ->
  whdr_to_bytes (src, dst, ln, ver) = Ok (std_header ver src dst ln).
Proof.
  intros. unfold whdr_to_bytes. rewrite !to_bytes_be_ok by (cbn; assumption). reflexivity.
Qed.

Lemma be2_val n : n < 65536 -> be_val (be_bytes 2 n) = n.
Proof. intros. apply be_val_be_bytes. cbn. assumption. Qed.

Lemma std_header_length ver src dst ln : length (std_header ver src dst ln) = 8%nat.
Proof. unfold std_header. rewrite !app_length, !be_bytes_length. reflexivity. Qed.

Lemma be_bytes2 n : be_bytes 2 n = [n / 256 mod 256; n mod 256].
Proof. reflexivity. Qed.

Theorem header_roundtrip src dst ln ver : src < 65536 -> dst < 65536 -> ln < 65536 -> ver < 65536 ->
  whdr_from_bytes (std_header ver src dst ln) = Ok (src, dst, ln, ver).
Proof.
  intros Hs Hd Hl Hv. unfold whdr_from_bytes. rewrite std_header_length. cbn [Nat.eqb negb].
  unfold std_header. rewrite !be_bytes2. cbn [app slice skipn firstn Nat.sub].
  rewrite <- !be_bytes2. rewrite !be2_val by assumption. reflexivity.
Qed.

Theorem header_overflow_refused src dst ln ver :
  65536 <= src \/ 65536 <= dst \/ 65536 <= ln \/ 65536 <= ver ->
  exists e, whdr_to_bytes (src, dst, ln, ver) = Err e.
Proof.
  intros H. unfold whdr_to_bytes, to_bytes_be. change (256 ^ N.of_nat 2) with 65536.
  destruct (N.ltb_spec ver 65536); [|eexists; reflexivity]. cbn [bind].
  destruct (N.ltb_spec src 65536); [|eexists; reflexivity]. cbn [bind].
  destruct (N.ltb_spec dst 65536); [|eexists; reflexivity]. cbn [bind].
  destruct (N.ltb_spec ln 65536); [|eexists; reflexivity]. lia.
Qed.

Lemma slice0 {A} k (l : list A) : slice 0 k l = firstn k l.
Proof. unfold slice. rewrite Nat.sub_0_r. reflexivity. Qed.

(* wrapping then unwrapping returns the same ports and payload *)
Theorem wrapper_roundtrip src dst ver payload :
  src < 65536 -> dst < 65536 -> ver < 65536 -> len payload < 65536 ->
  wpdu_to_bytes (src, dst, len payload, ver) payload = Ok (std_header ver src dst (len payload) ++ payload) /\
  wpdu_from_bytes (std_header ver src dst (len payload) ++ payload) = Ok (payload, (src, dst, len payload, ver)).
Proof.
  intros Hs Hd Hv Hl. unfold wpdu_to_bytes, wpdu_from_bytes.
  rewrite header_layout by assumption. split; [reflexivity|].
  rewrite slice0.
  rewrite (skipn_app_exact _ _ 8) by apply std_header_length.
  rewrite (firstn_app_exact _ _ 8) by apply std_header_length.
  rewrite header_roundtrip by assumption. cbn [bind]. rewrite N.eqb_refl. reflexivity.
Qed.

(* a datagram whose length field disagrees with its payload is refused *)
Theorem wrapper_length_mismatch_refused src dst ver ln payload :
  src < 65536 -> dst < 65536 -> ver < 65536 -> ln < 65536 -> ln <> len payload ->
  wpdu_from_bytes (std_header ver src dst ln ++ payload) = Err ERefused.
Proof.
  intros Hs Hd Hv Hl Hne. unfold wpdu_from_bytes. rewrite slice0.
  rewrite (skipn_app_exact _ _ 8) by apply std_header_length.
  rewrite (firstn_app_exact _ _ 8) by apply std_header_length.
  rewrite header_roundtrip by assumption. cbn [bind].
  destruct (N.eqb_spec ln (len payload)); [contradiction|]. reflexivity.
Qed.

Theorem wrap_is_header_plus_payload client server payload :
  client < 65536 -> server < 65536 -> len payload < 65536 ->
  tcp_wrap client server payload = Ok (std_header 1 client server (len payload) ++ payload).
Proof. intros. unfold tcp_wrap. apply wrapper_roundtrip; try assumption. lia. Qed.

(* ---------- reading exactly n bytes under any schedule ---------- *)
Definition sched_ok (sched : list nat) : Prop := Forall (fun c => 1 <= c)%nat sched.

Lemma recv_exactly_spec fuel : forall n acc stream sched,
  (n - length acc < fuel)%nat -> (n - length acc <= length stream)%nat -> sched_ok sched ->
  exists sched', sched_ok sched' /\
    recv_exactly fuel n acc (stream, sched)
    = (Ok (acc ++ firstn (n - length acc) stream), (skipn (n - length acc) stream, sched')).
Proof.
  induction fuel as [|f IH]; intros n acc stream sched Hf Hs Hok; [lia|].
  cbn [recv_exactly]. destruct (Nat.leb_spec n (length acc)) as [Hle|Hgt].
  - exists sched. split; [exact Hok|]. replace (n - length acc)%nat with 0%nat by lia.
    cbn. rewrite app_nil_r. reflexivity.
  - set (want := (n - length acc)%nat) in *.
    unfold sock_recv.
    set (k := match sched with [] => want | c :: _ => Nat.min want c end).
    assert (Hk : (1 <= k <= want)%nat).
    { subst k. destruct sched as [|c r]; [lia|]. inversion Hok; subst. lia. }
    assert (Hok' : sched_ok (tl sched)) by (destruct sched; [constructor | inversion Hok; assumption]).
    destruct (firstn k stream) as [|b chunk] eqn:Ech.
    { assert (L : length (firstn k stream) = 0%nat) by (rewrite Ech; reflexivity).
      rewrite firstn_length in L. lia. }
    rewrite <- Ech.
    assert (Lc : length (firstn k stream) = k) by (rewrite firstn_length; lia).
    destruct (IH n (acc ++ firstn k stream) (skipn k stream) (tl sched)) as (sched' & Hs' & E).
    + rewrite app_length, Lc. lia.
    + rewrite app_length, Lc, skipn_length. lia.
    + exact Hok'.
    + exists sched'. split; [exact Hs'|]. rewrite E. rewrite app_length, Lc.
      replace (n - (length acc + k))%nat with (want - k)%nat by lia.
      f_equal; [f_equal|f_equal].
      * rewrite <- app_assoc. f_equal.
        rewrite <- (firstn_skipn k (firstn want stream)).
        rewrite firstn_firstn. replace (Nat.min k want) with k by lia. f_equal.
        rewrite firstn_skipn_comm. f_equal. f_equal. lia.
      * rewrite skipn_skipn'. f_equal. lia.
Qed.

(* the receive returns exactly the payload the peer's header announces - all of it and
   nothing more - however the stream is split across reads, and leaves the rest unread *)
Theorem tcp_recv_any_schedule src dst ver payload next sched :
  src < 65536 -> dst < 65536 -> ver < 65536 -> len payload < 65536 -> sched_ok sched ->
  exists sched', sched_ok sched' /\
    tcp_recv (std_header ver src dst (len payload) ++ payload ++ next, sched) = (Ok payload, (next, sched')).
Proof.
  intros Hs Hd Hv Hl Hok. unfold tcp_recv.
  destruct (recv_exactly_spec 9 8 [] (std_header ver src dst (len payload) ++ payload ++ next) sched)
    as (s1 & Hs1 & E1); [cbn; lia | cbn [length]; rewrite app_length, std_header_length; lia | exact Hok |].
  rewrite E1. cbn [length Nat.sub app].
  rewrite (firstn_app_exact _ _ 8) by apply std_header_length.
  rewrite (skipn_app_exact _ _ 8) by apply std_header_length.
  rewrite header_roundtrip by assumption.
  unfold len. rewrite Nat2N.id.
  destruct (recv_exactly_spec (S (length payload)) (length payload) [] (payload ++ next) s1)
    as (s2 & Hs2 & E2); [cbn; lia | cbn [length]; rewrite app_length; lia | exact Hs1 |].
  exists s2. split; [exact Hs2|]. rewrite E2. cbn [length Nat.sub app].
  rewrite Nat.sub_0_r. rewrite (firstn_app_exact _ _ _ eq_refl), (skipn_app_exact _ _ _ eq_refl). reflexivity.
Qed.

(* with an exhausted schedule a read returns everything asked for that is available *)
Lemma recv_exactly_nosched f n stream : (1 <= n <= length stream)%nat ->
  recv_exactly (S f) n [] (stream, []) = (Ok (firstn n stream), (skipn n stream, [])).
Proof.
  intros Hn. cbn [recv_exactly length]. destruct (Nat.leb_spec n 0); [lia|].
  unfold sock_recv. rewrite Nat.sub_0_r. cbn [tl app].
  destruct (firstn n stream) as [|b c] eqn:E.
  { assert (L : length (firstn n stream) = 0%nat) by (rewrite E; reflexivity). rewrite firstn_length in L. lia. }
  rewrite <- E. destruct f; cbn [recv_exactly];
    (destruct (Nat.leb_spec n (length (firstn n stream))) as [_|Hc]; [reflexivity | rewrite firstn_length in Hc; lia]).
Qed.

Lemma recv_exactly_eof f n acc : (length acc < n)%nat ->
  recv_exactly (S f) n acc ([], []) = (Err ERefused, ([], [])).
Proof.
  intros H. cbn [recv_exactly]. destruct (Nat.leb_spec n (length acc)); [lia|].
  unfold sock_recv. cbn [tl]. rewrite firstn_nil, skipn_nil. reflexivity.
Qed.
Lemma recv_exactly_short f n b p : (length (b :: p) < n)%nat ->
  recv_exactly (S f) n [] (b :: p, []) = recv_exactly f n (b :: p) ([], []).
Proof.
  intros H. cbn [recv_exactly length]. destruct (Nat.leb_spec n 0); [lia|].
  unfold sock_recv. rewrite Nat.sub_0_r. cbn [tl app].
  rewrite firstn_all2 by lia. rewrite skipn_all2 by lia. reflexivity.
Qed.

(* a peer that closes the connection early makes the receive fail instead of returning a short APDU *)
Theorem tcp_recv_eof_refused src dst ver ln partial :
  src < 65536 -> dst < 65536 -> ver < 65536 -> ln < 65536 -> (length partial < N.to_nat ln)%nat ->
  exists e s', tcp_recv (std_header ver src dst ln ++ partial, []) = (Err e, s') /\ e <> EFuel.
Proof.
  intros Hs Hd Hv Hl Hshort. unfold tcp_recv.
  rewrite recv_exactly_nosched by (rewrite app_length, std_header_length; lia).
  rewrite (firstn_app_exact _ _ 8) by apply std_header_length.
  rewrite (skipn_app_exact _ _ 8) by apply std_header_length.
  rewrite header_roundtrip by assumption.
  set (n := N.to_nat ln) in *.
  destruct partial as [|b p].
  - rewrite recv_exactly_eof by exact Hshort. exists ERefused. eexists. split; [reflexivity|discriminate].
  - rewrite recv_exactly_short by exact Hshort.
    destruct n as [|n']; [cbn [length] in Hshort; lia|].
    rewrite recv_exactly_eof by exact Hshort. exists ERefused. eexists. split; [reflexivity|discriminate].
Qed.
