(* Independent reference for the bit-packed fields, written from the Green Book / ISO 13239
   bit numbering, not from the library's masks. *)
From Dlms Require Import Base.

(* Conformance ::= [APPLICATION 31] IMPLICIT BIT STRING (24): bit numbers in the book's own
   numbering (bit 0 = first = most significant).  The 17 services the library represents,
   in the order of its fields:
   general-protection 1, general-block-transfer 2, delta-value-encoding 6,
   attribute0-supported-with-set 8, priority-mgmt-supported 9, attribute0-supported-with-get 10,
   block-transfer-with-get-or-read 11, block-transfer-with-set-or-write 12,
   block-transfer-with-action 13, multiple-references 14, data-notification 16, access 17,
   get 19, set 20, selective-access 21, event-notification 22, action 23 *)
Definition greenbook_bits : list N := [1;2;6;8;9;10;11;12;13;14;16;17;19;20;21;22;23].
Fixpoint greenbook_word (flags : list bool) (bits : list N) : N :=
  match flags, bits with
  | f :: fs, b :: bs => (if f then 2 ^ (23 - b) else 0) + greenbook_word fs bs
  | _, _ => 0
  end.
(* BER bit string content: one "unused bits" byte (0) then the 24 bits, first bit first *)
Definition std_conformance (flags : list bool) : bytes :=
  0 :: be_bytes 3 (greenbook_word flags greenbook_bits).
Definition std_conformance_decode (word24 : N) : list bool :=
  map (fun b => N.testbit word24 (23 - b)) greenbook_bits.

(* HDLC (ISO 13239) control bytes, modulo-8 operation; p = poll/final *)
Definition std_ctrl_I (ssn rsn : N) (p : bool) : N := rsn * 32 + (if p then 16 else 0) + ssn * 2.
Definition std_ctrl_RR (rsn : N) (p : bool) : N := rsn * 32 + (if p then 16 else 0) + 1.
Definition std_ctrl_SNRM (p : bool) : N := 0x83 + (if p then 16 else 0).
Definition std_ctrl_UA (p : bool) : N := 0x63 + (if p then 16 else 0).
Definition std_ctrl_DISC (p : bool) : N := 0x43 + (if p then 16 else 0).
Definition std_ctrl_UI (p : bool) : N := 0x03 + (if p then 16 else 0).

(* frame format field: 1010 S LLL LLLLLLLL *)
Definition std_format (length : N) (seg : bool) : bytes :=
  [0xA0 + (if seg then 8 else 0) + length / 256; length mod 256].
