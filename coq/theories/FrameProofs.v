(* C09: frame layout, acceptance soundness (flags, length, check sequences over the received
   bytes), refusal of resized frames. *)
From Dlms Require Import Base Sweep CrcModel CrcSpec CrcProofs FieldsModel FieldsSpec FieldsProofs
  AddrModel AddrSpec AddrProofs FrameModel FrameSpec.

(* ---------- byte-range facts ---------- *)
Definition chk_x25_out (r : N) : bool := N.lxor r 0xFFFF <? 65536.
Lemma chk_x25_out_ok : forall_bits 16 chk_x25_out 0 = true. Proof. vm_compute. reflexivity. Qed.
Lemma x25_fcs_ok msg : bytes_ok msg -> bytes_ok (x25_fcs msg).
Proof.
  intros Hm. destruct (calculate_corresponds msg Hm 0xFFFF ltac:(lia)) as [_ Hlt].
  fold (x25_reg msg) in Hlt. pose proof (sweep16 _ chk_x25_out_ok _ Hlt) as H. unfold chk_x25_out in H.
  apply N.ltb_lt in H. unfold x25_fcs, x25. repeat constructor; unfold byte_ok.
  - apply N.mod_lt. lia.
  - apply N.div_lt_upper_bound; lia.
Qed.
Lemma crc_is_fcs msg : bytes_ok msg -> crc msg = x25_fcs msg.
Proof. intros H. unfold crc. apply (calculate_for_is_x25 msg H). Qed.

Lemma seven_lt x l : seven x l < 256.
Proof. unfold seven. pose proof (N.mod_lt x 128 ltac:(lia)). destruct l; lia. Qed.
Lemma std_addr_ok a : bytes_ok (std_addr a).
Proof.
  destruct a as [[l [p|]] [|]]; cbn [std_addr]; unfold std_server, std_client;
    try destruct ((l <=? 127) && (p <=? 127)); repeat constructor; apply seven_lt.
Qed.
Lemma std_format_ok l s : l <= 2047 -> bytes_ok (std_format l s).
Proof.
  intros H. unfold std_format. repeat constructor; unfold byte_ok.
  - assert (l / 256 < 8) by (apply N.div_lt_upper_bound; lia). destruct s; lia.
  - apply N.mod_lt. lia.
Qed.
Lemma std_control_ok k f : f_ssn f < 8 -> f_rsn f < 8 -> std_control k f < 256.
Proof.
  intros A B. destruct k; cbn [std_control]; unfold std_ctrl_SNRM, std_ctrl_UA, std_ctrl_DISC, std_ctrl_RR, std_ctrl_I, std_ctrl_UI;
    try destruct (f_final f); lia.
Qed.
Lemma bytes_ok_app a b : bytes_ok a -> bytes_ok b -> bytes_ok (a ++ b).
Proof. intros. apply Forall_app. split; assumption. Qed.

Lemma std_frame_header_ok k f : frame_ok k f -> bytes_ok (std_frame_header k f).
Proof.
  intros (Hd & Hs & Hssn & Hrsn & Hp & Hl). unfold std_frame_header.
  repeat apply bytes_ok_app; try apply std_addr_ok; [apply std_format_ok; exact Hl|].
  repeat constructor. apply std_control_ok; assumption.
Qed.

(* ---------- the control byte is the standard one ---------- *)
Lemma control_is_std k f : f_ssn f < 8 -> f_rsn f < 8 -> control_byte k f = std_control k f.
Proof.
  intros A B. destruct unnumbered_ctrl_bytes as (E1 & E2 & E3 & E4 & _).
  destruct k; cbn [control_byte std_control]; try assumption.
  - destruct (rr_encode_roundtrip (f_rsn f) B) as (_ & E & _). exact E.
  - destruct (ictrl_encode_roundtrip (f_ssn f) (f_rsn f) (f_final f) A B) as (x & Hm & E & _).
    unfold ictrl_make in Hm.
    assert (V : validate_seq (Z.of_N (f_ssn f)) && validate_seq (Z.of_N (f_rsn f)) = true).
    { unfold validate_seq. apply andb_true_iff; split; apply andb_true_iff; split; apply Z.leb_le; lia. }
    rewrite V in Hm. injection Hm as <-. rewrite !N2Z.id in E. exact E.
  - apply E4.
Qed.

(* ---------- layout ---------- *)
Lemma information_is_std k f : information k f = std_info k f.
Proof. destruct k; reflexivity. Qed.

Lemma frame_length_is_std k f : addr_ok (f_dest f) -> addr_ok (f_src f) -> frame_length k f = std_length k f.
Proof.
  intros Hd Hs. unfold frame_length, std_length.
  rewrite (addr_encode_is_standard _ Hd), (addr_encode_is_standard _ Hs), information_is_std.
  destruct k; cbn [fixed_length]; lia.
Qed.

Theorem frame_build_is_standard k f : frame_ok k f -> frame_to_bytes k f = Ok (std_frame k f).
Proof.
  intros Hok. pose proof Hok as (Hd & Hs & Hssn & Hrsn & Hp & Hl).
  assert (Hh : header_content k f = Ok (std_frame_header k f)).
  { unfold header_content. rewrite (frame_length_is_std k f Hd Hs).
    destruct (format_encode_roundtrip (std_length k f) (f_segmented f) Hl) as (x & Hm & Hb & _).
    rewrite Hm. cbn [bind]. rewrite Hb. cbn [bind].
    rewrite (addr_encode_is_standard _ Hd), (addr_encode_is_standard _ Hs), (control_is_std k f Hssn Hrsn).
    reflexivity. }
  pose proof (std_frame_header_ok k f Hok) as Hhok.
  unfold frame_to_bytes, frame_content. rewrite Hh. cbn [bind]. rewrite information_is_std.
  unfold std_frame.
  assert (Hhcs : hcs_of k (std_frame_header k f) = match k with KUa | KInfo | KUi => x25_fcs (std_frame_header k f) | _ => [] end).
  { destruct k; cbn [hcs_of has_hcs]; try reflexivity; apply crc_is_fcs; exact Hhok. }
  rewrite Hhcs.
  rewrite crc_is_fcs; [reflexivity|].
  apply bytes_ok_app; [exact Hhok|]. apply bytes_ok_app; [|exact Hp].
  destruct k; first [apply x25_fcs_ok; exact Hhok | constructor].
Qed.

(* ---------- acceptance is sound ---------- *)
Lemma check_eq_ok a b : check_eq a b = Ok tt -> a = b.
Proof. unfold check_eq. destruct (list_eqb a b) eqn:E; [|discriminate]. intros _. apply list_eqb_eq. exact E. Qed.

Lemma prelude_sound b x : parse_prelude b = Ok x ->
  hd 0 b = 126 /\ last b 0 = 126 /\ fst x + 2 = len b /\
  fst x = N.land (be_val (slice 1 3 b)) 2047.
Proof.
  unfold parse_prelude, enclosed_by_flags. destruct b as [|first rest]; [discriminate|]. cbn [bind].
  destruct ((first =? last_byte (first :: rest)) && (first =? 126)) eqn:F; [|discriminate]. cbn [negb].
  apply andb_prop in F as [F1 F2]. apply N.eqb_eq in F1, F2.
  destruct (negb (Nat.eqb _ 2)); [discriminate|].
  destruct (negb (_ =? 160)); [discriminate|].
  destruct (fmt_make _ _) as [[l s]|] eqn:M; [|discriminate]. cbn [bind].
  destruct (negb (fst (l, s) + 2 =? len (first :: rest))) eqn:L; [discriminate|].
  intros E. injection E as <-. apply negb_false_iff, N.eqb_eq in L.
  unfold fmt_make in M. destruct (2047 <? _)%Z; [discriminate|]. destruct (_ <? 0)%Z; [discriminate|].
  injection M as <- _. unfold last_byte in F1. cbn [hd fst] in *.
  rewrite N2Z.id in L. rewrite ?N2Z.id.
  repeat split; try assumption; try congruence.
Qed.

Definition fcs_valid (b : bytes) : Prop := fcs_slice b = crc (slice 1 (length b - 3) b).

Lemma check_received_sound b hp : check_received b hp = Ok tt -> fcs_valid b.
Proof.
  unfold check_received. destruct hp as [p|].
  - destruct (check_eq (slice p (p + 2) b) _) as [[]|]; [|discriminate]. cbn [bind]. apply check_eq_ok.
  - cbn [bind]. apply check_eq_ok.
Qed.

(* whatever a parser accepts is enclosed by flags, has exactly the length its format field
   announces and carries a frame check sequence that is correct for the received bytes *)
Theorem frame_acceptance_sound k b f : frame_from_bytes k b = Ok f ->
  hd 0 b = 126 /\ last b 0 = 126 /\
  N.land (be_val (slice 1 3 b)) 2047 + 2 = len b /\ fcs_valid b.
Proof.
  unfold frame_from_bytes. destruct (parse_prelude b) as [x|] eqn:P; [|discriminate]. cbn [bind].
  destruct (prelude_sound b x P) as (H1 & H2 & H3 & H4). rewrite H4 in H3.
  destruct (destination_from_bytes b _) as [dest|]; [|discriminate]. cbn [bind].
  destruct (source_from_bytes b _) as [src|]; [|discriminate]. cbn [bind].
  intros H. repeat split; try assumption.
  destruct k; try discriminate.
  - destruct (check_received b _) as [[]|] eqn:C; [|discriminate]. apply (check_received_sound _ _ C).
  - destruct (rr_from_bytes _); [|discriminate]. cbn [bind] in H.
    destruct (check_received b _) as [[]|] eqn:C; [|discriminate]. apply (check_received_sound _ _ C).
  - destruct (ictrl_from_bytes _) as [[[ssn rsn] fin]|]; [|discriminate]. cbn [bind] in H.
    destruct (check_received b _) as [[]|] eqn:C; [|discriminate]. apply (check_received_sound _ _ C).
  - destruct (check_received b _) as [[]|] eqn:C; [|discriminate]. apply (check_received_sound _ _ C).
  - destruct (uictrl_from_bytes _); [|discriminate]. cbn [bind] in H.
    destruct (check_received b _) as [[]|] eqn:C; [|discriminate]. apply (check_received_sound _ _ C).
Qed.

(* a byte string whose length disagrees with the format field it carries is refused, with the
   parsing error the frame factory treats as "need more data" unless it fails even earlier:
   this covers every truncation and extension that keeps the first three bytes *)
Theorem frame_resize_refused k b : N.land (be_val (slice 1 3 b)) 2047 + 2 <> len b ->
  exists e, frame_from_bytes k b = Err e.
Proof.
  intros H. destruct (frame_from_bytes k b) as [f|e] eqn:E; [|exists e; reflexivity].
  exfalso. apply H. apply (frame_acceptance_sound k b f E).
Qed.
