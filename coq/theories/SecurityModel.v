(* Model of dlms_cosem/security.py (encrypt / decrypt / gmac / validate_key / wrap_key / unwrap_key, as of
   fix commit d754293) over a block cipher given as two functions key -> block -> block.  The library
   calls OpenSSL through `cryptography`; the harness compares this model byte for byte with it.
   No proofs here. *)
From Dlms Require Import Base FieldsModel Aes Gcm.

Definition ECipher : N := 10.        (* CipheringError *)

Section SEC.
  Variable E D : bytes -> bytes -> bytes.

  (* validate_key: key_lengths = {0: 16, 1: 16, 2: 32} *)
  Definition key_length (suite : N) : option nat :=
    if suite =? 0 then Some 16%nat else if suite =? 1 then Some 16%nat else if suite =? 2 then Some 32%nat else None.
  Definition validate_key (suite : N) (key : bytes) : res unit :=
    match key_length suite with
    | None => Err ERefused                                  (* KeyError *)
    | Some n => if Nat.eqb (length key) n then Ok tt else Err ERefused
    end.
  Definition sc_suite (x : sc) : N := let '(s, _, _, _, _) := x in s.
  Definition sc_authenticated (x : sc) : bool := let '(_, a, _, _, _) := x in a.
  Definition sc_encrypted (x : sc) : bool := let '(_, _, e, _, _) := x in e.

  (* the checks encrypt and decrypt share, returning the nonce *)
  Definition prepare (x : sc) (title : bytes) (ic : N) (key ak : bytes) : res bytes :=
    if negb (sc_encrypted x) && negb (sc_authenticated x) then Err ERefused else   (* NotImplementedError *)
    if negb (Nat.eqb (length title) 8) then Err ERefused else
    do icb <- to_bytes_be 4 ic;
    do _ <- validate_key (sc_suite x) key;
    do _ <- validate_key (sc_suite x) ak;
    Ok (title ++ icb).

  Definition sec_encrypt (x : sc) (title : bytes) (ic : N) (key ak pt : bytes) : res bytes :=
    do iv <- prepare x title ic key ak;
    let '(ct, tag) := gcm_encrypt (E key) iv (sc_to_byte x :: ak) pt in
    Ok (ct ++ firstn 12 tag).

  Definition sec_decrypt (x : sc) (title : bytes) (ic : N) (key ak cipher_text : bytes) : res bytes :=
    do iv <- prepare x title ic key ak;
    let tag := lastn 12 cipher_text in
    let ct := droplast 12 cipher_text in
    (* modes.GCM(iv, tag, min_tag_length=12) refuses a shorter tag with ValueError *)
    if Nat.ltb (length tag) 12 then Err ERefused else
    let expected := gcm_tag (E key) iv (sc_to_byte x :: ak) ct in
    if list_eqb tag (firstn (length tag) expected) then Ok (gcm_crypt (E key) iv ct) else Err EDecrypt.

  Definition sec_gmac (x : sc) (title : bytes) (ic : N) (key ak challenge : bytes) : res bytes :=
    if sc_encrypted x then Err ECipher else
    if negb (Nat.eqb (length title) 8) then Err ERefused else
    do icb <- to_bytes_be 4 ic;
    do _ <- validate_key (sc_suite x) key;
    do _ <- validate_key (sc_suite x) ak;
    Ok (firstn 12 (gcm_tag (E key) (title ++ icb) (sc_to_byte x :: ak ++ challenge) [])).

  (* cryptography's aes_key_wrap / aes_key_unwrap input checks *)
  Definition sec_wrap_key (x : sc) (wrapping_key key_to_wrap : bytes) : res bytes :=
    do _ <- validate_key (sc_suite x) wrapping_key;
    do _ <- validate_key (sc_suite x) key_to_wrap;
    Ok (key_wrap (E wrapping_key) key_to_wrap).
  Definition sec_unwrap_key (x : sc) (wrapping_key wrapped : bytes) : res bytes :=
    do _ <- validate_key (sc_suite x) wrapping_key;
    if Nat.ltb (length wrapped) 24 || negb (Nat.eqb (Nat.modulo (length wrapped) 8) 0) then Err ERefused else
    match key_unwrap (D wrapping_key) wrapped with
    | None => Err ERefused                                   (* InvalidUnwrap *)
    | Some k => do _ <- validate_key (sc_suite x) k; Ok k
    end.
End SEC.
