(* C14: decoding the standard A-XDR encoding of any supported value tree returns the
   corresponding Python value and consumes exactly the encoded bytes (any depth and width);
   the implemented encoders produce the standard encoding for every length. *)
From Dlms Require Import Base FieldsModel TimeModel TimeSpec TimeProofs AxdrModel AxdrSpec AxdrBridge.
From Coq Require Import ZifyBool ZifyN.
Ltac Zify.zify_post_hook ::= Z.to_euclidean_division_equations.

(* ---------- the generated tag table says what the standard says ---------- *)
Lemma kinds :
  kind_of 0 = Some (0, 0%Z) /\ kind_of 1 = Some (1, (-1)%Z) /\ kind_of 2 = Some (2, (-1)%Z) /\
  kind_of 3 = Some (3, 1%Z) /\ kind_of 5 = Some (4, 4%Z) /\ kind_of 6 = Some (5, 4%Z) /\
  kind_of 9 = Some (6, (-1)%Z) /\ kind_of 15 = Some (4, 1%Z) /\ kind_of 16 = Some (4, 2%Z) /\
  kind_of 17 = Some (5, 1%Z) /\ kind_of 18 = Some (5, 2%Z) /\ kind_of 20 = Some (4, 8%Z) /\
  kind_of 21 = Some (5, 8%Z) /\ kind_of 22 = Some (5, 1%Z) /\ kind_of 25 = Some (7, 12%Z) /\
  kind_of 26 = Some (8, 5%Z) /\ kind_of 27 = Some (9, 4%Z).
Proof. repeat split; reflexivity. Qed.

(* ---------- cursor lemmas ---------- *)
Lemma take_app a rest : take (length a) (a ++ rest) = Ok (a, rest).
Proof.
  unfold take. rewrite app_length.
  destruct (Nat.leb_spec (length a) (length a + length rest)); [|lia].
  rewrite firstn_app_exact, skipn_app_exact by reflexivity. reflexivity.
Qed.
Lemma take_n_eq n b : take_n n b = take (N.to_nat n) b.
Proof.
  unfold take_n, take, len. destruct (N.leb_spec n (N.of_nat (length b))) as [H|H].
  - reflexivity.
  - destruct (Nat.leb_spec (N.to_nat n) (length b)); [lia|reflexivity].
Qed.
Lemma take_app' k a rest : length a = k -> take k (a ++ rest) = Ok (a, rest).
Proof. intros <-. apply take_app. Qed.

Lemma get_len_std n rest : n < 4294967296 -> get_len (std_len n ++ rest) = Ok (n, rest).
Proof.
  intros Hn. unfold std_len.
  destruct (N.ltb_spec n 128) as [H1|H1].
  { unfold get_len. cbn [app take length Nat.leb firstn skipn bind]. change (be_val [n]) with (0 * 256 + n).
    replace (N.land (0 * 256 + n) 128 =? 0) with true; [f_equal; f_equal; lia|].
    symmetry. apply N.eqb_eq. rewrite N.mul_0_l, N.add_0_l.
    change 128 with (2 ^ 7). rewrite FieldsProofs.land_pow2.
    replace (N.testbit n 7) with false; [reflexivity|].
    symmetry. destruct (N.eq_dec n 0) as [->|Hz]; [reflexivity|].
    apply N.bits_above_log2. apply N.log2_lt_pow2; [lia|exact H1]. }
  destruct (N.ltb_spec n 256) as [H2|H2].
  { unfold get_len. cbn [app take length Nat.leb firstn skipn bind].
    change (N.land (be_val [129]) 128 =? 0) with false. cbv iota.
    change (N.to_nat (N.land (be_val [129]) 127)) with 1%nat.
    rewrite (take_app' 1 (be_bytes 1 n) rest) by apply be_bytes_length. cbn [bind].
    rewrite be_val_be_bytes by (cbn; lia). reflexivity. }
  destruct (N.ltb_spec n 65536) as [H3|H3].
  { unfold get_len. cbn [app take length Nat.leb firstn skipn bind].
    change (N.land (be_val [130]) 128 =? 0) with false. cbv iota.
    change (N.to_nat (N.land (be_val [130]) 127)) with 2%nat.
    rewrite (take_app' 2 (be_bytes 2 n) rest) by apply be_bytes_length. cbn [bind].
    rewrite be_val_be_bytes by (cbn; lia). reflexivity. }
  destruct (N.ltb_spec n 16777216) as [H4|H4].
  { unfold get_len. cbn [app take length Nat.leb firstn skipn bind].
    change (N.land (be_val [131]) 128 =? 0) with false. cbv iota.
    change (N.to_nat (N.land (be_val [131]) 127)) with 3%nat.
    rewrite (take_app' 3 (be_bytes 3 n) rest) by apply be_bytes_length. cbn [bind].
    rewrite be_val_be_bytes by (cbn; lia). reflexivity. }
  unfold get_len. cbn [app take length Nat.leb firstn skipn bind].
  change (N.land (be_val [132]) 128 =? 0) with false. cbv iota.
  change (N.to_nat (N.land (be_val [132]) 127)) with 4%nat.
  rewrite (take_app' 4 (be_bytes 4 n) rest) by apply be_bytes_length. cbn [bind].
  rewrite be_val_be_bytes by (cbn; lia). reflexivity.
Qed.

(* ---------- two's complement ---------- *)
Lemma signed_roundtrip k z (w : Z) : w = (256 ^ Z.of_nat k)%Z -> (0 < w)%Z ->
  (- (w / 2) <= z < w / 2)%Z -> (w mod 2 = 0)%Z ->
  be_val_signed (std_signed k z) = z /\ to_bytes_be_signed k z = Ok (std_signed k z).
Proof.
  intros Hw Hpos Hz Heven. unfold std_signed. rewrite <- Hw.
  assert (HN : 256 ^ N.of_nat k = Z.to_N w).
  { subst w. rewrite <- (N2Z.id (256 ^ N.of_nat k)). f_equal. rewrite N2Z.inj_pow. f_equal. lia. }
  pose proof (Z.mod_pos_bound z w Hpos) as Hmod.
  assert (Hlt : Z.to_N (z mod w) < 256 ^ N.of_nat k) by (rewrite HN; lia).
  assert (Hcases : (z mod w = z /\ 0 <= z)%Z \/ (z mod w = z + w /\ z < 0)%Z).
  { destruct (Z.lt_ge_cases z 0) as [Hn|Hn]; [right|left]; split; try lia.
    - rewrite <- (Z.mod_add z 1 w) by lia. rewrite Z.mul_1_l. apply Z.mod_small. lia.
    - apply Z.mod_small. lia. }
  split.
  - unfold be_val_signed, len. rewrite be_bytes_length.
    rewrite be_val_be_bytes by exact Hlt. rewrite HN.
    assert (Hw2 : (w = 2 * (w / 2))%Z) by (pose proof (Z.div_mod w 2 ltac:(lia)); lia).
    destruct (N.ltb_spec (2 * Z.to_N (z mod w)) (Z.to_N w)); destruct Hcases as [[E ?]|[E ?]]; rewrite E in *; lia.
  - unfold to_bytes_be_signed. rewrite <- Hw.
    replace ((- (w / 2) <=? z)%Z && (z <? w / 2)%Z) with true; [reflexivity|].
    symmetry. apply andb_true_iff. split; [apply Z.leb_le | apply Z.ltb_lt]; lia.
Qed.
Lemma signed_ok_range k z : signed_ok k z = true -> (- 2 ^ (8 * k - 1) <= z < 2 ^ (8 * k - 1))%Z.
Proof. unfold signed_ok. rewrite andb_true_iff, Z.leb_le, Z.ltb_lt. tauto. Qed.
Lemma signed1 z : signed_ok 1 z = true -> be_val_signed (std_signed 1 z) = z /\ to_bytes_be_signed 1 z = Ok (std_signed 1 z).
Proof. intros H. apply signed_ok_range in H. apply (signed_roundtrip 1 z 256); [reflexivity|lia| |reflexivity]. cbn in *. lia. Qed.
Lemma signed2 z : signed_ok 2 z = true -> be_val_signed (std_signed 2 z) = z.
Proof. intros H. apply signed_ok_range in H. apply (signed_roundtrip 2 z 65536); [reflexivity|lia| |reflexivity]. cbn in *. lia. Qed.
Lemma signed4 z : signed_ok 4 z = true -> be_val_signed (std_signed 4 z) = z.
Proof. intros H. apply signed_ok_range in H. apply (signed_roundtrip 4 z 4294967296); [reflexivity|lia| |reflexivity]. cbn in *. lia. Qed.
Lemma signed8 z : signed_ok 8 z = true -> be_val_signed (std_signed 8 z) = z.
Proof. intros H. apply signed_ok_range in H. apply (signed_roundtrip 8 z 18446744073709551616); [reflexivity|lia| |reflexivity]. cbn in *. lia. Qed.

Lemma std_signed_length k z : length (std_signed k z) = k.
Proof. apply be_bytes_length. Qed.
Lemma std_datetime_length x st : length (std_datetime x st) = 12%nat.
Proof.
  destruct x as [[[[[[[y m] d] h] mi] s] us] off]. unfold std_datetime.
  rewrite !app_length. destruct off; cbn [std_deviation]; rewrite ?be_bytes_length; reflexivity.
Qed.

(* ---------- size measure for the fuel ---------- *)
Fixpoint size (d : data) : nat :=
  match d with
  | DArray l | DStruct l => S (fold_right (fun d acc => size d + acc)%nat 0%nat l + length l)
  | _ => 1%nat
  end.
Definition sizes (l : list data) : nat := (fold_right (fun d acc => size d + acc) 0 l + length l)%nat.

Section data_induction.
  Variable P : data -> Prop.
  Hypothesis Hscalar : forall d, (forall l, d <> DArray l) -> (forall l, d <> DStruct l) -> P d.
  Hypothesis Harr : forall l, Forall P l -> P (DArray l).
  Hypothesis Hstr : forall l, Forall P l -> P (DStruct l).
  Fixpoint data_ind' (d : data) : P d.
  Proof.
    destruct d;
      try (apply Hscalar; intros; discriminate).
    - apply Harr. induction l as [|x xs IH]; constructor; [apply data_ind'|exact IH].
    - apply Hstr. induction l as [|x xs IH]; constructor; [apply data_ind'|exact IH].
  Defined.
End data_induction.

Definition dec_ok (d : data) : Prop :=
  forall fuel rest, (size d < fuel)%nat ->
    decode_value fuel (std_encode d ++ rest) = Ok (of_spec (py d), rest).

Lemma items_ok l :
  Forall (fun d => data_ok d = true -> dec_ok d) l -> forallb data_ok l = true ->
  forall fuel rest, (sizes l < fuel)%nat ->
    decode_items fuel (N.of_nat (length l)) (flat_map std_encode l ++ rest)
    = Ok (map of_spec (map py l), rest).
Proof.
  induction l as [|d l IH]; intros HF Hok fuel rest Hf.
  - destruct fuel as [|f]; [unfold sizes in Hf; simpl in Hf; lia|]. reflexivity.
  - inversion HF as [|? ? Hd Hl]; subst. cbn [forallb] in Hok. apply andb_prop in Hok as [Hokd Hokl].
    destruct fuel as [|f]; [lia|].
    cbn [decode_items length flat_map map].
    replace (N.of_nat (S (length l)) =? 0) with false by (symmetry; apply N.eqb_neq; lia).
    rewrite <- app_assoc.
    unfold sizes in Hf; cbn [fold_right length] in Hf.
    rewrite (Hd Hokd) by lia. cbn [bind].
    replace (N.of_nat (S (length l)) - 1) with (N.of_nat (length l)) by lia.
    rewrite IH; [reflexivity | assumption | assumption | unfold sizes; lia].
Qed.

Ltac norm_nat :=
  repeat match goal with
  | |- context [Pos.to_nat ?p] => let v := eval compute in (Pos.to_nat p) in change (Pos.to_nat p) with v
  end.
Ltac first_step :=
  cbn [decode_value std_encode app take length Nat.leb firstn skipn bind]; rewrite ?take_n_eq;
  match goal with |- context [kind_of (be_val [?t])] => change (be_val [t]) with t end.

Theorem decode_std_encode d : data_ok d = true -> dec_ok d.
Proof.
  destruct kinds as (K0 & K1 & K2 & K3 & K5 & K6 & K9 & K15 & K16 & K17 & K18 & K20 & K21 & K22 & K25 & K26 & K27).
  induction d as [d Hna Hns | l IH | l IH] using data_ind'; intros Hok fuel rest Hf.
  - destruct d; try (exfalso; eapply Hna; reflexivity); try (exfalso; eapply Hns; reflexivity);
      (destruct fuel as [|f]; [cbn in Hf; lia|]); cbn [data_ok] in Hok.
    + (* null *) first_step. rewrite K0. cbn. reflexivity.
    + (* bool *) first_step. rewrite K3. cbn [orb N.eqb Pos.eqb negb Z.eqb Z.to_nat Pos.to_nat Pos.iter_op Nat.add].
      cbn. destruct b; reflexivity.
    + (* i8 *) first_step. rewrite K15. cbn -[std_signed take be_val_signed]. norm_nat.
      rewrite (take_app' 1 (std_signed 1 z) rest) by apply std_signed_length. cbn [bind].
      destruct (signed1 z Hok) as [-> _]. reflexivity.
    + (* i16 *) first_step. rewrite K16. cbn -[std_signed take be_val_signed]. norm_nat.
      rewrite (take_app' 2 (std_signed 2 z) rest) by apply std_signed_length. cbn [bind].
      rewrite (signed2 z Hok). reflexivity.
    + (* i32 *) first_step. rewrite K5. cbn -[std_signed take be_val_signed]. norm_nat.
      rewrite (take_app' 4 (std_signed 4 z) rest) by apply std_signed_length. cbn [bind].
      rewrite (signed4 z Hok). reflexivity.
    + (* i64 *) first_step. rewrite K20. cbn -[std_signed take be_val_signed]. norm_nat.
      rewrite (take_app' 8 (std_signed 8 z) rest) by apply std_signed_length. cbn [bind].
      rewrite (signed8 z Hok). reflexivity.
    + (* u8 *) first_step. rewrite K17. cbn -[be_bytes take be_val]. norm_nat.
      rewrite (take_app' 1 (be_bytes 1 n) rest) by apply be_bytes_length. cbn [bind].
      apply N.ltb_lt in Hok. rewrite be_val_be_bytes by (cbn; lia). reflexivity.
    + (* u16 *) first_step. rewrite K18. cbn -[be_bytes take be_val]. norm_nat.
      rewrite (take_app' 2 (be_bytes 2 n) rest) by apply be_bytes_length. cbn [bind].
      apply N.ltb_lt in Hok. rewrite be_val_be_bytes by (cbn; lia). reflexivity.
    + (* u32 *) first_step. rewrite K6. cbn -[be_bytes take be_val]. norm_nat.
      rewrite (take_app' 4 (be_bytes 4 n) rest) by apply be_bytes_length. cbn [bind].
      apply N.ltb_lt in Hok. rewrite be_val_be_bytes by (cbn; lia). reflexivity.
    + (* u64 *) first_step. rewrite K21. cbn -[be_bytes take be_val]. norm_nat.
      rewrite (take_app' 8 (be_bytes 8 n) rest) by apply be_bytes_length. cbn [bind].
      apply N.ltb_lt in Hok. rewrite be_val_be_bytes by (cbn; lia). reflexivity.
    + (* enum *) first_step. rewrite K22. cbn -[be_bytes take be_val]. norm_nat.
      rewrite (take_app' 1 (be_bytes 1 n) rest) by apply be_bytes_length. cbn [bind].
      apply N.ltb_lt in Hok. rewrite be_val_be_bytes by (cbn; lia). reflexivity.
    + (* octet string *) first_step. rewrite K9. cbn -[std_len take get_len take_n]. norm_nat. rewrite ?take_n_eq.
      apply N.ltb_lt in Hok. rewrite <- app_assoc. rewrite get_len_std by exact Hok. cbn [bind].
      rewrite take_n_eq. unfold len. rewrite Nat2N.id, take_app. reflexivity.
    + (* date-time *) first_step. rewrite K25. cbn -[std_datetime take datetime_from_bytes]. norm_nat.
      rewrite (take_app' 12 (std_datetime x st) rest) by apply std_datetime_length. cbn [bind].
      rewrite std_datetime_length. cbn [Nat.eqb negb].
      rewrite (datetime_roundtrip x st Hok). reflexivity.
    + (* date *) destruct d as [[y m] dd]. first_step. rewrite K26.
      cbn -[take date_from_bytes]. norm_nat.
      change (y / 256 :: y mod 256 :: m :: dd :: 255 :: rest) with ([y / 256; y mod 256; m; dd; 255] ++ rest).
      rewrite (take_app' 5 [y / 256; y mod 256; m; dd; 255] rest) by reflexivity. cbn [bind length Nat.eqb negb].
      pose proof Hok as Hv. unfold date_valid in Hv. rewrite !andb_true_iff, !in_range_spec in Hv.
      destruct Hv as [[Hy Hm] Hd]. pose proof (dim_le_31 y m).
      unfold date_from_bytes. cbn [length Nat.eqb negb]. unfold slice. cbn [skipn firstn Nat.sub nth].
      rewrite be_val2. replace (y / 256 * 256 + y mod 256) with y by lia.
      change (opt_val 255 255 None) with (@None N).
      rewrite (opt_val_ne y), (opt_val_ne m), (opt_val_ne dd) by lia. rewrite !validate_ok by lia.
      cbn [bind validate need]. rewrite Hok. reflexivity.
    + (* time *) first_step. rewrite K27. cbn -[take time_from_bytes]. norm_nat.
      change (h :: mi :: s :: hundredths :: rest) with ([h; mi; s; hundredths] ++ rest).
      rewrite (take_app' 4 [h; mi; s; hundredths] rest) by reflexivity. cbn [bind length Nat.eqb negb].
      rewrite !andb_true_iff, !in_range_spec in Hok. destruct Hok as [[[Hh Hmi] Hs] Hhu].
      unfold time_from_bytes. cbn [length Nat.eqb negb nth].
      rewrite (opt_val_ne h), (opt_val_ne mi), (opt_val_ne s), (opt_val_ne hundredths) by lia.
      rewrite !validate_ok by lia. cbn [bind need].
      replace (time_valid h mi s (hundredths * 10000)) with true
        by (symmetry; unfold time_valid; rewrite !andb_true_iff, !in_range_spec; lia).
      reflexivity.
  - (* array *) destruct fuel as [|f]; [cbn in Hf; lia|]. cbn [data_ok] in Hok.
    apply andb_prop in Hok as [Hlen Hall]. apply N.ltb_lt in Hlen.
    first_step. rewrite K1. cbn -[std_len get_len decode_items]. norm_nat.
    rewrite <- app_assoc. rewrite get_len_std by exact Hlen. cbn [bind].
    rewrite (items_ok l IH Hall) by (cbn [size] in Hf; unfold sizes; lia). reflexivity.
  - (* structure *) destruct fuel as [|f]; [cbn in Hf; lia|]. cbn [data_ok] in Hok.
    apply andb_prop in Hok as [Hlen Hall]. apply N.ltb_lt in Hlen.
    first_step. rewrite K2. cbn -[std_len get_len decode_items]. norm_nat.
    rewrite <- app_assoc. rewrite get_len_std by exact Hlen. cbn [bind].
    rewrite (items_ok l IH Hall) by (cbn [size] in Hf; unfold sizes; lia). reflexivity.
Qed.

(* ---------- whole buffers: parse_as_dlms_data ---------- *)
Lemma std_encode_nonempty d : exists t r, std_encode d = t :: r.
Proof. destruct d; cbn [std_encode]; try (eexists _, _; reflexivity). destruct d as [[y m] dd]. eexists _, _; reflexivity. Qed.

Lemma size_bound d : (size d + 1 <= 2 * length (std_encode d))%nat.
Proof.
  induction d as [d Hna Hns | l IH | l IH] using data_ind'.
  - destruct (std_encode_nonempty d) as (t & r & E). rewrite E.
    destruct d; try (exfalso; eapply Hna; reflexivity); try (exfalso; eapply Hns; reflexivity); cbn [size length]; lia.
  - cbn [size std_encode length]. rewrite app_length.
    assert (H : (fold_right (fun d acc => size d + acc) 0 l + length l <= 2 * length (flat_map std_encode l))%nat).
    { induction IH as [|x xs Hx _ IHxs]; [cbn; lia|]. cbn [fold_right length flat_map]. rewrite app_length. lia. }
    assert (L : (1 <= length (std_len (N.of_nat (length l))))%nat)
      by (unfold std_len; repeat match goal with |- context [if ?c then _ else _] => destruct c end; cbn [length]; lia).
    lia.
  - cbn [size std_encode length]. rewrite app_length.
    assert (H : (fold_right (fun d acc => size d + acc) 0 l + length l <= 2 * length (flat_map std_encode l))%nat).
    { induction IH as [|x xs Hx _ IHxs]; [cbn; lia|]. cbn [fold_right length flat_map]. rewrite app_length. lia. }
    assert (L : (1 <= length (std_len (N.of_nat (length l))))%nat)
      by (unfold std_len; repeat match goal with |- context [if ?c then _ else _] => destruct c end; cbn [length]; lia).
    lia.
Qed.
Lemma sizes_bound l : (sizes l <= 2 * length (flat_map std_encode l))%nat.
Proof.
  unfold sizes. induction l as [|x xs IH]; [cbn; lia|].
  cbn [fold_right length flat_map]. rewrite app_length. pose proof (size_bound x). lia.
Qed.

Lemma decode_all_ok l : forallb data_ok l = true -> forall fuel, (sizes l < fuel)%nat ->
  decode_all fuel (flat_map std_encode l) = Ok (map of_spec (map py l)).
Proof.
  induction l as [|d l IH]; intros Hok fuel Hf; [destruct fuel; reflexivity|].
  cbn [forallb] in Hok. apply andb_prop in Hok as [Hd Hl].
  cbn [flat_map map]. destruct (std_encode_nonempty d) as (t & r & E).
  destruct fuel as [|f]; [lia|].
  assert (Hs : (size d < S f)%nat) by (unfold sizes in Hf; cbn [fold_right length] in Hf; lia).
  pose proof (decode_std_encode d Hd (S f) (flat_map std_encode l) Hs) as Hdec.
  rewrite E in *. cbn [app decode_all]. cbn [app] in Hdec. rewrite Hdec. cbn [bind].
  rewrite IH; [reflexivity | exact Hl | unfold sizes in *; cbn [fold_right length] in Hf; lia].
Qed.

(* a buffer holding the standard encodings of any sequence of values decodes to exactly those
   values; a single value is returned unwrapped *)
Theorem parse_as_dlms_data_std l : forallb data_ok l = true ->
  parse_as_dlms_data (flat_map std_encode l) =
    Ok (match map of_spec (map py l) with [v] => v | vs => PList vs end).
Proof.
  intros Hok. unfold parse_as_dlms_data.
  rewrite (decode_all_ok l Hok) by (unfold fuel_for; pose proof (sizes_bound l); lia).
  cbn [bind]. destruct (map of_spec (map py l)) as [|v [|w vs]]; reflexivity.
Qed.
Corollary parse_one d : data_ok d = true -> parse_as_dlms_data (std_encode d) = Ok (of_spec (py d)).
Proof.
  intros H. pose proof (parse_as_dlms_data_std [d]) as P. cbn [flat_map forallb map] in P.
  rewrite app_nil_r, H in P. apply P. reflexivity.
Qed.

(* ---------- the encoders produce the standard encoding, for every length ---------- *)
Lemma enc_len_loop_step f k n : enc_len_loop (S f) k n =
  if n <? 256 ^ N.of_nat k then (do lb <- to_bytes_be 1 (128 + N.of_nat k); Ok (lb ++ be_bytes k n))
  else enc_len_loop f (S k) n.
Proof. reflexivity. Qed.

Theorem encode_variable_integer_std n : n < 4294967296 -> encode_variable_integer n = Ok (std_len n).
Proof.
  intros Hn. unfold encode_variable_integer, std_len.
  destruct (N.ltb_spec 127 n) as [H|H]; destruct (N.ltb_spec n 128) as [H'|H']; try lia; [|reflexivity].
  rewrite enc_len_loop_step. change (256 ^ N.of_nat 1) with 256.
  destruct (N.ltb_spec n 256); [reflexivity|].
  rewrite enc_len_loop_step. change (256 ^ N.of_nat 2) with 65536.
  destruct (N.ltb_spec n 65536); [reflexivity|].
  rewrite enc_len_loop_step. change (256 ^ N.of_nat 3) with 16777216.
  destruct (N.ltb_spec n 16777216); [reflexivity|].
  rewrite enc_len_loop_step. change (256 ^ N.of_nat 4) with 4294967296.
  destruct (N.ltb_spec n 4294967296); [reflexivity|lia].
Qed.

Theorem encoders_are_standard :
  (forall v, len v < 4294967296 -> enc_octet_string v = Ok (std_encode (DOctets v))) /\
  (forall v, v < 4294967296 -> enc_double_long_unsigned v = Ok (std_encode (DU32 v))) /\
  (forall v, v < 65536 -> enc_unsigned_long v = Ok (std_encode (DU16 v))) /\
  (forall z, signed_ok 1 z = true -> enc_integer z = Ok (std_encode (DI8 z))).
Proof.
  repeat split.
  - intros v Hv. unfold enc_octet_string, with_tag. rewrite encode_variable_integer_std by exact Hv. reflexivity.
  - intros v Hv. unfold enc_double_long_unsigned. unfold to_bytes_be. change (256 ^ N.of_nat 4) with 4294967296.
    apply N.ltb_lt in Hv. rewrite Hv. reflexivity.
  - intros v Hv. unfold enc_unsigned_long. unfold to_bytes_be. change (256 ^ N.of_nat 2) with 65536.
    apply N.ltb_lt in Hv. rewrite Hv. reflexivity.
  - intros z Hz. unfold enc_integer. destruct (signed1 z Hz) as [_ ->]. reflexivity.
Qed.

(* capture-object and range-descriptor encodings are the standard encodings of the trees they mean *)
Theorem capture_object_is_standard iface obis attr idx :
  iface < 65536 -> len obis < 4294967296 -> signed_ok 1 attr = true -> idx < 65536 ->
  enc_capture_object iface obis attr idx =
    Ok (std_encode (DStruct [DU16 iface; DOctets obis; DI8 attr; DU16 idx])).
Proof.
  intros Hi Ho Ha Hx. destruct encoders_are_standard as (E1 & _ & E3 & E4).
  unfold enc_capture_object. rewrite (E3 iface Hi), (E1 obis Ho), (E4 attr Ha), (E3 idx Hx). cbn [bind].
  cbn [std_encode flat_map length]. rewrite app_nil_r. reflexivity.
Qed.
Theorem range_descriptor_is_standard co from_dt to_dt : len from_dt < 4294967296 -> len to_dt < 4294967296 ->
  enc_range_descriptor co from_dt to_dt =
    Ok ([1; 2; 4] ++ co ++ std_encode (DOctets from_dt) ++ std_encode (DOctets to_dt) ++ std_encode (DArray [])).
Proof.
  intros Hf Ht. destruct encoders_are_standard as (E1 & _). unfold enc_range_descriptor.
  rewrite (E1 from_dt Hf), (E1 to_dt Ht). reflexivity.
Qed.

(* ---------- truncated input is refused (never completed with invented values, never loops) ---------- *)
Definition sprefix (p b : bytes) : Prop := exists s, s <> [] /\ b = p ++ s.

Lemma sprefix_app p a b : sprefix p (a ++ b) ->
  sprefix p a \/ exists p', p = a ++ p' /\ sprefix p' b.
Proof.
  revert p; induction a as [|x a IH]; intros p (s & Hs & E).
  - right. exists p. split; [reflexivity|]. exists s. split; assumption.
  - destruct p as [|y p].
    + left. exists (x :: a). split; [discriminate|reflexivity].
    + cbn [app] in E. injection E as -> E.
      destruct (IH p) as [(s' & Hs' & E') | (p' & -> & Hp')]; [exists s; split; assumption | |].
      * left. exists s'. split; [assumption|]. cbn [app]. f_equal. exact E'.
      * right. exists p'. split; [reflexivity|assumption].
Qed.
Lemma sprefix_length p b : sprefix p b -> (length p < length b)%nat.
Proof. intros (s & Hs & ->). rewrite app_length. destruct s; [contradiction|cbn; lia]. Qed.
Lemma sprefix_cons t body p : sprefix p (t :: body) -> p = [] \/ exists q, p = t :: q /\ sprefix q body.
Proof.
  intros (s & Hs & E). destruct p as [|y p]; [left; reflexivity|right].
  cbn [app] in E. injection E as <- E. exists p. split; [reflexivity|]. exists s. split; assumption.
Qed.
Lemma take_short k q : (length q < k)%nat -> take k q = Err ERefused.
Proof. intros H. unfold take. destruct (Nat.leb_spec k (length q)); [lia|reflexivity]. Qed.

Lemma get_len_trunc n q : n < 4294967296 -> sprefix q (std_len n) -> get_len q = Err ERefused.
Proof.
  intros Hn Hq. unfold std_len in Hq.
  assert (K : forall first k body, (first = 129 /\ k = 1 \/ first = 130 /\ k = 2 \/ first = 131 /\ k = 3 \/ first = 132 /\ k = 4)%nat ->
              length body = k -> sprefix q (N.of_nat first :: body) -> get_len q = Err ERefused).
  { intros first k body Hf Hb Hs. apply sprefix_cons in Hs as [->|(q' & -> & Hq')]; [reflexivity|].
    apply sprefix_length in Hq'. unfold get_len. cbn [take length Nat.leb firstn skipn bind].
    destruct Hf as [[-> ->]|[[-> ->]|[[-> ->]|[-> ->]]]]; cbn [N.of_nat Pos.of_succ_nat Pos.succ];
      match goal with |- context [be_val [?x]] => let v := eval compute in (N.land (be_val [x]) 128 =? 0) in
          change (N.land (be_val [x]) 128 =? 0) with v;
          let w := eval compute in (N.to_nat (N.land (be_val [x]) 127)) in
          change (N.to_nat (N.land (be_val [x]) 127)) with w end; cbv iota;
      rewrite take_short by lia; reflexivity. }
  destruct (n <? 128).
  { apply sprefix_cons in Hq as [->|(q' & -> & Hq')]; [reflexivity|]. apply sprefix_length in Hq'. cbn in Hq'. lia. }
  destruct (n <? 256); [apply (K 129%nat 1%nat (be_bytes 1 n)); [tauto|apply be_bytes_length|exact Hq]|].
  destruct (n <? 65536); [apply (K 130%nat 2%nat (be_bytes 2 n)); [tauto|apply be_bytes_length|exact Hq]|].
  destruct (n <? 16777216); [apply (K 131%nat 3%nat (be_bytes 3 n)); [tauto|apply be_bytes_length|exact Hq]|].
  apply (K 132%nat 4%nat (be_bytes 4 n)); [tauto|apply be_bytes_length|exact Hq].
Qed.

Definition trunc_ok (d : data) : Prop :=
  forall fuel p, (size d < fuel)%nat -> sprefix p (std_encode d) -> decode_value fuel p = Err ERefused.

Lemma decode_value_nil f : decode_value (S f) [] = Err ERefused.
Proof. reflexivity. Qed.

Lemma items_trunc l :
  Forall (fun d => data_ok d = true -> trunc_ok d) l -> forallb data_ok l = true ->
  forall fuel q, (sizes l < fuel)%nat -> sprefix q (flat_map std_encode l) ->
    decode_items fuel (N.of_nat (length l)) q = Err ERefused.
Proof.
  induction l as [|d l IH]; intros HF Hok fuel q Hf Hq.
  - apply sprefix_length in Hq. cbn in Hq. lia.
  - inversion HF as [|? ? Hd Hl]; subst. cbn [forallb] in Hok. apply andb_prop in Hok as [Hokd Hokl].
    destruct fuel as [|f]; [lia|]. cbn [decode_items length].
    replace (N.of_nat (S (length l)) =? 0) with false by (symmetry; apply N.eqb_neq; lia).
    unfold sizes in Hf; cbn [fold_right length] in Hf.
    cbn [flat_map] in Hq. apply sprefix_app in Hq as [Hq | (q' & -> & Hq')].
    + rewrite (Hd Hokd f q) by (assumption || lia). reflexivity.
    + rewrite (decode_std_encode d Hokd f q') by lia. cbn [bind].
      replace (N.of_nat (S (length l)) - 1) with (N.of_nat (length l)) by lia.
      rewrite IH; [reflexivity|assumption|assumption|unfold sizes; lia|assumption].
Qed.

(* fixed-length scalars: everything after the tag is too short *)
Lemma fixed_trunc f t kind L q : kind_of t = Some (kind, Z.of_nat L) ->
  (kind =? 1) || (kind =? 2) = false -> t < 256 -> (length q < L)%nat ->
  decode_value (S f) (t :: q) = Err ERefused.
Proof.
  intros K Hk Ht Hq. cbn [decode_value take length Nat.leb firstn skipn bind].
  change (be_val [t]) with (0 * 256 + t). rewrite N.mul_0_l, N.add_0_l. rewrite K, Hk.
  replace (Z.of_nat L =? -1)%Z with false by (symmetry; apply Z.eqb_neq; lia). cbn [negb].
  rewrite Nat2Z.id. rewrite take_short by exact Hq. reflexivity.
Qed.

Theorem truncation_refused_value d : data_ok d = true -> trunc_ok d.
Proof.
  destruct kinds as (K0 & K1 & K2 & K3 & K5 & K6 & K9 & K15 & K16 & K17 & K18 & K20 & K21 & K22 & K25 & K26 & K27).
  induction d as [d Hna Hns | l IH | l IH] using data_ind'; intros Hok fuel p Hf Hp.
  - destruct fuel as [|f]; [cbn in Hf; lia|].
    destruct d; try (exfalso; eapply Hna; reflexivity); try (exfalso; eapply Hns; reflexivity);
      cbn [std_encode data_ok] in *;
      try (apply sprefix_cons in Hp as [->|(q & -> & Hq0)]; [reflexivity|]; pose proof (sprefix_length _ _ Hq0) as Hq).
    + cbn in Hq. lia.
    + eapply (fixed_trunc f 3 3 1); [exact K3|reflexivity|lia|cbn in Hq; lia].
    + eapply (fixed_trunc f 15 4 1); [exact K15|reflexivity|lia|rewrite std_signed_length in Hq; lia].
    + eapply (fixed_trunc f 16 4 2); [exact K16|reflexivity|lia|rewrite std_signed_length in Hq; lia].
    + eapply (fixed_trunc f 5 4 4); [exact K5|reflexivity|lia|rewrite std_signed_length in Hq; lia].
    + eapply (fixed_trunc f 20 4 8); [exact K20|reflexivity|lia|rewrite std_signed_length in Hq; lia].
    + eapply (fixed_trunc f 17 5 1); [exact K17|reflexivity|lia|rewrite be_bytes_length in Hq; lia].
    + eapply (fixed_trunc f 18 5 2); [exact K18|reflexivity|lia|rewrite be_bytes_length in Hq; lia].
    + eapply (fixed_trunc f 6 5 4); [exact K6|reflexivity|lia|rewrite be_bytes_length in Hq; lia].
    + eapply (fixed_trunc f 21 5 8); [exact K21|reflexivity|lia|rewrite be_bytes_length in Hq; lia].
    + eapply (fixed_trunc f 22 5 1); [exact K22|reflexivity|lia|rewrite be_bytes_length in Hq; lia].
    + (* octet string *)
      clear Hq. rename Hq0 into Hq. apply N.ltb_lt in Hok.
      cbn [decode_value take length Nat.leb firstn skipn bind]. change (be_val [9]) with 9. rewrite K9.
      cbn -[get_len take take_n]. rewrite ?take_n_eq. apply sprefix_app in Hq as [Hq | (q' & -> & Hq')].
      * rewrite (get_len_trunc _ q Hok Hq). reflexivity.
      * rewrite get_len_std by exact Hok. cbn [bind]. rewrite ?take_n_eq. apply sprefix_length in Hq'.
        unfold len. rewrite Nat2N.id. rewrite take_short by exact Hq'. reflexivity.
    + eapply (fixed_trunc f 25 7 12); [exact K25|reflexivity|lia|rewrite std_datetime_length in Hq; lia].
    + destruct d as [[y m] dd].
      apply sprefix_cons in Hp as [->|(q & -> & Hq)]; [reflexivity|]; apply sprefix_length in Hq.
      eapply (fixed_trunc f 26 8 5); [exact K26|reflexivity|lia|cbn in Hq; lia].
    + eapply (fixed_trunc f 27 9 4); [exact K27|reflexivity|lia|cbn in Hq; lia].
  - destruct fuel as [|f]; [cbn in Hf; lia|]. cbn [data_ok] in Hok.
    apply andb_prop in Hok as [Hlen Hall]. apply N.ltb_lt in Hlen. cbn [std_encode] in Hp.
    apply sprefix_cons in Hp as [->|(q & -> & Hq)]; [reflexivity|].
    cbn [decode_value take length Nat.leb firstn skipn bind]. change (be_val [1]) with 1. rewrite K1.
    cbn -[get_len decode_items]. apply sprefix_app in Hq as [Hq | (q' & -> & Hq')].
    + rewrite (get_len_trunc _ q Hlen Hq). reflexivity.
    + rewrite get_len_std by exact Hlen. cbn [bind].
      rewrite (items_trunc l IH Hall) by (try assumption; cbn [size] in Hf; unfold sizes; lia). reflexivity.
  - destruct fuel as [|f]; [cbn in Hf; lia|]. cbn [data_ok] in Hok.
    apply andb_prop in Hok as [Hlen Hall]. apply N.ltb_lt in Hlen. cbn [std_encode] in Hp.
    apply sprefix_cons in Hp as [->|(q & -> & Hq)]; [reflexivity|].
    cbn [decode_value take length Nat.leb firstn skipn bind]. change (be_val [2]) with 2. rewrite K2.
    cbn -[get_len decode_items]. apply sprefix_app in Hq as [Hq | (q' & -> & Hq')].
    + rewrite (get_len_trunc _ q Hlen Hq). reflexivity.
    + rewrite get_len_std by exact Hlen. cbn [bind].
      rewrite (items_trunc l IH Hall) by (try assumption; cbn [size] in Hf; unfold sizes; lia). reflexivity.
Qed.


(* every proper prefix is refused once the fuel covers the size of the original value *)
Theorem truncation_refused_fuel d p fuel : data_ok d = true -> p <> [] -> sprefix p (std_encode d) ->
  (size d < fuel)%nat -> decode_all fuel p = Err ERefused.
Proof.
  intros Hok Hne Hp Hf. destruct p as [|b p]; [contradiction|]. destruct fuel as [|f]; [lia|].
  cbn [decode_all]. rewrite (truncation_refused_value d Hok (S f) (b :: p) Hf Hp). reflexivity.
Qed.

(* ---------- termination: the decoder never runs out of fuel, on any input whatsoever ---------- *)
Lemma take_ok k b a r : take k b = Ok (a, r) -> (k <= length b)%nat /\ length r = (length b - k)%nat.
Proof.
  unfold take. destruct (Nat.leb_spec k (length b)); [|discriminate]. intros E. injection E as <- <-.
  split; [assumption|apply skipn_length].
Qed.
Lemma take_err k b e : take k b = Err e -> e = ERefused.
Proof. unfold take. destruct (Nat.leb k (length b)); [discriminate|]. intros E. injection E as <-. reflexivity. Qed.
Lemma get_len_ok b n r : get_len b = Ok (n, r) -> (length r < length b)%nat.
Proof.
  unfold get_len. destruct (take 1 b) as [[f r0]|] eqn:T; [|discriminate]. cbn [bind].
  apply take_ok in T as [T1 T2].
  destruct (N.land (be_val f) 128 =? 0); [intros E; injection E as _ <-; lia|].
  destruct (take _ r0) as [[lb r1]|] eqn:T'; [|discriminate]. cbn [bind]. apply take_ok in T' as [_ T3].
  intros E. injection E as _ <-. lia.
Qed.
Lemma get_len_err b e : get_len b = Err e -> e = ERefused.
Proof.
  unfold get_len. destruct (take 1 b) as [[f r0]|] eqn:T; [|cbn [bind]; intros E; injection E as <-; apply (take_err _ _ _ T)].
  cbn [bind]. destruct (N.land (be_val f) 128 =? 0); [discriminate|].
  destruct (take _ r0) as [[lb r1]|] eqn:T'; [discriminate|]. cbn [bind]. intros E. injection E as <-. apply (take_err _ _ _ T').
Qed.

Ltac err_refused :=
  repeat (match goal with
          | |- context [if ?c then _ else _] => destruct c
          | |- context [match ?x with _ => _ end] => destruct x eqn:?
          end; cbn [bind]);
  intros; try discriminate; try (match goal with H : Err _ = Err _ |- _ => injection H as <- end; reflexivity).

Lemma validate_err lo hi v e : validate lo hi v = Err e -> e = ERefused.
Proof. unfold validate. err_refused. Qed.
Lemma need_err {A} (v : option A) e : need v = Err e -> e = ERefused.
Proof. unfold need. err_refused. Qed.
Ltac step_bind :=
  match goal with
  | |- (do _ <- ?x; _) = _ -> _ =>
      let V := fresh "V" in let E := fresh "E" in
      destruct x eqn:V; cbn [bind];
      [| intros E; injection E as <-; first [apply (validate_err _ _ _ _ V) | apply (need_err _ _ V)]]
  end.
Lemma date_err b e : date_from_bytes b = Err e -> e = ERefused.
Proof.
  unfold date_from_bytes. destruct (negb _); [intros E; injection E as <-; reflexivity|].
  repeat step_bind.
  destruct (date_valid _ _ _); [discriminate|]. intros E; injection E as <-; reflexivity.
Qed.
Lemma time_err b e : time_from_bytes b = Err e -> e = ERefused.
Proof.
  unfold time_from_bytes. destruct (negb _); [intros E; injection E as <-; reflexivity|].
  repeat step_bind.
  destruct (time_valid _ _ _ _); [discriminate|]. intros E; injection E as <-; reflexivity.
Qed.
Lemma datetime_err b e : datetime_from_bytes b = Err e -> e = ERefused.
Proof.
  unfold datetime_from_bytes. destruct (negb _); [intros E; injection E as <-; reflexivity|].
  destruct (date_from_bytes _) as [[[y m] d]|] eqn:D; cbn [bind]; [|intros E; injection E as <-; apply (date_err _ _ D)].
  destruct (time_from_bytes _) as [[[[h mi] s] us]|] eqn:T; cbn [bind]; [|intros E; injection E as <-; apply (time_err _ _ T)].
  unfold cstat_from_bytes. cbn [length Nat.eqb negb bind]. discriminate.
Qed.
Lemma from_bytes_kind_err k d e : from_bytes_kind k d = Err e -> e = ERefused.
Proof.
  unfold from_bytes_kind.
  repeat match goal with |- context [if (k =? ?n) then _ else _] => destruct (k =? n) end; try discriminate.
  - destruct (negb _); [intros E; injection E as <-; reflexivity|].
    destruct (datetime_from_bytes d) eqn:D; cbn [bind]; [discriminate|]. intros E; injection E as <-. apply (datetime_err _ _ D).
  - destruct (negb _); [intros E; injection E as <-; reflexivity|].
    destruct (date_from_bytes d) eqn:D; cbn [bind]; [discriminate|]. intros E; injection E as <-. apply (date_err _ _ D).
  - destruct (negb _); [intros E; injection E as <-; reflexivity|].
    destruct (time_from_bytes d) eqn:D; cbn [bind]; [discriminate|]. intros E; injection E as <-. apply (time_err _ _ D).
  - intros E; injection E as <-; reflexivity.
Qed.

(* a decoded value consumes at least its tag byte *)
Lemma consume f : (forall b v r, decode_value f b = Ok (v, r) -> (length r < length b)%nat) /\
                  (forall c b vs r, decode_items f c b = Ok (vs, r) -> (length r <= length b)%nat).
Proof.
  induction f as [|f [IHv IHi]]; [split; intros; discriminate|]. split.
  - intros b v r. cbn [decode_value]. rewrite ?take_n_eq.
    destruct (take 1 b) as [[t r0]|] eqn:T; [|discriminate]. cbn [bind]. apply take_ok in T as [T1 T2].
    destruct (kind_of (be_val t)) as [[kind L]|]; [|discriminate].
    destruct ((kind =? 1) || (kind =? 2)).
    + destruct (get_len r0) as [[c r1]|] eqn:G; [|discriminate]. cbn [bind]. apply get_len_ok in G.
      destruct (decode_items f c r1) as [[vs r2]|] eqn:I; [|discriminate]. cbn [bind]. apply IHi in I.
      intros E. injection E as _ <-. lia.
    + destruct (negb (L =? -1)%Z).
      * destruct (take (Z.to_nat L) r0) as [[d r1]|] eqn:T'; [|discriminate]. cbn [bind]. apply take_ok in T' as [_ T3].
        destruct (from_bytes_kind kind d); [|discriminate]. cbn [bind]. intros E. injection E as _ <-. lia.
      * destruct (get_len r0) as [[n r1]|] eqn:G; [|discriminate]. cbn [bind]. apply get_len_ok in G.
        rewrite take_n_eq. destruct (take (N.to_nat n) r1) as [[d r2]|] eqn:T'; [|discriminate]. cbn [bind]. apply take_ok in T' as [_ T3].
        destruct (from_bytes_kind kind d); [|discriminate]. cbn [bind]. intros E. injection E as _ <-. lia.
  - intros c b vs r. cbn [decode_items]. destruct (c =? 0); [intros E; injection E as _ <-; lia|].
    destruct (decode_value f b) as [[v r0]|] eqn:V; [|discriminate]. cbn [bind]. apply IHv in V.
    destruct (decode_items f (c - 1) r0) as [[vs' r1]|] eqn:I; [|discriminate]. cbn [bind]. apply IHi in I.
    intros E. injection E as _ <-. lia.
Qed.

Lemma no_fuel_exhaustion f :
  (forall b, (2 * length b < f)%nat -> decode_value f b <> Err EFuel) /\
  (forall c b, (2 * length b + 1 < f)%nat -> decode_items f c b <> Err EFuel).
Proof.
  induction f as [|f [IHv IHi]]; [split; intros; lia|]. split.
  - intros b Hb. cbn [decode_value]. rewrite ?take_n_eq.
    destruct (take 1 b) as [[t r0]|] eqn:T; [|cbn [bind]; rewrite (take_err _ _ _ T); discriminate].
    cbn [bind]. apply take_ok in T as [T1 T2].
    destruct (kind_of (be_val t)) as [[kind L]|]; [|discriminate].
    destruct ((kind =? 1) || (kind =? 2)).
    + destruct (get_len r0) as [[c r1]|] eqn:G; [|cbn [bind]; rewrite (get_len_err _ _ G); discriminate].
      cbn [bind]. apply get_len_ok in G.
      destruct (decode_items f c r1) as [[vs r2]|] eqn:I; [discriminate|]. cbn [bind].
      intros E. injection E as ->. revert I. apply IHi. lia.
    + destruct (negb (L =? -1)%Z).
      * destruct (take (Z.to_nat L) r0) as [[d r1]|] eqn:T'; [|cbn [bind]; rewrite (take_err _ _ _ T'); discriminate].
        cbn [bind]. destruct (from_bytes_kind kind d) eqn:F; [discriminate|]. cbn [bind].
        rewrite (from_bytes_kind_err _ _ _ F). discriminate.
      * destruct (get_len r0) as [[n r1]|] eqn:G; [|cbn [bind]; rewrite (get_len_err _ _ G); discriminate].
        cbn [bind]. rewrite take_n_eq.
        destruct (take (N.to_nat n) r1) as [[d r2]|] eqn:T'; [|cbn [bind]; rewrite (take_err _ _ _ T'); discriminate].
        cbn [bind]. destruct (from_bytes_kind kind d) eqn:F; [discriminate|]. cbn [bind].
        rewrite (from_bytes_kind_err _ _ _ F). discriminate.
  - intros c b Hb. cbn [decode_items]. destruct (c =? 0); [discriminate|].
    destruct (decode_value f b) as [[v r0]|] eqn:V.
    + cbn [bind]. apply (proj1 (consume f)) in V.
      destruct (decode_items f (c - 1) r0) as [[vs' r1]|] eqn:I; [discriminate|]. cbn [bind].
      intros E. injection E as ->. revert I. apply IHi. lia.
    + cbn [bind]. intros E. injection E as ->. revert V. apply IHv. lia.
Qed.

Lemma decode_all_no_fuel f : forall b, (2 * length b + 1 < f)%nat -> decode_all f b <> Err EFuel.
Proof.
  induction f as [|f IH]; intros b Hb; [lia|]. destruct b as [|x b]; [discriminate|].
  cbn [decode_all]. destruct (decode_value (S f) (x :: b)) as [[v r]|] eqn:V.
  - cbn [bind]. apply (proj1 (consume (S f))) in V.
    destruct (decode_all f r) eqn:D; [discriminate|]. cbn [bind]. intros E. injection E as ->.
    revert D. apply IH. cbn [length] in *. lia.
  - cbn [bind]. intros E. injection E as ->. revert V. apply (proj1 (no_fuel_exhaustion (S f))). lia.
Qed.

(* the decoder terminates on every input (the model's fuel is never exhausted) *)
Theorem parse_terminates b : parse_as_dlms_data b <> Err EFuel.
Proof.
  unfold parse_as_dlms_data. destruct (decode_all (fuel_for b) b) as [vs|e] eqn:D.
  - cbn [bind]. destruct vs as [|v [|w vs]]; discriminate.
  - cbn [bind]. intros E. injection E as ->. revert D. apply decode_all_no_fuel. unfold fuel_for. lia.
Qed.

(* more fuel never changes a result that was reached without exhausting the fuel *)
Definition value_body (items : N -> bytes -> res (list pv * bytes)) (b : bytes) : res (pv * bytes) :=
  do (t, r) <- take 1 b;
  match kind_of (be_val t) with
  | None => Err ERefused
  | Some (kind, length_) =>
      if (kind =? 1) || (kind =? 2) then
        do (count, r') <- get_len r; do (its, r'') <- items count r'; Ok (PList its, r'')
      else if negb (length_ =? -1)%Z then
        do (d, r') <- take (Z.to_nat length_) r; do v <- from_bytes_kind kind d; Ok (v, r')
      else
        do (n, r') <- get_len r; do (d, r'') <- take_n n r'; do v <- from_bytes_kind kind d; Ok (v, r'')
  end.
Definition items_body (value : bytes -> res (pv * bytes)) (items : N -> bytes -> res (list pv * bytes))
  (c : N) (b : bytes) : res (list pv * bytes) :=
  if c =? 0 then Ok ([], b) else
  do (v, r) <- value b; do (vs, r') <- items (c - 1) r; Ok (v :: vs, r').
Lemma decode_value_S f b : decode_value (S f) b = value_body (decode_items f) b.
Proof. reflexivity. Qed.
Lemma decode_items_S f c b : decode_items (S f) c b = items_body (decode_value f) (decode_items f) c b.
Proof. reflexivity. Qed.

Lemma fuel_mono f :
  (forall b, decode_value f b <> Err EFuel -> decode_value (S f) b = decode_value f b) /\
  (forall c b, decode_items f c b <> Err EFuel -> decode_items (S f) c b = decode_items f c b).
Proof.
  induction f as [|f [IHv IHi]]; [split; intros; exfalso; auto|]. split.
  - intros b. rewrite (decode_value_S (S f)), (decode_value_S f). unfold value_body.
    destruct (take 1 b) as [[t r0]|]; cbn [bind]; [|reflexivity].
    destruct (kind_of (be_val t)) as [[kind L]|]; [|reflexivity].
    destruct ((kind =? 1) || (kind =? 2)); [|reflexivity].
    destruct (get_len r0) as [[c r1]|]; cbn [bind]; [|reflexivity].
    intros H. rewrite IHi; [reflexivity|]. intros E. apply H. rewrite E. reflexivity.
  - intros c b. rewrite (decode_items_S (S f)), (decode_items_S f). unfold items_body.
    destruct (c =? 0); [reflexivity|].
    intros H. rewrite IHv by (intros E; apply H; rewrite E; reflexivity).
    destruct (decode_value f b) as [[v r0]|]; cbn [bind] in *; [|reflexivity].
    rewrite IHi; [reflexivity|]. intros E. apply H. rewrite E. reflexivity.
Qed.
Lemma fuel_mono_value f g b : (f <= g)%nat -> decode_value f b <> Err EFuel -> decode_value g b = decode_value f b.
Proof.
  induction 1 as [|g Hle IH]; intros H; [reflexivity|].
  rewrite (proj1 (fuel_mono g)); [apply IH; exact H|]. rewrite IH by exact H. exact H.
Qed.

(* the API-level statement: every non-empty proper prefix of the encoding of a supported value is
   refused with an ordinary error by parse_as_dlms_data itself *)
Theorem truncation_refused d p : data_ok d = true -> p <> [] -> sprefix p (std_encode d) ->
  parse_as_dlms_data p = Err ERefused.
Proof.
  intros Hok Hne Hp. unfold parse_as_dlms_data.
  destruct p as [|x p]; [contradiction|].
  assert (Hv : decode_value (fuel_for (x :: p)) (x :: p) = Err ERefused).
  { assert (H1 : (2 * length (x :: p) < fuel_for (x :: p))%nat) by (unfold fuel_for; lia).
    pose proof (proj1 (no_fuel_exhaustion (fuel_for (x :: p))) (x :: p) H1) as NF.
    assert (H2 : (fuel_for (x :: p) <= fuel_for (x :: p) + S (size d))%nat) by lia.
    pose proof (fuel_mono_value _ _ (x :: p) H2 NF) as M.
    assert (H3 : (size d < fuel_for (x :: p) + S (size d))%nat) by lia.
    rewrite (truncation_refused_value d Hok _ (x :: p) H3 Hp) in M. symmetry. exact M. }
  unfold fuel_for in *. replace (2 * length (x :: p) + 2)%nat with (S (2 * length (x :: p) + 1)) in * by lia.
  cbn [decode_all]. rewrite Hv. reflexivity.
Qed.
