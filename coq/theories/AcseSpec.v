(* Reference encoding of the ACSE APDUs used by DLMS/COSEM (Green Book 9.4.2 "ACSE-APDU" ASN.1 module, encoded with BER,
   definite lengths), written from the standard and not from the code, as plain concatenations of tag-length-value
   triples and, independently, as a tree whose encoding it is (well-formed nesting at every level).  No proofs here. *)
From Dlms Require Import Base FieldsModel AxdrSpec XdlmsModel XdlmsSpec AcseModel.
From Dlms.Gen Require GenEnums.

(* BER definite length: short form below 128, else 0x80+k and the k minimal length bytes (the same octets as an A-XDR length) *)
Definition ber_len (n : N) : bytes := std_len n.
Definition tlv (tag : N) (content : bytes) : bytes := tag :: ber_len (len content) ++ content.
Definition tlv_opt (tag : N) (o : option bytes) : bytes := match o with Some c => tlv tag c | None => [] end.

(* joint-iso-ccitt(2) country(16) country-name(756) identified-organization(5) DLMS-UA(8) application-context(1) / mechanism(2) id *)
Definition oid_context (ciphered : bool) : bytes := [96; 133; 116; 5; 8; 1; if ciphered then 3 else 1].   (* LN = 1, LN with ciphering = 3 *)
Definition oid_mechanism_name (m : N) : bytes := [96; 133; 116; 5; 8; 2; m].
Definition uses_authentication (m : option N) : bool := match m with Some x => negb (x =? 0) | None => false end.
Definition user_information (u : apdu) : bytes := tlv 4 (std_apdu u).          (* OCTET STRING holding the A-XDR APDU *)

(* AARQ-apdu ::= [APPLICATION 0] IMPLICIT SEQUENCE { protocol-version [0] IMPLICIT BIT STRING DEFAULT {version1},
   application-context-name [1], called-AP-title [2] OPTIONAL, called-AE-qualifier [3] OPTIONAL, called-AP-invocation-id [4] OPTIONAL,
   called-AE-invocation-id [5] OPTIONAL, calling-AP-title [6] OPTIONAL, calling-AE-qualifier [7] OPTIONAL,
   calling-AP-invocation-id [8] OPTIONAL, calling-AE-invocation-id [9] OPTIONAL,
   sender-acse-requirements [10] IMPLICIT OPTIONAL, mechanism-name [11] IMPLICIT OPTIONAL,
   calling-authentication-value [12] EXPLICIT OPTIONAL, implementation-information [29] IMPLICIT OPTIONAL,
   user-information [30] EXPLICIT OPTIONAL } *)
Definition std_aarq_body (a : aarq) : bytes :=
  tlv 161 (tlv 6 (oid_context (q_ciphered a))) ++
  tlv_opt 162 (q_called_ap_title a) ++ tlv_opt 163 (q_called_ae_qual a) ++
  tlv_opt 164 (q_called_ap_inv a) ++ tlv_opt 165 (q_called_ae_inv a) ++
  tlv_opt 166 (option_map (tlv 4) (q_title a)) ++ tlv_opt 167 (option_map (tlv 4) (q_cert a)) ++
  tlv_opt 168 (q_calling_ap_inv a) ++ tlv_opt 169 (q_calling_ae_inv a) ++
  tlv_opt 138 (if uses_authentication (q_auth a) then Some [7; 128] else None) ++      (* BIT STRING: 7 unused bits, authentication(0) *)
  tlv_opt 139 (if uses_authentication (q_auth a) then option_map oid_mechanism_name (q_auth a) else None) ++
  tlv_opt 172 (option_map (tlv 128) (q_value a)) ++                                    (* charstring [0] IMPLICIT GraphicString *)
  tlv_opt 189 (q_impl a) ++
  tlv 190 (user_information (q_user a)).
Definition std_aarq (a : aarq) : bytes := tlv 96 (std_aarq_body a).

(* AARE-apdu ::= [APPLICATION 1] IMPLICIT SEQUENCE { protocol-version [0], application-context-name [1], result [2] INTEGER,
   result-source-diagnostic [3] CHOICE { acse-service-user [1] INTEGER, acse-service-provider [2] INTEGER },
   responding-AP-title [4], responding-AE-qualifier [5], responding-AP-invocation-id [6], responding-AE-invocation-id [7],
   responder-acse-requirements [8] IMPLICIT, mechanism-name [9] IMPLICIT, responding-authentication-value [10] EXPLICIT,
   implementation-information [29] IMPLICIT, user-information [30] EXPLICIT } *)
Definition std_aare_body (a : aare) : bytes :=
  tlv 161 (tlv 6 (oid_context (e_ciphered a))) ++
  tlv 162 (tlv 2 [e_result a]) ++
  tlv 163 (tlv (if fst (e_diag a) then 162 else 161) (tlv 2 [snd (e_diag a)])) ++
  tlv_opt 164 (option_map (tlv 4) (e_title a)) ++ tlv_opt 165 (option_map (tlv 4) (e_cert a)) ++
  tlv_opt 166 (e_ap_inv a) ++ tlv_opt 167 (e_ae_inv a) ++
  tlv_opt 136 (if uses_authentication (e_auth a) then Some [7; 128] else None) ++
  tlv_opt 137 (if uses_authentication (e_auth a) then option_map oid_mechanism_name (e_auth a) else None) ++
  tlv_opt 170 (option_map (tlv 128) (e_value a)) ++
  tlv_opt 189 (e_impl a) ++
  tlv_opt 190 (option_map user_information (e_user a)).
Definition std_aare (a : aare) : bytes := tlv 97 (std_aare_body a).

(* RLRQ-apdu ::= [APPLICATION 2] / RLRE-apdu ::= [APPLICATION 3] IMPLICIT SEQUENCE { reason [0] IMPLICIT INTEGER OPTIONAL,
   user-information [30] EXPLICIT OPTIONAL } *)
Definition std_release (tag : N) (a : release) : bytes :=
  tlv tag (tlv_opt 128 (option_map (fun r => [r]) (r_reason a)) ++ tlv_opt 190 (option_map user_information (r_user a))).

(* ---------- the same encodings as trees: well-formed nesting at every level ---------- *)
Inductive ber := Prim (tag : N) (content : bytes) | Constr (tag : N) (children : list ber).
Fixpoint encode_ber (t : ber) : bytes :=
  match t with
  | Prim tag c => tlv tag c
  | Constr tag ch => tlv tag ((fix go (l : list ber) : bytes := match l with [] => [] | x :: r => encode_ber x ++ go r end) ch)
  end.
Definition encode_bers (l : list ber) : bytes := flat_map encode_ber l.
Definition opt_node {A} (f : A -> ber) (o : option A) : list ber := match o with Some x => [f x] | None => [] end.
Definition auth_nodes (req mech : N) (m : option N) : list ber :=
  if uses_authentication m then Prim req [7; 128] :: opt_node (fun x => Prim mech (oid_mechanism_name x)) m else [].
Definition aarq_tree (a : aarq) : ber :=
  Constr 96 ([Constr 161 [Prim 6 (oid_context (q_ciphered a))]] ++
    opt_node (Prim 162) (q_called_ap_title a) ++ opt_node (Prim 163) (q_called_ae_qual a) ++
    opt_node (Prim 164) (q_called_ap_inv a) ++ opt_node (Prim 165) (q_called_ae_inv a) ++
    opt_node (fun t => Constr 166 [Prim 4 t]) (q_title a) ++ opt_node (fun t => Constr 167 [Prim 4 t]) (q_cert a) ++
    opt_node (Prim 168) (q_calling_ap_inv a) ++ opt_node (Prim 169) (q_calling_ae_inv a) ++
    auth_nodes 138 139 (q_auth a) ++
    opt_node (fun v => Constr 172 [Prim 128 v]) (q_value a) ++ opt_node (Prim 189) (q_impl a) ++
    [Constr 190 [Prim 4 (std_apdu (q_user a))]]).
Definition aare_tree (a : aare) : ber :=
  Constr 97 ([Constr 161 [Prim 6 (oid_context (e_ciphered a))]; Constr 162 [Prim 2 [e_result a]];
              Constr 163 [Constr (if fst (e_diag a) then 162 else 161) [Prim 2 [snd (e_diag a)]]]] ++
    opt_node (fun t => Constr 164 [Prim 4 t]) (e_title a) ++ opt_node (fun t => Constr 165 [Prim 4 t]) (e_cert a) ++
    opt_node (Prim 166) (e_ap_inv a) ++ opt_node (Prim 167) (e_ae_inv a) ++
    auth_nodes 136 137 (e_auth a) ++
    opt_node (fun v => Constr 170 [Prim 128 v]) (e_value a) ++ opt_node (Prim 189) (e_impl a) ++
    opt_node (fun u => Constr 190 [Prim 4 (std_apdu u)]) (e_user a)).
Definition release_tree (tag : N) (a : release) : ber :=
  Constr tag (opt_node (fun r => Prim 128 [r]) (r_reason a) ++ opt_node (fun u => Constr 190 [Prim 4 (std_apdu u)]) (r_user a)).

(* which optional components an encoding carries: the tags of the top-level components *)
Definition child_tags (t : ber) : list N :=
  match t with Constr _ ch => map (fun c => match c with Prim g _ | Constr g _ => g end) ch | Prim _ _ => [] end.

(* ---------- the values ---------- *)
(* AuthenticationMechanism.NONE and "no mechanism" are the same value (the code tests the field for truth) *)
Definition normal_auth (m : option N) : option N := if uses_authentication m then m else None.
Definition normal_aarq (a : aarq) : aarq :=
  {| q_user := q_user a; q_title := q_title a; q_cert := q_cert a; q_auth := normal_auth (q_auth a); q_ciphered := q_ciphered a;
     q_value := q_value a; q_calling_ae_inv := q_calling_ae_inv a; q_called_ap_title := q_called_ap_title a;
     q_called_ae_qual := q_called_ae_qual a; q_called_ap_inv := q_called_ap_inv a; q_called_ae_inv := q_called_ae_inv a;
     q_calling_ap_inv := q_calling_ap_inv a; q_impl := q_impl a |}.
Definition normal_aare (a : aare) : aare :=
  {| e_result := e_result a; e_diag := e_diag a; e_ciphered := e_ciphered a; e_auth := normal_auth (e_auth a); e_title := e_title a;
     e_cert := e_cert a; e_value := e_value a; e_user := e_user a; e_impl := e_impl a; e_ap_inv := e_ap_inv a; e_ae_inv := e_ae_inv a |}.
Definition small (b : bytes) : bool := len b <? 16777216.
Definition osmall (o : option bytes) : bool := match o with Some b => small b | None => true end.
Definition mech_ok (m : option N) : bool :=
  match m with Some x => member x GenEnums.enum_AuthenticationMechanism && negb (x =? 0) | None => true end.   (* NONE == None *)
Definition user_ok (u : apdu) : bool := wf_apdu u && small (std_apdu u).
Definition wf_aarq (a : aarq) : bool :=
  is_initiate_request (q_user a) && user_ok (q_user a) && osmall (q_title a) && osmall (q_cert a) && mech_ok (q_auth a) &&
  osmall (q_value a) && osmall (q_calling_ae_inv a) && osmall (q_called_ap_title a) && osmall (q_called_ae_qual a) &&
  osmall (q_called_ap_inv a) && osmall (q_called_ae_inv a) && osmall (q_calling_ap_inv a) && osmall (q_impl a).
Definition is_user_information (u : apdu) : bool :=
  match u with
  | InitiateRequest _ _ _ _ _ _ | InitiateResponse _ _ _ _ | ConfirmedServiceError _ _
  | GlobalCipherInitiateRequest _ _ _ | GlobalCipherInitiateResponse _ _ _ => true
  | _ => false
  end.
Definition ouser_ok (o : option apdu) : bool := match o with Some u => is_user_information u && user_ok u | None => true end.
Definition wf_aare (a : aare) : bool :=
  member (e_result a) GenEnums.enum_AssociationResult &&
  member (snd (e_diag a)) (if fst (e_diag a) then GenEnums.enum_AcseServiceProviderDiagnostics else GenEnums.enum_AcseServiceUserDiagnostics) &&
  mech_ok (e_auth a) && osmall (e_title a) && osmall (e_cert a) && osmall (e_value a) && ouser_ok (e_user a) &&
  osmall (e_impl a) && osmall (e_ap_inv a) && osmall (e_ae_inv a).
Definition wf_release (reasons : list N) (a : release) : bool :=
  match r_reason a with Some r => member r reasons | None => true end && ouser_ok (r_user a).
