(* C15: profile buffers are interpreted column by column; access-right bits. *)
From Dlms Require Import Base Sweep FieldsModel FieldsProofs TimeModel AxdrModel ParsersModel.

(* ---------- rows and columns ---------- *)
(* what the parser must produce for one transmitted cell, given the running timestamp *)
Definition cell_spec (is_clock : bool) (period : Z) (col : nat) (v : pv) (last : option dtime)
  (out : cell) (last' : option dtime) : Prop :=
  match v, is_clock with
  | PNone, false => out = Cell col (CRaw PNone) /\ last' = last
  | PNone, true =>
      match last with
      | None => out = CellNone /\ last' = None          (* no timestamp seen yet: nothing *)
      | Some ts => exists ts', add_minutes ts period = Ok ts' /\ out = Cell col (CDateTime ts') /\ last' = Some ts'
      end
  | _, false => out = Cell col (CRaw v) /\ last' = last  (* the transmitted value, bound to its column *)
  | PBytes b, true => exists r, datetime_from_bytes b = Ok r /\ out = Cell col (CDateTime (fst r)) /\ last' = Some (fst r)
  | _, true => False
  end.

(* the cells of a row, left to right, threading the running timestamp *)
Fixpoint row_spec (clock : list bool) (period : Z) (col : nat) (row : list pv) (last : option dtime)
  (out : list cell) (last' : option dtime) : Prop :=
  match row, clock, out with
  | [], _, [] => last' = last
  | v :: row', c :: clock', o :: out' =>
      exists mid, cell_spec c period col v last o mid /\ row_spec clock' period (S col) row' mid out' last'
  | _, _, _ => False
  end.

Lemma parse_row_sound clock : forall period col row last out last',
  parse_row clock period col row last = Ok (out, last') -> length row = length clock ->
  row_spec clock period col row last out last'.
Proof.
  induction clock as [|c clock IH]; intros period col row last out last' H Hl.
  - destruct row; [|discriminate]. cbn in H. injection H as <- <-. reflexivity.
  - destruct row as [|v row]; [discriminate|]. cbn [parse_row] in H.
    match type of H with (do step <- ?S; _) = _ => destruct S as [[o mid]|] eqn:Es; [|discriminate] end.
    cbn [bind fst snd] in H.
    destruct (parse_row clock period (S col) row mid) as [[out' l'']|] eqn:Er; [|discriminate].
    cbn [bind fst snd] in H. injection H as <- <-.
    cbn [row_spec]. exists mid. split.
    + unfold cell_spec. destruct v; destruct c;
        try (injection Es as <- <-; split; reflexivity); try discriminate.
      * destruct last as [ts|].
        -- destruct (add_minutes ts period) as [ts'|] eqn:A; [|discriminate]. cbn [bind] in Es.
           injection Es as <- <-. exists ts'. repeat split.
        -- injection Es as <- <-. split; reflexivity.
      * destruct (datetime_from_bytes l) as [r|] eqn:D; [|discriminate]. cbn [bind] in Es.
        injection Es as <- <-. exists r. repeat split.
    + apply IH; [exact Er|]. cbn in Hl. lia.
Qed.

Lemma row_spec_length clock : forall period col row last out last',
  row_spec clock period col row last out last' -> length out = length row.
Proof.
  induction clock as [|c clock IH]; intros period col row last out last' H.
  - destruct row, out; cbn in H; try contradiction; reflexivity.
  - destruct row as [|v row], out as [|o out]; cbn in H; try contradiction; [reflexivity|].
    destruct H as (mid & _ & H). cbn. f_equal. eapply IH. exact H.
Qed.

(* every cell that is not the bare None carries the index of its own column *)
Lemma row_spec_columns clock : forall period col row last out last',
  row_spec clock period col row last out last' ->
  forall i c v, nth_error out i = Some (Cell c v) -> c = (col + i)%nat.
Proof.
  induction clock as [|cl clock IH]; intros period col row last out last' H i c v Hn.
  - destruct row, out; cbn in H; try contradiction. destruct i; discriminate.
  - destruct row as [|x row], out as [|o out]; cbn in H; try contradiction; [destruct i; discriminate|].
    destruct H as (mid & Hc & H). destruct i as [|i]; cbn in Hn.
    + injection Hn as ->. unfold cell_spec in Hc.
      destruct x, cl; try contradiction;
        try (destruct Hc as [E _]; injection E as -> _; lia);
        try (destruct Hc as [E _]; discriminate).
      * destruct last; [destruct Hc as (? & _ & E & _); injection E as -> _; lia | destruct Hc as [E _]; discriminate].
      * destruct Hc as (? & _ & E & _). injection E as -> _. lia.
    + specialize (IH period (S col) row mid out last' H i c v Hn). lia.
Qed.

(* one row per entry, one cell per capture object, each cell bound to its column; a row whose
   width differs from the capture object list is refused *)
Theorem rows_and_columns clock period : forall rows last out,
  parse_rows clock period rows last = Ok out ->
  length out = length rows /\
  Forall (fun r => length r = length clock) out /\
  Forall (fun r => forall i c v, nth_error r i = Some (Cell c v) -> c = i) out.
Proof.
  induction rows as [|row rows IH]; intros last out H.
  - cbn in H. injection H as <-. repeat split; constructor.
  - cbn [parse_rows] in H. destruct row; try discriminate.
    destruct (Nat.eqb_spec (length l) (length clock)) as [Hl|]; [|discriminate]. cbn [negb] in H.
    destruct (parse_row clock period 0 l last) as [[cells last']|] eqn:Er; [|discriminate]. cbn [bind fst snd] in H.
    destruct (parse_rows clock period rows last') as [more|] eqn:Em; [|discriminate]. cbn [bind] in H.
    injection H as <-. destruct (IH last' more Em) as (A & B & C).
    pose proof (parse_row_sound clock period 0 l last cells last' Er Hl) as Hs.
    repeat split.
    + cbn. f_equal. exact A.
    + constructor; [|exact B]. rewrite (row_spec_length _ _ _ _ _ _ _ Hs). exact Hl.
    + constructor; [|exact C]. intros i c v Hn. apply (row_spec_columns _ _ _ _ _ _ _ Hs i c v Hn).
Qed.

Theorem width_mismatch_refused clock period row rows last :
  length row <> length clock -> parse_rows clock period (PList row :: rows) last = Err ERefused.
Proof.
  intros H. cbn [parse_rows]. destruct (Nat.eqb_spec (length row) (length clock)); [contradiction|]. reflexivity.
Qed.

(* the clock column: decoded timestamp, or - when transmitted as null - the running timestamp plus
   the capture period, or nothing if no timestamp has been seen yet; other columns: the value *)
Theorem cells_follow_spec clock period row last out last' :
  parse_row clock period 0 row last = Ok (out, last') -> length row = length clock ->
  row_spec clock period 0 row last out last'.
Proof. apply parse_row_sound. Qed.

(* ---------- access rights ---------- *)
Lemma access_right_enum : GenEnums.enum_AccessRight = [0; 1; 2; 3; 4; 5; 6; 7].
Proof. reflexivity. Qed.

Definition chk_access (mode : N) : bool :=
  forallb (fun k => Bool.eqb (existsb (N.eqb k) (parse_access_right mode)) (N.testbit mode k)) [0; 1; 2; 3; 4; 5; 6; 7].
Lemma chk_access_ok : forall_bits 8 chk_access 0 = true. Proof. vm_compute. reflexivity. Qed.

(* exactly the access rights whose bits are set in the transmitted access mode, for all 256 modes *)
Theorem access_rights_bits mode k : mode < 256 -> k < 8 ->
  (In k (parse_access_right mode) <-> N.testbit mode k = true).
Proof.
  intros Hm Hk. pose proof (sweep8 _ chk_access_ok mode Hm) as H. unfold chk_access in H.
  rewrite forallb_forall in H.
  assert (Hin : In k [0; 1; 2; 3; 4; 5; 6; 7]) by (cbn; lia).
  specialize (H k Hin). apply Bool.eqb_prop in H. rewrite <- H.
  rewrite existsb_exists. split.
  - intros Hi. exists k. split; [exact Hi|apply N.eqb_refl].
  - intros (x & Hx & E). apply N.eqb_eq in E. subst x. exact Hx.
Qed.
