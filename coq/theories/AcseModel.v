(* Model of dlms_cosem/ber.py, protocol/acse/base.py, user_information.py, aarq.py, aare.py, rlrq.py, rlre.py
   as of the "fix:" commits 6ba2c29 (definite BER lengths) and ef493bd (empty release APDUs).
   Component tag tables, the order of components in to_bytes and the object-identifier constants are generated
   (GenAcse).  asn1crypto's decoding of the result-source-diagnostic CHOICE is modelled on its canonical
   five-byte form only (anything else: EUnmodelled).  No proofs here. *)
From Dlms Require Import Base FieldsModel AxdrModel XdlmsModel.
From Dlms.Gen Require GenEnums GenAcse.

Definition EUnmodelled := 98.

(* ---------- ber.py ---------- *)
(* BER.encode_length: (length.bit_length() + 7) // 8 length bytes behind 0x80 + their number *)
Definition ber_length (n : N) : res bytes :=
  if n <? 128 then to_bytes_be 1 n else
  let k := N.to_nat ((N.size n + 7) / 8) in
  do first <- to_bytes_be 1 (128 + N.of_nat k); Ok (first ++ be_bytes k n).
(* BER.encode(tag, data): None gives nothing *)
Definition ber_encode (tag : N) (data : option bytes) : res bytes :=
  match data with
  | None => Ok []
  | Some d => do t <- to_bytes_be 1 tag; do l <- ber_length (len d); Ok (t ++ l ++ d)
  end.
(* BER.pop_length *)
Definition pop_length (d : bytes) : res (N * bytes) :=
  do (first, d) <- pop1 d;
  if first <? 128 then Ok (first, d) else
  let k := N.land first 127 in
  if (k =? 0) || (len d <? k) then Err ERefused else
  Ok (be_val (firstn (N.to_nat k) d), skipn (N.to_nat k) d).
(* BER.decode(bytes) with a one-byte tag: (tag, data), the length must be exact *)
Definition ber_decode (b : bytes) : res (N * bytes) :=
  do (tag, d) <- pop1 b; do (n, d) <- pop_length d;
  if len d =? n then Ok (tag, d) else Err ERefused.
(* data[:n], data[n:] for a declared n (clamped, never a huge unary number) *)
Definition cut (n : N) (d : bytes) : bytes * bytes :=
  if len d <=? n then (d, []) else (firstn (N.to_nat n) d, skipn (N.to_nat n) d).

(* ---------- decoded components ---------- *)
Inductive item :=
| IRaw (b : bytes)
| ICtx (logical_names ciphered : bool)
| IAfu (authentication : bool)
| IMech (m : N)
| IAuth (password : bytes)
| IUser (a : apdu)
| IInt (v : N)
| IDiag (provider : bool) (v : N)
| IReason (r : N).

Definition last_and_rest (d : bytes) : option (N * bytes) :=
  match rev d with [] => None | x :: r => Some (x, rev r) end.

(* base.py: AppContextName.from_bytes *)
Definition context_from_bytes (b : bytes) : res item :=
  do (tag, d) <- ber_decode b;
  if negb (tag =? 6) then Err ERefused else
  match last_and_rest d with
  | None => Err ERefused
  | Some (cid, prefix) =>
      if negb (member cid GenAcse.valid_context_ids) then Err ERefused else
      if negb (list_eqb prefix (GenAcse.oid_prefix ++ [GenAcse.oid_app_context])) then Err ERefused else
      match assoc_n cid GenAcse.context_settings with
      | Some (ln, c) => Ok (ICtx ln c)
      | None => Err ERefused
      end
  end.
Definition context_id (ln c : bool) : res N :=
  match find (fun e => Bool.eqb (fst (fst e)) ln && Bool.eqb (snd (fst e)) c) GenAcse.context_ids with
  | Some e => Ok (snd e) | None => Err ERefused end.
Definition context_to_bytes (ln c : bool) : res bytes :=
  do cid <- context_id ln c; do cb <- to_bytes_be 1 cid; do ab <- to_bytes_be 1 GenAcse.oid_app_context;
  ber_encode 6 (Some (GenAcse.oid_prefix ++ ab ++ cb)).
(* MechanismName *)
Definition mechanism_from_bytes (b : bytes) : res item :=
  match last_and_rest b with
  | None => Err ERefused
  | Some (m, prefix) =>
      if negb (list_eqb prefix (GenAcse.oid_prefix ++ [GenAcse.oid_mechanism])) then Err ERefused else
      do m' <- enum GenEnums.enum_AuthenticationMechanism m; Ok (IMech m')
  end.
Definition mechanism_to_bytes (m : N) : res bytes :=
  do mb <- to_bytes_be 1 m; do ab <- to_bytes_be 1 GenAcse.oid_mechanism; Ok (GenAcse.oid_prefix ++ ab ++ mb).
(* AuthenticationValue *)
Definition auth_value_from_bytes (b : bytes) : res item :=
  do (tag, d) <- ber_decode b;
  if (tag =? 128) || (tag =? 129) then Ok (IAuth d) else Err ERefused.
(* AuthFunctionalUnit *)
Definition afu_from_bytes (b : bytes) : res item :=
  if negb (Nat.eqb (length b) 2) then Err ERefused else Ok (IAfu (nz (last b 0))).
(* aare.py: Asn1Integer *)
Definition asn1_integer_from_bytes (b : bytes) : res item :=
  do (tag, d) <- ber_decode b; if negb (tag =? 2) then Err ERefused else Ok (IInt (be_val d)).
(* aare.py: ResultSourceDiagnostics (asn1crypto Choice of two explicitly tagged INTEGERs) - canonical form only *)
Definition diagnostics_from_bytes (b : bytes) : res item :=
  match b with
  | [a; 3; 2; 1; v] =>
      if negb (v <? 128) then Err EUnmodelled else
      if a =? 161 then Ok (IDiag false v) else if a =? 162 then Ok (IDiag true v) else Err EUnmodelled
  | _ => Err EUnmodelled
  end.
Definition diagnostics_to_bytes (provider : bool) (v : N) : res bytes :=
  if v <? 128 then Ok [if provider then 162 else 161; 3; 2; 1; v] else Err EUnmodelled.
(* user_information.py *)
Definition user_information_from_bytes (b : bytes) : res item :=
  do (tag, d) <- ber_decode b;
  if negb (tag =? 4) then Err ERefused else
  match d with
  | [] => Err ERefused
  | first :: _ =>
      match assoc_n first GenAcse.user_information_map with
      | None => Err ERefused
      | Some k =>
          do a <- (if k =? 1 then initiate_request_from_bytes d
                   else if k =? 2 then initiate_response_from_bytes d
                   else if k =? 3 then confirmed_service_error_from_bytes d
                   else if k =? 5 then glo_initiate_from_bytes 33 GlobalCipherInitiateRequest d
                   else if k =? 6 then glo_initiate_from_bytes 40 GlobalCipherInitiateResponse d
                   else Err ERefused);
          Ok (IUser a)
      end
  end.
Definition user_information_to_bytes (a : apdu) : res bytes :=
  do b <- apdu_to_bytes a; ber_encode 4 (Some b).

Definition decode_item (kind : N) (d : bytes) : res item :=
  if kind =? 0 then Ok (IRaw d)
  else if kind =? 1 then context_from_bytes d
  else if kind =? 2 then afu_from_bytes d
  else if kind =? 3 then mechanism_from_bytes d
  else if kind =? 4 then auth_value_from_bytes d
  else if kind =? 5 then user_information_from_bytes d
  else if kind =? 6 then asn1_integer_from_bytes d
  else if kind =? 7 then diagnostics_from_bytes d
  else if kind =? 8 then do r <- enum GenEnums.enum_ReleaseRequestReason (be_val d); Ok (IReason r)
  else if kind =? 9 then do r <- enum GenEnums.enum_ReleaseResponseReason (be_val d); Ok (IReason r)
  else Err ERefused.

(* the component loop: pop a tag, look it up, pop a length, cut the content out, decode it, store it under its name *)
Fixpoint parse_components (fuel : nat) (tags : list (N * (N * N))) (d : bytes) : res (list (N * item)) :=
  match fuel with
  | O => Err EFuel
  | S f =>
      do (tag, d) <- pop1 d;
      match assoc_n tag tags with
      | None => Err ERefused
      | Some (fld, kind) =>
          do (n, d) <- pop_length d;
          let '(content, d) := cut n d in
          do it <- decode_item kind content;
          match d with
          | [] => Ok [(fld, it)]
          | _ => do rest <- parse_components f tags d; Ok ((fld, it) :: rest)
          end
      end
  end.
(* object_dict[name] = value: the last one wins *)
Definition lookup (f : N) (l : list (N * item)) : option item :=
  fold_left (fun acc e => if fst e =? f then Some (snd e) else acc) l None.

(* the APDU envelope: tag, length, exact *)
Definition envelope (tag : N) (src : bytes) : res bytes :=
  do (t, d) <- pop1 src; if negb (t =? tag) then Err ERefused else
  do (n, d) <- pop_length d; if negb (len d =? n) then Err ERefused else Ok d.

Definition should_authenticate (m : option N) : bool := match m with Some x => nz x | None => false end.
Definition octet_string_field (o : option item) : res (option bytes) :=
  match o with
  | Some (IRaw raw) => if Nat.eqb (length raw) 0 then Ok None else do (_, d) <- ber_decode raw; Ok (Some d)
  | Some _ => Err ERefused
  | None => Ok None
  end.
Definition raw_field (o : option item) : option bytes := match o with Some (IRaw b) => Some b | _ => None end.
Definition is_some {A} (o : option A) : bool := match o with Some _ => true | None => false end.

(* ---------- AARQ ---------- *)
Record aarq := {
  q_user : apdu; q_title : option bytes; q_cert : option bytes; q_auth : option N; q_ciphered : bool;
  q_value : option bytes; q_calling_ae_inv : option bytes; q_called_ap_title : option bytes;
  q_called_ae_qual : option bytes; q_called_ap_inv : option bytes; q_called_ae_inv : option bytes;
  q_calling_ap_inv : option bytes; q_impl : option bytes }.

Definition is_initiate_request (a : apdu) : bool :=
  match a with InitiateRequest _ _ _ _ _ _ | GlobalCipherInitiateRequest _ _ _ => true | _ => false end.

Definition opt_ber (tag : N) (o : option bytes) : res (option bytes) :=
  match o with Some b => do x <- ber_encode tag (Some b); Ok (Some x) | None => Ok None end.

Definition aarq_component (a : aarq) (fld : N) : res (option bytes) :=
  if fld =? 1 then do c <- context_to_bytes true (q_ciphered a); Ok (Some c)
  else if fld =? 2 then Ok (q_called_ap_title a)
  else if fld =? 3 then Ok (q_called_ae_qual a)
  else if fld =? 4 then Ok (q_called_ap_inv a)
  else if fld =? 5 then Ok (q_called_ae_inv a)
  else if fld =? 6 then opt_ber 4 (q_title a)
  else if fld =? 7 then opt_ber 4 (q_cert a)
  else if fld =? 8 then Ok (q_calling_ap_inv a)
  else if fld =? 9 then Ok (q_calling_ae_inv a)
  else if fld =? 10 then Ok (if should_authenticate (q_auth a) then Some [7; 128] else None)
  else if fld =? 11 then (if should_authenticate (q_auth a) then
                            match q_auth a with Some m => do b <- mechanism_to_bytes m; Ok (Some b) | None => Ok None end
                          else Ok None)
  else if fld =? 12 then opt_ber 128 (q_value a)
  else if fld =? 13 then Ok (q_impl a)
  else if fld =? 14 then do u <- user_information_to_bytes (q_user a); Ok (Some u)
  else Err ERefused.

Fixpoint encode_components (component : N -> res (option bytes)) (order : list (N * N)) : res bytes :=
  match order with
  | [] => Ok []
  | (fld, tag) :: rest =>
      do c <- component fld; do x <- ber_encode tag c; do r <- encode_components component rest; Ok (x ++ r)
  end.

Definition aarq_to_bytes (a : aarq) : res bytes :=
  if negb (is_initiate_request (q_user a)) then Err ERefused else      (* attrs validator at construction *)
  do body <- encode_components (aarq_component a) GenAcse.aarq_encode_order;
  ber_encode GenAcse.aarq_tag (Some body).

Definition aarq_from_bytes (src : bytes) : res aarq :=
  do d <- envelope GenAcse.aarq_tag src;
  do l <- parse_components (S (length d)) GenAcse.aarq_parse_tags d;
  if is_some (lookup 0 l) then Err ERefused else                       (* protocol_version: bytes != 0 always *)
  match lookup 1 l with
  | Some (ICtx ln c) =>
      if negb ln then Err ERefused else
      let auth := match lookup 10 l, lookup 11 l with Some _, Some (IMech m) => Some m | _, _ => None end in
      do title <- octet_string_field (lookup 6 l);
      do cert <- octet_string_field (lookup 7 l);
      let value := match lookup 12 l with Some (IAuth p) => Some p | _ => None end in
      match lookup 14 l with
      | Some (IUser u) =>
          if negb (is_initiate_request u) then Err ERefused else
          Ok {| q_user := u; q_title := title; q_cert := cert; q_auth := auth; q_ciphered := c; q_value := value;
                q_calling_ae_inv := raw_field (lookup 9 l); q_called_ap_title := raw_field (lookup 2 l);
                q_called_ae_qual := raw_field (lookup 3 l); q_called_ap_inv := raw_field (lookup 4 l);
                q_called_ae_inv := raw_field (lookup 5 l); q_calling_ap_inv := raw_field (lookup 8 l);
                q_impl := raw_field (lookup 13 l) |}
      | _ => Err ERefused
      end
  | _ => Err ERefused
  end.

(* ---------- AARE ---------- *)
Record aare := {
  e_result : N; e_diag : bool * N; e_ciphered : bool; e_auth : option N; e_title : option bytes; e_cert : option bytes;
  e_value : option bytes; e_user : option apdu; e_impl : option bytes; e_ap_inv : option bytes; e_ae_inv : option bytes }.

Definition aare_component (a : aare) (fld : N) : res (option bytes) :=
  if fld =? 1 then do c <- context_to_bytes true (e_ciphered a); Ok (Some c)
  else if fld =? 2 then do r <- to_bytes_be 1 (e_result a); opt_ber 2 (Some r)
  else if fld =? 3 then do x <- diagnostics_to_bytes (fst (e_diag a)) (snd (e_diag a)); Ok (Some x)
  else if fld =? 4 then opt_ber 4 (e_title a)
  else if fld =? 5 then opt_ber 4 (e_cert a)
  else if fld =? 6 then Ok (e_ap_inv a)
  else if fld =? 7 then Ok (e_ae_inv a)
  else if fld =? 8 then Ok (if should_authenticate (e_auth a) then Some [7; 128] else None)
  else if fld =? 9 then (if should_authenticate (e_auth a) then
                           match e_auth a with Some m => do b <- mechanism_to_bytes m; Ok (Some b) | None => Ok None end
                         else Ok None)
  else if fld =? 10 then opt_ber 128 (e_value a)
  else if fld =? 11 then Ok (e_impl a)
  else if fld =? 12 then match e_user a with Some u => do x <- user_information_to_bytes u; Ok (Some x) | None => Ok None end
  else Err ERefused.

Definition aare_to_bytes (a : aare) : res bytes :=
  do body <- encode_components (aare_component a) GenAcse.aare_encode_order;
  ber_encode GenAcse.aare_tag (Some body).

Definition aare_from_bytes (src : bytes) : res aare :=
  do d <- envelope GenAcse.aare_tag src;
  do l <- parse_components (S (length d)) GenAcse.aare_parse_tags d;
  match lookup 1 l with
  | Some (ICtx ln c) =>
      if negb ln then Err ERefused else
      if is_some (lookup 0 l) then Err ERefused else
      match lookup 2 l, lookup 3 l with
      | Some (IInt r), Some (IDiag provider v) =>
          do r' <- enum GenEnums.enum_AssociationResult r;
          do v' <- enum (if provider then GenEnums.enum_AcseServiceProviderDiagnostics else GenEnums.enum_AcseServiceUserDiagnostics) v;
          let acse_req := match lookup 8 l with Some (IRaw raw) => negb (Nat.eqb (length raw) 0) | _ => false end in
          let auth := match lookup 9 l with Some (IMech m) => if acse_req then Some m else None | _ => None end in
          do title <- octet_string_field (lookup 4 l);
          do cert <- octet_string_field (lookup 5 l);
          let value := match lookup 10 l with Some (IAuth p) => Some p | _ => None end in
          Ok {| e_result := r'; e_diag := (provider, v'); e_ciphered := c; e_auth := auth; e_title := title; e_cert := cert;
                e_value := value; e_user := match lookup 12 l with Some (IUser u) => Some u | _ => None end;
                e_impl := raw_field (lookup 11 l); e_ap_inv := raw_field (lookup 6 l); e_ae_inv := raw_field (lookup 7 l) |}
      | _, _ => Err ERefused
      end
  | _ => Err ERefused
  end.

(* ---------- RLRQ / RLRE ---------- *)
Record release := { r_reason : option N; r_user : option apdu }.

Definition release_component (a : release) (fld : N) : res (option bytes) :=
  if fld =? 0 then match r_reason a with Some r => do b <- to_bytes_be 1 r; Ok (Some b) | None => Ok None end
  else if fld =? 1 then match r_user a with Some u => do x <- user_information_to_bytes u; Ok (Some x) | None => Ok None end
  else Err ERefused.
Definition release_to_bytes (tag : N) (order : list (N * N)) (a : release) : res bytes :=
  do body <- encode_components (release_component a) order; ber_encode tag (Some body).
Definition release_from_bytes (tag : N) (tags : list (N * (N * N))) (src : bytes) : res release :=
  do d <- envelope tag src;
  do l <- (match d with [] => Ok [] | _ => parse_components (S (length d)) tags d end);
  Ok {| r_reason := match lookup 0 l with Some (IReason r) => Some r | _ => None end;
        r_user := match lookup 1 l with Some (IUser u) => Some u | _ => None end |}.
Definition rlrq_to_bytes := release_to_bytes GenAcse.rlrq_tag GenAcse.rlrq_encode_order.
Definition rlre_to_bytes := release_to_bytes GenAcse.rlre_tag GenAcse.rlre_encode_order.
Definition rlrq_from_bytes := release_from_bytes GenAcse.rlrq_tag GenAcse.rlrq_parse_tags.
Definition rlre_from_bytes := release_from_bytes GenAcse.rlre_tag GenAcse.rlre_parse_tags.
