(* C10 composed with C09: streams of STANDARD frames.  The frames a meter sends for the segments ps,
   each with or without sharing its opening flag with the previous closing flag, under any chunking. *)
From Dlms Require Import Base AddrModel AddrSpec FrameModel FrameSpec HdlcConnModel HdlcChunkProofs HdlcStreamProofs
  TransportModel TransportE2E TransportMeter.

Fixpoint set_shared (items : list item) (flags : list bool) : list item :=
  match items with
  | [] => []
  | it :: r => {| it_pk := it_pk it; it_F := it_F it; it_f := it_f it; it_shared := hd false flags |} :: set_shared r (tl flags)
  end.
Lemma chain_set_shared l items l' : chain l items l' -> forall flags, chain l (set_shared items flags) l'.
Proof.
  induction 1 as [l|l it l1 rest l' Hacc Hpk Hlink Hrest IH]; intros flags; [constructor|].
  cbn [set_shared]. eapply chain_cons; cbn [it_pk it_F it_f]; [exact Hacc|exact Hpk|exact Hlink|apply IH].
Qed.
Lemma key_set_shared items : forall flags, map key (set_shared items flags) = map key items.
Proof. induction items as [|it r IH]; intros flags; [reflexivity|]. cbn [set_shared map]. rewrite IH. reflexivity. Qed.

Theorem standard_stream_any_chunking cl sv l ps flags chunks :
  addr_ok cl -> addr_ok sv -> a_server cl = false -> a_server sv = true ->
  l_state l = 2 -> client_ssn l < 8 -> client_rsn l < 8 -> Forall (segment_ok cl sv) ps ->
  let items := set_shared (meter_items cl sv (client_ssn l) (client_rsn l) ps) flags in
  Forall (fun ch => ch <> []) chunks -> concat chunks = stream items ->
  exists outs, feedm {| c_link := l; c_buf := []; c_pos := 1 |} chunks
                 = (outs, {| c_link := link_after l ps; c_buf := []; c_pos := 1 |})
    /\ length outs = length chunks
    /\ keys (concat outs) = Some (map key (meter_items cl sv (client_ssn l) (client_rsn l) ps))
    /\ forall j, (j <= length chunks)%nat ->
         keys (concat (firstn j outs)) = Some (map key (deliverable (length (concat (firstn j chunks))) items)).
Proof.
  intros Hcl Hsv Hdc Hds Hst Hs Hr Hall items Hne Hcat.
  destruct (meter_chain cl sv Hcl Hsv Hdc Hds ps l Hst Hs Hr Hall) as (Hch & _).
  pose proof (chain_set_shared _ _ _ Hch flags) as Hch'. fold items in Hch'.
  destruct (chunking_stream l items (link_after l ps) chunks Hch' Hne Hcat) as (outs & E & L & K & T).
  exists outs. split; [exact E|]. split; [exact L|]. split; [|exact T].
  rewrite K. unfold items. rewrite key_set_shared. reflexivity.
Qed.
