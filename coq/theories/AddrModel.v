(* Model of dlms_cosem/hdlc/address.py (HdlcAddress) and the address validators of
   hdlc/validators.py, as of the "fix:" commits e6b12e3 (address forms) and the refusal of addresses without a
   1/2/4-byte form.  No proofs here. *)
From Dlms Require Import Base.

(* (logical, physical, is_server) *)
Definition addr := (N * option N * bool)%type.
Definition a_logical (a : addr) : N := fst (fst a).
Definition a_physical (a : addr) : option N := snd (fst a).
Definition a_server (a : addr) : bool := snd a.

(* validate_hdlc_address *)
Definition validate_addr_value (server : bool) (v : Z) : bool :=
  let limit := if server then 16383%Z else 127%Z in
  negb (limit <? v)%Z && negb (v <? 0)%Z.
Definition addr_make (l : Z) (p : option Z) (server : bool) : res addr :=
  if negb (validate_addr_value server l) then Err ERefused else
  match p with
  | None =>
      (* __attrs_post_init__: a server address above 127 needs the four-byte form, hence a physical part *)
      if server && (127 <? l)%Z then Err ERefused else Ok (Z.to_N l, None, server)
  | Some pz =>
      if negb (validate_addr_value server pz) then Err ERefused else
      (* __attrs_post_init__: a client address is one byte and has no physical part *)
      if negb server then Err ERefused else Ok (Z.to_N l, Some (Z.to_N pz), server)
  end.

Definition nzb (x : N) : bool := negb (x =? 0).
(* HdlcAddress._split_address *)
Definition split_address (a : N) : option N * N :=
  if 127 <? a then (Some (N.shiftr (N.land a 16256) 6), N.shiftl (N.land a 127) 1)
  else (None, N.shiftl a 1).

(* HdlcAddress.to_bytes *)
Definition addr_to_bytes (a : addr) : bytes :=
  let '(l, p, server) := a in
  if negb server then [N.lor (N.shiftl l 1) 1]
  else match p with
       | Some p =>
           if (127 <? l) || (127 <? p)
           then [N.shiftl (N.shiftr l 7) 1; N.shiftl (N.land l 127) 1;
                 N.shiftl (N.shiftr p 7) 1; N.lor (N.shiftl (N.land p 127) 1) 1]
           else [N.shiftl l 1; N.lor (N.shiftl p 1) 1]
       | None =>
           let '(hi, lo) := split_address l in
           let lo := N.lor lo 1 in
           (* the final loop drops entries that are None or 0 *)
           (match hi with Some h => if nzb h then [h] else [] | None => [] end)
           ++ (if nzb lo then [lo] else [])
       end.
Definition addr_length (a : addr) : nat := length (addr_to_bytes a).

(* indexing that raises IndexError *)
Definition idx (l : bytes) (i : nat) : res N :=
  match nth_error l i with Some b => Ok b | None => Err ERefused end.
Definition odd_byte (b : N) : bool := nzb (N.land b 1).

(* HdlcAddress.parse_two_byte_address *)
Definition parse_two_byte_address (ab : bytes) : res N :=
  if negb (Nat.eqb (length ab) 2) then Err ERefused else
  do b0 <- idx ab 0; do b1 <- idx ab 1;
  Ok (N.shiftr b1 1 + N.shiftl (N.shiftr b0 1) 7).

(* one of the two symmetric halves of find_address_in_frame_bytes: the address that starts at
   index [start]; the end byte is looked for at start, start+1, start+3 *)
Definition find_one (f : bytes) (start : nat) : res (N * option N * nat) :=
  do e1 <- idx f start;
  do alen <-
    (if odd_byte e1 then Ok 1%nat else
     do e2 <- idx f (start + 1);
     if odd_byte e2 then Ok 2%nat else
     do e4 <- idx f (start + 3);
     if odd_byte e4 then Ok 4%nat else Ok 1%nat);
  if Nat.eqb alen 1 then Ok (N.shiftr e1 1, None, alen)
  else if Nat.eqb alen 2 then
    let ab := slice start (start + 2) f in
    do b0 <- idx ab 0; do b1 <- idx ab 1; Ok (N.shiftr b0 1, Some (N.shiftr b1 1), alen)
  else
    let ab := slice start (start + 4) f in
    do lg <- parse_two_byte_address (firstn 2 ab);
    do ph <- parse_two_byte_address (skipn 2 ab);
    Ok (lg, Some ph, alen).

(* HdlcAddress.find_address_in_frame_bytes *)
Definition find_addresses (f : bytes) : res ((N * option N * nat) * (N * option N * nat)) :=
  do d <- find_one f 3;
  do s <- find_one f (3 + snd d);
  Ok (d, s).

(* destination_from_bytes / source_from_bytes: locate, then construct (validators run) *)
Definition destination_from_bytes (f : bytes) (server : bool) : res addr :=
  do ds <- find_addresses f;
  let '(l, p, _) := fst ds in addr_make (Z.of_N l) (option_map Z.of_N p) server.
Definition source_from_bytes (f : bytes) (server : bool) : res addr :=
  do ds <- find_addresses f;
  let '(l, p, _) := snd ds in addr_make (Z.of_N l) (option_map Z.of_N p) server.
