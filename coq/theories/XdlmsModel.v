(* Model of the xDLMS APDU codecs: get.py, set.py, action.py, data_notification.py, exception_response.py,
   confirmed_service_error.py, initiate_request.py, initiate_response.py, general_global_cipher.py,
   cosem/__init__.py (CosemAttribute / CosemMethod) and the tag dispatch of connection.XDlmsApduFactory,
   as of the "fix:" commits 8e42635 .. 036044a.  No proofs here. *)
From Dlms Require Import Base FieldsModel TimeModel AxdrModel.
From Dlms.Gen Require GenEnums GenApdu.

Definition member (x : N) (l : list N) : bool := existsb (N.eqb x) l.
Definition enum (l : list N) (x : N) : res N := if member x l then Ok x else Err ERefused.   (* IntEnum(value) *)
(* bytearray.pop(0) *)
Definition pop1 (b : bytes) : res (N * bytes) := match b with [] => Err ERefused | x :: r => Ok (x, r) end.
Definition assoc_n {A} (k : N) (t : list (N * A)) : option A := option_map snd (find (fun e => fst e =? k) t).

(* ---------- cosem attribute / method descriptor: (interface, obis bytes, id) ---------- *)
Definition cosem_desc := (N * bytes * N)%type.
Definition cosem_from_bytes (b : bytes) : res cosem_desc :=
  if negb (Nat.eqb (length b) 9) then Err ERefused else
  do i <- enum GenEnums.enum_CosemInterface (be_val (firstn 2 b));
  do o <- obis_from_bytes (slice 2 8 b);
  Ok (i, o, last b 0).
Definition cosem_to_bytes (c : cosem_desc) : res bytes :=
  let '(i, o, a) := c in
  do ib <- to_bytes_be 2 i; do ob <- obis_to_bytes o; do ab <- to_bytes_be 1 a; Ok (ib ++ ob ++ ab).

(* ---------- APDU values ---------- *)
Inductive apdu :=
| GetRequestNormal (attr : cosem_desc) (i : iid) (access : option bytes)
| GetRequestNext (block : N) (i : iid)
| GetResponseNormal (data : bytes) (i : iid)
| GetResponseNormalWithError (error : N) (i : iid)
| GetResponseWithBlock (data : bytes) (block : N) (i : iid)
| GetResponseLastBlock (data : bytes) (block : N) (i : iid)
| GetResponseLastBlockWithError (error : N) (block : N) (i : iid)
| SetRequestNormal (attr : cosem_desc) (data : bytes) (i : iid)
| SetResponseNormal (result : N) (i : iid)
| ActionRequestNormal (meth : cosem_desc) (data : option bytes) (i : iid)
| ActionResponseNormal (status : N) (i : iid)
| ActionResponseNormalWithData (status : N) (data : bytes) (i : iid)
| ActionResponseNormalWithError (status : N) (error : N) (i : iid)
| DataNotification (l : liid) (dt : option dtime) (body : bytes)
| ExceptionResponse (state_error service_error : N) (counter : option N)
| ConfirmedServiceError (error_class value : N)
| InitiateRequest (conformance : list bool) (qos : option N) (max_pdu version : N) (response_allowed : bool) (dedicated_key : option bytes)
| InitiateResponse (conformance : list bool) (max_pdu version qos : N)
| GlobalCipherInitiateRequest (s : sc) (counter : N) (text : bytes)
| GlobalCipherInitiateResponse (s : sc) (counter : N) (text : bytes)
| GeneralGlobalCipher (title : bytes) (s : sc) (counter : N) (text : bytes)
| NoneValue.            (* a factory that falls off its if-chain returns None *)

Definition truthy (o : option bytes) : option bytes := match o with Some [] => None | x => x end.

(* ---------- encoders ---------- *)
Definition iidb (i : iid) : res bytes := iid_to_bytes i.
Definition sc_bytes (x : sc) : res bytes := sc_to_bytes x.

Definition apdu_to_bytes (a : apdu) : res bytes :=
  match a with
  | GetRequestNormal attr i access =>
      do ib <- iidb i; do ab <- cosem_to_bytes attr;
      (* access_selection.to_bytes(): only a RangeDescriptor has one; modelled as its bytes *)
      Ok ([192; 1] ++ ib ++ ab ++ match truthy access with Some s => 1 :: s | None => [0] end)
  | GetRequestNext block i => do ib <- iidb i; do bb <- to_bytes_be 4 block; Ok ([192; 2] ++ ib ++ bb)
  | GetResponseNormal data i => do ib <- iidb i; Ok ([196; 1] ++ ib ++ [0] ++ data)
  | GetResponseNormalWithError e i => do ib <- iidb i; do eb <- to_bytes_be 1 e; Ok ([196; 1] ++ ib ++ [1] ++ eb)
  | GetResponseWithBlock data block i =>
      do ib <- iidb i; do bb <- to_bytes_be 4 block; do l <- encode_variable_integer (len data);
      Ok ([196; 2] ++ ib ++ [0] ++ bb ++ [0] ++ l ++ data)
  | GetResponseLastBlock data block i =>
      do ib <- iidb i; do bb <- to_bytes_be 4 block; do l <- encode_variable_integer (len data);
      Ok ([196; 2] ++ ib ++ [1] ++ bb ++ [0] ++ l ++ data)
  | GetResponseLastBlockWithError e block i =>
      do ib <- iidb i; do bb <- to_bytes_be 4 block; do eb <- to_bytes_be 1 e;
      Ok ([196; 2] ++ ib ++ [1] ++ bb ++ [1] ++ eb)
  | SetRequestNormal attr data i => do ib <- iidb i; do ab <- cosem_to_bytes attr; Ok ([193; 1] ++ ib ++ ab ++ [0] ++ data)
  | SetResponseNormal r i => do ib <- iidb i; do rb <- to_bytes_be 1 r; Ok ([197; 1] ++ ib ++ rb)
  | ActionRequestNormal m data i =>
      do ib <- iidb i; do mb <- cosem_to_bytes m;
      Ok ([195; 1] ++ ib ++ mb ++ match truthy data with Some d => 1 :: d | None => [0] end)
  | ActionResponseNormal st i => do ib <- iidb i; do sb <- to_bytes_be 1 st; Ok ([199; 1] ++ ib ++ sb ++ [0])
  | ActionResponseNormalWithData st data i => do ib <- iidb i; do sb <- to_bytes_be 1 st; Ok ([199; 1] ++ ib ++ sb ++ [1; 0] ++ data)
  | ActionResponseNormalWithError st e i =>
      do ib <- iidb i; do sb <- to_bytes_be 1 st; do eb <- to_bytes_be 1 e; Ok ([199; 1] ++ ib ++ sb ++ [1; 1] ++ eb)
  | DataNotification l dt body =>
      do lb <- liid_to_bytes l;
      do db <- match dt with
               | Some x => do d <- datetime_to_bytes x None; Ok (12 :: d)
               | None => Ok [0]
               end;
      Ok ([15] ++ lb ++ db ++ body)
  | ExceptionResponse st sv counter =>
      do a <- to_bytes_be 1 st; do b <- to_bytes_be 1 sv;
      if sv =? 6 then do c <- to_bytes_be 4 (match counter with Some n => n | None => 0 end); Ok ([216] ++ a ++ b ++ c)
      else Ok ([216] ++ a ++ b)
  | ConfirmedServiceError cls v =>
      match assoc_n cls GenApdu.error_type_reverse with
      | None => Err ERefused
      | Some choice => do cb <- to_bytes_be 1 choice; do vb <- to_bytes_be 1 v; Ok ([14; 1] ++ cb ++ vb)
      end
  | InitiateRequest conf qos max_pdu version ra dk =>
      do cb <- conf_to_bytes conf; do pb <- to_bytes_be 2 max_pdu;
      do kb <- match truthy dk with
               | Some k => do l <- encode_variable_integer (len k); Ok (1 :: l ++ k)
               | None => Ok [0]
               end;
      Ok ([1] ++ kb ++ [0; 0; 6; 95; 31; 4] ++ cb ++ pb)
  | InitiateResponse conf max_pdu version qos =>
      do cb <- conf_to_bytes conf; do pb <- to_bytes_be 2 max_pdu; do vb <- to_bytes_be 1 version;
      do qb <- (if qos =? 0 then Ok [0] else do q <- to_bytes_be 1 qos; Ok (1 :: q));
      Ok ([8] ++ qb ++ vb ++ [95; 31; 4] ++ cb ++ pb ++ [0; 7])
  | GlobalCipherInitiateRequest s c text =>
      do sb <- sc_bytes s; do cb <- to_bytes_be 4 c; do l <- encode_variable_integer (len (sb ++ cb ++ text));
      Ok ([33] ++ l ++ sb ++ cb ++ text)
  | GlobalCipherInitiateResponse s c text =>
      do sb <- sc_bytes s; do cb <- to_bytes_be 4 c; do l <- encode_variable_integer (len (sb ++ cb ++ text));
      Ok ([40] ++ l ++ sb ++ cb ++ text)
  | GeneralGlobalCipher title s c text =>
      do tl <- encode_variable_integer (len title); do sb <- sc_bytes s; do cb <- to_bytes_be 4 c;
      do l <- encode_variable_integer (len (sb ++ cb ++ text));
      Ok ([219] ++ tl ++ title ++ l ++ sb ++ cb ++ text)
  | NoneValue => Err ERefused
  end.

(* ---------- decoders ---------- *)
Definition iid1 (x : N) : res iid := iid_from_bytes [x].

(* get.py: GetRequestFactory *)
Definition get_request_from_bytes (src : bytes) : res apdu :=
  do (tag, d) <- pop1 src; if negb (tag =? 192) then Err ERefused else
  do (t, d) <- pop1 d; do ty <- enum GenEnums.enum_GetRequestType t;
  if ty =? 1 then
    (* AXdrDecoder over ENCODING_CONF: 1 byte, 9 bytes, then a DEFAULT attribute of variable length *)
    do (ib, d) <- take 1 d; do i <- iid_from_bytes ib;
    do (ab, d) <- take 9 d; do attr <- cosem_from_bytes ab;
    do (ind, d) <- take 1 d;
    if list_eqb ind [0] then Ok (GetRequestNormal attr i None) else
    do (n, d) <- get_len d; do (s, _) <- take_n n d;
    Ok (GetRequestNormal attr i (truthy (Some s)))
  else if ty =? 2 then
    do (x, d) <- pop1 d; do i <- iid1 x;
    if negb (Nat.eqb (length d) 4) then Err ERefused else Ok (GetRequestNext (be_val d) i)
  else Err ERefused.

(* get.py: GetResponseFactory *)
Definition block_data (d : bytes) : res bytes :=
  do (n, rest) <- decode_variable_integer d;
  if negb (n =? len rest) then Err ERefused else Ok rest.
Definition get_response_from_bytes (src : bytes) : res apdu :=
  do (tag, d) <- pop1 src; if negb (tag =? 196) then Err ERefused else
  do (t, d) <- pop1 d; do ty <- enum GenEnums.enum_GetResponseType t;
  do (x, d) <- pop1 d; do i <- iid1 x;
  if ty =? 1 then
    do (choice, d) <- pop1 d;
    if choice =? 0 then Ok (GetResponseNormal d i)
    else if choice =? 1 then
      (if negb (Nat.eqb (length d) 1) then Err ERefused else
       do (e, _) <- pop1 d; do e' <- enum GenEnums.enum_DataAccessResult e; Ok (GetResponseNormalWithError e' i))
    else Ok NoneValue
  else if ty =? 2 then
    do (lb, d) <- pop1 d;
    let last_block := negb (lb =? 0) in
    let block := be_val (firstn 4 d) in
    let d := skipn 4 d in
    do (choice, d) <- pop1 d;
    if choice =? 0 then
      do data <- block_data d;
      Ok (if last_block then GetResponseLastBlock data block i else GetResponseWithBlock data block i)
    else if choice =? 1 then
      (if negb (Nat.eqb (length d) 1) then Err ERefused else
       do (e, _) <- pop1 d; do e' <- enum GenEnums.enum_DataAccessResult e;
       if last_block then Ok (GetResponseLastBlockWithError e' block i) else Err ERefused)
    else Ok NoneValue
  else Err ERefused.          (* WITH_LIST: NotImplementedError *)

(* set.py *)
Definition set_request_from_bytes (src : bytes) : res apdu :=
  do (tag, d) <- pop1 src; if negb (tag =? 193) then Err ERefused else
  do (t, d) <- pop1 d; do ty <- enum GenEnums.enum_SetRequestType t;
  if negb (ty =? 1) then Err ERefused else
  do (x, d) <- pop1 d; do i <- iid1 x;
  do attr <- cosem_from_bytes (firstn 9 d);
  do (sel, d) <- pop1 (skipn 9 d);
  if negb (sel =? 0) then Err ERefused else Ok (SetRequestNormal attr d i).
Definition set_response_from_bytes (src : bytes) : res apdu :=
  do (tag, d) <- pop1 src; if negb (tag =? 197) then Err ERefused else
  do (t, d) <- pop1 d; do ty <- enum GenEnums.enum_SetResponseType t;
  if negb (ty =? 1) then Err ERefused else
  do (x, d) <- pop1 d; do i <- iid1 x;
  do (r, _) <- pop1 d; do r' <- enum GenEnums.enum_DataAccessResult r;
  Ok (SetResponseNormal r' i).

(* action.py *)
Definition action_request_from_bytes (src : bytes) : res apdu :=
  do (tag, d) <- pop1 src; if negb (tag =? 195) then Err ERefused else
  do (t, d) <- pop1 d; do ty <- enum GenEnums.enum_ActionType t;
  if negb (ty =? 1) then Err ERefused else
  do (x, d) <- pop1 d; do i <- iid1 x;
  do m <- cosem_from_bytes (firstn 9 d);
  match nth_error d 9 with
  | None => Err ERefused                       (* data[9]: IndexError *)
  | Some has => Ok (ActionRequestNormal m (if has =? 0 then None else Some (skipn 10 d)) i)
  end.
Definition action_response_from_bytes (src : bytes) : res apdu :=
  do (tag, d) <- pop1 src; if negb (tag =? 199) then Err ERefused else
  do (t, d) <- pop1 d; do ty <- enum GenEnums.enum_ActionType t;
  do (x, d) <- pop1 d;
  if negb (ty =? 1) then Err ERefused else
  do (st, d) <- pop1 d;
  do (has, d) <- pop1 d;
  if has =? 0 then
    (* ActionResponseNormal.from_bytes on the same bytes *)
    do i <- iid1 x; do st' <- enum GenEnums.enum_ActionResultStatus st; Ok (ActionResponseNormal st' i)
  else
    do (choice, d) <- pop1 d;
    if choice =? 0 then
      do i <- iid1 x; do st' <- enum GenEnums.enum_ActionResultStatus st; Ok (ActionResponseNormalWithData st' d i)
    else if choice =? 1 then
      do i <- iid1 x; do st' <- enum GenEnums.enum_ActionResultStatus st;
      if negb (Nat.eqb (length d) 1) then Err ERefused else
      do (e, _) <- pop1 d; do e' <- enum GenEnums.enum_DataAccessResult e;
      Ok (ActionResponseNormalWithError st' e' i)
    else Ok NoneValue.

(* data_notification.py *)
Definition data_notification_from_bytes (src : bytes) : res apdu :=
  do (tag, d) <- pop1 src; if negb (tag =? 15) then Err ERefused else
  do l <- liid_from_bytes (firstn 4 d);
  do (has, d) <- pop1 (skipn 4 d);
  if has =? 0 then Ok (DataNotification l None d) else
  do r <- datetime_from_bytes (firstn 12 d);
  Ok (DataNotification l (Some (fst r)) (skipn 12 d)).

(* exception_response.py *)
Definition exception_response_from_bytes (src : bytes) : res apdu :=
  do (tag, d) <- pop1 src; if negb (tag =? 216) then Err ERefused else
  do (a, d) <- pop1 d; do st <- enum GenEnums.enum_StateException a;
  do (b, d) <- pop1 d; do sv <- enum GenEnums.enum_ServiceException b;
  Ok (ExceptionResponse st sv (if sv =? 6 then Some (be_val d) else None)).

(* confirmed_service_error.py *)
Definition confirmed_service_error_from_bytes (src : bytes) : res apdu :=
  do (tag, d) <- pop1 src; if negb (tag =? 14) then Err ERefused else
  do (choice, d) <- take 1 d;
  if negb (member (be_val choice) [1; 5; 6]) then Err ERefused else
  do (e, _) <- take 2 d;
  match assoc_n (nth 0 e 0) GenApdu.error_type_map with
  | None => Err ERefused
  | Some cls =>
      match assoc_n cls GenApdu.error_class_members with
      | None => Err ERefused
      | Some members => do v <- enum members (nth 1 e 0); Ok (ConfirmedServiceError cls v)
      end
  end.

(* initiate_request.py *)
Definition initiate_request_from_bytes (src : bytes) : res apdu :=
  do (tag, d0) <- pop1 src; if negb (tag =? 1) then Err ERefused else
  (* dedicated_key: OPTIONAL octet string *)
  do (ind, d) <- take 1 d0;
  do (dk, d) <- (if list_eqb ind [0] then Ok (None, d) else
                  do (n, d) <- get_len d; do (k, d) <- take_n n d; Ok (Some k, d));
  (* response_allowed: DEFAULT TRUE, decoded as bool(variable-length bytes) *)
  do (ind, d) <- take 1 d;
  do (ra, d) <- (if list_eqb ind [0] then Ok (true, d) else
                  do (n, d) <- get_len d; do (v, d) <- take_n n d; Ok (negb (Nat.eqb (length v) 0), d));
  do (q, d) <- take 1 d;
  do (v, d) <- take 1 d;
  do (rest, _) <- take 9 d;
  if negb (list_eqb (firstn 2 rest) [95; 31]) then Err ERefused else
  let n := length d0 in
  Ok (InitiateRequest (conf_from_bytes (slice (n - 6) (n - 2) d0)) (Some (be_val q)) (be_val (lastn 2 d0)) (be_val v) ra (truthy dk)).

(* initiate_response.py *)
Definition initiate_response_from_bytes (src : bytes) : res apdu :=
  if negb (list_eqb (lastn 2 src) [0; 7]) || Nat.ltb (length src) 2 then Err ERefused else
  do (tag, d) <- pop1 (droplast 2 src); if negb (tag =? 8) then Err ERefused else
  do (use_q, d) <- pop1 d;
  do (q, d) <- (if use_q =? 0 then Ok (0, d) else pop1 d);
  do (v, d) <- pop1 d;
  if negb (list_eqb (firstn 3 d) [95; 31; 4]) then Err ERefused else
  Ok (InitiateResponse (conf_from_bytes (slice 3 (length d - 2) d)) (be_val (lastn 2 d)) v q).

(* GlobalCipherInitiateRequest / Response *)
Definition glo_initiate_from_bytes (expected : N) (mk : sc -> N -> bytes -> apdu) (src : bytes) : res apdu :=
  do (tag, d) <- pop1 src; if negb (tag =? expected) then Err ERefused else
  (* a_xdr.get_axdr_length pops from the bytearray *)
  do (first, d) <- pop1 d;
  do (n, d) <- (if N.land first 128 =? 0 then Ok (first, d) else
                 let k := N.to_nat (N.land first 127) in
                 if Nat.ltb (length d) k then Err ERefused else Ok (be_val (firstn k d), skipn k d));
  if negb (n =? len d) then Err ERefused else
  do (s, d) <- pop1 d; do s' <- sc_from_byte s;
  Ok (mk s' (be_val (firstn 4 d)) (skipn 4 d)).

(* general_global_cipher.py *)
Definition general_global_cipher_from_bytes (src : bytes) : res apdu :=
  do (tag, d) <- pop1 src; if negb (tag =? 219) then Err ERefused else
  do (n, d) <- get_len d; do (title, d) <- take_n n d;
  do (m, d) <- get_len d; do (content, _) <- take_n m d;
  do (s, c) <- pop1 content; do s' <- sc_from_byte s;
  Ok (GeneralGlobalCipher title s' (be_val (firstn 4 c)) (skipn 4 c)).

(* XDlmsApduFactory.apdu_from_bytes for the xDLMS kinds; decoders 9..12 are the ACSE APDUs (AcseModel) *)
Definition xdlms_from_bytes (src : bytes) : res apdu :=
  match src with
  | [] => Err ERefused
  | tag :: _ =>
      match assoc_n tag GenApdu.apdu_map with
      | None => Err ERefused
      | Some k =>
          if k =? 1 then initiate_request_from_bytes src
          else if k =? 2 then initiate_response_from_bytes src
          else if k =? 3 then confirmed_service_error_from_bytes src
          else if k =? 4 then data_notification_from_bytes src
          else if k =? 5 then glo_initiate_from_bytes 33 GlobalCipherInitiateRequest src
          else if k =? 6 then glo_initiate_from_bytes 40 GlobalCipherInitiateResponse src
          else if k =? 7 then exception_response_from_bytes src
          else if k =? 8 then general_global_cipher_from_bytes src
          else if k =? 13 then get_request_from_bytes src
          else if k =? 14 then set_request_from_bytes src
          else if k =? 15 then action_request_from_bytes src
          else if k =? 16 then get_response_from_bytes src
          else if k =? 17 then set_response_from_bytes src
          else if k =? 18 then action_response_from_bytes src
          else Err (100 + k)          (* ACSE APDU: handled by the ACSE model *)
      end
  end.
