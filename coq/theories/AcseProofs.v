(* C02: every well-formed ACSE APDU value encodes to the standard BER bytes (a well-formed tree of definite-length
   TLVs), decoding those bytes returns the value, and the authentication components follow the mechanism. *)
From Dlms Require Import Base FieldsModel AxdrModel AxdrSpec AxdrProofs XdlmsModel XdlmsSpec XdlmsProofs AcseModel AcseSpec.
From Dlms.Gen Require GenEnums GenAcse.
From Coq Require Import ZifyBool ZifyN.
Ltac Zify.zify_post_hook ::= Z.to_euclidean_division_equations.

(* ---------- BER lengths ---------- *)
Lemma size_bytes n lo hi k : 0 < n -> 2 ^ lo <= n -> n < 2 ^ hi -> 8 * (k - 1) <= lo -> hi <= 8 * k -> 0 < k ->
  (N.size n + 7) / 8 = k.
Proof.
  intros Hp Hlo Hhi H1 H2 Hk. rewrite N.size_log2 by lia.
  apply N.log2_le_pow2 in Hlo; [|exact Hp]. apply N.log2_lt_pow2 in Hhi; [|exact Hp]. lia.
Qed.
Lemma ber_length_std n : n < 4294967296 -> ber_length n = Ok (std_len n).
Proof.
  intros Hn. unfold ber_length, std_len.
  destruct (N.ltb_spec n 128) as [H1|H1]; [apply tb1; lia|].
  destruct (N.ltb_spec n 256) as [H2|H2].
  { rewrite (size_bytes n 7 8 1 ltac:(lia) ltac:(change (2 ^ 7) with 128; lia) ltac:(change (2 ^ 8) with 256; lia) ltac:(lia) ltac:(lia) ltac:(lia)). change (N.to_nat 1) with 1%nat. rewrite tb1 by lia. reflexivity. }
  destruct (N.ltb_spec n 65536) as [H3|H3].
  { rewrite (size_bytes n 8 16 2 ltac:(lia) ltac:(change (2 ^ 8) with 256; lia) ltac:(change (2 ^ 16) with 65536; lia) ltac:(lia) ltac:(lia) ltac:(lia)). change (N.to_nat 2) with 2%nat. rewrite tb1 by lia. reflexivity. }
  destruct (N.ltb_spec n 16777216) as [H4|H4].
  { rewrite (size_bytes n 16 24 3 ltac:(lia) ltac:(change (2 ^ 16) with 65536; lia) ltac:(change (2 ^ 24) with 16777216; lia) ltac:(lia) ltac:(lia) ltac:(lia)). change (N.to_nat 3) with 3%nat. rewrite tb1 by lia. reflexivity. }
  rewrite (size_bytes n 24 32 4 ltac:(lia) ltac:(change (2 ^ 24) with 16777216; lia) ltac:(change (2 ^ 32) with 4294967296; lia) ltac:(lia) ltac:(lia) ltac:(lia)). change (N.to_nat 4) with 4%nat. rewrite tb1 by lia. reflexivity.
Qed.
Lemma ber_encode_std tag d : tag < 256 -> len d < 4294967296 -> ber_encode tag (Some d) = Ok (tlv tag d).
Proof. intros Ht Hd. unfold ber_encode, tlv, ber_len. rewrite tb1, ber_length_std by assumption. reflexivity. Qed.

Lemma pop_length_std n rest : n < 4294967296 -> pop_length (std_len n ++ rest) = Ok (n, rest).
Proof.
  intros Hn. unfold pop_length, std_len.
  destruct (N.ltb_spec n 128) as [H1|H1].
  { cbn [app pop1 bind]. apply N.ltb_lt in H1. rewrite H1. reflexivity. }
  destruct (N.ltb_spec n 256) as [H2|H2].
  { cbn [app be_bytes pop1 bind]. change (129 <? 128) with false. cbv iota. change (N.land 129 127) with 1.
    change (1 =? 0) with false. cbn [orb]. replace (len (n mod 256 :: rest) <? 1) with false by (symmetry; apply N.ltb_ge; unfold len; cbn [length]; lia).
    change (N.to_nat 1) with 1%nat. cbn [firstn skipn]. f_equal. f_equal. change (be_val [?x]) with (0 * 256 + x). lia. }
  destruct (N.ltb_spec n 65536) as [H3|H3].
  { cbn [app be_bytes pop1 bind]. change (130 <? 128) with false. cbv iota. change (N.land 130 127) with 2.
    change (2 =? 0) with false. cbn [orb]. match goal with |- context [len ?l <? 2] => replace (len l <? 2) with false by (symmetry; apply N.ltb_ge; unfold len; cbn [length]; lia) end.
    change (N.to_nat 2) with 2%nat. cbn [firstn skipn]. f_equal. f_equal. rewrite TimeProofs.be_val2. lia. }
  destruct (N.ltb_spec n 16777216) as [H4|H4].
  { cbn [app be_bytes pop1 bind]. change (131 <? 128) with false. cbv iota. change (N.land 131 127) with 3.
    change (3 =? 0) with false. cbn [orb]. match goal with |- context [len ?l <? 3] => replace (len l <? 3) with false by (symmetry; apply N.ltb_ge; unfold len; cbn [length]; lia) end.
    change (N.to_nat 3) with 3%nat. cbn [firstn skipn]. f_equal. f_equal. rewrite be_val3. lia. }
  cbn [app be_bytes pop1 bind]. change (132 <? 128) with false. cbv iota. change (N.land 132 127) with 4.
  change (4 =? 0) with false. cbn [orb]. match goal with |- context [len ?l <? 4] => replace (len l <? 4) with false by (symmetry; apply N.ltb_ge; unfold len; cbn [length]; lia) end.
  change (N.to_nat 4) with 4%nat. cbn [firstn skipn]. f_equal. f_equal. rewrite be_val4. lia.
Qed.
Lemma ber_decode_tlv tag d : len d < 4294967296 -> ber_decode (tlv tag d) = Ok (tag, d).
Proof.
  intros H. unfold ber_decode, tlv, ber_len. cbn [pop1 bind]. rewrite <- (app_nil_r d) at 2.
  rewrite pop_length_std by exact H. cbn [bind]. rewrite app_nil_r, N.eqb_refl. reflexivity.
Qed.
Lemma cut_app c rest : cut (len c) (c ++ rest) = (c, rest).
Proof.
  unfold cut, len. rewrite app_length. destruct rest as [|r rest].
  - rewrite app_nil_r, Nat.add_0_r, N.leb_refl. reflexivity.
  - cbn [length]. destruct (N.leb_spec (N.of_nat (length c + S (length rest))) (N.of_nat (length c))); [lia|].
    rewrite Nat2N.id, firstn_app_exact, skipn_app_exact by reflexivity. reflexivity.
Qed.
Lemma envelope_tlv tag d : len d < 4294967296 -> envelope tag (tlv tag d) = Ok d.
Proof.
  intros H. unfold envelope, tlv, ber_len. cbn [pop1 bind]. rewrite N.eqb_refl. cbn [negb].
  rewrite <- (app_nil_r d) at 2. rewrite pop_length_std by exact H. cbn [bind]. rewrite app_nil_r, N.eqb_refl. reflexivity.
Qed.
Lemma len_tlv tag c : len c < 4294967296 -> len (tlv tag c) <= len c + 6.
Proof.
  intros H. unfold tlv, ber_len, std_len, len. cbn [length]. rewrite app_length.
  destruct (_ <? 128); [cbn [length]; lia|]. destruct (_ <? 256); [cbn [length]; rewrite be_bytes_length; lia|].
  destruct (_ <? 65536); [cbn [length]; rewrite be_bytes_length; lia|]. destruct (_ <? 16777216); cbn [length]; rewrite be_bytes_length; lia.
Qed.
Lemma len_app (a b : bytes) : len (a ++ b) = len a + len b.
Proof. unfold len. rewrite app_length. lia. Qed.

(* ---------- optional components: what is on the wire and what the loop stores ---------- *)
Definition ocomp := (N * N * N * option (bytes * item))%type.         (* tag, component number, decoder kind, content and its value *)
Definition wire1 (c : ocomp) : bytes := let '(tag, _, _, o) := c in match o with Some (b, _) => tlv tag b | None => [] end.
Definition entry1 (c : ocomp) : list (N * item) := let '(_, fld, _, o) := c in match o with Some (_, it) => [(fld, it)] | None => [] end.
Definition wire (l : list ocomp) : bytes := flat_map wire1 l.
Definition entries (l : list ocomp) : list (N * item) := flat_map entry1 l.
Definition comp_ok (tags : list (N * (N * N))) (c : ocomp) : Prop :=
  let '(tag, fld, kind, o) := c in
  assoc_n tag tags = Some (fld, kind) /\
  match o with Some (b, it) => decode_item kind b = Ok it /\ len b < 16777216 + 16 | None => True end.

Lemma wire1_map tag fld kind {A} (o : option A) (f : A -> bytes) (g : A -> item) :
  wire1 (tag, fld, kind, option_map (fun x => (f x, g x)) o) = tlv_opt tag (option_map f o).
Proof. destruct o; reflexivity. Qed.
Lemma wire1_if tag fld kind (c : bool) b it :
  wire1 (tag, fld, kind, if c then Some (b, it) else None) = tlv_opt tag (if c then Some b else None).
Proof. destruct c; reflexivity. Qed.

Lemma parse_wire tags l : Forall (comp_ok tags) l -> entries l <> [] ->
  forall fuel, (length (entries l) <= fuel)%nat -> parse_components fuel tags (wire l) = Ok (entries l).
Proof.
  induction l as [|[[[tag fld] kind] o] l IH]; intros Hok Hne fuel Hf; [contradiction Hne; reflexivity|].
  inversion Hok as [|? ? Hc Hok']; subst. unfold comp_ok in Hc. destruct Hc as [Ht Ho].
  destruct o as [[b it]|].
  - destruct Ho as [Hd Hb]. destruct fuel as [|fuel]; [cbn in Hf; lia|].
    cbn [wire flat_map wire1 entries entry1 app] in Hf |- *. fold (wire l). fold (entries l) in Hf |- *.
    unfold tlv at 1. cbn [parse_components app pop1 bind]. rewrite Ht. unfold ber_len. rewrite <- app_assoc.
    rewrite pop_length_std by lia. cbn [bind]. rewrite cut_app. rewrite Hd. cbn [bind].
    destruct (entries l) as [|e es] eqn:E.
    + (* nothing else on the wire *)
      assert (W : wire l = []).
      { clear -E. induction l as [|[[[t f] k] [[b' i']|]] l IH]; [reflexivity| |]; cbn in E |- *; [discriminate|apply IH; exact E]. }
      rewrite W. reflexivity.
    + assert (W : exists x r, wire l = x :: r).
      { clear -E. induction l as [|[[[t f] k] [[b' i']|]] l IH]; [discriminate| |].
        - cbn. unfold tlv. eauto.
        - cbn in E |- *. apply IH. exact E. }
      destruct W as (x & r & W). rewrite W. rewrite <- W. cbn [length] in Hf.
      rewrite IH; [reflexivity|exact Hok'|first [discriminate | rewrite E; discriminate]|rewrite ?E in *; cbn [length app] in *; lia].
  - cbn [wire flat_map wire1 entries entry1 app] in Hf, Hne |- *. fold (wire l). fold (entries l) in Hf, Hne |- *.
    apply IH; [exact Hok'|exact Hne|exact Hf].
Qed.
Lemma entries_le_wire l : (length (entries l) <= length (wire l))%nat.
Proof.
  induction l as [|[[[t f] k] [[b i]|]] l IH]; [cbn; lia| |].
  - cbn [entries wire flat_map entry1 wire1]. fold (entries l). fold (wire l). rewrite !app_length. unfold tlv. cbn [length]. lia.
  - cbn [entries wire flat_map entry1 wire1 app]. exact IH.
Qed.
Lemma len_wire l : Forall (fun c : ocomp => match snd c with Some (b, _) => len b < 16777216 + 16 | None => True end) l ->
  len (wire l) <= (16777216 + 22) * N.of_nat (length l).
Proof.
  induction 1 as [|[[[t f] k] o] l Hc _ IH]; [cbn; lia|].
  cbn [wire flat_map wire1]. fold (wire l). rewrite len_app. cbn [length snd] in *.
  destruct o as [[b i]|].
  - pose proof (len_tlv t b ltac:(lia)). lia.
  - change (len []) with 0. lia.
Qed.

Lemma lookup_app f l1 l2 : lookup f (l1 ++ l2) = match lookup f l2 with Some x => Some x | None => lookup f l1 end.
Proof.
  unfold lookup. rewrite fold_left_app. generalize (fold_left (fun acc e => if fst e =? f then Some (snd e) else acc) l1 None) as a0.
  induction l2 as [|e l2 IH]; intros a0; cbn [fold_left].
  - reflexivity.
  - rewrite IH. rewrite (IH (if fst e =? f then Some (snd e) else None)).
    destruct (fold_left _ l2 None); [reflexivity|]. destruct (fst e =? f); reflexivity.
Qed.
Fixpoint field_of (f : N) (l : list ocomp) : option item :=
  match l with
  | [] => None
  | (_, fld, _, o) :: r => if fld =? f then option_map snd o else field_of f r
  end.
Definition flds (l : list ocomp) : list N := map (fun c => snd (fst (fst c))) l.
Lemma lookup_absent f l : ~ In f (flds l) -> lookup f (entries l) = None.
Proof.
  induction l as [|[[[t fld] k] o] l IH]; intros H; [reflexivity|].
  cbn [entries flat_map entry1]. fold (entries l). rewrite lookup_app. cbn in H. rewrite IH by tauto.
  destruct o as [[b it]|]; [|reflexivity]. cbn. destruct (N.eqb_spec fld f); [subst; tauto|reflexivity].
Qed.
Lemma lookup_entries f l : NoDup (flds l) -> lookup f (entries l) = field_of f l.
Proof.
  induction l as [|[[[t fld] k] o] l IH]; intros H; [reflexivity|].
  inversion H as [|? ? Hn Hd]; subst.
  cbn [entries flat_map entry1 field_of]. fold (entries l). rewrite lookup_app.
  destruct (N.eqb_spec fld f) as [->|Hne].
  - rewrite lookup_absent by exact Hn. destruct o as [[b it]|]; [|reflexivity]. cbn. rewrite N.eqb_refl. reflexivity.
  - rewrite IH by exact Hd. destruct (field_of f l); [reflexivity|].
    destruct o as [[b it]|]; [|reflexivity]. cbn. destruct (N.eqb_spec fld f); [contradiction|reflexivity].
Qed.

(* the encoder loop over the generated order *)
Lemma encode_components_ok component (order : list (N * N)) (l : list ocomp) :
  Forall2 (fun ot c => let '(tag, fld, _, o) := c in
             ot = (fld, tag) /\ tag < 256 /\ component fld = Ok (option_map fst o) /\
             match o with Some (b, _) => len b < 16777216 + 16 | None => True end) order l ->
  encode_components component order = Ok (wire l).
Proof.
  induction 1 as [|[f t] [[[tag fld] kind] o] order l (E & Ht & Hc & Hb) _ IH]; [reflexivity|].
  injection E as -> ->. cbn [encode_components wire flat_map]. fold (wire l). rewrite Hc. cbn [bind].
  destruct o as [[b it]|]; cbn [option_map fst wire1].
  - rewrite ber_encode_std by lia. cbn [bind]. rewrite IH. reflexivity.
  - cbn [ber_encode bind]. rewrite IH. reflexivity.
Qed.

(* ---------- the component codecs ---------- *)
Lemma small_lt b : small b = true -> len b < 16777216. Proof. unfold small. apply N.ltb_lt. Qed.
Lemma member_in x l : member x l = true -> In x l.
Proof. unfold member. rewrite existsb_exists. intros (y & Hin & Hy). apply N.eqb_eq in Hy. subst. exact Hin. Qed.

Lemma context_codec c :
  context_to_bytes true c = Ok (tlv 6 (oid_context c)) /\ decode_item 1 (tlv 6 (oid_context c)) = Ok (ICtx true c).
Proof. destruct c; split; vm_compute; reflexivity. Qed.
Lemma mechanism_codec m : member m GenEnums.enum_AuthenticationMechanism = true ->
  mechanism_to_bytes m = Ok (oid_mechanism_name m) /\ decode_item 3 (oid_mechanism_name m) = Ok (IMech m).
Proof.
  intros H. apply member_in in H. cbn in H.
  repeat (destruct H as [<-|H]; [split; vm_compute; reflexivity|]). contradiction.
Qed.
Lemma octets_codec tag b : tag < 256 -> len b < 16777216 -> opt_ber tag (Some b) = Ok (Some (tlv tag b)).
Proof. intros Ht Hb. unfold opt_ber. rewrite ber_encode_std by lia. reflexivity. Qed.
Lemma auth_value_decode v : len v < 16777216 -> decode_item 4 (tlv 128 v) = Ok (IAuth v).
Proof. intros H. change (decode_item 4 (tlv 128 v)) with (auth_value_from_bytes (tlv 128 v)). unfold auth_value_from_bytes.
  rewrite ber_decode_tlv by lia. reflexivity. Qed.
Lemma user_information_codec u : is_user_information u = true -> user_ok u = true ->
  user_information_to_bytes u = Ok (user_information u) /\ decode_item 5 (user_information u) = Ok (IUser u).
Proof.
  intros Hk Hu. unfold user_ok in Hu. apply andb_prop in Hu as [Hw Hs]. apply small_lt in Hs.
  pose proof (apdu_encode_std u Hw) as He. pose proof (apdu_decode_std u Hw) as Hd.
  split.
  - unfold user_information_to_bytes, user_information. rewrite He. cbn [bind]. apply ber_encode_std; lia.
  - change (decode_item 5 (user_information u)) with (user_information_from_bytes (user_information u)).
    unfold user_information_from_bytes, user_information. rewrite ber_decode_tlv by lia. cbn [bind N.eqb Pos.eqb negb].
    destruct u; try discriminate Hk; cbn [std_apdu app] in Hd |- *.
    + rewrite disp_14 in Hd. change (assoc_n 14 GenAcse.user_information_map) with (Some 3). cbn [N.eqb Pos.eqb]. rewrite Hd. reflexivity.
    + rewrite disp_1 in Hd. change (assoc_n 1 GenAcse.user_information_map) with (Some 1). cbn [N.eqb Pos.eqb]. rewrite Hd. reflexivity.
    + rewrite disp_8 in Hd. change (assoc_n 8 GenAcse.user_information_map) with (Some 2). cbn [N.eqb Pos.eqb]. rewrite Hd. reflexivity.
    + rewrite disp_33 in Hd. change (assoc_n 33 GenAcse.user_information_map) with (Some 5). cbn [N.eqb Pos.eqb]. rewrite Hd. reflexivity.
    + rewrite disp_40 in Hd. change (assoc_n 40 GenAcse.user_information_map) with (Some 6). cbn [N.eqb Pos.eqb]. rewrite Hd. reflexivity.
Qed.
Lemma is_initiate_request_user u : is_initiate_request u = true -> is_user_information u = true.
Proof. destruct u; try discriminate; reflexivity. Qed.
Lemma octet_string_field_tlv t : len t < 16777216 -> octet_string_field (Some (IRaw (tlv 4 t))) = Ok (Some t).
Proof. intros H. unfold octet_string_field. unfold tlv at 1. cbn [length Nat.eqb]. rewrite ber_decode_tlv by lia. reflexivity. Qed.

(* ---------- AARQ ---------- *)
Definition raw_comp (o : option bytes) : option (bytes * item) := option_map (fun b => (b, IRaw b)) o.
Definition octet_comp (o : option bytes) : option (bytes * item) := option_map (fun t => (tlv 4 t, IRaw (tlv 4 t))) o.
Definition afu_comp (m : option N) : option (bytes * item) := if uses_authentication m then Some ([7; 128], IAfu true) else None.
Definition afu_comp_raw (m : option N) : option (bytes * item) := if uses_authentication m then Some ([7; 128], IRaw [7; 128]) else None.
Definition mech_comp (m : option N) : option (bytes * item) :=
  if uses_authentication m then option_map (fun x => (oid_mechanism_name x, IMech x)) m else None.
Definition value_comp (o : option bytes) : option (bytes * item) := option_map (fun v => (tlv 128 v, IAuth v)) o.
Definition user_comp (u : apdu) : option (bytes * item) := Some (user_information u, IUser u).

Definition aarq_ocomps (a : aarq) : list ocomp :=
  [ (161, 1, 1, Some (tlv 6 (oid_context (q_ciphered a)), ICtx true (q_ciphered a)));
    (162, 2, 0, raw_comp (q_called_ap_title a)); (163, 3, 0, raw_comp (q_called_ae_qual a));
    (164, 4, 0, raw_comp (q_called_ap_inv a)); (165, 5, 0, raw_comp (q_called_ae_inv a));
    (166, 6, 0, octet_comp (q_title a)); (167, 7, 0, octet_comp (q_cert a));
    (168, 8, 0, raw_comp (q_calling_ap_inv a)); (169, 9, 0, raw_comp (q_calling_ae_inv a));
    (138, 10, 2, afu_comp (q_auth a)); (139, 11, 3, mech_comp (q_auth a));
    (172, 12, 4, value_comp (q_value a)); (189, 13, 0, raw_comp (q_impl a));
    (190, 14, 5, user_comp (q_user a)) ].

Lemma wire1_raw tag fld kind o : wire1 (tag, fld, kind, raw_comp o) = tlv_opt tag o.
Proof. destruct o; reflexivity. Qed.
Lemma wire1_octet tag fld kind o : wire1 (tag, fld, kind, octet_comp o) = tlv_opt tag (option_map (tlv 4) o).
Proof. destruct o; reflexivity. Qed.
Lemma wire1_value tag fld kind o : wire1 (tag, fld, kind, value_comp o) = tlv_opt tag (option_map (tlv 128) o).
Proof. destruct o; reflexivity. Qed.
Lemma wire1_afu tag fld kind m : wire1 (tag, fld, kind, afu_comp m) = tlv_opt tag (if uses_authentication m then Some [7; 128] else None).
Proof. unfold afu_comp. destruct (uses_authentication m); reflexivity. Qed.
Lemma wire1_afu_raw tag fld kind m : wire1 (tag, fld, kind, afu_comp_raw m) = tlv_opt tag (if uses_authentication m then Some [7; 128] else None).
Proof. unfold afu_comp_raw. destruct (uses_authentication m); reflexivity. Qed.
Lemma wire1_mech tag fld kind m :
  wire1 (tag, fld, kind, mech_comp m) = tlv_opt tag (if uses_authentication m then option_map oid_mechanism_name m else None).
Proof. unfold mech_comp. destruct (uses_authentication m); [destruct m|]; reflexivity. Qed.

Lemma std_aarq_body_wire a : std_aarq_body a = wire (aarq_ocomps a).
Proof.
  unfold std_aarq_body, aarq_ocomps, wire. cbn [flat_map].
  rewrite !wire1_raw, !wire1_octet, wire1_value, wire1_afu, wire1_mech. cbn [wire1 user_comp tlv_opt]. rewrite app_nil_r. reflexivity.
Qed.

Lemma osmall_lt o b : osmall o = true -> o = Some b -> len b < 16777216.
Proof. intros H ->. apply small_lt. exact H. Qed.
Lemma uses_auth_eq m : uses_authentication m = should_authenticate m.
Proof. destruct m; reflexivity. Qed.

Ltac split_wf H := repeat (apply andb_prop in H; let H' := fresh "W" in destruct H as [H H']).

Lemma raw_comp_len o : osmall o = true -> match raw_comp o with Some (b, _) => len b < 16777216 + 16 | None => True end.
Proof. destruct o as [b|]; cbn [raw_comp option_map osmall]; [intros H; apply small_lt in H; lia|trivial]. Qed.
Lemma octet_comp_len o : osmall o = true -> match octet_comp o with Some (b, _) => len b < 16777216 + 16 | None => True end.
Proof. destruct o as [b|]; cbn [octet_comp option_map osmall]; [intros H; apply small_lt in H; pose proof (len_tlv 4 b ltac:(lia)); lia|trivial]. Qed.
Lemma value_comp_len o : osmall o = true -> match value_comp o with Some (b, _) => len b < 16777216 + 16 | None => True end.
Proof. destruct o as [b|]; cbn [value_comp option_map osmall]; [intros H; apply small_lt in H; pose proof (len_tlv 128 b ltac:(lia)); lia|trivial]. Qed.
Lemma afu_comp_len m : match afu_comp m with Some (b, _) => len b < 16777216 + 16 | None => True end.
Proof. unfold afu_comp. destruct (uses_authentication m); [vm_compute; reflexivity|trivial]. Qed.
Lemma afu_comp_raw_len m : match afu_comp_raw m with Some (b, _) => len b < 16777216 + 16 | None => True end.
Proof. unfold afu_comp_raw. destruct (uses_authentication m); [vm_compute; reflexivity|trivial]. Qed.
Lemma mech_comp_len m : match mech_comp m with Some (b, _) => len b < 16777216 + 16 | None => True end.
Proof. unfold mech_comp. destruct (uses_authentication m); [destruct m|]; cbn [option_map]; trivial. vm_compute. reflexivity. Qed.
Lemma user_comp_len u : user_ok u = true -> match user_comp u with Some (b, _) => len b < 16777216 + 16 | None => True end.
Proof.
  unfold user_ok. intros H. apply andb_prop in H as [_ H]. apply small_lt in H. cbn [user_comp]. unfold user_information.
  pose proof (len_tlv 4 (std_apdu u) ltac:(lia)). lia.
Qed.
Lemma ctx_len c : len (tlv 6 (oid_context c)) < 16777216 + 16.
Proof. destruct c; vm_compute; reflexivity. Qed.

(* what each encoder component produces *)
Lemma comp_raw o : Ok o = Ok (option_map fst (raw_comp o)) :> res (option bytes).
Proof. destruct o; reflexivity. Qed.
Lemma comp_octet o : osmall o = true -> opt_ber 4 o = Ok (option_map fst (octet_comp o)).
Proof. destruct o as [b|]; [|reflexivity]. cbn [osmall]. intros H. apply small_lt in H. rewrite octets_codec by lia. reflexivity. Qed.
Lemma comp_value o : osmall o = true -> opt_ber 128 o = Ok (option_map fst (value_comp o)).
Proof. destruct o as [b|]; [|reflexivity]. cbn [osmall]. intros H. apply small_lt in H. rewrite octets_codec by lia. reflexivity. Qed.
Lemma comp_afu m : Ok (if should_authenticate m then Some [7; 128] else None) = Ok (option_map fst (afu_comp m)) :> res (option bytes).
Proof. unfold afu_comp, uses_authentication, should_authenticate, nz. destruct m as [x|]; [destruct (x =? 0)|]; reflexivity. Qed.
Lemma comp_afu_raw m : Ok (if should_authenticate m then Some [7; 128] else None) = Ok (option_map fst (afu_comp_raw m)) :> res (option bytes).
Proof. unfold afu_comp_raw, uses_authentication, should_authenticate, nz. destruct m as [x|]; [destruct (x =? 0)|]; reflexivity. Qed.
Lemma comp_mech m : mech_ok m = true ->
  (if should_authenticate m then match m with Some x => do b <- mechanism_to_bytes x; Ok (Some b) | None => Ok None end else Ok None)
  = Ok (option_map fst (mech_comp m)).
Proof.
  unfold mech_comp. destruct m as [x|]; [|reflexivity]. cbn [mech_ok should_authenticate uses_authentication]. intros H.
  apply andb_prop in H as [H1 H2]. unfold nz. rewrite H2. destruct (mechanism_codec x H1) as [E _]. rewrite E. reflexivity.
Qed.

Lemma aarq_lens a : wf_aarq a = true ->
  Forall (fun c : ocomp => match snd c with Some (b, _) => len b < 16777216 + 16 | None => True end) (aarq_ocomps a).
Proof.
  intros H. unfold wf_aarq in H. split_wf H. unfold aarq_ocomps.
  repeat (apply Forall_cons; [cbn [snd]|]); [..|apply Forall_nil];
    first [apply ctx_len | apply raw_comp_len; assumption | apply octet_comp_len; assumption | apply value_comp_len; assumption
          | apply afu_comp_len | apply mech_comp_len | apply user_comp_len; assumption].
Qed.

Theorem aarq_encode_std a : wf_aarq a = true -> aarq_to_bytes a = Ok (std_aarq a).
Proof.
  intros Hwf. pose proof Hwf as H. unfold wf_aarq in H. split_wf H.
  unfold aarq_to_bytes. rewrite H. cbn [negb].
  assert (E : encode_components (aarq_component a) GenAcse.aarq_encode_order = Ok (wire (aarq_ocomps a))).
  { apply encode_components_ok. unfold GenAcse.aarq_encode_order, aarq_ocomps.
    repeat (apply Forall2_cons; [split; [reflexivity|]; split; [lia|]; unfold aarq_component; cbn [N.eqb Pos.eqb]|]); [..|apply Forall2_nil].
    - destruct (context_codec (q_ciphered a)) as [E _]. rewrite E. split; [reflexivity|apply ctx_len].
    - split; [apply comp_raw|apply raw_comp_len; assumption].
    - split; [apply comp_raw|apply raw_comp_len; assumption].
    - split; [apply comp_raw|apply raw_comp_len; assumption].
    - split; [apply comp_raw|apply raw_comp_len; assumption].
    - split; [apply comp_octet; assumption|apply octet_comp_len; assumption].
    - split; [apply comp_octet; assumption|apply octet_comp_len; assumption].
    - split; [apply comp_raw|apply raw_comp_len; assumption].
    - split; [apply comp_raw|apply raw_comp_len; assumption].
    - split; [apply comp_afu|apply afu_comp_len].
    - split; [apply comp_mech; assumption|apply mech_comp_len].
    - split; [apply comp_value; assumption|apply value_comp_len; assumption].
    - split; [apply comp_raw|apply raw_comp_len; assumption].
    - destruct (user_information_codec (q_user a) (is_initiate_request_user _ H)) as [E _]; [assumption|]. rewrite E.
      split; [reflexivity|apply user_comp_len; assumption]. }
  rewrite E. cbn [bind]. unfold std_aarq. rewrite std_aarq_body_wire. apply ber_encode_std; [vm_compute; reflexivity|].
  pose proof (len_wire _ (aarq_lens a Hwf)) as L. cbn [length aarq_ocomps] in L. lia.
Qed.

Lemma nodup_check (l : list N) : (fix go (l : list N) : bool := match l with [] => true | x :: r => negb (member x r) && go r end) l = true -> NoDup l.
Proof.
  induction l as [|x l IH]; intros H; [constructor|]. apply andb_prop in H as [H1 H2]. constructor; [|apply IH; exact H2].
  intros Hin. apply negb_true_iff in H1. unfold member in H1. assert (existsb (N.eqb x) l = true); [|congruence].
  apply existsb_exists. exists x. split; [exact Hin|apply N.eqb_refl].
Qed.

(* reading the stored components back *)
Lemma fo_raw o : raw_field (option_map snd (raw_comp o)) = o. Proof. destruct o; reflexivity. Qed.
Lemma fo_octet o : osmall o = true -> octet_string_field (option_map snd (octet_comp o)) = Ok o.
Proof. destruct o as [t|]; [|reflexivity]. cbn [osmall]. intros H. apply small_lt in H. apply octet_string_field_tlv. exact H. Qed.
Lemma fo_value o : match option_map snd (value_comp o) with Some (IAuth p) => Some p | _ => None end = o.
Proof. destruct o; reflexivity. Qed.
Lemma fo_auth m : mech_ok m = true ->
  match option_map snd (afu_comp m), option_map snd (mech_comp m) with Some _, Some (IMech x) => Some x | _, _ => None end
  = if uses_authentication m then m else None.
Proof. unfold afu_comp, mech_comp. destruct (uses_authentication m); [destruct m|]; reflexivity. Qed.

Ltac raw_case f := match goal with W : osmall f = true |- _ => pose proof (raw_comp_len _ W) end; destruct f; cbn in *; [split; [reflexivity|assumption]|trivial].
Ltac octet_case f := match goal with W : osmall f = true |- _ => pose proof (octet_comp_len _ W) end; destruct f; cbn [octet_comp option_map] in *; [split; [reflexivity|assumption]|trivial].
Lemma aarq_comps_ok a : wf_aarq a = true -> Forall (comp_ok GenAcse.aarq_parse_tags) (aarq_ocomps a).
Proof.
  intros H. unfold wf_aarq in H. split_wf H. unfold aarq_ocomps.
  repeat (apply Forall_cons; [unfold comp_ok; split; [reflexivity|]|]); [..|apply Forall_nil].
  - destruct (context_codec (q_ciphered a)) as [_ E]. split; [exact E|apply ctx_len].
  - raw_case (q_called_ap_title a).
  - raw_case (q_called_ae_qual a).
  - raw_case (q_called_ap_inv a).
  - raw_case (q_called_ae_inv a).
  - octet_case (q_title a).
  - octet_case (q_cert a).
  - raw_case (q_calling_ap_inv a).
  - raw_case (q_calling_ae_inv a).
  - unfold afu_comp. destruct (uses_authentication (q_auth a)); [split; vm_compute; reflexivity|trivial].
  - pose proof (mech_comp_len (q_auth a)) as L. unfold mech_comp in *. destruct (uses_authentication (q_auth a)) eqn:U; [|trivial].
    destruct (q_auth a) as [x|]; [|discriminate]. cbn [option_map mech_ok] in *. match goal with W : _ && _ = true |- _ => apply andb_prop in W as [M _] end.
    destruct (mechanism_codec x M) as [_ E]. split; [exact E|exact L].
  - match goal with W : osmall (q_value a) = true |- _ => pose proof (value_comp_len _ W) as L; destruct (q_value a) as [v|]; cbn [value_comp option_map osmall] in *; [|trivial];
      apply small_lt in W; split; [apply auth_value_decode; exact W|exact L] end.
  - raw_case (q_impl a).
  - destruct (user_information_codec (q_user a) (is_initiate_request_user _ H)) as [_ E]; [assumption|].
    split; [exact E|apply user_comp_len; assumption].
Qed.

Theorem aarq_decode_std a : wf_aarq a = true -> aarq_from_bytes (std_aarq a) = Ok (normal_aarq a).
Proof.
  intros Hwf. pose proof Hwf as H. unfold wf_aarq in H. split_wf H.
  pose proof (len_wire _ (aarq_lens a Hwf)) as L. cbn [length aarq_ocomps] in L.
  unfold aarq_from_bytes, std_aarq. rewrite std_aarq_body_wire. change GenAcse.aarq_tag with 96.
  rewrite envelope_tlv by lia. cbn [bind].
  rewrite parse_wire; [|apply aarq_comps_ok; exact Hwf|discriminate|pose proof (entries_le_wire (aarq_ocomps a)); lia].
  cbn [bind].
  assert (ND : NoDup (flds (aarq_ocomps a))) by (apply nodup_check; vm_compute; reflexivity).
  rewrite !(lookup_entries _ _ ND). cbn [field_of aarq_ocomps N.eqb Pos.eqb option_map snd is_some negb user_comp].
  rewrite !fo_raw, !fo_octet, fo_value, fo_auth by assumption. cbn [bind]. rewrite H. cbn [negb].
  reflexivity.
Qed.

(* ---------- AARE ---------- *)
Definition opt_user_comp (o : option apdu) : option (bytes * item) := option_map (fun u => (user_information u, IUser u)) o.
Definition aare_ocomps (a : aare) : list ocomp :=
  [ (161, 1, 1, Some (tlv 6 (oid_context (e_ciphered a)), ICtx true (e_ciphered a)));
    (162, 2, 6, Some (tlv 2 [e_result a], IInt (e_result a)));
    (163, 3, 7, Some (tlv (if fst (e_diag a) then 162 else 161) (tlv 2 [snd (e_diag a)]), IDiag (fst (e_diag a)) (snd (e_diag a))));
    (164, 4, 0, octet_comp (e_title a)); (165, 5, 0, octet_comp (e_cert a));
    (166, 6, 0, raw_comp (e_ap_inv a)); (167, 7, 0, raw_comp (e_ae_inv a));
    (136, 8, 0, afu_comp_raw (e_auth a)); (137, 9, 3, mech_comp (e_auth a));
    (170, 10, 4, value_comp (e_value a)); (189, 11, 0, raw_comp (e_impl a));
    (190, 12, 5, opt_user_comp (e_user a)) ].
Lemma wire1_user tag fld kind o : wire1 (tag, fld, kind, opt_user_comp o) = tlv_opt tag (option_map user_information o).
Proof. destruct o; reflexivity. Qed.
Lemma std_aare_body_wire a : std_aare_body a = wire (aare_ocomps a).
Proof.
  unfold std_aare_body, aare_ocomps, wire. cbn [flat_map].
  rewrite !wire1_raw, !wire1_octet, wire1_value, wire1_afu_raw, wire1_mech, wire1_user. cbn [wire1]. rewrite app_nil_r. reflexivity.
Qed.
Lemma ouser_comp_len o : ouser_ok o = true -> match opt_user_comp o with Some (b, _) => len b < 16777216 + 16 | None => True end.
Proof. destruct o as [u|]; cbn [ouser_ok opt_user_comp option_map]; [|trivial]. intros H. apply andb_prop in H as [_ H]. apply (user_comp_len u H). Qed.
Lemma small_literal5 a b c d e : len [a; b; c; d; e] < 16777216 + 16. Proof. vm_compute. reflexivity. Qed.
Lemma result_len r : len (tlv 2 [r]) < 16777216 + 16. Proof. vm_compute. reflexivity. Qed.
Lemma diag_len p v : len (tlv (if p : bool then 162 else 161) (tlv 2 [v])) < 16777216 + 16. Proof. destruct p; vm_compute; reflexivity. Qed.
Lemma diag_bytes p v : tlv (if p : bool then 162 else 161) (tlv 2 [v]) = [if p then 162 else 161; 3; 2; 1; v].
Proof. destruct p; reflexivity. Qed.

Lemma aare_lens a : wf_aare a = true ->
  Forall (fun c : ocomp => match snd c with Some (b, _) => len b < 16777216 + 16 | None => True end) (aare_ocomps a).
Proof.
  intros H. unfold wf_aare in H. split_wf H. unfold aare_ocomps.
  repeat (apply Forall_cons; [cbn [snd]|]); [..|apply Forall_nil];
    first [apply ctx_len | apply result_len | apply diag_len | apply raw_comp_len; assumption | apply octet_comp_len; assumption
          | apply value_comp_len; assumption | apply afu_comp_raw_len | apply mech_comp_len | apply ouser_comp_len; assumption].
Qed.
Lemma result_lt r : member r GenEnums.enum_AssociationResult = true -> r < 128.
Proof. apply member_lt. vm_compute. reflexivity. Qed.
Lemma diag_lt p v : member v (if p : bool then GenEnums.enum_AcseServiceProviderDiagnostics else GenEnums.enum_AcseServiceUserDiagnostics) = true -> v < 128.
Proof. destruct p; apply member_lt; vm_compute; reflexivity. Qed.
Lemma comp_user o : ouser_ok o = true ->
  match o with Some u => do x <- user_information_to_bytes u; Ok (Some x) | None => Ok None end = Ok (option_map fst (opt_user_comp o)).
Proof.
  destruct o as [u|]; [|reflexivity]. cbn [ouser_ok]. intros H. apply andb_prop in H as [H1 H2].
  destruct (user_information_codec u H1 H2) as [E _]. rewrite E. reflexivity.
Qed.

Theorem aare_encode_std a : wf_aare a = true -> aare_to_bytes a = Ok (std_aare a).
Proof.
  intros Hwf. pose proof Hwf as H. unfold wf_aare in H. split_wf H.
  unfold aare_to_bytes.
  assert (E : encode_components (aare_component a) GenAcse.aare_encode_order = Ok (wire (aare_ocomps a))).
  { apply encode_components_ok. unfold GenAcse.aare_encode_order, aare_ocomps.
    repeat (apply Forall2_cons; [split; [reflexivity|]; split; [lia|]; unfold aare_component; cbn [N.eqb Pos.eqb]|]); [..|apply Forall2_nil].
    - destruct (context_codec (e_ciphered a)) as [E _]. rewrite E. split; [reflexivity|apply ctx_len].
    - pose proof (result_lt _ H). rewrite tb1 by lia. cbn [bind]. rewrite octets_codec by (try lia; vm_compute; reflexivity).
      split; [reflexivity|apply result_len].
    - match goal with W : member (snd (e_diag a)) _ = true |- _ => pose proof (diag_lt _ _ W) as Hv end.
      unfold diagnostics_to_bytes. replace (snd (e_diag a) <? 128) with true by (symmetry; apply N.ltb_lt; exact Hv). cbn [bind option_map fst].
      rewrite diag_bytes. split; [reflexivity|apply small_literal5].
    - split; [apply comp_octet; assumption|apply octet_comp_len; assumption].
    - split; [apply comp_octet; assumption|apply octet_comp_len; assumption].
    - split; [apply comp_raw|apply raw_comp_len; assumption].
    - split; [apply comp_raw|apply raw_comp_len; assumption].
    - split; [apply comp_afu_raw|apply afu_comp_raw_len].
    - split; [apply comp_mech; assumption|apply mech_comp_len].
    - split; [apply comp_value; assumption|apply value_comp_len; assumption].
    - split; [apply comp_raw|apply raw_comp_len; assumption].
    - split; [apply comp_user; assumption|apply ouser_comp_len; assumption]. }
  rewrite E. cbn [bind]. unfold std_aare. rewrite std_aare_body_wire. apply ber_encode_std; [vm_compute; reflexivity|].
  pose proof (len_wire _ (aare_lens a Hwf)) as L. cbn [length aare_ocomps] in L. lia.
Qed.

Lemma aare_comps_ok a : wf_aare a = true -> Forall (comp_ok GenAcse.aare_parse_tags) (aare_ocomps a).
Proof.
  intros H. unfold wf_aare in H. split_wf H. unfold aare_ocomps.
  repeat (apply Forall_cons; [unfold comp_ok; split; [reflexivity|]|]); [..|apply Forall_nil].
  - destruct (context_codec (e_ciphered a)) as [_ E]. split; [exact E|apply ctx_len].
  - split; [|apply result_len]. change (decode_item 6 ?x) with (asn1_integer_from_bytes x). unfold asn1_integer_from_bytes.
    rewrite ber_decode_tlv by (vm_compute; reflexivity). cbn [bind N.eqb Pos.eqb negb].
    change (be_val [?x]) with (0 * 256 + x). rewrite N.mul_0_l, N.add_0_l. reflexivity.
  - match goal with W : member (snd (e_diag a)) _ = true |- _ => pose proof (diag_lt _ _ W) as Hv end.
    split; [|apply diag_len]. rewrite diag_bytes. change (decode_item 7 ?x) with (diagnostics_from_bytes x). unfold diagnostics_from_bytes.
    replace (snd (e_diag a) <? 128) with true by (symmetry; apply N.ltb_lt; exact Hv). cbn [negb]. destruct (fst (e_diag a)); reflexivity.
  - octet_case (e_title a).
  - octet_case (e_cert a).
  - raw_case (e_ap_inv a).
  - raw_case (e_ae_inv a).
  - unfold afu_comp_raw. destruct (uses_authentication (e_auth a)); [split; vm_compute; reflexivity|trivial].
  - pose proof (mech_comp_len (e_auth a)) as L. unfold mech_comp in *. destruct (uses_authentication (e_auth a)) eqn:U; [|trivial].
    destruct (e_auth a) as [x|]; [|discriminate]. cbn [option_map mech_ok] in *.
    match goal with W : _ && _ = true |- _ => apply andb_prop in W as [M _] end.
    destruct (mechanism_codec x M) as [_ E]. split; [exact E|exact L].
  - match goal with W : osmall (e_value a) = true |- _ => pose proof (value_comp_len _ W) as L; destruct (e_value a) as [v|]; cbn [value_comp option_map osmall] in *; [|trivial];
      apply small_lt in W; split; [apply auth_value_decode; exact W|exact L] end.
  - raw_case (e_impl a).
  - assert (Wu : ouser_ok (e_user a) = true) by assumption. pose proof (ouser_comp_len _ Wu) as L.
    destruct (e_user a) as [u|]; cbn [opt_user_comp option_map ouser_ok] in Wu, L |- *; [|trivial].
    apply andb_prop in Wu as [Wu1 Wu2]. destruct (user_information_codec u Wu1 Wu2) as [_ E]. split; [exact E|exact L].
Qed.

Lemma fo_auth_raw m : mech_ok m = true ->
  match option_map snd (mech_comp m) with
  | Some (IMech x) => if match option_map snd (afu_comp_raw m) with Some (IRaw raw) => negb (Nat.eqb (length raw) 0) | _ => false end then Some x else None
  | _ => None end = normal_auth m.
Proof. unfold afu_comp_raw, mech_comp, normal_auth. destruct (uses_authentication m); [destruct m|]; reflexivity. Qed.
Lemma fo_user o : match option_map snd (opt_user_comp o) with Some (IUser u) => Some u | _ => None end = o.
Proof. destruct o; reflexivity. Qed.

Theorem aare_decode_std a : wf_aare a = true -> aare_from_bytes (std_aare a) = Ok (normal_aare a).
Proof.
  intros Hwf. pose proof Hwf as H. unfold wf_aare in H. split_wf H.
  pose proof (len_wire _ (aare_lens a Hwf)) as L. cbn [length aare_ocomps] in L.
  unfold aare_from_bytes, std_aare. rewrite std_aare_body_wire. change GenAcse.aare_tag with 97.
  rewrite envelope_tlv by lia. cbn [bind].
  rewrite parse_wire; [|apply aare_comps_ok; exact Hwf|discriminate|pose proof (entries_le_wire (aare_ocomps a)); lia].
  cbn [bind].
  assert (ND : NoDup (flds (aare_ocomps a))) by (apply nodup_check; vm_compute; reflexivity).
  rewrite !(lookup_entries _ _ ND). cbn [field_of aare_ocomps N.eqb Pos.eqb option_map snd is_some negb].
  rewrite !member_enum by assumption. cbn [bind].
  rewrite !fo_raw, !fo_octet, fo_value, fo_auth_raw, fo_user by assumption. cbn [bind].
  unfold normal_aare. destruct (e_diag a). reflexivity.
Qed.

(* ---------- RLRQ / RLRE ---------- *)
Definition reason_comp (o : option N) : option (bytes * item) := option_map (fun r => ([r], IReason r)) o.
Definition release_ocomps (kind : N) (a : release) : list ocomp :=
  [ (128, 0, kind, reason_comp (r_reason a)); (190, 1, 5, opt_user_comp (r_user a)) ].
Lemma std_release_wire tag kind a : std_release tag a = tlv tag (wire (release_ocomps kind a)).
Proof. unfold std_release, release_ocomps, wire. cbn [flat_map]. rewrite wire1_user, app_nil_r. destruct (r_reason a); reflexivity. Qed.
Lemma release_lens kind reasons a : wf_release reasons a = true ->
  Forall (fun c : ocomp => match snd c with Some (b, _) => len b < 16777216 + 16 | None => True end) (release_ocomps kind a).
Proof.
  intros H. unfold wf_release in H. apply andb_prop in H as [H1 H2]. unfold release_ocomps.
  repeat (apply Forall_cons; [cbn [snd]|]); [..|apply Forall_nil].
  - destruct (r_reason a); cbn; [vm_compute; reflexivity|trivial].
  - apply ouser_comp_len. exact H2.
Qed.

Section Release.
  Variables (tag kind : N) (reasons : list N) (order : list (N * N)) (tags : list (N * (N * N))).
  Hypothesis Htag : tag < 256.
  Hypothesis Horder : order = [(0, 128); (1, 190)].
  Hypothesis Htags : assoc_n 128 tags = Some (0, kind) /\ assoc_n 190 tags = Some (1, 5).
  Hypothesis Hreasons : forallb (fun r => r <? 256) reasons = true.
  Hypothesis Hkind : forall r, member r reasons = true -> decode_item kind [r] = Ok (IReason r).

  Lemma release_encode_std a : wf_release reasons a = true -> release_to_bytes tag order a = Ok (std_release tag a).
  Proof.
    intros Hwf. pose proof Hwf as H. unfold wf_release in H. apply andb_prop in H as [H1 H2].
    unfold release_to_bytes.
    assert (E : encode_components (release_component a) order = Ok (wire (release_ocomps kind a))).
    { apply encode_components_ok. rewrite Horder. unfold release_ocomps.
      repeat (apply Forall2_cons; [split; [reflexivity|]; split; [lia|]; unfold release_component; cbn [N.eqb Pos.eqb]|]); [..|apply Forall2_nil].
      - destruct (r_reason a) as [r|]; cbn [reason_comp option_map fst]; [|split; [reflexivity|trivial]].
        rewrite tb1 by (eapply member_lt; eassumption). split; [reflexivity|vm_compute; reflexivity].
      - split; [apply comp_user; assumption|apply ouser_comp_len; assumption]. }
    rewrite E. cbn [bind]. rewrite (std_release_wire tag kind). apply ber_encode_std; [exact Htag|].
    pose proof (len_wire _ (release_lens kind reasons a Hwf)) as L. cbn [length release_ocomps] in L. lia.
  Qed.

  Lemma release_decode_std a : wf_release reasons a = true -> release_from_bytes tag tags (std_release tag a) = Ok a.
  Proof.
    intros Hwf. pose proof Hwf as H. unfold wf_release in H. apply andb_prop in H as [H1 H2].
    pose proof (len_wire _ (release_lens kind reasons a Hwf)) as L. cbn [length release_ocomps] in L.
    unfold release_from_bytes. rewrite (std_release_wire tag kind). rewrite envelope_tlv by lia. cbn [bind].
    assert (OK : Forall (comp_ok tags) (release_ocomps kind a)).
    { destruct Htags as [T1 T2]. unfold release_ocomps.
      repeat (apply Forall_cons; [unfold comp_ok; split; [assumption|]|]); [..|apply Forall_nil].
      - destruct (r_reason a) as [r|]; cbn [reason_comp option_map]; [|trivial]. split; [apply Hkind; exact H1|vm_compute; reflexivity].
      - pose proof (ouser_comp_len _ H2) as Lu.
        destruct (r_user a) as [u|]; cbn [opt_user_comp option_map ouser_ok] in H2, Lu |- *; [|trivial].
        apply andb_prop in H2 as [Wu1 Wu2]. destruct (user_information_codec u Wu1 Wu2) as [_ E]. split; [exact E|exact Lu]. }
    assert (ND : NoDup (flds (release_ocomps kind a))) by (apply nodup_check; vm_compute; reflexivity).
    assert (F0 : field_of 0 (release_ocomps kind a) = option_map IReason (r_reason a)) by (cbn; destruct (r_reason a); reflexivity).
    assert (F1 : field_of 1 (release_ocomps kind a) = option_map IUser (r_user a)) by (cbn; destruct (r_user a); reflexivity).
    assert (Fin : forall l, l = entries (release_ocomps kind a) ->
              Ok {| r_reason := match lookup 0 l with Some (IReason r) => Some r | _ => None end;
                    r_user := match lookup 1 l with Some (IUser u) => Some u | _ => None end |} = Ok a).
    { intros l ->. rewrite !(lookup_entries _ _ ND), F0, F1. destruct a as [[r|] [u|]]; reflexivity. }
    destruct (entries (release_ocomps kind a)) as [|e es] eqn:E.
    - assert (W : wire (release_ocomps kind a) = []).
      { revert E. unfold release_ocomps. destruct (r_reason a), (r_user a); cbn; try discriminate. reflexivity. }
      rewrite W. cbn [bind]. apply Fin. reflexivity.
    - assert (W : exists x r, wire (release_ocomps kind a) = x :: r).
      { revert E. unfold release_ocomps. destruct (r_reason a), (r_user a); cbn; try discriminate; unfold tlv; eauto. }
      destruct W as (x & r & W). rewrite W. rewrite <- W.
      rewrite parse_wire; [|exact OK|rewrite E; discriminate|pose proof (entries_le_wire (release_ocomps kind a)); lia].
      cbn [bind]. apply Fin. exact E.
  Qed.
End Release.

Lemma reason_decode kind reasons : (kind = 8 /\ reasons = GenEnums.enum_ReleaseRequestReason) \/ (kind = 9 /\ reasons = GenEnums.enum_ReleaseResponseReason) ->
  forall r, member r reasons = true -> decode_item kind [r] = Ok (IReason r).
Proof.
  intros [[-> ->]|[-> ->]] r H; cbn [decode_item N.eqb Pos.eqb]; change (be_val [r]) with (0 * 256 + r);
    rewrite N.mul_0_l, N.add_0_l, member_enum by exact H; reflexivity.
Qed.
Theorem rlrq_encode_std a : wf_release GenEnums.enum_ReleaseRequestReason a = true -> rlrq_to_bytes a = Ok (std_release 98 a).
Proof. apply (release_encode_std 98 8); [vm_compute; reflexivity|reflexivity|vm_compute; reflexivity|apply reason_decode; left; split; reflexivity]. Qed.
Theorem rlre_encode_std a : wf_release GenEnums.enum_ReleaseResponseReason a = true -> rlre_to_bytes a = Ok (std_release 99 a).
Proof. apply (release_encode_std 99 9); [vm_compute; reflexivity|reflexivity|vm_compute; reflexivity|apply reason_decode; right; split; reflexivity]. Qed.
Theorem rlrq_decode_std a : wf_release GenEnums.enum_ReleaseRequestReason a = true -> rlrq_from_bytes (std_release 98 a) = Ok a.
Proof. apply (release_decode_std 98 8); [vm_compute; reflexivity|split; reflexivity|apply reason_decode; left; split; reflexivity]. Qed.
Theorem rlre_decode_std a : wf_release GenEnums.enum_ReleaseResponseReason a = true -> rlre_from_bytes (std_release 99 a) = Ok a.
Proof. apply (release_decode_std 99 9); [vm_compute; reflexivity|split; reflexivity|apply reason_decode; right; split; reflexivity]. Qed.

(* ---------- the standard bytes are the encoding of a tree: well-formed nesting at every level ---------- *)
Lemma encode_constr tag ch : encode_ber (Constr tag ch) = tlv tag (encode_bers ch).
Proof.
  reflexivity.
Qed.
Lemma encode_bers_app a b : encode_bers (a ++ b) = encode_bers a ++ encode_bers b.
Proof. apply flat_map_app. Qed.
Lemma encode_opt {A} (f : A -> ber) (g : A -> bytes) tag o : (forall x, encode_ber (f x) = tlv tag (g x)) ->
  encode_bers (opt_node f o) = tlv_opt tag (option_map g o).
Proof. intros H. destruct o as [x|]; [|reflexivity]. cbn [opt_node encode_bers flat_map option_map tlv_opt]. rewrite H, app_nil_r. reflexivity. Qed.
Lemma encode_auth_nodes req mech m :
  encode_bers (auth_nodes req mech m) =
  tlv_opt req (if uses_authentication m then Some [7; 128] else None) ++
  tlv_opt mech (if uses_authentication m then option_map oid_mechanism_name m else None).
Proof. unfold auth_nodes. destruct (uses_authentication m); [|reflexivity]. destruct m; cbn; rewrite ?app_nil_r; reflexivity. Qed.
Lemma option_map_id {A} (o : option A) : option_map (fun x => x) o = o. Proof. destruct o; reflexivity. Qed.

Theorem std_aarq_is_tree a : std_aarq a = encode_ber (aarq_tree a).
Proof.
  unfold aarq_tree. rewrite encode_constr, !encode_bers_app. unfold std_aarq, std_aarq_body. f_equal.
  rewrite (encode_opt (Prim 162) (fun x => x) 162), (encode_opt (Prim 163) (fun x => x) 163), (encode_opt (Prim 164) (fun x => x) 164),
    (encode_opt (Prim 165) (fun x => x) 165), (encode_opt (Prim 168) (fun x => x) 168), (encode_opt (Prim 169) (fun x => x) 169),
    (encode_opt (Prim 189) (fun x => x) 189) by reflexivity.
  rewrite (encode_opt _ (tlv 4) 166), (encode_opt _ (tlv 4) 167), (encode_opt _ (tlv 128) 172) by (intros x; rewrite encode_constr; cbn; rewrite app_nil_r; reflexivity).
  rewrite !option_map_id, encode_auth_nodes. cbn [encode_bers flat_map]. rewrite !encode_constr. cbn [encode_bers flat_map encode_ber].
  rewrite !app_nil_r, <- !app_assoc. reflexivity.
Qed.
Theorem std_aare_is_tree a : std_aare a = encode_ber (aare_tree a).
Proof.
  unfold aare_tree. rewrite encode_constr, !encode_bers_app. unfold std_aare, std_aare_body. f_equal.
  rewrite (encode_opt (Prim 166) (fun x => x) 166), (encode_opt (Prim 167) (fun x => x) 167), (encode_opt (Prim 189) (fun x => x) 189) by reflexivity.
  rewrite (encode_opt _ (tlv 4) 164), (encode_opt _ (tlv 4) 165), (encode_opt _ (tlv 128) 170), (encode_opt _ user_information 190)
    by (intros x; rewrite encode_constr; cbn; rewrite app_nil_r; reflexivity).
  rewrite !option_map_id, encode_auth_nodes. cbn [encode_bers flat_map]. rewrite !encode_constr. cbn [encode_bers flat_map encode_ber].
  rewrite ?encode_constr. cbn [encode_bers flat_map encode_ber].
  rewrite ?encode_constr. cbn [encode_bers flat_map encode_ber]. rewrite !app_nil_r, <- !app_assoc. reflexivity.
Qed.
Theorem std_release_is_tree tag a : std_release tag a = encode_ber (release_tree tag a).
Proof.
  unfold release_tree. rewrite encode_constr, !encode_bers_app. unfold std_release. f_equal.
  rewrite (encode_opt _ (fun r => [r]) 128) by reflexivity.
  rewrite (encode_opt _ user_information 190) by (intros x; rewrite encode_constr; cbn; rewrite app_nil_r; reflexivity).
  reflexivity.
Qed.

(* ---------- authentication components present exactly when a mechanism other than none is selected ---------- *)
Lemma in_opt_node {A} t (f : A -> ber) (o : option A) g : (forall x, match f x with Prim k _ | Constr k _ => k end = g) ->
  In t (map (fun c => match c with Prim k _ | Constr k _ => k end) (opt_node f o)) <-> (t = g /\ o <> None).
Proof.
  intros H. destruct o as [x|]; cbn [opt_node map In].
  - rewrite H. split; [intros [<-|[]]; split; [reflexivity|discriminate] | intros [-> _]; left; reflexivity].
  - split; [intros [] | intros [_ K]; apply K; reflexivity].
Qed.
Theorem aarq_authentication_components a :
  (In 138 (child_tags (aarq_tree a)) <-> uses_authentication (q_auth a) = true) /\
  (In 139 (child_tags (aarq_tree a)) <-> uses_authentication (q_auth a) = true) /\
  (In 172 (child_tags (aarq_tree a)) <-> q_value a <> None).
Proof.
  unfold aarq_tree, child_tags. rewrite !map_app. cbn [map].
  repeat split; intros K.
  all: repeat (rewrite in_app_iff in K || rewrite in_app_iff).
  all: rewrite ?(in_opt_node _ (Prim 162) _ 162), ?(in_opt_node _ (Prim 163) _ 163), ?(in_opt_node _ (Prim 164) _ 164), ?(in_opt_node _ (Prim 165) _ 165),
         ?(in_opt_node _ (Prim 168) _ 168), ?(in_opt_node _ (Prim 169) _ 169), ?(in_opt_node _ (Prim 189) _ 189),
         ?(in_opt_node _ (fun t => Constr 166 [Prim 4 t]) _ 166), ?(in_opt_node _ (fun t => Constr 167 [Prim 4 t]) _ 167),
         ?(in_opt_node _ (fun v => Constr 172 [Prim 128 v]) _ 172) in * by reflexivity.
  all: unfold auth_nodes in *; destruct (uses_authentication (q_auth a)) eqn:U; try (destruct (q_auth a) as [m|]; [|discriminate U]); cbn in *;
       try solve [intuition (try discriminate; try congruence)].
Qed.
Theorem aare_authentication_components a :
  (In 136 (child_tags (aare_tree a)) <-> uses_authentication (e_auth a) = true) /\
  (In 137 (child_tags (aare_tree a)) <-> uses_authentication (e_auth a) = true) /\
  (In 170 (child_tags (aare_tree a)) <-> e_value a <> None).
Proof.
  unfold aare_tree, child_tags. rewrite !map_app. cbn [map].
  repeat split; intros K.
  all: repeat (rewrite in_app_iff in K || rewrite in_app_iff).
  all: rewrite ?(in_opt_node _ (Prim 166) _ 166), ?(in_opt_node _ (Prim 167) _ 167), ?(in_opt_node _ (Prim 189) _ 189),
         ?(in_opt_node _ (fun t => Constr 164 [Prim 4 t]) _ 164), ?(in_opt_node _ (fun t => Constr 165 [Prim 4 t]) _ 165),
         ?(in_opt_node _ (fun v => Constr 170 [Prim 128 v]) _ 170), ?(in_opt_node _ (fun u => Constr 190 [Prim 4 (std_apdu u)]) _ 190) in * by reflexivity.
  all: unfold auth_nodes in *; destruct (uses_authentication (e_auth a)) eqn:U; try (destruct (e_auth a) as [m|]; [|discriminate U]);
       destruct (fst (e_diag a)); cbn in *; try solve [intuition (try discriminate; try congruence)].
Qed.

(* ---------- the property ---------- *)
Theorem aarq_codec a : wf_aarq a = true ->
  aarq_to_bytes a = Ok (std_aarq a) /\ std_aarq a = encode_ber (aarq_tree a) /\ aarq_from_bytes (std_aarq a) = Ok (normal_aarq a).
Proof. intros H. split; [apply aarq_encode_std; exact H|]. split; [apply std_aarq_is_tree|apply aarq_decode_std; exact H]. Qed.
Theorem aare_codec a : wf_aare a = true ->
  aare_to_bytes a = Ok (std_aare a) /\ std_aare a = encode_ber (aare_tree a) /\ aare_from_bytes (std_aare a) = Ok (normal_aare a).
Proof. intros H. split; [apply aare_encode_std; exact H|]. split; [apply std_aare_is_tree|apply aare_decode_std; exact H]. Qed.
Theorem rlrq_codec a : wf_release GenEnums.enum_ReleaseRequestReason a = true ->
  rlrq_to_bytes a = Ok (std_release 98 a) /\ std_release 98 a = encode_ber (release_tree 98 a) /\ rlrq_from_bytes (std_release 98 a) = Ok a.
Proof. intros H. split; [apply rlrq_encode_std; exact H|]. split; [apply std_release_is_tree|apply rlrq_decode_std; exact H]. Qed.
Theorem rlre_codec a : wf_release GenEnums.enum_ReleaseResponseReason a = true ->
  rlre_to_bytes a = Ok (std_release 99 a) /\ std_release 99 a = encode_ber (release_tree 99 a) /\ rlre_from_bytes (std_release 99 a) = Ok a.
Proof. intros H. split; [apply rlrq_encode_std || apply rlre_encode_std; exact H|]. split; [apply std_release_is_tree|apply rlre_decode_std; exact H]. Qed.

(* different values (up to None == NONE) have different encodings *)
Theorem aarq_encoding_injective a b : wf_aarq a = true -> wf_aarq b = true -> aarq_to_bytes a = aarq_to_bytes b -> normal_aarq a = normal_aarq b.
Proof.
  intros Ha Hb E. rewrite (aarq_encode_std a Ha), (aarq_encode_std b Hb) in E.
  assert (E' : std_aarq a = std_aarq b) by congruence.
  pose proof (aarq_decode_std a Ha) as Da. rewrite E', (aarq_decode_std b Hb) in Da. congruence.
Qed.
Theorem aare_encoding_injective a b : wf_aare a = true -> wf_aare b = true -> aare_to_bytes a = aare_to_bytes b -> normal_aare a = normal_aare b.
Proof.
  intros Ha Hb E. rewrite (aare_encode_std a Ha), (aare_encode_std b Hb) in E.
  assert (E' : std_aare a = std_aare b) by congruence.
  pose proof (aare_decode_std a Ha) as Da. rewrite E', (aare_decode_std b Hb) in Da. congruence.
Qed.

(* with the value present exactly when a mechanism is selected (what DlmsConnection builds), all three components follow the mechanism *)
Corollary aarq_components_follow_mechanism a : (q_value a <> None <-> uses_authentication (q_auth a) = true) ->
  forall t, In t [138; 139; 172] -> (In t (child_tags (aarq_tree a)) <-> uses_authentication (q_auth a) = true).
Proof.
  intros Hc t Ht. destruct (aarq_authentication_components a) as (A & B & C).
  cbn in Ht. destruct Ht as [<-|[<-|[<-|[]]]]; [exact A|exact B|]. rewrite C. exact Hc.
Qed.
(* the statement fails for the inconsistent combinations: known finding F02c *)
Theorem authentication_value_without_mechanism_refuted :
  exists a, wf_aarq a = true /\ uses_authentication (q_auth a) = false /\ In 172 (child_tags (aarq_tree a)).
Proof.
  exists {| q_user := InitiateRequest ex_conf (Some 0) 1200 6 true None; q_title := None; q_cert := None; q_auth := None; q_ciphered := false;
            q_value := Some [120]; q_calling_ae_inv := None; q_called_ap_title := None; q_called_ae_qual := None; q_called_ap_inv := None;
            q_called_ae_inv := None; q_calling_ap_inv := None; q_impl := None |}.
  split; [vm_compute; reflexivity|]. split; [reflexivity|]. vm_compute. tauto.
Qed.

(* non-vacuity: values in the domain, with lengths across the 127/128 boundary *)
Definition ex_aarq : aarq :=
  {| q_user := GlobalCipherInitiateRequest ex_sc 7 (repeat 171 140); q_title := Some [77; 77; 77; 0; 0; 188; 97; 78]; q_cert := Some (repeat 5 64);
     q_auth := Some 5; q_ciphered := true; q_value := Some (repeat 9 64); q_calling_ae_inv := Some [1]; q_called_ap_title := None;
     q_called_ae_qual := Some []; q_called_ap_inv := None; q_called_ae_inv := None; q_calling_ap_inv := None; q_impl := Some [1; 2; 3] |}.
Definition ex_aare : aare :=
  {| e_result := 0; e_diag := (false, 14); e_ciphered := true; e_auth := Some 5; e_title := Some [77; 77; 77; 0; 0; 0; 0; 1]; e_cert := None;
     e_value := Some (repeat 3 64); e_user := Some (GlobalCipherInitiateResponse ex_sc 9 (repeat 18 130)); e_impl := None; e_ap_inv := None; e_ae_inv := Some [] |}.
Definition ex_rlrq : release := {| r_reason := Some 0; r_user := Some (InitiateRequest ex_conf (Some 0) 1200 6 true None) |}.
Lemma ex_acse_wf : wf_aarq ex_aarq = true /\ wf_aare ex_aare = true /\ wf_release GenEnums.enum_ReleaseRequestReason ex_rlrq = true /\
  wf_release GenEnums.enum_ReleaseResponseReason {| r_reason := None; r_user := None |} = true.
Proof. repeat split; vm_compute; reflexivity. Qed.
Lemma ex_acse_long : 255 < len (std_aarq ex_aarq) /\ 127 < len (std_aare ex_aare).
Proof. split; vm_compute; reflexivity. Qed.
