(* C05: the library's protection is AES-GCM with nonce = title || counter, AAD = SC || AK, 12-byte tag;
   removing protection inverts it; nothing is returned without the tag comparison; a changed tag,
   wrong key lengths, wrong title length and short texts are refused.  All statements hold for an
   arbitrary block function with 16-byte output (hence for AES). *)
From Dlms Require Import Base FieldsModel Aes Gcm SecurityModel.

Section PROOFS.
  Variable E : bytes -> bytes -> bytes.
  Hypothesis E_len : forall k b, length (E k b) = 16%nat.

  (* ---------- GCTR is an involution ---------- *)
  Lemma xor_len a : forall k, (length a <= length k)%nat -> length (xor_bytes a k) = length a.
  Proof.
    induction a as [|x a IH]; intros k H; [reflexivity|].
    destruct k as [|y k]; [cbn in H; lia|]. cbn [xor_bytes length] in *. f_equal. apply IH. lia.
  Qed.
  Lemma xor_invol a : forall k, (length a <= length k)%nat -> xor_bytes (xor_bytes a k) k = a.
  Proof.
    induction a as [|x a IH]; intros k H; [destruct k; reflexivity|].
    destruct k as [|y k]; [cbn in H; lia|]. cbn [xor_bytes length] in *.
    rewrite N.lxor_assoc, N.lxor_nilpotent, N.lxor_0_r. f_equal. apply IH. lia.
  Qed.

  Lemma gctr_length key : forall fuel cb data, (length data < fuel)%nat -> length (gctr (E key) fuel cb data) = length data.
  Proof.
    induction fuel as [|f IH]; intros cb data Hf; [lia|]. destruct data as [|d data]; [reflexivity|].
    cbn [gctr]. rewrite app_length. rewrite xor_len by (rewrite E_len, firstn_length; lia).
    rewrite IH by (rewrite skipn_length; cbn [length] in *; lia).
    rewrite firstn_length, skipn_length. lia.
  Qed.

  Lemma gctr_invol key : forall fuel cb data, (length data < fuel)%nat ->
    gctr (E key) fuel cb (gctr (E key) fuel cb data) = data.
  Proof.
    induction fuel as [|f IH]; intros cb data Hf; [lia|].
    destruct data as [|d data]; [reflexivity|].
    cbn [gctr].
    set (blk := firstn 16 (d :: data)).
    assert (Hb : (length blk <= length (E key cb))%nat) by (rewrite E_len; subst blk; rewrite firstn_length; lia).
    assert (Hne : xor_bytes blk (E key cb) <> []).
    { subst blk. cbn [firstn]. destruct (E key cb) eqn:He; [pose proof (E_len key cb) as L; rewrite He in L; discriminate|]. discriminate. }
    destruct (xor_bytes blk (E key cb) ++ gctr (E key) f (inc32 cb) (skipn 16 (d :: data))) eqn:Hout.
    { apply app_eq_nil in Hout. tauto. }
    rewrite <- Hout. clear Hout.
    destruct (Nat.le_gt_cases 16 (length (d :: data))) as [Hlong|Hshort].
    - assert (Hl : length (xor_bytes blk (E key cb)) = 16%nat) by (rewrite xor_len by exact Hb; subst blk; rewrite firstn_length; lia).
      rewrite firstn_app_exact, skipn_app_exact by exact Hl.
      rewrite xor_invol by exact Hb. rewrite IH.
      + subst blk. apply firstn_skipn.
      + rewrite skipn_length. simpl in *. lia.
    - assert (Hs : skipn 16 (d :: data) = []) by (apply skipn_all2; lia).
      rewrite Hs. destruct f; [simpl in *; lia|]. cbn [gctr]. rewrite app_nil_r.
      assert (Hblk : blk = d :: data) by (subst blk; apply firstn_all2; lia).
      rewrite firstn_all2 by (rewrite xor_len by exact Hb; rewrite Hblk; lia).
      rewrite skipn_all2 by (rewrite xor_len by exact Hb; rewrite Hblk; lia).
      rewrite xor_invol by exact Hb.
      rewrite Hblk. destruct f; cbn [gctr]; rewrite ?app_nil_r; reflexivity.
  Qed.

  Lemma gcm_crypt_length key iv data : length (gcm_crypt (E key) iv data) = length data.
  Proof. unfold gcm_crypt. apply gctr_length. lia. Qed.
  Lemma gcm_crypt_invol key iv data : gcm_crypt (E key) iv (gcm_crypt (E key) iv data) = data.
  Proof. unfold gcm_crypt. rewrite gctr_length by lia. apply gctr_invol. lia. Qed.

  Lemma gcm_tag_length key iv aad ct : length (gcm_tag (E key) iv aad ct) = 16%nat.
  Proof. unfold gcm_tag. rewrite xor_len; rewrite ?be_bytes_length, ?E_len; lia. Qed.

  (* ---------- parameter checks ---------- *)
  Definition keys_ok (x : sc) (key ak : bytes) : Prop :=
    validate_key (sc_suite x) key = Ok tt /\ validate_key (sc_suite x) ak = Ok tt.
  Lemma prepare_ok x title ic key ak : (sc_encrypted x || sc_authenticated x = true) ->
    length title = 8%nat -> ic < 2 ^ 32 -> keys_ok x key ak ->
    prepare x title ic key ak = Ok (title ++ be_bytes 4 ic).
  Proof.
    intros Hf Ht Hic [Hk Ha]. unfold prepare.
    replace (negb (sc_encrypted x) && negb (sc_authenticated x)) with false
      by (destruct (sc_encrypted x), (sc_authenticated x); cbn in *; congruence).
    rewrite Ht. cbn [Nat.eqb negb]. unfold to_bytes_be. change (256 ^ N.of_nat 4) with (2 ^ 32).
    apply N.ltb_lt in Hic. rewrite Hic. cbn [bind]. rewrite Hk, Ha. reflexivity.
  Qed.

  (* ---------- the construction ---------- *)
  Theorem protect_is_dlms_gcm x title ic key ak pt :
    (sc_encrypted x || sc_authenticated x = true) -> length title = 8%nat -> ic < 2 ^ 32 -> keys_ok x key ak ->
    let iv := title ++ be_bytes 4 ic in
    let aad := sc_to_byte x :: ak in
    sec_encrypt E x title ic key ak pt
    = Ok (gcm_crypt (E key) iv pt ++ firstn 12 (gcm_tag (E key) iv aad (gcm_crypt (E key) iv pt))).
  Proof.
    intros Hf Ht Hic Hk iv aad. unfold sec_encrypt. rewrite (prepare_ok x title ic key ak Hf Ht Hic Hk).
    reflexivity.
  Qed.

  Lemma lastn_app_exact {A} (a b : list A) k : length b = k -> lastn k (a ++ b) = b.
  Proof. intros <-. unfold lastn. rewrite app_length. replace (length a + length b - length b)%nat with (length a) by lia.
    apply skipn_app_exact. reflexivity. Qed.
  Lemma droplast_app_exact {A} (a b : list A) k : length b = k -> droplast k (a ++ b) = a.
  Proof. intros <-. unfold droplast. rewrite app_length. replace (length a + length b - length b)%nat with (length a) by lia.
    apply firstn_app_exact. reflexivity. Qed.

  (* removing protection with the same parameters returns the original plaintext, for every length *)
  Theorem unprotect_protect x title ic key ak pt ct :
    (sc_encrypted x || sc_authenticated x = true) -> length title = 8%nat -> ic < 2 ^ 32 -> keys_ok x key ak ->
    sec_encrypt E x title ic key ak pt = Ok ct -> sec_decrypt E x title ic key ak ct = Ok pt.
  Proof.
    intros Hf Ht Hic Hk He. rewrite (protect_is_dlms_gcm x title ic key ak pt Hf Ht Hic Hk) in He.
    cbv zeta in He.
    assert (Hct : ct = gcm_crypt (E key) (title ++ be_bytes 4 ic) pt ++
                       firstn 12 (gcm_tag (E key) (title ++ be_bytes 4 ic) (sc_to_byte x :: ak) (gcm_crypt (E key) (title ++ be_bytes 4 ic) pt)))
      by congruence.
    clear He. subst ct.
    unfold sec_decrypt. rewrite (prepare_ok x title ic key ak Hf Ht Hic Hk). cbn [bind]. cbv zeta.
    set (iv := title ++ be_bytes 4 ic). set (aad := sc_to_byte x :: ak). set (c := gcm_crypt (E key) iv pt).
    assert (L12 : length (firstn 12 (gcm_tag (E key) iv aad c)) = 12%nat) by (rewrite firstn_length, gcm_tag_length; lia).
    rewrite (lastn_app_exact c _ 12 L12), (droplast_app_exact c _ 12 L12). rewrite L12. cbn [Nat.ltb Nat.leb].
    rewrite list_eqb_refl. subst c. rewrite gcm_crypt_invol. reflexivity.
  Qed.

  (* no data is ever returned without the tag comparison: whatever decrypt returns is the GCTR of the
     received ciphertext, and the received tag equals the 12-byte GCM tag of the received ciphertext
     under the given nonce and associated data *)
  Theorem unprotect_ok_only_if_tag x title ic key ak ct_in p :
    sec_decrypt E x title ic key ak ct_in = Ok p ->
    exists iv, prepare x title ic key ak = Ok iv /\ (12 <= length ct_in)%nat /\
      lastn 12 ct_in = firstn 12 (gcm_tag (E key) iv (sc_to_byte x :: ak) (droplast 12 ct_in)) /\
      p = gcm_crypt (E key) iv (droplast 12 ct_in).
  Proof.
    unfold sec_decrypt. destruct (prepare x title ic key ak) as [iv|]; [|discriminate]. cbn [bind]. cbv zeta.
    destruct (Nat.ltb_spec (length (lastn 12 ct_in)) 12) as [Hs|Hl]; [discriminate|].
    destruct (list_eqb (lastn 12 ct_in) _) eqn:Eq; [|discriminate]. intros H. injection H as <-.
    exists iv. split; [reflexivity|].
    assert (Hlen : (12 <= length ct_in)%nat).
    { unfold lastn in Hl. rewrite skipn_length in Hl. lia. }
    split; [exact Hlen|]. split; [|reflexivity].
    apply list_eqb_eq in Eq. rewrite Eq. f_equal.
    unfold lastn. rewrite skipn_length. lia.
  Qed.

  (* any change to the 12 tag bytes alone is refused with the decryption error *)
  Theorem tag_change_refused x title ic key ak pt c tag' :
    (sc_encrypted x || sc_authenticated x = true) -> length title = 8%nat -> ic < 2 ^ 32 -> keys_ok x key ak ->
    let iv := title ++ be_bytes 4 ic in
    c = gcm_crypt (E key) iv pt -> length tag' = 12%nat ->
    tag' <> firstn 12 (gcm_tag (E key) iv (sc_to_byte x :: ak) c) ->
    sec_decrypt E x title ic key ak (c ++ tag') = Err EDecrypt.
  Proof.
    intros Hf Ht Hic Hk iv Hc Hl Hne. unfold sec_decrypt.
    rewrite (prepare_ok x title ic key ak Hf Ht Hic Hk). cbn [bind]. cbv zeta. fold iv.
    rewrite (lastn_app_exact c tag' 12 Hl), (droplast_app_exact c tag' 12 Hl). rewrite Hl. cbn [Nat.ltb Nat.leb].
    destruct (list_eqb tag' _) eqn:Eq; [|reflexivity]. apply list_eqb_eq in Eq. contradiction.
  Qed.

  (* keys whose length does not match the suite, titles that are not 8 bytes, and texts shorter
     than a tag are refused - by encrypt, decrypt and gmac alike *)
  Theorem bad_parameters_refused x title ic key ak data :
    (length title <> 8%nat \/ validate_key (sc_suite x) key <> Ok tt \/ validate_key (sc_suite x) ak <> Ok tt) ->
    (exists e, sec_encrypt E x title ic key ak data = Err e) /\
    (exists e, sec_decrypt E x title ic key ak data = Err e) /\
    (exists e, sec_gmac E x title ic key ak data = Err e).
  Proof.
    intros H.
    assert (P : exists e, prepare x title ic key ak = Err e).
    { unfold prepare. destruct (negb (sc_encrypted x) && negb (sc_authenticated x)); [eexists; reflexivity|].
      destruct (Nat.eqb_spec (length title) 8) as [Ht|Ht]; cbn [negb]; [|eexists; reflexivity].
      destruct (to_bytes_be 4 ic); cbn [bind]; [|eexists; reflexivity].
      destruct (validate_key (sc_suite x) key) as [[]|] eqn:K; cbn [bind]; [|eexists; reflexivity].
      destruct (validate_key (sc_suite x) ak) as [[]|] eqn:A; cbn [bind]; [|eexists; reflexivity].
      exfalso. destruct H as [H|[H|H]]; congruence. }
    destruct P as (e & P). repeat split.
    - exists e. unfold sec_encrypt. rewrite P. reflexivity.
    - exists e. unfold sec_decrypt. rewrite P. reflexivity.
    - unfold sec_gmac. destruct (sc_encrypted x); [eexists; reflexivity|].
      destruct (Nat.eqb_spec (length title) 8) as [Ht|Ht]; cbn [negb]; [|eexists; reflexivity].
      destruct (to_bytes_be 4 ic); cbn [bind]; [|eexists; reflexivity].
      destruct (validate_key (sc_suite x) key) as [[]|] eqn:K; cbn [bind]; [|eexists; reflexivity].
      destruct (validate_key (sc_suite x) ak) as [[]|] eqn:A; cbn [bind]; [|eexists; reflexivity].
      exfalso. destruct H as [H|[H|H]]; congruence.
  Qed.
  Theorem validate_key_lengths suite key :
    validate_key suite key = Ok tt <->
    (suite = 0 /\ length key = 16%nat) \/ (suite = 1 /\ length key = 16%nat) \/ (suite = 2 /\ length key = 32%nat).
  Proof.
    unfold validate_key, key_length.
    destruct (N.eqb_spec suite 0) as [->|H0]; [destruct (Nat.eqb_spec (length key) 16); split; intros H; try tauto; try discriminate;
      destruct H as [[_ ?]|[[? _]|[? _]]]; try discriminate; contradiction|].
    destruct (N.eqb_spec suite 1) as [->|H1]; [destruct (Nat.eqb_spec (length key) 16); split; intros H; try tauto; try discriminate;
      destruct H as [[? _]|[[_ ?]|[? _]]]; try discriminate; contradiction|].
    destruct (N.eqb_spec suite 2) as [->|H2]; [destruct (Nat.eqb_spec (length key) 32); split; intros H; try tauto; try discriminate;
      destruct H as [[? _]|[[? _]|[_ ?]]]; try discriminate; contradiction|].
    split; [discriminate|]. intros [[? _]|[[? _]|[? _]]]; contradiction.
  Qed.
  Theorem short_text_refused x title ic key ak ct_in : (length ct_in < 12)%nat ->
    exists e, sec_decrypt E x title ic key ak ct_in = Err e.
  Proof.
    intros Hs. unfold sec_decrypt. destruct (prepare x title ic key ak); [|eexists; reflexivity]. cbn [bind]. cbv zeta.
    assert (L : (length (lastn 12 ct_in) < 12)%nat) by (unfold lastn; rewrite skipn_length; lia).
    apply Nat.ltb_lt in L. rewrite L. eexists; reflexivity.
  Qed.
End PROOFS.
