(* C01: every well-formed xDLMS APDU value encodes to the standard A-XDR bytes, and the tag-dispatching decoder
   maps those bytes back to the value; hence different values never share an encoding. *)
From Dlms Require Import Base Sweep FieldsModel FieldsSpec FieldsProofs TimeModel TimeSpec TimeProofs
  AxdrModel AxdrSpec AxdrProofs XdlmsModel XdlmsSpec.
From Dlms.Gen Require GenEnums GenApdu.
From Coq Require Import ZifyBool ZifyN.
Ltac Zify.zify_post_hook ::= Z.to_euclidean_division_equations.

(* ---------- fixed-size integers ---------- *)
Lemma tb1 n : n < 256 -> to_bytes_be 1 n = Ok [n]. Proof. apply to_bytes_be1. Qed.
Lemma tb2 n : n < 65536 -> to_bytes_be 2 n = Ok (u16 n). Proof. apply to_bytes_be2. Qed.
Lemma be_bytes3 n : n < 16777216 -> be_bytes 3 n = u24 n.
Proof.
  intros H. cbn [be_bytes app]. unfold u24. f_equal.
  rewrite N.div_div by lia. change (256 * 256) with 65536. apply N.mod_small. apply N.div_lt_upper_bound; lia.
Qed.
Lemma be_bytes4 n : n < 4294967296 -> be_bytes 4 n = u32 n.
Proof.
  intros H. cbn [be_bytes app]. unfold u32. f_equal; [|f_equal].
  - rewrite !N.div_div by lia. change (256 * 256 * 256) with 16777216. apply N.mod_small. apply N.div_lt_upper_bound; lia.
  - rewrite N.div_div by lia. reflexivity.
Qed.
Lemma tb4 n : n < 4294967296 -> to_bytes_be 4 n = Ok (u32 n).
Proof.
  intros H. unfold to_bytes_be. change (256 ^ N.of_nat 4) with 4294967296.
  pose proof H as H'. apply N.ltb_lt in H'. rewrite H'. rewrite be_bytes4 by exact H. reflexivity.
Qed.
Lemma be_val4 a b c d : be_val [a; b; c; d] = ((a * 256 + b) * 256 + c) * 256 + d. Proof. reflexivity. Qed.
Lemma be_val3 a b c : be_val [a; b; c] = (a * 256 + b) * 256 + c. Proof. reflexivity. Qed.
Lemma be_val_u32 n : n < 4294967296 -> be_val (u32 n) = n.
Proof. intros H. rewrite <- be_bytes4 by exact H. apply be_val_be_bytes. exact H. Qed.
Lemma be_val_u16 n : n < 65536 -> be_val (u16 n) = n.
Proof. intros H. unfold u16. rewrite be_val2. lia. Qed.

(* ---------- fields ---------- *)
Lemma iid_enc x : iid_ok x = true -> iid_to_bytes x = Ok [std_iid x] /\ iid_from_bytes [std_iid x] = Ok x /\ std_iid x < 256.
Proof.
  destruct x as [[i c] h]. cbn [iid_ok]. intros H. apply N.ltb_lt in H.
  destruct (iid_encode_roundtrip i c h H) as [A B]. unfold iid_byte in *. cbn [std_iid flag].
  split; [exact A|]. split; [exact B|]. destruct c, h; cbn [flag]; lia.
Qed.
Lemma sc_enc x : sc_ok x = true -> sc_to_bytes x = Ok [std_sc x] /\ sc_from_byte (std_sc x) = Ok x /\ std_sc x < 256.
Proof.
  destruct x as [[[[s a] e] k] c]. cbn [sc_ok]. intros H. apply N.leb_le in H.
  destruct (sc_encode_roundtrip s a e k c H) as (_ & A & B). cbn [std_sc flag]. split; [exact A|].
  split; [|destruct a, e, k, c; cbn [flag]; lia]. specialize (B _ A). unfold sc_from_bytes in B.
  change (be_val [?x]) with (0 * 256 + x) in B. rewrite N.mul_0_l, N.add_0_l in B. exact B.
Qed.
Lemma liid_enc i p c s b : i < 16777216 ->
  liid_to_bytes (i, p, c, s, b) = Ok (std_liid (i, p, c, s, b)) /\ liid_from_bytes (std_liid (i, p, c, s, b)) = Ok (i, p, c, s, b).
Proof.
  intros H. destruct (liid_encode_roundtrip i p c s b H) as [A B]. rewrite be_bytes3 in A, B by exact H.
  unfold liid_status in *. cbn [std_liid flag]. split; assumption.
Qed.
Lemma len6 (o : bytes) : length o = 6%nat -> exists a b c d e f, o = [a; b; c; d; e; f].
Proof. destruct o as [|a [|b [|c [|d [|e [|f [|g o]]]]]]]; try discriminate. intros _. eauto 7. Qed.
Definition assoc_n_eqb (k : N) (t : list (N * N)) (v : N) : bool := match assoc_n k t with Some x => x =? v | None => false end.
Lemma assoc_n_eqb_eq k t v : assoc_n_eqb k t v = true -> assoc_n k t = Some v.
Proof. unfold assoc_n_eqb. destruct (assoc_n k t); [|discriminate]. intros H. apply N.eqb_eq in H. subst. reflexivity. Qed.
Lemma assoc_n_in {A} k (t : list (N * A)) v : assoc_n k t = Some v -> In (k, v) t.
Proof.
  unfold assoc_n. destruct (find (fun e => fst e =? k) t) as [[k' v']|] eqn:E; [|discriminate].
  cbn. intros [= <-]. apply find_some in E as [Hin Hk]. cbn in Hk. apply N.eqb_eq in Hk. subst. exact Hin.
Qed.
Lemma member_enum x l : member x l = true -> enum l x = Ok x.
Proof. intros H. unfold enum. rewrite H. reflexivity. Qed.
Lemma desc_enc c : desc_ok c = true ->
  cosem_to_bytes c = Ok (std_desc c) /\ cosem_from_bytes (std_desc c) = Ok c /\ length (std_desc c) = 9%nat.
Proof.
  destruct c as [[cls o] id]. cbn [desc_ok]. intros H. boolx.
  match goal with H : Nat.eqb _ _ = true |- _ => apply Nat.eqb_eq in H; destruct (len6 o H) as (a & b & c & d & e & f & ->) end.
  assert (Hc : cls < 65536).
  { match goal with H : member cls _ = true |- _ => revert H end. unfold member. rewrite existsb_exists.
    intros (x & Hin & Hx). apply N.eqb_eq in Hx. subst x.
    assert (G : forallb (fun x => x <? 65536) GenEnums.enum_CosemInterface = true) by (vm_compute; reflexivity).
    rewrite forallb_forall in G. apply N.ltb_lt. apply G. exact Hin. }
  unfold cosem_to_bytes, cosem_from_bytes, std_desc. rewrite tb2 by exact Hc. cbn [bind].
  unfold obis_to_bytes. match goal with H : bytes_okb _ = true |- _ => unfold bytes_okb in H; rewrite H end. cbn [bind].
  rewrite tb1 by assumption. cbn [bind u16 app length Nat.eqb negb firstn]. split; [reflexivity|]. split; [|reflexivity].
  rewrite be_val2. replace (cls / 256 * 256 + cls mod 256) with cls by lia.
  rewrite member_enum by assumption. cbn [bind]. unfold slice. cbn [skipn firstn Nat.sub].
  unfold obis_from_bytes. cbn [length Nat.eqb negb bind last]. reflexivity.
Qed.

(* ---------- A-XDR length prefix as read by the APDU decoders ---------- *)
Lemma land128_small n : n < 128 -> N.land n 128 = 0.
Proof.
  intros H. change 128 with (2 ^ 7). rewrite land_pow2.
  replace (N.testbit n 7) with false; [reflexivity|].
  symmetry. destruct (N.eq_dec n 0) as [->|Hz]; [reflexivity|].
  apply N.bits_above_log2. apply N.log2_lt_pow2; [lia|exact H].
Qed.
Lemma land127_small n : n < 128 -> N.land n 127 = n.
Proof. intros H. change 127 with (N.ones 7). rewrite N.land_ones. apply N.mod_small. exact H. Qed.
Lemma dvi_std n rest : n < 4294967296 -> decode_variable_integer (std_len n ++ rest) = Ok (n, rest).
Proof.
  intros Hn. unfold std_len.
  destruct (N.ltb_spec n 128) as [H1|H1].
  { cbn [app decode_variable_integer]. rewrite land128_small, land127_small by exact H1. reflexivity. }
  destruct (N.ltb_spec n 256) as [H2|H2].
  { cbn [app be_bytes decode_variable_integer]. change (N.land 129 128 =? 0) with false. cbn [negb].
    change (N.to_nat (N.land 129 127)) with 1%nat. unfold slice. cbn [Nat.add Nat.sub skipn firstn].
    f_equal. f_equal. change (be_val [?x]) with (0 * 256 + x). lia. }
  destruct (N.ltb_spec n 65536) as [H3|H3].
  { cbn [app be_bytes decode_variable_integer]. change (N.land 130 128 =? 0) with false. cbn [negb].
    change (N.to_nat (N.land 130 127)) with 2%nat. unfold slice. cbn [Nat.add Nat.sub skipn firstn].
    f_equal. f_equal. rewrite be_val2. lia. }
  destruct (N.ltb_spec n 16777216) as [H4|H4].
  { cbn [app be_bytes decode_variable_integer]. change (N.land 131 128 =? 0) with false. cbn [negb].
    change (N.to_nat (N.land 131 127)) with 3%nat. unfold slice. cbn [Nat.add Nat.sub skipn firstn].
    f_equal. f_equal. rewrite be_val3. lia. }
  cbn [app be_bytes decode_variable_integer]. change (N.land 132 128 =? 0) with false. cbn [negb].
  change (N.to_nat (N.land 132 127)) with 4%nat. unfold slice. cbn [Nat.add Nat.sub skipn firstn].
  f_equal. f_equal. rewrite be_val4. lia.
Qed.
Lemma block_data_std data : len data < 4294967296 -> block_data (octets data) = Ok data.
Proof. intros H. unfold block_data, octets. rewrite dvi_std by exact H. cbn [bind]. rewrite N.eqb_refl. reflexivity. Qed.

(* ---------- enumerations ---------- *)
Lemma member_lt l x b : forallb (fun y => y <? b) l = true -> member x l = true -> x < b.
Proof.
  intros G H. unfold member in H. rewrite existsb_exists in H. destruct H as (y & Hin & Hy).
  apply N.eqb_eq in Hy. subst y. rewrite forallb_forall in G. apply N.ltb_lt. apply G. exact Hin.
Qed.
Lemma dar_lt e : dar_ok e = true -> e < 256. Proof. apply member_lt. vm_compute. reflexivity. Qed.
Lemma ars_lt e : ars_ok e = true -> e < 256. Proof. apply member_lt. vm_compute. reflexivity. Qed.
Lemma dar_enum e : dar_ok e = true -> enum GenEnums.enum_DataAccessResult e = Ok e. Proof. apply member_enum. Qed.
Lemma ars_enum e : ars_ok e = true -> enum GenEnums.enum_ActionResultStatus e = Ok e. Proof. apply member_enum. Qed.

Ltac fields :=
  repeat match goal with
  | H : iid_ok ?x = true |- _ => destruct (iid_enc x H) as (? & ? & ?); clear H
  | H : desc_ok ?x = true |- _ => destruct (desc_enc x H) as (? & ? & ?); clear H
  | H : sc_ok ?x = true |- _ => destruct (sc_enc x H) as (? & ? & ?); clear H
  | H : u32_ok ?x = true |- _ => unfold u32_ok in H; apply N.ltb_lt in H
  | H : dar_ok ?x = true |- _ => pose proof (dar_lt x H); pose proof (dar_enum x H); clear H
  | H : ars_ok ?x = true |- _ => pose proof (ars_lt x H); pose proof (ars_enum x H); clear H
  | H : _ && _ = true |- _ => apply andb_prop in H; destruct H
  end.
Ltac conj := repeat match goal with
  | H : _ && _ = true |- _ => apply andb_prop in H; destruct H
  | H : u32_ok ?x = true |- _ => unfold u32_ok in H; apply N.ltb_lt in H
  end.
Ltac rw := repeat match goal with H : _ = Ok _ |- _ => rewrite H end.
Ltac enc_tac := fields; unfold apdu_to_bytes, iidb, sc_bytes; rw; rewrite ?tb1, ?tb4, ?tb2 by assumption; cbn [bind truthy app std_apdu].


Lemma cse_encode cls v : wf_apdu (ConfirmedServiceError cls v) = true ->
  apdu_to_bytes (ConfirmedServiceError cls v) = Ok [14; 1; cls; v].
Proof.
  cbn [wf_apdu]. intros H.
  assert (G : forallb (fun e => (assoc_n_eqb (fst e) GenApdu.error_type_reverse (fst e)) && (fst e <? 256) && forallb (fun y => y <? 256) (snd e))
                GenApdu.error_class_members = true) by (vm_compute; reflexivity).
  destruct (assoc_n cls GenApdu.error_class_members) as [ms|] eqn:E; [|discriminate].
  apply assoc_n_in in E. rewrite forallb_forall in G. specialize (G _ E). cbn [fst snd] in G.
  apply andb_prop in G as [G G3]. apply andb_prop in G as [G1 G2]. apply assoc_n_eqb_eq in G1. apply N.ltb_lt in G2.
  unfold apdu_to_bytes. rewrite G1. rewrite !tb1; [reflexivity| |exact G2]. eapply member_lt; eassumption.
Qed.

Lemma ciphered_encode_parts s c text : sc_ok s = true -> c < 4294967296 -> content_ok text = true ->
  exists sb cb, sc_bytes s = Ok sb /\ to_bytes_be 4 c = Ok cb /\
    encode_variable_integer (len (sb ++ cb ++ text)) = Ok (std_len (len (sb ++ cb ++ text))) /\
    std_ciphered s c text = std_len (len (sb ++ cb ++ text)) ++ sb ++ cb ++ text.
Proof.
  intros Hs Hc Ht. destruct (sc_enc s Hs) as (A & _ & _). exists [std_sc s], (u32 c).
  split; [exact A|]. split; [apply tb4; exact Hc|].
  assert (L : len ([std_sc s] ++ u32 c ++ text) = len text + 5).
  { unfold len. cbn [app length u32]. lia. }
  split.
  - apply encode_variable_integer_std. rewrite L. unfold content_ok in Ht. apply N.ltb_lt in Ht. exact Ht.
  - reflexivity.
Qed.
Lemma ciphered_encode_gen tag mk s c text :
  (apdu_to_bytes (mk s c text) =
     (do sb <- sc_bytes s; do cb <- to_bytes_be 4 c; do l <- encode_variable_integer (len (sb ++ cb ++ text)); Ok ([tag] ++ l ++ sb ++ cb ++ text))) ->
  sc_ok s = true -> c < 4294967296 -> content_ok text = true ->
  apdu_to_bytes (mk s c text) = Ok ([tag] ++ std_ciphered s c text).
Proof.
  intros E Hs Hc Ht. rewrite E. destruct (ciphered_encode_parts s c text Hs Hc Ht) as (sb & cb & E1 & E2 & E3 & E4).
  rewrite E1, E2. cbn [bind]. rewrite E3. cbn [bind]. rewrite E4. reflexivity.
Qed.


Lemma truthy_some k : negb (Nat.eqb (length k) 0) = true -> truthy (Some k) = Some k.
Proof. destruct k; [discriminate|reflexivity]. Qed.
Lemma initiate_request_encode conf qos max_pdu version ra dk : wf_apdu (InitiateRequest conf qos max_pdu version ra dk) = true ->
  apdu_to_bytes (InitiateRequest conf qos max_pdu version ra dk) = Ok (std_apdu (InitiateRequest conf qos max_pdu version ra dk)).
Proof.
  cbn [wf_apdu]. intros H. conj.
  repeat match goal with
  | H : Nat.eqb _ _ = true |- _ => apply Nat.eqb_eq in H
  | H : (_ <? _) = true |- _ => apply N.ltb_lt in H
  | H : (_ =? _) = true |- _ => apply N.eqb_eq in H
  end.
  destruct qos as [[|q]|]; try discriminate. subst version.
  match goal with H : length conf = 17%nat |- _ => destruct (conformance_encode_roundtrip conf H) as [A _] end.
  unfold apdu_to_bytes. rewrite A, tb2 by assumption. cbn [bind].
  destruct dk as [k|]; conj.
  - rewrite truthy_some by assumption. rewrite encode_variable_integer_std by assumption.
    cbn [bind std_apdu]. unfold octets. f_equal; cbn [app]; rewrite <- ?app_assoc; reflexivity.
  - reflexivity.
Qed.

(* ---------- encoders produce the standard bytes ---------- *)
Theorem apdu_encode_std a : wf_apdu a = true -> apdu_to_bytes a = Ok (std_apdu a).
Proof.
  destruct a; cbn [wf_apdu]; intros H.
  - (* GetRequestNormal *) destruct access; fields; [discriminate|]. enc_tac. reflexivity.
  - enc_tac. reflexivity.
  - enc_tac. reflexivity.
  - enc_tac. reflexivity.
  - enc_tac. rewrite encode_variable_integer_std by assumption. reflexivity.
  - enc_tac. rewrite encode_variable_integer_std by assumption. reflexivity.
  - enc_tac. reflexivity.
  - enc_tac. reflexivity.
  - enc_tac. reflexivity.
  - (* ActionRequestNormal *) destruct data as [[|d0 d]|]; fields; try discriminate; enc_tac; reflexivity.
  - enc_tac. reflexivity.
  - enc_tac. reflexivity.
  - enc_tac. reflexivity.
  - (* DataNotification *)
    destruct l as [[[[i p] c] s] b]. fields.
    match goal with H : (i <? _) = true |- _ => apply N.ltb_lt in H; destruct (liid_enc i p c s b H) as [A _] end.
    unfold apdu_to_bytes. rewrite A. cbn [bind].
    destruct dt as [x|]; [|reflexivity]. fields.
    match goal with H : dt_valid x = true |- _ => destruct (datetime_layout x no_status H) as [_ B] end.
    rewrite B. cbn [bind app std_apdu]. reflexivity.
  - (* ExceptionResponse *)
    fields.
    assert (Hst : state_error < 256) by (eapply member_lt; [|eassumption]; vm_compute; reflexivity).
    assert (Hsv : service_error < 256) by (eapply member_lt; [|eassumption]; vm_compute; reflexivity).
    unfold apdu_to_bytes. rewrite !tb1 by assumption. cbn [bind].
    destruct counter as [n|]; fields.
    + match goal with H : (service_error =? 6) = true |- _ => rewrite H end. rewrite tb4 by assumption. reflexivity.
    + match goal with H : negb (service_error =? 6) = true |- _ => apply negb_true_iff in H; rewrite H end. reflexivity.
  - (* ConfirmedServiceError *) apply cse_encode. exact H.
  - (* InitiateRequest *) apply initiate_request_encode. exact H.
  - (* InitiateResponse *)
    fields.
    repeat match goal with
    | H : Nat.eqb _ _ = true |- _ => apply Nat.eqb_eq in H
    | H : (_ <? _) = true |- _ => apply N.ltb_lt in H
    end.
    match goal with H : length conformance = 17%nat |- _ => destruct (conformance_encode_roundtrip conformance H) as [A _] end.
    unfold apdu_to_bytes. rewrite A, tb2, tb1 by assumption. cbn [bind std_apdu].
    destruct (qos =? 0); [reflexivity|]. rewrite tb1 by assumption. reflexivity.
  - (* GlobalCipherInitiateRequest *) conj. apply (ciphered_encode_gen 33 GlobalCipherInitiateRequest); try assumption. reflexivity.
  - conj. apply (ciphered_encode_gen 40 GlobalCipherInitiateResponse); try assumption. reflexivity.
  - (* GeneralGlobalCipher *)
    conj. unfold apdu_to_bytes. rewrite encode_variable_integer_std by assumption. cbn [bind].
    match goal with |- context [sc_bytes s] => destruct (ciphered_encode_parts s counter text) as (sb & cb & E1 & E2 & E3 & E4); try assumption end.
    rewrite E1, E2. cbn [bind]. rewrite E3. cbn [bind std_apdu]. rewrite E4.
    unfold octets at 1. rewrite <- !app_assoc. reflexivity.
  - discriminate.
Qed.

(* ---------- the tag dispatch of XDlmsApduFactory ---------- *)
Ltac disp k := intros; unfold xdlms_from_bytes; cbn [app];
  match goal with |- context [assoc_n ?t GenApdu.apdu_map] => change (assoc_n t GenApdu.apdu_map) with (Some k) end; reflexivity.
Lemma disp_1 r : xdlms_from_bytes (1 :: r) = initiate_request_from_bytes (1 :: r). Proof. disp 1. Qed.
Lemma disp_8 r : xdlms_from_bytes (8 :: r) = initiate_response_from_bytes (8 :: r). Proof. disp 2. Qed.
Lemma disp_14 r : xdlms_from_bytes (14 :: r) = confirmed_service_error_from_bytes (14 :: r). Proof. disp 3. Qed.
Lemma disp_15 r : xdlms_from_bytes (15 :: r) = data_notification_from_bytes (15 :: r). Proof. disp 4. Qed.
Lemma disp_33 r : xdlms_from_bytes (33 :: r) = glo_initiate_from_bytes 33 GlobalCipherInitiateRequest (33 :: r). Proof. disp 5. Qed.
Lemma disp_40 r : xdlms_from_bytes (40 :: r) = glo_initiate_from_bytes 40 GlobalCipherInitiateResponse (40 :: r). Proof. disp 6. Qed.
Lemma disp_216 r : xdlms_from_bytes (216 :: r) = exception_response_from_bytes (216 :: r). Proof. disp 7. Qed.
Lemma disp_219 r : xdlms_from_bytes (219 :: r) = general_global_cipher_from_bytes (219 :: r). Proof. disp 8. Qed.
Lemma disp_192 r : xdlms_from_bytes (192 :: r) = get_request_from_bytes (192 :: r). Proof. disp 13. Qed.
Lemma disp_193 r : xdlms_from_bytes (193 :: r) = set_request_from_bytes (193 :: r). Proof. disp 14. Qed.
Lemma disp_195 r : xdlms_from_bytes (195 :: r) = action_request_from_bytes (195 :: r). Proof. disp 15. Qed.
Lemma disp_196 r : xdlms_from_bytes (196 :: r) = get_response_from_bytes (196 :: r). Proof. disp 16. Qed.
Lemma disp_197 r : xdlms_from_bytes (197 :: r) = set_response_from_bytes (197 :: r). Proof. disp 17. Qed.
Lemma disp_199 r : xdlms_from_bytes (199 :: r) = action_response_from_bytes (199 :: r). Proof. disp 18. Qed.

Ltac lit := unfold iid1; cbn [pop1 bind app N.eqb Pos.eqb negb].
Ltac enums := repeat match goal with
  | |- context [enum ?l (Npos ?p)] => change (enum l (Npos ?p)) with (Ok (Npos p) : res N)
  end.


Lemma disp_dn l dt body : xdlms_from_bytes (std_apdu (DataNotification l dt body)) = data_notification_from_bytes (std_apdu (DataNotification l dt body)).
Proof. destruct dt; cbn [std_apdu app]; apply disp_15. Qed.
Lemma disp_exc a b c : xdlms_from_bytes (std_apdu (ExceptionResponse a b c)) = exception_response_from_bytes (std_apdu (ExceptionResponse a b c)).
Proof. destruct c; cbn [std_apdu app]; apply disp_216. Qed.
Lemma std_datetime_length x st : length (std_datetime x st) = 12%nat.
Proof. destruct x as [[[[[[[y m] d] h] mi] s] us] [o|]]; reflexivity. Qed.
Lemma trunc_whole x : whole_10ms x = true -> trunc10ms x = x.
Proof.
  destruct x as [[[[[[[y m] d] h] mi] s] us] off]. cbn [whole_10ms trunc10ms]. intros H. apply N.eqb_eq in H.
  repeat f_equal. lia.
Qed.

Lemma cse_decode cls v : wf_apdu (ConfirmedServiceError cls v) = true ->
  xdlms_from_bytes (std_apdu (ConfirmedServiceError cls v)) = Ok (ConfirmedServiceError cls v).
Proof.
  cbn [wf_apdu]. intros H.
  assert (G : forallb (fun e => assoc_n_eqb (fst e) GenApdu.error_type_map (fst e)) GenApdu.error_class_members = true) by (vm_compute; reflexivity).
  destruct (assoc_n cls GenApdu.error_class_members) as [ms|] eqn:E; [|discriminate].
  pose proof (assoc_n_in _ _ _ E) as Hin. rewrite forallb_forall in G. specialize (G _ Hin). cbn [fst] in G. apply assoc_n_eqb_eq in G.
  cbn [std_apdu]. rewrite disp_14. unfold confirmed_service_error_from_bytes. lit.
  cbn [take length Nat.leb firstn skipn]. lit. change (member (be_val [1]) [1; 5; 6]) with true. lit. cbn [take length Nat.leb firstn skipn]. lit. cbn [nth].
  rewrite G, E. rewrite member_enum by exact H. reflexivity.
Qed.

(* the length prefix as GlobalCipherInitiate* reads it *)
Lemma glo_len_k {B} n rest (f : N * bytes -> res B) : n < 4294967296 ->
  (do (first, d) <- pop1 (std_len n ++ rest);
   do x <- (if N.land first 128 =? 0 then Ok (first, d) else
            let k := N.to_nat (N.land first 127) in
            if Nat.ltb (length d) k then Err ERefused else Ok (be_val (firstn k d), skipn k d));
   f x) = f (n, rest).
Proof.
  intros Hn'. unfold std_len.
  destruct (N.ltb_spec n 128) as [H1|H1].
  { cbn [app pop1 bind]. rewrite land128_small by exact H1. reflexivity. }
  destruct (N.ltb_spec n 256) as [H2|H2].
  { cbn [app be_bytes pop1 bind]. change (N.land 129 128 =? 0) with false. cbv iota.
    change (N.to_nat (N.land 129 127)) with 1%nat. cbn [length Nat.ltb Nat.leb firstn skipn]. cbv zeta. cbn [bind].
    f_equal. f_equal. change (be_val [?x]) with (0 * 256 + x). lia. }
  destruct (N.ltb_spec n 65536) as [H3|H3].
  { cbn [app be_bytes pop1 bind]. change (N.land 130 128 =? 0) with false. cbv iota.
    change (N.to_nat (N.land 130 127)) with 2%nat. cbn [length Nat.ltb Nat.leb firstn skipn]. cbv zeta. cbn [bind].
    f_equal. f_equal. rewrite be_val2. lia. }
  destruct (N.ltb_spec n 16777216) as [H4|H4].
  { cbn [app be_bytes pop1 bind]. change (N.land 131 128 =? 0) with false. cbv iota.
    change (N.to_nat (N.land 131 127)) with 3%nat. cbn [length Nat.ltb Nat.leb firstn skipn]. cbv zeta. cbn [bind].
    f_equal. f_equal. rewrite be_val3. lia. }
  cbn [app be_bytes pop1 bind]. change (N.land 132 128 =? 0) with false. cbv iota.
  change (N.to_nat (N.land 132 127)) with 4%nat. cbn [length Nat.ltb Nat.leb firstn skipn]. cbv zeta. cbn [bind].
  f_equal. f_equal. rewrite be_val4. lia.
Qed.
Lemma glo_decode tag mk s c text : (tag =? tag) = true -> sc_ok s = true -> c < 4294967296 -> content_ok text = true ->
  glo_initiate_from_bytes tag mk (tag :: std_ciphered s c text) = Ok (mk s c text).
Proof.
  intros Ht Hs Hc Hl. destruct (sc_enc s Hs) as (_ & B & _). unfold content_ok in Hl. apply N.ltb_lt in Hl.
  unfold glo_initiate_from_bytes. cbn [pop1 bind]. rewrite Ht. cbn [negb].
  unfold std_ciphered, octets. set (content := std_sc s :: u32 c ++ text).
  assert (L : len content = len text + 5) by (unfold content, len; cbn [length app u32]; lia).
  rewrite glo_len_k by lia. rewrite N.eqb_refl. cbn [negb]. unfold content. cbn [pop1 bind].
  rewrite B. cbn [bind u32 app firstn skipn]. fold (u32 c). rewrite be_val_u32 by exact Hc. reflexivity.
Qed.

Lemma ggc_decode title s c text : wf_apdu (GeneralGlobalCipher title s c text) = true ->
  xdlms_from_bytes (std_apdu (GeneralGlobalCipher title s c text)) = Ok (GeneralGlobalCipher title s c text).
Proof.
  cbn [wf_apdu]. intros H. conj.
  match goal with H : sc_ok s = true |- _ => destruct (sc_enc s H) as (_ & B & _) end.
  match goal with H : content_ok text = true |- _ => unfold content_ok in H; apply N.ltb_lt in H end.
  cbn [std_apdu app]. rewrite disp_219. unfold general_global_cipher_from_bytes. cbn [pop1 bind N.eqb Pos.eqb negb].
  unfold octets at 1. rewrite <- app_assoc. rewrite get_len_std by lia. cbn [bind]. rewrite take_n_eq.
  unfold len at 1. rewrite Nat2N.id, take_app. cbn [bind].
  unfold std_ciphered, octets. set (content := std_sc s :: u32 c ++ text).
  assert (L : len content = len text + 5) by (unfold content, len; cbn [length app u32]; lia).
  rewrite <- (app_nil_r content) at 2. rewrite get_len_std by lia. cbn [bind]. rewrite take_n_eq.
  unfold len at 1. rewrite Nat2N.id, take_app. cbn [bind]. unfold content. cbn [pop1 bind]. rewrite B. cbn [bind u32 app firstn skipn].
  fold (u32 c). rewrite be_val_u32 by assumption. reflexivity.
Qed.

Lemma initiate_response_decode conf max_pdu version qos : wf_apdu (InitiateResponse conf max_pdu version qos) = true ->
  xdlms_from_bytes (std_apdu (InitiateResponse conf max_pdu version qos)) = Ok (InitiateResponse conf max_pdu version qos).
Proof.
  cbn [wf_apdu]. intros H. conj.
  repeat match goal with
  | H : Nat.eqb _ _ = true |- _ => apply Nat.eqb_eq in H
  | H : (_ <? _) = true |- _ => apply N.ltb_lt in H
  end.
  match goal with H : length conf = 17%nat |- _ => destruct (conformance_encode_roundtrip conf H) as [_ B] end.
  cbn [std_apdu app]. rewrite disp_8. unfold initiate_response_from_bytes.
  remember (std_conformance conf) as cb eqn:Ecb.
  assert (Lc : length cb = 4%nat) by (subst cb; unfold std_conformance; cbn [length]; rewrite be_bytes_length; reflexivity).
  destruct cb as [|c0 [|c1 [|c2 [|c3 [|c4 cb]]]]]; try discriminate.
  destruct (N.eqb_spec qos 0) as [->|Hq].
  - cbn [app u16 lastn droplast length Nat.sub skipn firstn list_eqb N.eqb Pos.eqb andb negb orb Nat.ltb Nat.leb].
    cbn [pop1 bind N.eqb Pos.eqb negb]. cbn [firstn list_eqb N.eqb Pos.eqb andb negb].
    unfold slice. cbn [length Nat.sub skipn firstn lastn]. rewrite B. fold (u16 max_pdu). rewrite be_val_u16 by assumption. reflexivity.
  - cbn [app u16 lastn droplast length Nat.sub skipn firstn list_eqb N.eqb Pos.eqb andb negb orb Nat.ltb Nat.leb].
    cbn [pop1 bind N.eqb Pos.eqb negb]. cbn [firstn list_eqb N.eqb Pos.eqb andb negb].
    unfold slice. cbn [length Nat.sub skipn firstn lastn]. rewrite B. fold (u16 max_pdu). rewrite be_val_u16 by assumption. reflexivity.
Qed.

Lemma slice_tail {A} (pre mid post : list A) n : n = length (pre ++ mid ++ post) ->
  slice (n - (length mid + length post)) (n - length post) (pre ++ mid ++ post) = mid.
Proof.
  intros ->. unfold slice. rewrite !app_length.
  replace (length pre + (length mid + length post) - (length mid + length post))%nat with (length pre) by lia.
  replace (length pre + (length mid + length post) - length post - length pre)%nat with (length mid) by lia.
  rewrite skipn_app_exact by reflexivity. apply firstn_app_exact. reflexivity.
Qed.
Lemma lastn_app {A} (pre post : list A) k : k = length post -> lastn k (pre ++ post) = post.
Proof. intros ->. unfold lastn. rewrite app_length. replace (length pre + length post - length post)%nat with (length pre) by lia.
  apply skipn_app_exact. reflexivity. Qed.

Lemma initiate_request_decode conf qos max_pdu version ra dk : wf_apdu (InitiateRequest conf qos max_pdu version ra dk) = true ->
  xdlms_from_bytes (std_apdu (InitiateRequest conf qos max_pdu version ra dk)) = Ok (InitiateRequest conf qos max_pdu version ra dk).
Proof.
  cbn [wf_apdu]. intros H. conj.
  repeat match goal with
  | H : Nat.eqb _ _ = true |- _ => apply Nat.eqb_eq in H
  | H : (_ <? _) = true |- _ => apply N.ltb_lt in H
  | H : (_ =? _) = true |- _ => apply N.eqb_eq in H
  end.
  destruct qos as [[|q]|]; try discriminate. destruct ra; [|discriminate]. subst version.
  match goal with H : length conf = 17%nat |- _ => destruct (conformance_encode_roundtrip conf H) as [_ B] end.
  cbn [std_apdu app]. rewrite disp_1. unfold initiate_request_from_bytes. cbn [pop1 bind N.eqb Pos.eqb negb].
  assert (Lc : length (std_conformance conf) = 4%nat) by (unfold std_conformance; cbn [length]; rewrite be_bytes_length; reflexivity).
  set (keypart := match dk with None => [0] | Some k => 1 :: octets k end).
  set (d0 := keypart ++ 0 :: 0 :: 6 :: 95 :: 31 :: 4 :: std_conformance conf ++ u16 max_pdu).
  assert (Econf : slice (length d0 - 6) (length d0 - 2) d0 = std_conformance conf).
  { unfold d0. change (keypart ++ 0 :: 0 :: 6 :: 95 :: 31 :: 4 :: std_conformance conf ++ u16 max_pdu)
      with (keypart ++ [0; 0; 6; 95; 31; 4] ++ std_conformance conf ++ u16 max_pdu). rewrite app_assoc.
    replace 6%nat with (length (std_conformance conf) + length (u16 max_pdu))%nat by (rewrite Lc; reflexivity).
    replace 2%nat with (length (u16 max_pdu)) at 2 by reflexivity. apply slice_tail. reflexivity. }
  assert (Epdu : lastn 2 d0 = u16 max_pdu).
  { unfold d0. change (keypart ++ 0 :: 0 :: 6 :: 95 :: 31 :: 4 :: std_conformance conf ++ u16 max_pdu)
      with (keypart ++ [0; 0; 6; 95; 31; 4] ++ std_conformance conf ++ u16 max_pdu). rewrite !app_assoc. apply lastn_app. reflexivity. }
  rewrite Econf, Epdu, B, be_val_u16 by assumption.
  assert (Etail : forall key, 
     (do (ind, d) <- take 1 (0 :: 0 :: 6 :: 95 :: 31 :: 4 :: std_conformance conf ++ u16 max_pdu);
      do (ra, d) <- (if list_eqb ind [0] then Ok (true, d) else
                  do (n, d) <- get_len d; do (v, d) <- take_n n d; Ok (negb (Nat.eqb (length v) 0), d));
      do (q, d) <- take 1 d;
      do (v, d) <- take 1 d;
      do (rest, _) <- take 9 d;
      if negb (list_eqb (firstn 2 rest) [95; 31]) then Err ERefused else
      Ok (InitiateRequest conf (Some (be_val q)) max_pdu (be_val v) ra key)) = Ok (InitiateRequest conf (Some 0) max_pdu 6 true key)).
  { intros key. remember (std_conformance conf) as cb eqn:Ecb.
    destruct cb as [|c0 [|c1 [|c2 [|c3 [|c4 cb]]]]]; try discriminate.
    cbn [app u16 take length Nat.leb firstn skipn bind list_eqb N.eqb Pos.eqb andb negb]. reflexivity. }
  destruct dk as [k|]; unfold d0, keypart.
  - conj.
    cbn [app take length Nat.leb firstn skipn bind list_eqb N.eqb Pos.eqb andb]. 
    unfold octets. rewrite <- app_assoc. rewrite get_len_std by lia. cbn [bind]. rewrite take_n_eq. unfold len at 1. rewrite Nat2N.id, take_app.
    cbn [bind]. rewrite Etail. destruct k; [discriminate|]. reflexivity.
  - cbn [app take length Nat.leb firstn skipn bind list_eqb N.eqb Pos.eqb andb]. apply Etail.
Qed.

(* ---------- decoding the standard bytes returns the value ---------- *)
Theorem apdu_decode_std a : wf_apdu a = true -> xdlms_from_bytes (std_apdu a) = Ok a.
Proof.
  destruct a; cbn [wf_apdu]; intros H.
  - (* GetRequestNormal *) destruct access; fields; [discriminate|]. cbn [std_apdu app]. rewrite disp_192.
    unfold get_request_from_bytes. lit.
    change (enum GenEnums.enum_GetRequestType 1) with (Ok 1 : res N). lit.
    cbn [take length Nat.leb firstn skipn]. lit. rw. lit.
    rewrite (take_app' 9 (std_desc attr) [0]) by assumption. lit. rw. lit.
    cbn [take length Nat.leb firstn skipn list_eqb]. lit. reflexivity.
  - (* GetRequestNext *) fields. cbn [std_apdu app]. rewrite disp_192. unfold get_request_from_bytes. lit.
    change (enum GenEnums.enum_GetRequestType 2) with (Ok 2 : res N). lit. rw. lit.
    cbn [u32 length Nat.eqb]. lit. fold (u32 block). rewrite be_val_u32 by assumption. reflexivity.
  - (* GetResponseNormal *) fields. cbn [std_apdu app]. rewrite disp_196. unfold get_response_from_bytes. lit.
    change (enum GenEnums.enum_GetResponseType 1) with (Ok 1 : res N). lit. rw. lit. reflexivity.
  - (* GetResponseNormalWithError *) fields. cbn [std_apdu app]. rewrite disp_196. unfold get_response_from_bytes. lit.
    change (enum GenEnums.enum_GetResponseType 1) with (Ok 1 : res N). lit. rw. lit.
    cbn [length Nat.eqb]. lit. rw. lit. reflexivity.
  - (* GetResponseWithBlock *) fields. cbn [std_apdu app u32]. rewrite disp_196. unfold get_response_from_bytes. lit.
    change (enum GenEnums.enum_GetResponseType 2) with (Ok 2 : res N). lit. rw. lit.
    cbn [firstn skipn]. lit. rewrite block_data_std by assumption. lit. fold (u32 block). rewrite be_val_u32 by assumption. reflexivity.
  - (* GetResponseLastBlock *) fields. cbn [std_apdu app u32]. rewrite disp_196. unfold get_response_from_bytes. lit.
    change (enum GenEnums.enum_GetResponseType 2) with (Ok 2 : res N). lit. rw. lit.
    cbn [firstn skipn]. lit. rewrite block_data_std by assumption. lit. fold (u32 block). rewrite be_val_u32 by assumption. reflexivity.
  - (* GetResponseLastBlockWithError *) fields. cbn [std_apdu app u32]. rewrite disp_196. unfold get_response_from_bytes. lit.
    change (enum GenEnums.enum_GetResponseType 2) with (Ok 2 : res N). lit. rw. lit.
    cbn [firstn skipn length Nat.eqb]. lit. rw. lit. fold (u32 block). rewrite be_val_u32 by assumption. reflexivity.
  - (* SetRequestNormal *) fields. cbn [std_apdu app]. rewrite disp_193. unfold set_request_from_bytes. lit.
    change (enum GenEnums.enum_SetRequestType 1) with (Ok 1 : res N). lit. rw. lit.
    rewrite firstn_app_exact, skipn_app_exact by assumption. rw. lit. reflexivity.
  - (* SetResponseNormal *) fields. cbn [std_apdu app]. rewrite disp_197. unfold set_response_from_bytes. lit.
    change (enum GenEnums.enum_SetResponseType 1) with (Ok 1 : res N). lit. rw. lit. rw. lit. reflexivity.
  - (* ActionRequestNormal *)
    destruct data as [[|d0 d]|]; fields; try discriminate; cbn [std_apdu app]; rewrite disp_195; unfold action_request_from_bytes; lit;
      change (enum GenEnums.enum_ActionType 1) with (Ok 1 : res N); lit; rw; lit;
      rewrite firstn_app_exact by assumption; rw; lit.
    + rewrite nth_error_app2 by lia. replace (9 - length (std_desc meth))%nat with 0%nat by lia. cbn [nth_error]. lit.
      replace 10%nat with (length (std_desc meth) + 1)%nat by lia. rewrite <- skipn_skipn'. rewrite skipn_app_exact by reflexivity.
      reflexivity.
    + rewrite nth_error_app2 by lia. replace (9 - length (std_desc meth))%nat with 0%nat by lia. cbn [nth_error]. lit. reflexivity.
  - (* ActionResponseNormal *) fields. cbn [std_apdu app]. rewrite disp_199. unfold action_response_from_bytes. lit.
    change (enum GenEnums.enum_ActionType 1) with (Ok 1 : res N). lit. rw. lit. rw. lit. reflexivity.
  - (* ActionResponseNormalWithData *) fields. cbn [std_apdu app]. rewrite disp_199. unfold action_response_from_bytes. lit.
    change (enum GenEnums.enum_ActionType 1) with (Ok 1 : res N). lit. rw. lit. rw. lit. reflexivity.
  - (* ActionResponseNormalWithError *) fields. cbn [std_apdu app]. rewrite disp_199. unfold action_response_from_bytes. lit.
    change (enum GenEnums.enum_ActionType 1) with (Ok 1 : res N). lit. rw. lit. rw. lit.
    cbn [length Nat.eqb]. lit. rw. lit. reflexivity.
  - (* DataNotification *)
    destruct l as [[[[i p] c] s] b]. fields.
    match goal with H : (i <? _) = true |- _ => apply N.ltb_lt in H; destruct (liid_enc i p c s b H) as [_ B] end.
    rewrite disp_dn. unfold data_notification_from_bytes. lit.
    destruct dt as [x|]; cbn [std_apdu app]; lit;
      rewrite (firstn_app_exact (std_liid (i, p, c, s, b))), (skipn_app_exact (std_liid (i, p, c, s, b))) by reflexivity; rw; lit; [|reflexivity].
    fields. rewrite (firstn_app_exact (std_datetime x no_status)), (skipn_app_exact (std_datetime x no_status)) by apply std_datetime_length.
    rewrite datetime_roundtrip by assumption. lit. cbn [fst]. rewrite trunc_whole by assumption. reflexivity.
  - (* ExceptionResponse *)
    fields. rewrite disp_exc. unfold exception_response_from_bytes.
    destruct counter as [n|]; cbn [std_apdu app]; lit; rewrite !member_enum by assumption; lit; fields.
    + match goal with H : (service_error =? 6) = true |- _ => rewrite H end. rewrite be_val_u32 by assumption. reflexivity.
    + match goal with H : negb (service_error =? 6) = true |- _ => apply negb_true_iff in H; rewrite H end. reflexivity.
  - (* ConfirmedServiceError *) apply cse_decode. exact H.
  - (* InitiateRequest *) apply initiate_request_decode. exact H.
  - (* InitiateResponse *) apply initiate_response_decode. exact H.
  - (* GlobalCipherInitiateRequest *) conj. cbn [std_apdu app]. rewrite disp_33. apply glo_decode; try assumption; reflexivity.
  - conj. cbn [std_apdu app]. rewrite disp_40. apply glo_decode; try assumption; reflexivity.
  - (* GeneralGlobalCipher *) apply ggc_decode. exact H.
  - discriminate.
Qed.


(* ---------- the property ---------- *)
Theorem apdu_codec a : wf_apdu a = true ->
  apdu_to_bytes a = Ok (std_apdu a) /\ xdlms_from_bytes (std_apdu a) = Ok a.
Proof. intros H. split; [apply apdu_encode_std | apply apdu_decode_std]; exact H. Qed.

Theorem apdu_encoding_injective a b : wf_apdu a = true -> wf_apdu b = true ->
  apdu_to_bytes a = apdu_to_bytes b -> a = b.
Proof.
  intros Ha Hb E. rewrite (apdu_encode_std a Ha), (apdu_encode_std b Hb) in E. injection E as E.
  pose proof (apdu_decode_std a Ha) as Da. rewrite E, (apdu_decode_std b Hb) in Da. congruence.
Qed.

(* one value of every kind lies in the domain (the hypotheses are satisfiable, with payloads across the 127/128 boundary) *)
Definition ex_iid : iid := (9, true, false).
Definition ex_desc : cosem_desc := (3, [1; 0; 1; 8; 0; 255], 2).
Definition ex_sc : sc := (0, true, true, false, false).
Definition ex_payload : bytes := repeat 90 200.
Definition ex_conf : list bool := bools_of 17 74565.
Definition ex_values : list apdu :=
  [ GetRequestNormal ex_desc ex_iid None; GetRequestNext 4294967295 ex_iid; GetResponseNormal ex_payload ex_iid;
    GetResponseNormalWithError 250 ex_iid; GetResponseWithBlock ex_payload 7 ex_iid; GetResponseLastBlock ex_payload 8 ex_iid;
    GetResponseLastBlockWithError 1 9 ex_iid; SetRequestNormal ex_desc ex_payload ex_iid; SetResponseNormal 3 ex_iid;
    ActionRequestNormal ex_desc (Some ex_payload) ex_iid; ActionRequestNormal ex_desc None ex_iid; ActionResponseNormal 0 ex_iid;
    ActionResponseNormalWithData 0 ex_payload ex_iid; ActionResponseNormalWithError 1 2 ex_iid;
    DataNotification (16777215, true, false, true, false) (Some (2024, 2, 29, 23, 59, 59, 990000, Some 60%Z)) ex_payload;
    DataNotification (0, false, false, false, false) None [];
    ExceptionResponse 1 6 (Some 4294967295); ExceptionResponse 2 3 None; ConfirmedServiceError 9 4; ConfirmedServiceError 6 1;
    InitiateRequest ex_conf (Some 0) 65535 6 true (Some (repeat 1 16)); InitiateRequest ex_conf (Some 0) 0 6 true None;
    InitiateResponse ex_conf 500 6 0; InitiateResponse ex_conf 500 6 5;
    GlobalCipherInitiateRequest ex_sc 1 ex_payload; GlobalCipherInitiateResponse ex_sc 2 ex_payload;
    GeneralGlobalCipher [1; 2; 3; 4; 5; 6; 7; 8] ex_sc 3 ex_payload ].
Lemma ex_values_wf : forallb wf_apdu ex_values = true. Proof. vm_compute. reflexivity. Qed.
Lemma ex_values_roundtrip :
  forallb (fun a => match apdu_to_bytes a with Ok b => match xdlms_from_bytes b with Ok _ => true | Err _ => false end | Err _ => false end)
    ex_values = true.
Proof. vm_compute. reflexivity. Qed.

(* ---------- outside the domain: what the code does not invert (known findings F01e, F01f) ---------- *)
Theorem get_request_access_selection_refuted :
  exists a b, apdu_to_bytes a = Ok b /\ xdlms_from_bytes b <> Ok a.
Proof.
  exists (GetRequestNormal ex_desc ex_iid (Some [2])). eexists. split; [vm_compute; reflexivity|]. vm_compute. discriminate.
Qed.
Theorem initiate_request_fields_refuted :
  exists a a' b, a <> a' /\ apdu_to_bytes a = Ok b /\ apdu_to_bytes a' = Ok b.
Proof.
  exists (InitiateRequest ex_conf (Some 0) 1200 6 true None), (InitiateRequest ex_conf None 1200 6 false None). eexists.
  split; [discriminate|]. split; vm_compute; reflexivity.
Qed.
