(* C04, C06, C07, C08: theorems about the model of DlmsConnection, for an arbitrary block function E
   (with 16-byte output where decryption is concerned), hence for AES. *)
From Dlms Require Import Base Sweep FieldsModel AxdrModel XdlmsModel XdlmsSpec XdlmsProofs AcseModel AssocModel Aes Gcm SecurityModel SecurityProofs ConnModel.
From Dlms.Gen Require GenApdu GenAcse GenDlmsState.
From Coq Require Import ZifyBool ZifyN FinFun.

Section PROOFS.
  Variable E : bytes -> bytes -> bytes.

  (* one step of a session *)
  Inductive cop := OSend (m : msg) | ORecv (b : bytes) | OReply.
  Inductive cres := RBytes (r : res bytes) | RMsg (r : res msg).
  Definition step (k : cfg) (c : cst) (o : cop) : cres * cst :=
    match o with
    | OSend m => let '(r, c') := dlms_send E k c m in (RBytes r, c')
    | ORecv b => let '(r, c') := dlms_next_event E k c b in (RMsg r, c')
    | OReply => let '(r, c') := dlms_hls_reply E k c in (RBytes r, c')
    end.
  Fixpoint run (k : cfg) (c : cst) (ops : list cop) : list cres * cst :=
    match ops with
    | [] => ([], c)
    | o :: r => let '(x, c1) := step k c o in let '(xs, c2) := run k c1 r in (x :: xs, c2)
    end.
  Definition refused (r : cres) : bool := match r with RMsg (Err _) => true | _ => false end.

  (* ================= C07 ================= *)
  Theorem refusal_preserves k c buf e c' : dlms_next_event E k c buf = (Err e, c') -> c' = c.
  Proof. unfold dlms_next_event. destruct (dlms_next_event_raw E k c buf) as [[m c1]|x]; intros H; inversion H; reflexivity. Qed.

  Theorem forgery_does_not_wedge k c bad e c' : dlms_next_event E k c bad = (Err e, c') ->
    forall ops, run k c' ops = run k c ops.
  Proof. intros H ops. rewrite (refusal_preserves _ _ _ _ _ H). reflexivity. Qed.

  Lemma run_app k c a b : run k c (a ++ b) = let '(xa, c1) := run k c a in let '(xb, c2) := run k c1 b in (xa ++ xb, c2).
  Proof.
    revert c. induction a as [|o a IH]; intros c; cbn [app run].
    - destruct (run k c b). reflexivity.
    - destruct (step k c o) as [x c1]. rewrite IH. destruct (run k c1 a) as [xa c2]. destruct (run k c2 b) as [xb c3]. reflexivity.
  Qed.
  (* a refused input anywhere in a session: everything that follows is what it would have been without it *)
  Theorem refused_input_leaves_no_trace k c before bad after :
    let '(_, c1) := run k c before in
    forall e c2, dlms_next_event E k c1 bad = (Err e, c2) ->
    run k c (before ++ ORecv bad :: after) =
      let '(xb, _) := run k c before in let '(xa, cf) := run k c1 after in (xb ++ RMsg (Err e) :: xa, cf).
  Proof.
    destruct (run k c before) as [xb c1] eqn:Eb. intros e c2 H.
    rewrite run_app, Eb. cbn [run step]. rewrite H. rewrite (refusal_preserves _ _ _ _ _ H).
    destruct (run k c1 after). reflexivity.
  Qed.
  (* receiving never touches the client's counter *)
  Theorem next_event_keeps_client_counter k c buf : c_cic (snd (dlms_next_event E k c buf)) = c_cic c.
  Proof.
    unfold dlms_next_event. destruct (dlms_next_event_raw E k c buf) as [[m c1]|x] eqn:R; [|reflexivity]. cbn [snd].
    unfold dlms_next_event_raw in R. destruct (msg_from_bytes buf) as [m0|]; [|discriminate]. cbn [bind] in R.
    set (c0 := match m0 with MAare e => set_meter_info c (e_title e) (e_auth e) (e_value e) | _ => c end) in R.
    assert (H0 : c_cic c0 = c_cic c) by (unfold c0; destruct m0; reflexivity).
    assert (H1 : forall m2 c2, (if use_protection k then unprotect E k c0 m0 else Ok (m0, c0)) = Ok (m2, c2) -> c_cic c2 = c_cic c0).
    { intros m2 c2. destruct (use_protection k); [|intros [= _ <-]; reflexivity].
      unfold unprotect, check_counter. destruct m0 as [a|q|e|r|r]; try discriminate.
      - destruct a; try discriminate. destruct (counter <=? c_mic c0); [discriminate|]. cbn [bind].
        destruct (dlms_decrypt _ _ _ _); [|discriminate]. cbn [bind]. destruct (msg_from_bytes _); [|discriminate]. intros [= _ <-]. reflexivity.
      - destruct (e_user e) as [[]|]; try (intros [= _ <-]; reflexivity).
        destruct (counter <=? c_mic c0); [discriminate|]. cbn [bind].
        destruct (dlms_decrypt _ _ _ _); [|discriminate]. cbn [bind]. destruct (initiate_response_from_bytes _); [|discriminate]. intros [= _ <-]. reflexivity.
      - destruct (r_user r) as [[]|]; try (intros [= _ <-]; reflexivity).
        destruct (counter <=? c_mic c0); [discriminate|]. cbn [bind].
        destruct (dlms_decrypt _ _ _ _); [|discriminate]. cbn [bind]. destruct (initiate_response_from_bytes _); [|discriminate]. intros [= _ <-]. reflexivity. }
    destruct (if use_protection k then unprotect E k c0 m0 else Ok (m0, c0)) as [[m2 c2]|] eqn:U; [|discriminate]. cbn [bind] in R.
    specialize (H1 _ _ eq_refl).
    destruct (assoc_recv _ _ _) as [[[]|] s']; [|discriminate]. injection R as _ <-.
    destruct m2 as [a|q|e|r|r]; cbn; try congruence. destruct (e_user e) as [[]|]; cbn; congruence.
  Qed.
End PROOFS.

(* ================= C04 ================= *)
Section C04.
  Variable E : bytes -> bytes -> bytes.

  (* both keys configured (and not empty) *)
  Definition keyed (k : cfg) (ek ak : bytes) : Prop := truthy_key (k_ek k) = Some ek /\ truthy_key (k_ak k) = Some ak.
  Definition cipher_sc (k : cfg) : sc := (k_suite k, true, true, false, false).

  Lemma keyed_protection k ek ak : keyed k ek ak -> use_protection k = true /\ security_control k = cipher_sc k.
  Proof.
    intros [H1 H2]. unfold use_protection, security_control, cipher_sc. rewrite H1, H2.
    unfold truthy_key, truthy in H1. destruct (k_ek k) as [[|]|]; try discriminate. split; reflexivity.
  Qed.
  Lemma encrypt_inv k c pt ct ic c' : dlms_encrypt E k c pt = (Ok (ct, ic), c') ->
    exists ek ak, keyed k ek ak /\ sec_encrypt E (security_control k) (k_title k) (c_cic c) ek ak pt = Ok ct /\ ic = c_cic c /\
                  c' = set_cic c (c_cic c + 1).
  Proof.
    unfold dlms_encrypt. destruct (truthy_key (k_ek k)) as [ek|] eqn:E1; [|discriminate].
    destruct (truthy_key (k_ak k)) as [ak|] eqn:E2; [|discriminate].
    destruct (sec_encrypt _ _ _ _ _ _ _) as [x|] eqn:E3; [|discriminate]. intros [= <- <- <-].
    exists ek, ak. repeat split; assumption.
  Qed.

  (* what can come out of send on a connection that uses protection *)
  Inductive ciphered_output (k : cfg) (c : cst) : msg -> bytes -> Prop :=
  | out_service a pt ct ek ak b :
      keyed k ek ak -> apdu_to_bytes a = Ok pt ->
      sec_encrypt E (cipher_sc k) (k_title k) (c_cic c) ek ak pt = Ok ct ->
      apdu_to_bytes (GeneralGlobalCipher (k_title k) (cipher_sc k) (c_cic c) ct) = Ok b ->
      ciphered_output k c (MX a) b
  | out_aarq q pt ct ek ak b q' :
      keyed k ek ak -> apdu_to_bytes (q_user q) = Ok pt ->
      sec_encrypt E (cipher_sc k) (k_title k) (c_cic c) ek ak pt = Ok ct ->
      q_user q' = GlobalCipherInitiateRequest (cipher_sc k) (c_cic c) ct -> aarq_to_bytes q' = Ok b ->
      ciphered_output k c (MAarq q) b
  | out_rlrq r u pt ct ek ak b :
      r_user r = Some u -> keyed k ek ak -> apdu_to_bytes u = Ok pt ->
      sec_encrypt E (cipher_sc k) (k_title k) (c_cic c) ek ak pt = Ok ct ->
      rlrq_to_bytes {| r_reason := r_reason r; r_user := Some (GlobalCipherInitiateRequest (cipher_sc k) (c_cic c) ct) |} = Ok b ->
      ciphered_output k c (MRlrq r) b
  | out_rlrq_bare r b : r_user r = None -> rlrq_to_bytes r = Ok b -> ciphered_output k c (MRlrq r) b.

  Theorem send_is_ciphered k c m b c' : use_protection k = true -> dlms_send E k c m = (Ok b, c') -> ciphered_output k c m b.
  Proof.
    intros Hp. unfold dlms_send. destruct (k_pre k && _); [discriminate|].
    destruct (process_event (c_state c) (msg_kind m)) as [s'|]; [|discriminate]. rewrite Hp.
    destruct (protect E k (set_state c s') m) as [[m'|] c2] eqn:P; [|discriminate]. intros [= Hb <-].
    unfold protect in P. destruct m as [a|q|e|r|r]; try discriminate.
    - destruct (apdu_to_bytes a) as [pt|] eqn:A; [|discriminate].
      destruct (dlms_encrypt E k (set_state c s') pt) as [[[ct ic]|] c3] eqn:En; [|discriminate]. injection P as <- <-.
      destruct (encrypt_inv _ _ _ _ _ _ En) as (ek & ak & K & S & -> & _). destruct (keyed_protection _ _ _ K) as [_ Sc].
      rewrite Sc in *. cbn [c_cic set_state] in *. cbn [msg_to_bytes] in Hb. eapply out_service; eassumption.
    - destruct (apdu_to_bytes (q_user q)) as [pt|] eqn:A; [|discriminate].
      destruct (dlms_encrypt E k (set_state c s') pt) as [[[ct ic]|] c3] eqn:En; [|discriminate]. injection P as <- <-.
      destruct (encrypt_inv _ _ _ _ _ _ En) as (ek & ak & K & S & -> & _). destruct (keyed_protection _ _ _ K) as [_ Sc].
      rewrite Sc in *. cbn [c_cic set_state] in *. cbn [msg_to_bytes] in Hb. eapply out_aarq; try eassumption. reflexivity.
    - destruct (r_user r) as [u|] eqn:U.
      + destruct (apdu_to_bytes u) as [pt|] eqn:A; [|discriminate].
        destruct (dlms_encrypt E k (set_state c s') pt) as [[[ct ic]|] c3] eqn:En; [|discriminate]. injection P as <- <-.
        destruct (encrypt_inv _ _ _ _ _ _ En) as (ek & ak & K & S & -> & _). destruct (keyed_protection _ _ _ K) as [_ Sc].
        rewrite Sc in *. cbn [c_cic set_state] in *. cbn [msg_to_bytes] in Hb. eapply out_rlrq; eassumption.
      + injection P as <- <-. cbn [msg_to_bytes] in Hb. apply out_rlrq_bare; assumption.
  Qed.

  (* the layout of a ciphered service APDU and that its content decrypts to the plain encoding *)
  Lemma sec_encrypt_inv x title ic key ak pt ct : sec_encrypt E x title ic key ak pt = Ok ct ->
    (sc_encrypted x || sc_authenticated x = true) /\ length title = 8%nat /\ ic < 2 ^ 32 /\ keys_ok x key ak.
  Proof.
    unfold sec_encrypt, prepare. destruct (negb (sc_encrypted x) && negb (sc_authenticated x)) eqn:F; [discriminate|].
    destruct (Nat.eqb (length title) 8) eqn:T; [|discriminate]. cbn [negb].
    unfold to_bytes_be. destruct (ic <? 256 ^ N.of_nat 4) eqn:I; [|discriminate]. cbn [bind].
    destruct (validate_key (sc_suite x) key) as [[]|] eqn:K1; [|discriminate]. cbn [bind].
    destruct (validate_key (sc_suite x) ak) as [[]|] eqn:K2; [|discriminate]. cbn [bind].
    destruct (gcm_encrypt _ _ _ _) as [c t] eqn:G. intros [= <-].
    split. { destruct (sc_encrypted x), (sc_authenticated x); try reflexivity; discriminate. }
    split. { apply Nat.eqb_eq. exact T. }
    split. { apply N.ltb_lt in I. exact I. }
    split; assumption.
  Qed.

  (* a service APDU leaves as general-glo-ciphering with the client title, the security control byte 0x30 + suite and the
     counter used, in the standard layout; its content is the GCM protection of the plain encoding and decrypts to it *)
  Theorem service_apdu_layout k c a b c' : (forall key blk, length (E key blk) = 16%nat) ->
    use_protection k = true -> dlms_send E k c (MX a) = (Ok b, c') ->
    exists ek ak pt ct, keyed k ek ak /\ apdu_to_bytes a = Ok pt /\
      sec_encrypt E (cipher_sc k) (k_title k) (c_cic c) ek ak pt = Ok ct /\
      sec_decrypt E (cipher_sc k) (k_title k) (c_cic c) ek ak ct = Ok pt /\
      (len ct + 5 < 4294967296 -> b = [219; 8] ++ k_title k ++ std_ciphered (cipher_sc k) (c_cic c) ct) /\
      c_cic c' = c_cic c + 1.
  Proof.
    intros HE Hp H. pose proof (send_is_ciphered _ _ _ _ _ Hp H) as O. inversion O as [a0 pt ct ek ak b0 K A S G| | |]; subst.
    exists ek, ak, pt, ct. destruct (sec_encrypt_inv _ _ _ _ _ _ _ S) as (F & T & I & KO).
    split; [exact K|]. split; [exact A|]. split; [exact S|].
    split. { apply (unprotect_protect E HE); assumption. }
    split.
    - intros L.
      assert (W : wf_apdu (GeneralGlobalCipher (k_title k) (cipher_sc k) (c_cic c) ct) = true).
      { cbn [wf_apdu cipher_sc sc_ok]. unfold u32_ok, content_ok, len. rewrite T.
        destruct KO as [K1 _]. unfold validate_key, key_length in K1. cbn [sc_suite cipher_sc] in K1.
        destruct (N.leb_spec (k_suite k) 2) as [_|Hs].
        - change (2 ^ 32) with 4294967296 in I. apply N.ltb_lt in I. rewrite I.
          replace (N.of_nat (length ct) + 5 <? 4294967296) with true by (symmetry; apply N.ltb_lt; exact L). reflexivity.
        - destruct (N.eqb_spec (k_suite k) 0); [lia|]. destruct (N.eqb_spec (k_suite k) 1); [lia|]. destruct (N.eqb_spec (k_suite k) 2); [lia|discriminate]. }
      pose proof (XdlmsProofs.apdu_encode_std _ W) as Es. rewrite Es in G. injection G as <-.
      cbn [std_apdu app]. unfold octets at 1. unfold len at 1. rewrite T. reflexivity.
    - unfold dlms_send in H. destruct (k_pre k && _); [discriminate|].
      destruct (process_event (c_state c) (msg_kind (MX a))) as [s'|]; [|discriminate]. rewrite Hp in H.
      unfold protect in H. rewrite A in H.
      destruct (dlms_encrypt E k (set_state c s') pt) as [[[ct' ic]|] c3] eqn:En; [|discriminate].
      destruct (encrypt_inv _ _ _ _ _ _ En) as (_ & _ & _ & _ & _ & ->). injection H as _ <-. reflexivity.
  Qed.

  (* an unciphered APDU arriving on a connection that uses protection is refused and changes nothing: it is never delivered *)
  Theorem plaintext_refused k c buf a : use_protection k = true -> msg_from_bytes buf = Ok (MX a) ->
    (forall t s ic x, a <> GeneralGlobalCipher t s ic x) -> dlms_next_event E k c buf = (Err ERefused, c).
  Proof.
    intros Hp Hm Hn. unfold dlms_next_event, dlms_next_event_raw. rewrite Hm. cbn [bind]. rewrite Hp.
    unfold unprotect. destruct a; try reflexivity. exfalso. eapply Hn. reflexivity.
  Qed.
  (* protection in use but a key missing: nothing that has parameters to protect leaves the connection *)
  Theorem missing_key_sends_nothing k c m b c' : use_protection k = true -> (truthy_key (k_ek k) = None \/ truthy_key (k_ak k) = None) ->
    dlms_send E k c m = (Ok b, c') -> exists r, m = MRlrq r /\ r_user r = None.
  Proof.
    intros Hp Hk H. pose proof (send_is_ciphered _ _ _ _ _ Hp H) as O.
    inversion O as [? ? ? ek ak ? [K1 K2]|? ? ? ek ak ? ? [K1 K2]|? ? ? ? ek ak ? ? [K1 K2]|r ? U]; subst;
      try (destruct Hk as [Hk|Hk]; congruence). exists r. split; [reflexivity|exact U].
  Qed.
End C04.

(* ================= C06 ================= *)
Section C06.
  Variable E : bytes -> bytes -> bytes.

  (* ---- the client's side: every use of the global key consumes the counter it uses ---- *)
  (* the counter a step feeds to the AES-GCM primitive, if it gets that far: dlms_encrypt / the GMAC of the HLS reply are the
     only callers, they use c_cic c, and they succeed exactly when the counter advances *)
  Definition nonce_used (k : cfg) (c : cst) (o : cop) : option N :=
    if c_cic (snd (step E k c o)) =? c_cic c then None else Some (c_cic c).

  Lemma encrypt_counter k c pt r c' : dlms_encrypt E k c pt = (r, c') ->
    (exists ct, r = Ok (ct, c_cic c) /\ c_cic c' = c_cic c + 1) \/ (is_ok r = false /\ c' = c).
  Proof.
    unfold dlms_encrypt. destruct (truthy_key (k_ek k)); [|intros [= <- <-]; right; split; reflexivity].
    destruct (truthy_key (k_ak k)); [|intros [= <- <-]; right; split; reflexivity].
    destruct (sec_encrypt _ _ _ _ _ _ _) as [ct|]; intros [= <- <-]; [left; exists ct; split; reflexivity|right; split; reflexivity].
  Qed.
  Lemma protect_counter k c m r c' : protect E k c m = (r, c') -> c_cic c' = c_cic c \/ c_cic c' = c_cic c + 1.
  Proof.
    unfold protect. destruct m as [a|q|e|r0|r0]; try (intros [= _ <-]; left; reflexivity).
    - destruct (apdu_to_bytes a) as [l|]; [|intros [= _ <-]; left; reflexivity].
      destruct (dlms_encrypt E k c l) as [[[ct ic]|] c3] eqn:En; intros [= _ <-];
        destruct (encrypt_counter _ _ _ _ _ En) as [(x & _ & H)|[_ ->]]; tauto.
    - destruct (apdu_to_bytes (q_user q)) as [l|]; [|intros [= _ <-]; left; reflexivity].
      destruct (dlms_encrypt E k c l) as [[[ct ic]|] c3] eqn:En; intros [= _ <-];
        destruct (encrypt_counter _ _ _ _ _ En) as [(x & _ & H)|[_ ->]]; tauto.
    - destruct (r_user r0) as [a|]; [|intros [= _ <-]; left; reflexivity].
      destruct (apdu_to_bytes a) as [l|]; [|intros [= _ <-]; left; reflexivity].
      destruct (dlms_encrypt E k c l) as [[[ct ic]|] c3] eqn:En; intros [= _ <-];
        destruct (encrypt_counter _ _ _ _ _ En) as [(x & _ & H)|[_ ->]]; tauto.
  Qed.
  Lemma step_counter k c o : c_cic (snd (step E k c o)) = c_cic c \/ c_cic (snd (step E k c o)) = c_cic c + 1.
  Proof.
    destruct o as [m|b|]; cbn [step].
    - destruct (dlms_send E k c m) as [r c'] eqn:S. cbn [snd]. unfold dlms_send in S.
      destruct (k_pre k && _); [injection S as _ <-; left; reflexivity|].
      destruct (process_event (c_state c) (msg_kind m)) as [s'|]; [|injection S as _ <-; left; reflexivity].
      destruct (use_protection k); [|injection S as _ <-; left; reflexivity].
      destruct (protect E k (set_state c s') m) as [[m'|] c2] eqn:P; injection S as _ <-; apply (protect_counter _ _ _ _ _ P).
    - pose proof (next_event_keeps_client_counter E k c b) as H. destruct (dlms_next_event E k c b). cbn [snd] in *. left. exact H.
    - destruct (dlms_hls_reply E k c) as [r c'] eqn:S. cbn [snd]. unfold dlms_hls_reply in S.
      destruct (truthy (c_mchallenge c)); [|injection S as _ <-; left; reflexivity].
      destruct (truthy_key (k_ek k)); [|injection S as _ <-; left; reflexivity].
      destruct (truthy_key (k_ak k)); [|injection S as _ <-; left; reflexivity].
      destruct (c_auth c) as [[|p]|]; try (injection S as _ <-; left; reflexivity).
      repeat (destruct p as [p|p|]; try (injection S as _ <-; left; reflexivity)).
      match type of S with (match ?x with _ => _ end) = _ => destruct x end; injection S as _ <-; [right|left]; reflexivity.
  Qed.

  (* the nonces used over a whole session: start, start+1, start+2, ... - never one twice *)
  Fixpoint nonces (k : cfg) (c : cst) (ops : list cop) : list N :=
    match ops with
    | [] => []
    | o :: r => match nonce_used k c o with Some n => [n] | None => [] end ++ nonces k (snd (step E k c o)) r
    end.
  Theorem client_nonces_consecutive k ops : forall c,
    nonces k c ops = map (fun i => c_cic c + N.of_nat i) (seq 0 (length (nonces k c ops))) /\
    c_cic (snd (run E k c ops)) = c_cic c + N.of_nat (length (nonces k c ops)).
  Proof.
    induction ops as [|o r IH]; intros c; cbn [nonces run].
    - split; [reflexivity|cbn; lia].
    - destruct (step E k c o) as [x c1] eqn:S. cbn [snd]. destruct (IH c1) as [I1 I2].
      destruct (run E k c1 r) as [xs c2] eqn:R. cbn [snd] in *.
      unfold nonce_used. rewrite S. cbn [snd]. pose proof (step_counter k c o) as Hc. rewrite S in Hc. cbn [snd] in Hc.
      destruct (N.eqb_spec (c_cic c1) (c_cic c)) as [Heq|Hne].
      + cbn [app]. rewrite Heq in *. split; assumption.
      + destruct Hc as [Hc|Hc]; [contradiction|]. cbn [app length seq map]. rewrite N.add_0_r. split.
        * f_equal. rewrite I1 at 1. rewrite <- seq_shift, map_map. apply map_ext. intros i. rewrite Hc. lia.
        * rewrite I2, Hc. lia.
  Qed.
  Corollary client_nonces_fresh k c ops : NoDup (nonces k c ops).
  Proof.
    destruct (client_nonces_consecutive k ops c) as [H _]. rewrite H. apply FinFun.Injective_map_NoDup; [|apply seq_NoDup].
    intros i j Hij. lia.
  Qed.

  (* ---- the meter's side: an APDU is accepted only above every counter accepted before ---- *)
  (* the invocation counter a received APDU carries in its ciphered part *)
  Definition wire_counter (buf : bytes) : option N :=
    match msg_from_bytes buf with
    | Ok (MX (GeneralGlobalCipher _ _ ic _)) => Some ic
    | Ok (MAare e) => match e_user e with Some (GlobalCipherInitiateResponse _ ic _) => Some ic | _ => None end
    | Ok (MRlre r) => match r_user r with Some (GlobalCipherInitiateResponse _ ic _) => Some ic | _ => None end
    | _ => None
    end.
  Lemma set_state_mic c s : c_mic (set_state c s) = c_mic c. Proof. reflexivity. Qed.

  Theorem accepted_counter k c buf m c' : dlms_next_event E k c buf = (Ok m, c') ->
    if use_protection k then
      match wire_counter buf with
      | Some ic => c_mic c < ic /\ c_mic c' = ic
      | None => c_mic c' = c_mic c
      end
    else c_mic c' = c_mic c.
  Proof.
    unfold dlms_next_event. destruct (dlms_next_event_raw E k c buf) as [[m1 c1]|x] eqn:R; [|discriminate]. intros [= <- <-].
    unfold dlms_next_event_raw in R. unfold wire_counter. destruct (msg_from_bytes buf) as [m0|]; [|discriminate]. cbn [bind] in R.
    set (c0 := match m0 with MAare e => set_meter_info c (e_title e) (e_auth e) (e_value e) | _ => c end) in R.
    assert (H0 : c_mic c0 = c_mic c) by (unfold c0; destruct m0; reflexivity).
    assert (Hfin : forall m2 c2, match assoc_recv (k_pre k) (c_state c2) (msg_event E k c2 m2) with
                   | (Err e, _) => Err e
                   | (Ok tt, s') =>
                       Ok (m2, match m2 with
                               | MAare e => match e_user e with
                                            | Some (InitiateResponse conf max_pdu _ _) => set_negotiated (set_state c2 s') conf max_pdu
                                            | _ => set_state c2 s' end
                               | _ => set_state c2 s' end)
                   end = Ok (m1, c1) -> c_mic c1 = c_mic c2).
    { intros m2 c2. destruct (assoc_recv _ _ _) as [[[]|] s']; [|discriminate]. intros [= _ <-].
      destruct m2 as [a|q|e|r|r]; try reflexivity. destruct (e_user e) as [[]|]; reflexivity. }
    destruct (use_protection k).
    - unfold unprotect, check_counter in R. destruct m0 as [a|q|e|r|r]; try discriminate.
      + destruct a; try discriminate. destruct (N.leb_spec counter (c_mic c0)); [discriminate|]. cbn [bind] in R.
        destruct (dlms_decrypt _ _ _ _); [|discriminate]. cbn [bind] in R. destruct (msg_from_bytes _); [|discriminate]. cbn [bind] in R.
        apply Hfin in R. cbn in R. split; [lia|exact R].
      + destruct (e_user e) as [[]|] eqn:U; try (cbn [bind] in R; apply Hfin in R; lia).
        destruct (N.leb_spec counter (c_mic c0)); [discriminate|]. cbn [bind] in R.
        destruct (dlms_decrypt _ _ _ _); [|discriminate]. cbn [bind] in R. destruct (initiate_response_from_bytes _); [|discriminate]. cbn [bind] in R.
        apply Hfin in R. cbn in R. split; [lia|exact R].
      + destruct (r_user r) as [[]|] eqn:U; try (cbn [bind] in R; apply Hfin in R; lia).
        destruct (N.leb_spec counter (c_mic c0)); [discriminate|]. cbn [bind] in R.
        destruct (dlms_decrypt _ _ _ _); [|discriminate]. cbn [bind] in R. destruct (initiate_response_from_bytes _); [|discriminate]. cbn [bind] in R.
        apply Hfin in R. cbn in R. split; [lia|exact R].
    - cbn [bind] in R. apply Hfin in R. lia.
  Qed.

  (* over a whole session: the counters of the accepted ciphered APDUs are strictly increasing, all above the starting value -
     a recorded APDU delivered again, or an older one, is never accepted *)
  Definition accepted_here (k : cfg) (c : cst) (o : cop) : option N :=
    match o with
    | ORecv b => match dlms_next_event E k c b with (Ok _, _) => wire_counter b | _ => None end
    | _ => None
    end.
  Fixpoint accepted (k : cfg) (c : cst) (ops : list cop) : list N :=
    match ops with
    | [] => []
    | o :: r => match accepted_here k c o with Some n => [n] | None => [] end ++ accepted k (snd (step E k c o)) r
    end.
  Fixpoint increasing_from (lo : N) (l : list N) : Prop :=
    match l with [] => True | x :: r => lo < x /\ increasing_from x r end.
  Lemma encrypt_mic k c pt r c' : dlms_encrypt E k c pt = (r, c') -> c_mic c' = c_mic c.
  Proof.
    unfold dlms_encrypt. destruct (truthy_key (k_ek k)); [|intros [= _ <-]; reflexivity].
    destruct (truthy_key (k_ak k)); [|intros [= _ <-]; reflexivity].
    destruct (sec_encrypt _ _ _ _ _ _ _); intros [= _ <-]; reflexivity.
  Qed.
  Lemma protect_mic k c m r c' : protect E k c m = (r, c') -> c_mic c' = c_mic c.
  Proof.
    unfold protect. destruct m as [a|q|e|r0|r0]; try (intros [= _ <-]; reflexivity).
    - destruct (apdu_to_bytes a) as [l|]; [|intros [= _ <-]; reflexivity].
      destruct (dlms_encrypt E k c l) as [[[ct ic]|] c3] eqn:En; intros [= _ <-]; apply (encrypt_mic _ _ _ _ _ En).
    - destruct (apdu_to_bytes (q_user q)) as [l|]; [|intros [= _ <-]; reflexivity].
      destruct (dlms_encrypt E k c l) as [[[ct ic]|] c3] eqn:En; intros [= _ <-]; apply (encrypt_mic _ _ _ _ _ En).
    - destruct (r_user r0) as [a|]; [|intros [= _ <-]; reflexivity].
      destruct (apdu_to_bytes a) as [l|]; [|intros [= _ <-]; reflexivity].
      destruct (dlms_encrypt E k c l) as [[[ct ic]|] c3] eqn:En; intros [= _ <-]; apply (encrypt_mic _ _ _ _ _ En).
  Qed.
  Lemma step_mic k c o : use_protection k = true ->
    match accepted_here k c o with
    | Some ic => c_mic c < ic /\ c_mic (snd (step E k c o)) = ic
    | None => c_mic (snd (step E k c o)) = c_mic c
    end.
  Proof.
    intros Hp. destruct o as [m|b|]; cbn [accepted_here step].
    - destruct (dlms_send E k c m) as [r c'] eqn:S. cbn [snd]. unfold dlms_send in S.
      destruct (k_pre k && _); [injection S as _ <-; reflexivity|].
      destruct (process_event (c_state c) (msg_kind m)) as [s'|]; [|injection S as _ <-; reflexivity].
      rewrite Hp in S. destruct (protect E k (set_state c s') m) as [[m'|] c2] eqn:P; injection S as _ <-; apply (protect_mic _ _ _ _ _ P).
    - destruct (dlms_next_event E k c b) as [[m|x] c'] eqn:R; cbn [snd].
      + pose proof (accepted_counter _ _ _ _ _ R) as A. rewrite Hp in A. exact A.
      + apply refusal_preserves in R. subst. reflexivity.
    - destruct (dlms_hls_reply E k c) as [r c'] eqn:S. cbn [snd]. unfold dlms_hls_reply in S.
      repeat match type of S with (match ?x with _ => _ end) = _ => destruct x; try (injection S as _ <-; reflexivity) end.
  Qed.
  Theorem accepted_counters_increase k ops : use_protection k = true -> forall c, increasing_from (c_mic c) (accepted k c ops).
  Proof.
    intros Hp. induction ops as [|o r IH]; intros c; cbn [accepted]; [exact I|].
    pose proof (step_mic k c o Hp) as H. destruct (accepted_here k c o) as [ic|]; cbn [app increasing_from].
    - destruct H as [H1 H2]. split; [exact H1|]. rewrite <- H2. apply IH.
    - rewrite <- H. apply IH.
  Qed.
End C06.

(* ================= C08 ================= *)
Section C08.
  Variable E : bytes -> bytes -> bytes.

  (* the reply to the meter's challenge: SC || counter || GMAC over SC || AK || meter challenge under the client's nonce *)
  Theorem hls_reply_is_standard k c b c' : dlms_hls_reply E k c = (Ok b, c') ->
    exists ek ak ch, truthy_key (k_ek k) = Some ek /\ truthy_key (k_ak k) = Some ak /\ truthy (c_mchallenge c) = Some ch /\
      c_auth c = Some 5 /\ length (k_title k) = 8%nat /\ c_cic c < 2 ^ 32 /\
      b = [k_suite k + 16] ++ be_bytes 4 (c_cic c) ++
          firstn 12 (gcm_tag (E ek) (k_title k ++ be_bytes 4 (c_cic c)) ((k_suite k + 16) :: ak ++ ch) []) /\
      c_cic c' = c_cic c + 1.
  Proof.
    unfold dlms_hls_reply. destruct (truthy (c_mchallenge c)) as [ch|]; [|discriminate].
    destruct (truthy_key (k_ek k)) as [ek|]; [|discriminate]. destruct (truthy_key (k_ak k)) as [ak|]; [|discriminate].
    destruct (c_auth c) as [[|p]|]; try discriminate.
    repeat (destruct p as [p|p|]; try discriminate).
    unfold sec_gmac. cbn [sc_encrypted sc_suite].
    destruct (Nat.eqb (length (k_title k)) 8) eqn:T; [|discriminate]. cbn [negb].
    unfold to_bytes_be at 1. destruct (c_cic c <? 256 ^ N.of_nat 4) eqn:I; [|discriminate]. cbn [bind].
    destruct (validate_key (k_suite k) ek) as [[]|]; [|discriminate]. cbn [bind].
    destruct (validate_key (k_suite k) ak) as [[]|]; [|discriminate]. cbn [bind].
    unfold sc_to_bytes. cbn [sc_to_byte]. rewrite !N.add_0_r.
    destruct (to_bytes_be 1 (k_suite k + 16)) as [sb|] eqn:S1; [|discriminate]. cbn [bind].
    unfold to_bytes_be. rewrite I. cbn [bind]. intros [= <- <-].
    exists ek, ak, ch. repeat split; try reflexivity.
    - apply Nat.eqb_eq. exact T.
    - apply N.ltb_lt in I. exact I.
    - unfold to_bytes_be in S1. destruct (k_suite k + 16 <? 256 ^ N.of_nat 1) eqn:B; [|discriminate]. injection S1 as <-.
      cbn [be_bytes app]. change (256 ^ N.of_nat 1) with 256 in B. apply N.ltb_lt in B. rewrite N.mod_small by exact B. reflexivity.
  Qed.

  (* what it means for the meter's answer to be valid *)
  Lemma hls_proof_valid k c data : hls_proof E k c data = 0 ->
    exists resp x ek ak mt g, parse_as_dlms_data data = Ok (PBytes resp) /\ sc_from_byte (hd 0 resp) = Ok x /\
      truthy_key (k_ek k) = Some ek /\ truthy_key (k_ak k) = Some ak /\ truthy (c_mtitle c) = Some mt /\
      sec_gmac E x mt (be_val (slice 1 5 resp)) ek ak (k_challenge k) = Ok g /\ lastn 12 resp = g.
  Proof.
    unfold hls_proof. destruct (parse_as_dlms_data data) as [[]|]; try discriminate.
    destruct l as [|first rest]; [discriminate|]. destruct (sc_from_byte first) as [x|] eqn:S; [|discriminate].
    destruct (truthy_key (k_ek k)) as [ek|]; [|discriminate]. destruct (truthy_key (k_ak k)) as [ak|]; [|discriminate].
    destruct (truthy (c_mtitle c)) as [mt|]; [|discriminate]. destruct (truthy (Some (k_challenge k))) as [ch|] eqn:C; [|discriminate].
    assert (ch = k_challenge k) by (unfold truthy in C; destruct (k_challenge k); [discriminate|congruence]). subst ch.
    destruct (sec_gmac _ _ _ _ _ _ _) as [g|e] eqn:G; [|destruct (e =? ECipher); discriminate].
    destruct (list_eqb (lastn 12 (first :: rest)) g) eqn:L; [|discriminate]. intros _. apply list_eqb_eq in L.
    exists (first :: rest), x, ek, ak, mt, g. repeat split; try assumption; reflexivity.
  Qed.

  (* the state machine around the HLS exchange, over the generated table *)
  Definition chk_hls_recv (kind : N) : bool :=
    forall_bool (fun pre => forall_bool (fun a => forall_bool (fun b => forall_below 4 (fun p =>
      match assoc_recv pre 10 (Build_ev kind a b p) with
      | (Ok tt, s') => negb (s' =? 2) || ((kind =? 15) && a && (p =? 0))
      | _ => true
      end)))).
  Lemma chk_hls_recv_ok : forall_below 29 chk_hls_recv = true. Proof. vm_compute. reflexivity. Qed.
  Lemma recv_unknown_kind pre s a b p : assoc_recv pre s (Build_ev 99 a b p) = (Err EProto, s).
  Proof.
    unfold assoc_recv, assoc_recv_raw. cbn [e_kind]. rewrite andb_false_r.
    assert (H : process_event s 99 = Err EProto).
    { unfold process_event. assert (G : forall t, forallb (fun e => negb (snd (fst e) =? 99)) t = true -> assoc2 s 99 t = None).
      { induction t as [|[[s0 k0] v] t IH]; [reflexivity|]. cbn [forallb fst snd assoc2]. intros H. apply andb_prop in H as [H1 H2].
        apply negb_true_iff in H1. rewrite N.eqb_sym in H1. rewrite H1, andb_false_r. apply IH. exact H2. }
      rewrite G; [reflexivity|vm_compute; reflexivity]. }
    rewrite H. reflexivity.
  Qed.
  Lemma ready_from_awaiting_result pre ev s' : proof ev < 4 -> e_kind ev < 29 \/ e_kind ev = 99 ->
    assoc_recv pre 10 ev = (Ok tt, s') -> s' = 2 -> e_kind ev = 15 /\ a_flag ev = true /\ proof ev = 0.
  Proof.
    intros Hp Hk H ->. destruct ev as [kind a b p]. cbn [e_kind a_flag proof] in *.
    destruct Hk as [Hk | ->]; [|rewrite recv_unknown_kind in H; discriminate].
    pose proof (forall_below_spec 29 _ chk_hls_recv_ok kind Hk) as C. unfold chk_hls_recv in C.
    pose proof (forall_bool_spec _ (forall_bool_spec _ (forall_bool_spec _ C pre) a) b) as C2. cbv beta in C2.
    pose proof (forall_below_spec 4 _ C2 p Hp) as C3. cbv beta in C3. rewrite H in C3. cbn [N.eqb Pos.eqb negb orb] in C3.
    apply andb_prop in C3 as [C3 P0]. apply andb_prop in C3 as [K A]. apply N.eqb_eq in K, P0. subst. repeat split.
  Qed.
  Lemma apdu_kind_bound a : apdu_kind a < 29 \/ apdu_kind a = 99.
  Proof. destruct a; cbn; (left; lia) || (right; reflexivity). Qed.
  Lemma hls_proof_bound k c d : hls_proof E k c d < 4.
  Proof.
    unfold hls_proof. repeat match goal with |- context [match ?x with _ => _ end] => destruct x end; lia.
  Qed.

  (* the association becomes ready on the meter's answer only if that answer is an ACTION response with status success whose data
     carries the GMAC a holder of both keys computes over the client's challenge under the meter's nonce *)
  Theorem ready_only_if_meter_proves_key_knowledge k c buf m c' :
    c_state c = 10 -> dlms_next_event E k c buf = (Ok m, c') -> c_state c' = 2 ->
    exists data iid resp x ek ak mt g,
      m = MX (ActionResponseNormalWithData 0 data iid) /\
      parse_as_dlms_data data = Ok (PBytes resp) /\ sc_from_byte (hd 0 resp) = Ok x /\
      truthy_key (k_ek k) = Some ek /\ truthy_key (k_ak k) = Some ak /\ truthy (c_mtitle c') = Some mt /\
      sec_gmac E x mt (be_val (slice 1 5 resp)) ek ak (k_challenge k) = Ok g /\ lastn 12 resp = g.
  Proof.
    intros Hs H Hr. unfold dlms_next_event in H. destruct (dlms_next_event_raw E k c buf) as [[m1 c1]|x] eqn:R; [|discriminate].
    injection H as <- <-. unfold dlms_next_event_raw in R. destruct (msg_from_bytes buf) as [m0|]; [|discriminate]. cbn [bind] in R.
    set (c0 := match m0 with MAare e => set_meter_info c (e_title e) (e_auth e) (e_value e) | _ => c end) in R.
    assert (S0 : c_state c0 = 10) by (unfold c0; destruct m0; exact Hs).
    destruct (if use_protection k then unprotect E k c0 m0 else Ok (m0, c0)) as [[m2 c2]|] eqn:U; [|discriminate]. cbn [bind] in R.
    assert (S2 : c_state c2 = 10 /\ c_mtitle c2 = c_mtitle c0).
    { destruct (use_protection k); [|injection U as _ <-; split; [exact S0|reflexivity]].
      unfold unprotect, check_counter in U. destruct m0 as [a|q|e|r|r]; try discriminate.
      - destruct a; try discriminate. destruct (counter <=? c_mic c0); [discriminate|]. cbn [bind] in U.
        destruct (dlms_decrypt _ _ _ _); [|discriminate]. cbn [bind] in U. destruct (msg_from_bytes _); [|discriminate]. injection U as _ <-. split; [exact S0|reflexivity].
      - destruct (e_user e) as [[]|]; try (injection U as _ <-; split; [exact S0|reflexivity]).
        destruct (counter <=? c_mic c0); [discriminate|]. cbn [bind] in U.
        destruct (dlms_decrypt _ _ _ _); [|discriminate]. cbn [bind] in U. destruct (initiate_response_from_bytes _); [|discriminate]. injection U as _ <-. split; [exact S0|reflexivity].
      - destruct (r_user r) as [[]|]; try (injection U as _ <-; split; [exact S0|reflexivity]).
        destruct (counter <=? c_mic c0); [discriminate|]. cbn [bind] in U.
        destruct (dlms_decrypt _ _ _ _); [|discriminate]. cbn [bind] in U. destruct (initiate_response_from_bytes _); [|discriminate]. injection U as _ <-. split; [exact S0|reflexivity]. }
    destruct S2 as [S2 T2]. rewrite S2 in R.
    destruct (assoc_recv (k_pre k) 10 (msg_event E k c2 m2)) as [[[]|] s'] eqn:A; [|discriminate]. injection R as <- <-.
    assert (Hs' : s' = 2).
    { destruct m2 as [a|q|e|r|r]; try exact Hr. destruct (e_user e) as [[]|]; exact Hr. }
    assert (Hev : proof (msg_event E k c2 m2) < 4 /\ (e_kind (msg_event E k c2 m2) < 29 \/ e_kind (msg_event E k c2 m2) = 99)).
    { destruct m2 as [a|q|e|r|r]; cbn; try (split; [lia|left; lia]).
      destruct a; cbn; try (split; [lia|(left; lia) || (right; reflexivity)]). split; [apply hls_proof_bound|left; lia]. }
    destruct Hev as [Hp Hk]. destruct (ready_from_awaiting_result _ _ _ Hp Hk A Hs') as (K15 & Af & P0).
    destruct m2 as [a|q|e|r|r]; try (cbn in K15; discriminate).
    destruct a; try (cbn in K15; discriminate). cbn [msg_event a_flag proof] in Af, P0. apply N.eqb_eq in Af. subst status.
    destruct (hls_proof_valid _ _ _ P0) as (resp & x & ek & ak & mt & g & Q1 & Q2 & Q3 & Q4 & Q5 & Q6 & Q7).
    exists data, i, resp, x, ek, ak, mt, g. cbn [c_mtitle set_state]. repeat split; assumption.
  Qed.

  (* no service request can be sent while the exchange is unfinished: in the two waiting states nothing at all can be sent, and
     while the reply is due only an ACTION request (the reply itself) *)
  Definition chk_hls_send (kind : N) : bool :=
    forall_bool (fun pre =>
      is_ok (fst (assoc_send pre 10 (Build_ev kind false false 0))) || is_ok (fst (assoc_send pre 11 (Build_ev kind false false 0)))
      || (is_ok (fst (assoc_send pre 9 (Build_ev kind false false 0))) && negb (kind =? 7))) .
  Lemma chk_hls_send_ok : forallb (fun kind => negb (chk_hls_send kind)) [4; 5; 6; 7; 26; 99] = true. Proof. vm_compute. reflexivity. Qed.

  Definition is_service_request (a : apdu) : bool :=
    match a with GetRequestNormal _ _ _ | GetRequestNext _ _ | SetRequestNormal _ _ _ | ActionRequestNormal _ _ _ => true | _ => false end.
  Definition chk_req (kind : N) : bool :=
    negb (is_ok (process_event 10 kind)) && negb (is_ok (process_event 11 kind)) && (negb (is_ok (process_event 9 kind)) || (kind =? 7)).
  Lemma chk_req_ok : forallb chk_req [4; 5; 6; 7] = true. Proof. vm_compute. reflexivity. Qed.
  Theorem no_service_request_during_hls k c a : is_service_request a = true ->
    (c_state c = 10 \/ c_state c = 11 \/ (c_state c = 9 /\ apdu_kind a <> 7)) ->
    exists e, dlms_send E k c (MX a) = (Err e, c).
  Proof.
    intros Ha Hs. pose proof chk_req_ok as C. cbn [forallb] in C. repeat (apply andb_prop in C as [? C]).
    assert (K : chk_req (apdu_kind a) = true) by (destruct a; try discriminate Ha; assumption).
    unfold chk_req in K. apply andb_prop in K as [K K9]. apply andb_prop in K as [K10 K11].
    unfold dlms_send. cbn [msg_kind].
    assert (Hk : (apdu_kind a =? E_RLRQ) || (apdu_kind a =? E_AARQ) = false) by (destruct a; try discriminate Ha; reflexivity).
    rewrite Hk, andb_false_r.
    destruct Hs as [-> | [-> | [-> Hn]]].
    - destruct (process_event 10 (apdu_kind a)); [discriminate|]. eexists. reflexivity.
    - destruct (process_event 11 (apdu_kind a)); [discriminate|]. eexists. reflexivity.
    - apply orb_prop in K9 as [K9|K9]; [|apply N.eqb_eq in K9; contradiction].
      destruct (process_event 9 (apdu_kind a)); [discriminate|]. eexists. reflexivity.
  Qed.
End C08.
