(* C04, C06, C07, C08: theorems about the model of DlmsConnection, for an arbitrary block function E
   (with 16-byte output where decryption is concerned), hence for AES. *)
From Dlms Require Import Base Sweep FieldsModel AxdrModel XdlmsModel XdlmsSpec AcseModel AssocModel Aes Gcm SecurityModel SecurityProofs ConnModel.
From Dlms.Gen Require GenApdu GenAcse GenDlmsState.
From Coq Require Import ZifyBool ZifyN.

Section PROOFS.
  Variable E : bytes -> bytes -> bytes.

  (* one step of a session *)
  Inductive cop := OSend (m : msg) | ORecv (b : bytes) | OReply.
  Inductive cres := RBytes (r : res bytes) | RMsg (r : res msg).
  Definition step (k : cfg) (c : cst) (o : cop) : cres * cst :=
    match o with
    | OSend m => let '(r, c') := dlms_send E k c m in (RBytes r, c')
    | ORecv b => let '(r, c') := dlms_next_event E k c b in (RMsg r, c')
    | OReply => let '(r, c') := dlms_hls_reply E k c in (RBytes r, c')
    end.
  Fixpoint run (k : cfg) (c : cst) (ops : list cop) : list cres * cst :=
    match ops with
    | [] => ([], c)
    | o :: r => let '(x, c1) := step k c o in let '(xs, c2) := run k c1 r in (x :: xs, c2)
    end.
  Definition refused (r : cres) : bool := match r with RMsg (Err _) => true | _ => false end.

  (* ================= C07 ================= *)
  Theorem refusal_preserves k c buf e c' : dlms_next_event E k c buf = (Err e, c') -> c' = c.
  Proof. unfold dlms_next_event. destruct (dlms_next_event_raw E k c buf) as [[m c1]|x]; intros H; inversion H; reflexivity. Qed.

  Theorem forgery_does_not_wedge k c bad e c' : dlms_next_event E k c bad = (Err e, c') ->
    forall ops, run k c' ops = run k c ops.
  Proof. intros H ops. rewrite (refusal_preserves _ _ _ _ _ H). reflexivity. Qed.

  Lemma run_app k c a b : run k c (a ++ b) = let '(xa, c1) := run k c a in let '(xb, c2) := run k c1 b in (xa ++ xb, c2).
  Proof.
    revert c. induction a as [|o a IH]; intros c; cbn [app run].
    - destruct (run k c b). reflexivity.
    - destruct (step k c o) as [x c1]. rewrite IH. destruct (run k c1 a) as [xa c2]. destruct (run k c2 b) as [xb c3]. reflexivity.
  Qed.
  (* a refused input anywhere in a session: everything that follows is what it would have been without it *)
  Theorem refused_input_leaves_no_trace k c before bad after :
    let '(_, c1) := run k c before in
    forall e c2, dlms_next_event E k c1 bad = (Err e, c2) ->
    run k c (before ++ ORecv bad :: after) =
      let '(xb, _) := run k c before in let '(xa, cf) := run k c1 after in (xb ++ RMsg (Err e) :: xa, cf).
  Proof.
    destruct (run k c before) as [xb c1] eqn:Eb. intros e c2 H.
    rewrite run_app, Eb. cbn [run step]. rewrite H. rewrite (refusal_preserves _ _ _ _ _ H).
    destruct (run k c1 after). reflexivity.
  Qed.
  (* receiving never touches the client's counter *)
  Theorem next_event_keeps_client_counter k c buf : c_cic (snd (dlms_next_event E k c buf)) = c_cic c.
  Proof.
    unfold dlms_next_event. destruct (dlms_next_event_raw E k c buf) as [[m c1]|x] eqn:R; [|reflexivity]. cbn [snd].
    unfold dlms_next_event_raw in R. destruct (msg_from_bytes buf) as [m0|]; [|discriminate]. cbn [bind] in R.
    set (c0 := match m0 with MAare e => set_meter_info c (e_title e) (e_auth e) (e_value e) | _ => c end) in R.
    assert (H0 : c_cic c0 = c_cic c) by (unfold c0; destruct m0; reflexivity).
    assert (H1 : forall m2 c2, (if use_protection k then unprotect E k c0 m0 else Ok (m0, c0)) = Ok (m2, c2) -> c_cic c2 = c_cic c0).
    { intros m2 c2. destruct (use_protection k); [|intros [= _ <-]; reflexivity].
      unfold unprotect, check_counter. destruct m0 as [a|q|e|r|r]; try discriminate.
      - destruct a; try discriminate. destruct (counter <=? c_mic c0); [discriminate|]. cbn [bind].
        destruct (dlms_decrypt _ _ _ _); [|discriminate]. cbn [bind]. destruct (msg_from_bytes _); [|discriminate]. intros [= _ <-]. reflexivity.
      - destruct (e_user e) as [[]|]; try (intros [= _ <-]; reflexivity).
        destruct (counter <=? c_mic c0); [discriminate|]. cbn [bind].
        destruct (dlms_decrypt _ _ _ _); [|discriminate]. cbn [bind]. destruct (initiate_response_from_bytes _); [|discriminate]. intros [= _ <-]. reflexivity.
      - destruct (r_user r) as [[]|]; try (intros [= _ <-]; reflexivity).
        destruct (counter <=? c_mic c0); [discriminate|]. cbn [bind].
        destruct (dlms_decrypt _ _ _ _); [|discriminate]. cbn [bind]. destruct (initiate_response_from_bytes _); [|discriminate]. intros [= _ <-]. reflexivity. }
    destruct (if use_protection k then unprotect E k c0 m0 else Ok (m0, c0)) as [[m2 c2]|] eqn:U; [|discriminate]. cbn [bind] in R.
    specialize (H1 _ _ eq_refl).
    destruct (assoc_recv _ _ _) as [[[]|] s']; [|discriminate]. injection R as _ <-.
    destruct m2 as [a|q|e|r|r]; cbn; try congruence. destruct (e_user e) as [[]|]; cbn; congruence.
  Qed.
End PROOFS.
