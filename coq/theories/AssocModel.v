(* Model of dlms_cosem/state.py (DlmsConnectionState over the generated table) and of the control
   flow of DlmsConnection.send / next_event that decides acceptance and the next state
   (pre-established guards, reject -> reset, HLS start, the HLS_DONE tail), over abstract events:
   an APDU kind plus the attributes the code branches on.  No proofs here. *)
From Dlms Require Import Base.
From Dlms.Gen Require GenDlmsState.

(* states 0..12 and event kinds 0..28 are numbered as in GenDlmsState *)
Definition S_NO_ASSOCIATION := 0. Definition S_AWAITING_AARE := 1. Definition S_READY := 2.
Definition S_AWAITING_RELEASE := 3. Definition S_AWAITING_ACTION := 4. Definition S_AWAITING_GET := 5.
Definition S_AWAITING_GET_BLOCK := 6. Definition S_SHOULD_ACK := 7. Definition S_AWAITING_SET := 8.
Definition S_SHOULD_SEND_HLS := 9. Definition S_AWAITING_HLS_RESULT := 10. Definition S_HLS_DONE := 11.
Definition E_AARQ := 0. Definition E_AARE := 1. Definition E_RLRQ := 2. Definition E_RLRE := 3.
Definition E_ACTION_WITH_DATA := 15.
Definition E_HLS_START := 21. Definition E_HLS_SUCCESS := 22. Definition E_HLS_FAILED := 23. Definition E_REJECT := 24.

Fixpoint assoc2 (s k : N) (t : list ((N * N) * N)) : option N :=
  match t with
  | [] => None
  | ((s', k'), v) :: r => if (s =? s') && (k =? k') then Some v else assoc2 s k r
  end.
(* DlmsConnectionState.process_event *)
Definition process_event (s k : N) : res N :=
  match assoc2 s k GenDlmsState.dlms_transitions with Some s' => Ok s' | None => Err EProto end.

(* the attributes next_event branches on.
   AARE: a_flag = association rejected (permanent/transient), b_flag = mechanism is HLS-GMAC.
   ActionResponseNormalWithData: a_flag = status is SUCCESS; proof = 0 valid, 1 invalid, 2 validation raises,
   3 validation raises CipheringError (a proof whose security control byte asks for encryption) *)
Record ev := { e_kind : N; a_flag : bool; b_flag : bool; proof : N }.

(* DlmsConnection.send: (result, state afterwards) *)
Definition assoc_send (pre : bool) (s : N) (e : ev) : res unit * N :=
  if pre && ((e_kind e =? E_RLRQ) || (e_kind e =? E_AARQ)) then (Err EPreEst, s) else
  match process_event s (e_kind e) with
  | Err x => (Err x, s)
  | Ok s' => (Ok tt, s')
  end.

(* DlmsConnection._next_event after the APDU has been decoded (and unprotected): the state it would leave behind *)
Definition assoc_recv_raw (pre : bool) (s : N) (e : ev) : res unit * N :=
  let k := e_kind e in
  if pre && ((k =? E_AARE) || (k =? E_RLRE)) then (Err EPreEst, s) else
  match process_event s k with
  | Err x => (Err x, s)
  | Ok s1 =>
      (* AARE: reject resets the association, HLS-GMAC starts the HLS exchange *)
      let after_aare : res N :=
        if k =? E_AARE then
          if a_flag e then process_event s1 E_REJECT
          else if b_flag e then process_event s1 E_HLS_START
          else Ok s1
        else Ok s1 in
      match after_aare with
      | Err x => (Err x, s1)
      | Ok s2 =>
          if s2 =? S_HLS_DONE then
            if k =? E_ACTION_WITH_DATA then
              (* status <> SUCCESS: HlsFailed first; then the proof is checked in any case *)
              let r3 := if a_flag e then Ok s2 else process_event s2 E_HLS_FAILED in
              match r3 with
              | Err x => (Err x, s2)
              | Ok s3 =>
                  if proof e =? 2 then (Err ERefused, s3) else if proof e =? 3 then (Err 10, s3) else    (* 3: CipheringError *)
                  match process_event s3 (if proof e =? 0 then E_HLS_SUCCESS else E_HLS_FAILED) with
                  | Err x => (Err x, s3)
                  | Ok s4 => (Ok tt, s4)
                  end
              end
            else if (k =? 16) || (k =? 14) then
              match process_event s2 E_HLS_FAILED with Err x => (Err x, s2) | Ok s3 => (Ok tt, s3) end
            else (Err EProto, s2)
          else (Ok tt, s2)
      end
  end.

(* DlmsConnection.next_event (fix 47ff9e5): when anything raises, the state is put back *)
Definition assoc_recv (pre : bool) (s : N) (e : ev) : res unit * N :=
  match assoc_recv_raw pre s e with
  | (Ok tt, s') => (Ok tt, s')
  | (Err x, _) => (Err x, s)
  end.
