(* Scripted runs of the HDLC connection model: the harness executes the same operation list on
   the real HdlcConnection.  No proofs here. *)
From Dlms Require Import Base AddrModel FrameModel HdlcConnModel.

Definition v_link (l : link) : list V :=
  [VN (l_state l); VN (client_ssn l); VN (client_rsn l); VN (server_ssn l); VN (server_rsn l)].
Definition snapshot (c : conn) : V :=
  VList (v_link (c_link c) ++ [v_nat (length (c_buf c)); v_nat (c_pos c)]).
Definition v_addr' (x : addr) : V :=
  let '(l, p, s) := x in VList [VN l; v_opt VN p; VBool s].
Definition v_frame' (f : frame) : V :=
  VList [v_addr' (f_dest f); v_addr' (f_src f); v_opt VBytes (f_payload f); VBool (f_segmented f);
         VBool (f_final f); VN (f_ssn f); VN (f_rsn f)].
Definition v_event (e : event) : V :=
  match e with
  | ENeedData => VNone
  | EFrame k f => VList [VN (kind_code k); v_frame' f]
  | ERaise e => VErr e
  end.

(* the receive-ready frame the transport sends between the segments of an answer *)
Definition rr_frame (c : conn) (client server : addr) : frame :=
  {| f_dest := server; f_src := client; f_payload := None; f_segmented := false; f_final := true;
     f_ssn := 0; f_rsn := server_rsn (c_link c) |}.

(* poll until nothing is pending: stop at NEED_DATA without progress of the search position,
   stop at an exception; after a delivered segmented frame, if the link went back to IDLE, send the
   receive-ready frame (as SerialHdlcTransport.send does) and keep polling *)
Fixpoint drain (fuel : nat) (c : conn) (client server : addr) (acc : list V) : list V * conn :=
  match fuel with
  | O => (acc ++ [VErr EFuel], c)
  | S f =>
      let pos0 := c_pos c in
      let '(e, c1) := next_event c in
      match e with
      | ENeedData => if Nat.eqb (c_pos c1) pos0 then (acc ++ [VNone], c1) else drain f c1 client server (acc ++ [VNone])
      | ERaise x => (acc ++ [VErr x], c1)
      | EFrame k fr =>
          let acc' := acc ++ [v_event e] in
          if (l_state (c_link c1) =? 1) && f_segmented fr then
            let '(_, c2) := conn_send c1 KRr (rr_frame c1 client server) in drain f c2 client server acc'
          else drain f c1 client server acc'
      end
  end.
