(* C16: the 12-byte date-time layout, the round trip for every valid date-time / offset /
   status, and soundness of decoding (out-of-range fields are refused). *)
From Dlms Require Import Base FieldsModel FieldsProofs TimeModel TimeSpec.
From Coq Require Import ZifyBool ZifyN.
Ltac Zify.zify_post_hook ::= Z.to_euclidean_division_equations.

Lemma in_range_spec lo hi v : in_range lo hi v = true <-> lo <= v <= hi.
Proof. unfold in_range. rewrite andb_true_iff, !N.leb_le. tauto. Qed.

Lemma dim_le_31 y m : days_in_month y m <= 31.
Proof. unfold days_in_month. destruct (m =? 2); [destruct (is_leap y); lia|].
  destruct ((m =? 4) || (m =? 6) || (m =? 9) || (m =? 11)); lia. Qed.

Lemma to_bytes_be1 n : n < 256 -> to_bytes_be 1 n = Ok [n].
Proof.
  intros H. unfold to_bytes_be. change (256 ^ N.of_nat 1) with 256.
  apply N.ltb_lt in H. rewrite H. cbn. f_equal. f_equal. apply N.ltb_lt in H. apply N.mod_small. exact H.
Qed.
Lemma to_bytes_be2 n : n < 65536 -> to_bytes_be 2 n = Ok [n / 256; n mod 256].
Proof.
  intros H. unfold to_bytes_be. change (256 ^ N.of_nat 2) with 65536.
  pose proof H as H'. apply N.ltb_lt in H'. rewrite H'. cbn. f_equal. f_equal.
  apply N.mod_small. apply N.div_lt_upper_bound; lia.
Qed.

Lemma signed16 z : (-32768 <= z < 32768)%Z ->
  to_bytes_be_signed 2 z = Ok (be_bytes 2 (Z.to_N (z mod 65536))) /\
  be_val_signed (be_bytes 2 (Z.to_N (z mod 65536))) = z.
Proof.
  intros Hz. split.
  - unfold to_bytes_be_signed. change (256 ^ Z.of_nat 2)%Z with 65536%Z.
    replace ((- (65536 / 2) <=? z)%Z && (z <? 65536 / 2)%Z) with true; [reflexivity|].
    symmetry. apply andb_true_iff. split; [apply Z.leb_le | apply Z.ltb_lt]; lia.
  - unfold be_val_signed. unfold len. rewrite be_bytes_length.
    assert (Hn : Z.to_N (z mod 65536) < 256 ^ N.of_nat 2) by (change (256 ^ N.of_nat 2) with 65536; lia).
    rewrite (be_val_be_bytes 2 _ Hn). change (256 ^ N.of_nat 2) with 65536.
    destruct (N.ltb_spec (2 * Z.to_N (z mod 65536)) 65536); lia.
Qed.

(* ---------- layout ---------- *)
Theorem datetime_layout x st : dt_valid x = true ->
  datetime_to_bytes x (Some st) = Ok (std_datetime x st) /\
  datetime_to_bytes x None = Ok (std_datetime x (false, false, false, false, false)).
Proof.
  destruct x as [[[[[[[y m] d] h] mi] s] us] off]. unfold dt_valid.
  rewrite !andb_true_iff. intros [[Hd Ht] Ho].
  unfold date_valid in Hd. rewrite !andb_true_iff, !in_range_spec in Hd. destruct Hd as [[Hy Hm] Hdd].
  unfold time_valid in Ht. rewrite !andb_true_iff, !in_range_spec in Ht. destruct Ht as [[[Hh Hmi] Hs] Hus].
  pose proof (dim_le_31 y m) as Hdim.
  assert (Hz : match off with None => Ok [128; 0] | Some o => to_bytes_be_signed 2 (- o) end
               = Ok (std_deviation off)).
  { destruct off as [o|]; [|reflexivity]. cbn [off_ok] in Ho. apply andb_true_iff in Ho as [A B].
    apply Z.ltb_lt in A, B. cbn [std_deviation]. apply signed16. lia. }
  assert (Hhu : us / 10000 < 256) by (apply N.div_lt_upper_bound; lia).
  unfold datetime_to_bytes, date_to_bytes, time_to_bytes, std_datetime, cstat_to_bytes.
  rewrite to_bytes_be2 by lia. rewrite !to_bytes_be1 by lia. cbn [bind]. rewrite Hz. cbn [bind].
  assert (Hst : forall c, cstat_to_byte c < 256) by (intros [[[[[] []] []] []] []]; cbn; lia).
  rewrite !to_bytes_be1 by apply Hst. cbn [bind app]. split; reflexivity.
Qed.

(* ---------- round trip ---------- *)
Lemma opt_val_ne v ind r : v <> ind -> opt_val v ind r = Some v.
Proof. intros H. unfold opt_val. destruct (N.eqb_spec v ind); [contradiction|reflexivity]. Qed.
Lemma validate_ok lo hi x : lo <= x <= hi -> validate lo hi (Some x) = Ok tt.
Proof. intros H. cbn. apply in_range_spec in H. rewrite H. reflexivity. Qed.
Lemma be_val2 a b : be_val [a; b] = a * 256 + b.
Proof. reflexivity. Qed.

Theorem datetime_roundtrip x st : dt_valid x = true ->
  datetime_from_bytes (std_datetime x st) = Ok (trunc10ms x, st).
Proof.
  destruct x as [[[[[[[y m] d] h] mi] s] us] off]. unfold dt_valid.
  rewrite !andb_true_iff. intros [[Hd Ht] Ho]. pose proof Hd as Hdv.
  unfold date_valid in Hd. rewrite !andb_true_iff, !in_range_spec in Hd. destruct Hd as [[Hy Hm] Hdd].
  unfold time_valid in Ht. rewrite !andb_true_iff, !in_range_spec in Ht. destruct Ht as [[[Hh Hmi] Hs] Hus].
  pose proof (dim_le_31 y m) as Hdim.
  assert (Hhu : us / 10000 <= 99) by (apply N.lt_succ_r; apply N.div_lt_upper_bound; lia).
  (* the two deviation bytes *)
  assert (Hdev : exists a b, std_deviation off = [a; b] /\
            (if (be_val_signed [a; b] =? -32768)%Z then None else Some (be_val_signed [a; b])) = option_map Z.opp off).
  { destruct off as [o|].
    - cbn [off_ok] in Ho. apply andb_true_iff in Ho as [A B]. apply Z.ltb_lt in A, B.
      cbn [std_deviation]. eexists _, _. split; [reflexivity|].
      change [?a; ?b] with (be_bytes 2 (Z.to_N ((- o) mod 65536))).
      destruct (signed16 (- o) ltac:(lia)) as [_ E]. rewrite E.
      destruct (Z.eqb_spec (- o) (-32768)); [lia|]. reflexivity.
    - exists 128, 0. split; [reflexivity|]. reflexivity. }
  destruct Hdev as (a & b & Edev & Hdev).
  unfold std_datetime. rewrite Edev. cbn [app].
  unfold datetime_from_bytes. cbn [length Nat.eqb negb].
  unfold slice. cbn [skipn firstn Nat.sub nth].
  (* date *)
  unfold date_from_bytes. cbn [length Nat.eqb negb]. unfold slice. cbn [skipn firstn Nat.sub nth].
  rewrite be_val2. replace (y / 256 * 256 + y mod 256) with y by lia.
  change (opt_val 255 255 None) with (@None N).
  rewrite (opt_val_ne y), (opt_val_ne m), (opt_val_ne d) by lia. rewrite !validate_ok by lia.
  cbn [bind validate need].
  rewrite Hdv. cbn [bind].
  (* time *)
  unfold time_from_bytes. cbn [length Nat.eqb negb nth].
  rewrite (opt_val_ne h), (opt_val_ne mi), (opt_val_ne s), (opt_val_ne (us / 10000)) by lia.
  rewrite !validate_ok by lia. cbn [bind need].
  replace (time_valid h mi s (us / 10000 * 10000)) with true
    by (symmetry; unfold time_valid; rewrite !andb_true_iff, !in_range_spec; lia).
  cbn [bind]. rewrite Hdev.
  destruct (cstat_encode_roundtrip (fst (fst (fst (fst st)))) (snd (fst (fst (fst st)))) (snd (fst (fst st))) (snd (fst st)) (snd st))
    as (_ & _ & Ec).
  destruct st as [[[[c1 c2] c3] c4] c5]. cbn [fst snd] in Ec. rewrite Ec. cbn [bind].
  destruct off as [o|]; cbn [option_map]; [rewrite Z.opp_involutive|]; reflexivity.
Qed.

(* ---------- decoding is sound: what is accepted lies in the calendar ranges ---------- *)
Lemma validate_inv lo hi v : validate lo hi v = Ok tt -> match v with Some x => lo <= x <= hi | None => True end.
Proof. destruct v as [x|]; [|trivial]. cbn. destruct (in_range lo hi x) eqn:E; [|discriminate].
  intros _. apply in_range_spec. exact E. Qed.
Lemma opt_val_some v ind r x : opt_val v ind r = Some x -> (v <> ind /\ x = v) \/ (v = ind /\ r = Some x).
Proof. unfold opt_val. destruct (N.eqb_spec v ind); intros H; [right|left]; split; congruence. Qed.

Theorem date_decode_sound b y m d : date_from_bytes b = Ok (y, m, d) ->
  length b = 5%nat /\ y = be_val (slice 0 2 b) /\ m = nth 2 b 0 /\ d = nth 3 b 0 /\
  1 <= y <= 9999 /\ 1 <= m <= 12 /\ 1 <= d <= days_in_month y m /\
  (nth 4 b 0 = 255 \/ 1 <= nth 4 b 0 <= 7).
Proof.
  unfold date_from_bytes. destruct (Nat.eqb_spec (length b) 5) as [L|L]; [|discriminate]. cbn [negb].
  destruct (validate 1 12 _) as [[]|] eqn:V1; [|discriminate]. cbn [bind].
  destruct (validate 1 31 _) as [[]|] eqn:V2; [|discriminate]. cbn [bind].
  destruct (validate 1 7 _) as [[]|] eqn:V3; [|discriminate]. cbn [bind].
  destruct (opt_val (be_val (slice 0 2 b)) 65535 None) as [y'|] eqn:Ey; [|discriminate]. cbn [need bind].
  destruct (opt_val (nth 2 b 0) 255 None) as [m'|] eqn:Em; [|discriminate]. cbn [need bind].
  destruct (opt_val (nth 3 b 0) 255 None) as [d'|] eqn:Ed; [|discriminate]. cbn [need bind].
  destruct (date_valid y' m' d') eqn:Dv; [|discriminate]. intros H. injection H as -> -> ->.
  apply opt_val_some in Ey as [[_ ->]|[_ ?]]; [|discriminate].
  apply opt_val_some in Em as [[_ ->]|[_ ?]]; [|discriminate].
  apply opt_val_some in Ed as [[_ ->]|[_ ?]]; [|discriminate].
  unfold date_valid in Dv. rewrite !andb_true_iff, !in_range_spec in Dv. destruct Dv as [[A B] C].
  apply validate_inv in V3.
  repeat split; try lia.
  destruct (opt_val (nth 4 b 0) 255 None) as [w|] eqn:Ew.
  - apply opt_val_some in Ew as [[_ ->]|[_ ?]]; [right; exact V3|discriminate].
  - left. unfold opt_val in Ew. destruct (N.eqb_spec (nth 4 b 0) 255); [assumption|discriminate].
Qed.

Definition time_field_ok (byte v hi : N) : Prop := (byte = 255 /\ v = 0) \/ (byte <> 255 /\ v = byte /\ v <= hi).
Theorem time_decode_sound b h mi s us : time_from_bytes b = Ok (h, mi, s, us) ->
  length b = 4%nat /\ time_field_ok (nth 0 b 0) h 23 /\ time_field_ok (nth 1 b 0) mi 59 /\
  time_field_ok (nth 2 b 0) s 59 /\ exists hu, us = hu * 10000 /\ time_field_ok (nth 3 b 0) hu 99.
Proof.
  unfold time_from_bytes. destruct (Nat.eqb_spec (length b) 4) as [L|L]; [|discriminate]. cbn [negb].
  destruct (validate 0 23 _) as [[]|] eqn:V1; [|discriminate]. cbn [bind].
  destruct (validate 0 59 (opt_val (nth 1 b 0) _ _)) as [[]|] eqn:V2; [|discriminate]. cbn [bind].
  destruct (validate 0 59 (opt_val (nth 2 b 0) _ _)) as [[]|] eqn:V3; [|discriminate]. cbn [bind].
  destruct (validate 0 99 _) as [[]|] eqn:V4; [|discriminate]. cbn [bind].
  destruct (opt_val (nth 0 b 0) 255 (Some 0)) as [h'|] eqn:E0; [|discriminate]. cbn [need bind].
  destruct (opt_val (nth 1 b 0) 255 (Some 0)) as [mi'|] eqn:E1; [|discriminate]. cbn [need bind].
  destruct (opt_val (nth 2 b 0) 255 (Some 0)) as [s'|] eqn:E2; [|discriminate]. cbn [need bind].
  destruct (opt_val (nth 3 b 0) 255 (Some 0)) as [hu'|] eqn:E3; [|discriminate]. cbn [need bind].
  destruct (time_valid h' mi' s' (hu' * 10000)); [|discriminate]. intros H. injection H as -> -> -> <-.
  apply validate_inv in V1, V2, V3, V4.
  assert (K : forall byte v hi, opt_val byte 255 (Some 0) = Some v -> 0 <= v <= hi -> time_field_ok byte v hi).
  { intros byte v hi E R. apply opt_val_some in E as [[A ->]|[-> B]]; [right; repeat split; [exact A|lia] | left; split; [reflexivity|congruence]]. }
  split; [exact L|]. split; [apply K; assumption|]. split; [apply K; assumption|]. split; [apply K; assumption|].
  exists hu'. split; [reflexivity|]. apply K; assumption.
Qed.

(* the full 12-byte statement: an accepted input has every calendar field in range *)
Theorem datetime_decode_sound b y m d h mi s us off st :
  datetime_from_bytes b = Ok ((y, m, d, h, mi, s, us, off), st) ->
  length b = 12%nat /\ date_from_bytes (slice 0 5 b) = Ok (y, m, d) /\
  time_from_bytes (slice 5 9 b) = Ok (h, mi, s, us) /\
  off = (let dev := be_val_signed (slice 9 11 b) in if (dev =? -32768)%Z then None else Some (- dev)%Z) /\
  cstat_from_bytes [nth 11 b 0] = Ok st.
Proof.
  unfold datetime_from_bytes. destruct (Nat.eqb_spec (length b) 12) as [L|L]; [|discriminate]. cbn [negb].
  destruct (date_from_bytes (slice 0 5 b)) as [[[y' m'] d']|] eqn:Ed; [|discriminate]. cbn [bind].
  destruct (time_from_bytes (slice 5 9 b)) as [[[[h' mi'] s'] us']|] eqn:Et; [|discriminate]. cbn [bind].
  destruct (cstat_from_bytes [nth 11 b 0]) as [st'|] eqn:Es; [|discriminate]. cbn [bind].
  intros H. injection H as -> -> -> -> -> -> -> <- ->.
  repeat split; try reflexivity; try assumption.
  destruct (be_val_signed (slice 9 11 b) =? -32768)%Z; reflexivity.
Qed.
