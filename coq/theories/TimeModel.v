(* Model of dlms_cosem/time.py (as of the two "fix:" commits 9688ff1 and 6d91df4):
   date/time/datetime <-> bytes, get_optional_value, the validators, utc_offset_minutes.
   CPython's date/time/datetime constructors are modelled as range + calendar validity.
   UTC offsets are whole minutes (the property's quantifier).  No proofs here. *)
From Dlms Require Import Base FieldsModel.

Definition is_leap (y : N) : bool := (y mod 4 =? 0) && (negb (y mod 100 =? 0) || (y mod 400 =? 0)).
Definition days_in_month (y m : N) : N :=
  if m =? 2 then (if is_leap y then 29 else 28)
  else if (m =? 4) || (m =? 6) || (m =? 9) || (m =? 11) then 30 else 31.
Definition in_range (lo hi v : N) : bool := (lo <=? v) && (v <=? hi).
(* datetime.date(y, m, d) / datetime.time(h, mi, s, us) accept exactly: *)
Definition date_valid (y m d : N) : bool :=
  in_range 1 9999 y && in_range 1 12 m && in_range 1 (days_in_month y m) d.
Definition time_valid (h mi s us : N) : bool :=
  in_range 0 23 h && in_range 0 59 mi && in_range 0 59 s && in_range 0 999999 us.

(* get_optional_value on ints *)
Definition opt_val (v indicator : N) (replace_with : option N) : option N :=
  if v =? indicator then replace_with else Some v.
(* validate_*: None passes, a value must lie in the range *)
Definition validate (lo hi : N) (v : option N) : res unit :=
  match v with
  | None => Ok tt
  | Some x => if in_range lo hi x then Ok tt else Err ERefused
  end.
(* passing None to date()/time() is a TypeError *)
Definition need {A} (v : option A) : res A := match v with Some x => Ok x | None => Err ERefused end.

Definition date3 := (N * N * N)%type.
Definition date_from_bytes (b : bytes) : res date3 :=
  if negb (Nat.eqb (length b) 5) then Err ERefused else
  let year := opt_val (be_val (slice 0 2 b)) 65535 None in
  let month := opt_val (nth 2 b 0) 255 None in
  let dom := opt_val (nth 3 b 0) 255 None in
  let dow := opt_val (nth 4 b 0) 255 None in
  do _ <- validate 1 12 month; do _ <- validate 1 31 dom; do _ <- validate 1 7 dow;
  do y <- need year; do m <- need month; do d <- need dom;
  if date_valid y m d then Ok (y, m, d) else Err ERefused.

Definition time4 := (N * N * N * N)%type.   (* hour, minute, second, microsecond *)
Definition time_from_bytes (b : bytes) : res time4 :=
  if negb (Nat.eqb (length b) 4) then Err ERefused else
  let hour := opt_val (nth 0 b 0) 255 (Some 0) in
  let minute := opt_val (nth 1 b 0) 255 (Some 0) in
  let second := opt_val (nth 2 b 0) 255 (Some 0) in
  let hundredths := opt_val (nth 3 b 0) 255 (Some 0) in
  do _ <- validate 0 23 hour; do _ <- validate 0 59 minute; do _ <- validate 0 59 second;
  do _ <- validate 0 99 hundredths;
  do h <- need hour; do mi <- need minute; do s <- need second; do hu <- need hundredths;
  if time_valid h mi s (hu * 10000) then Ok (h, mi, s, hu * 10000) else Err ERefused.

(* (year, month, day, hour, minute, second, microsecond, utc offset in minutes or None) *)
Definition dtime := (N * N * N * N * N * N * N * option Z)%type.
Definition datetime_from_bytes (b : bytes) : res (dtime * cstat) :=
  if negb (Nat.eqb (length b) 12) then Err ERefused else
  do d <- date_from_bytes (slice 0 5 b);
  do t <- time_from_bytes (slice 5 9 b);
  let dev := be_val_signed (slice 9 11 b) in
  let deviation := if (dev =? -32768)%Z then None else Some dev in
  do st <- cstat_from_bytes [nth 11 b 0];
  let '(y, m, dd) := d in let '(h, mi, s, us) := t in
  (* utc_offset_minutes: tzoffset(None, -(deviation * 60)) *)
  Ok ((y, m, dd, h, mi, s, us, option_map Z.opp deviation), st).

Definition date_to_bytes (d : date3) : res bytes :=
  let '(y, m, dd) := d in
  do yb <- to_bytes_be 2 y; do mb <- to_bytes_be 1 m; do db <- to_bytes_be 1 dd; Ok (yb ++ mb ++ db ++ [255]).
Definition time_to_bytes (t : time4) : res bytes :=
  let '(h, mi, s, us) := t in
  do a <- to_bytes_be 1 h; do b <- to_bytes_be 1 mi; do c <- to_bytes_be 1 s; do d <- to_bytes_be 1 (us / 10000);
  Ok (a ++ b ++ c ++ d).
Definition datetime_to_bytes (x : dtime) (st : option cstat) : res bytes :=
  let '(y, m, dd, h, mi, s, us, off) := x in
  do db <- date_to_bytes (y, m, dd);
  do tb <- time_to_bytes (h, mi, s, us);
  do zb <- match off with
           | None => Ok [128; 0]
           | Some o => to_bytes_be_signed 2 (- o)
           end;
  do sb <- cstat_to_bytes (match st with Some c => c | None => (false, false, false, false, false) end);
  Ok (db ++ tb ++ zb ++ sb).
