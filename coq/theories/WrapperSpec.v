(* Reference layout of the IP wrapper header.  No proofs here. *)
From Dlms Require Import Base.

(* reference layout: four big-endian 16-bit fields, version first *)
Definition std_header (ver src dst ln : N) : bytes :=
  be_bytes 2 ver ++ be_bytes 2 src ++ be_bytes 2 dst ++ be_bytes 2 ln.

