(* Model of dlms_cosem/crc.py, statement by statement.  No proofs here. *)
From Dlms Require Import Base.
From Dlms.Gen Require GenCrc.

Definition poly : N := GenCrc.crc_ccitt_constant.
Definition start : N := GenCrc.starting_value.
Definition ushort (x : N) : N := x mod 65536.              (* c_ushort(x).value *)

(* CRCCCITT.init_crc_table, inner loop *)
Fixpoint tabloop (n : nat) (crc c : N) : N :=
  match n with
  | O => crc
  | S k =>
      let crc' := if N.land (N.lxor crc c) 0x8000 =? 0
                  then ushort (N.shiftl crc 1)
                  else N.lxor (ushort (N.shiftl crc 1)) poly in
      tabloop k crc' (ushort (N.shiftl c 1))
  end.
Definition table_entry (i : N) : N := tabloop 8 0 (N.shiftl i 8).
Definition crc_table : list N := map (fun i => table_entry (N.of_nat i)) (seq 0 256).
Definition tab (i : N) : N := nth (N.to_nat i) crc_table 0.

(* CRCCCITT._calculate, one iteration and the loop *)
Definition bytestep (crc c : N) : N :=
  let tmp := N.lxor (N.land (N.shiftr crc 8) 0xFF) c in
  let crc_shifted := N.land (N.shiftl crc 8) 0xFF00 in
  N.lxor crc_shifted (tab tmp).
Definition calculate_from (s : N) (data : bytes) : N := fold_left bytestep data s.
Definition calculate (data : bytes) : N := calculate_from start data.

(* reverse_byte *)
Fixpoint rev_loop (n : nat) (i : N) (b and_value acc : N) : N :=
  match n with
  | O => acc
  | S k => rev_loop k (i + 1) b (and_value + and_value)
             (acc + N.shiftr (N.land b and_value) i * 2 ^ (7 - i))
  end.
Definition reverse_byte (b : N) : N := rev_loop 8 0 b 1 0.
Definition reverse_byte_message (m : bytes) : bytes := map reverse_byte m.

(* CRCCCITT.calculate_for: output assembly from the final register *)
Definition assemble (reversed_crc : N) (lsb_first : bool) : bytes :=
  let lsb_rev := N.land reversed_crc 0x00FF in
  let lsb := N.lxor (reverse_byte lsb_rev) 0xFF in
  let msb_rev := N.shiftr (N.land reversed_crc 0xFF00) 8 in
  let msb := N.lxor (reverse_byte msb_rev) 0xFF in
  if lsb_first then [lsb; msb] else [msb; lsb].
Definition calculate_for (input : bytes) (lsb_first : bool) : bytes :=
  assemble (calculate (reverse_byte_message input)) lsb_first.
